package props

import (
	"go/ast"
	"go/token"
	"go/types"
	"sort"
	"strings"

	"verif/checker/internal/an"
	"verif/checker/internal/rep"
)

// Rules added after the second round of independently seeded changes (see
// DESIGN.md section 10).

func init() {
	extend("C01", c01AccountIdentity)
	extend("C04", c01AccountIdentity)
	extend("C01", c01MinGasGate)
	extend("C03", c03NewStateFresh)
	extend("C12", c03NewStateFresh)
	extend("C15", c15VoterIdentity)
	extend("C14", c14TallyKeyAgreement)
	extend("C15", c14TallyKeyAgreement)
	extend("C19", c19HardforkRecordAfterCheck)
	extend("C20", c20QuerySlot)
	extend("C09", c09BpIndexFresh)
	extend("C08", c08LibLoadClears)
	extend("C10", c10CacheGuardAgreement)
	extend("C05", c05ReceiptDeleteSite)
	extend("C06", c05ReceiptDeleteSite)
	// "the tip move is one DB transaction" is what C06's crash argument for block connection rests on
	extend("C06", c05TipTransaction)
	extend("C06", c05HelperDiscipline)
}

// --- account identity: AccountState objects are compared by account id ---
//
// state.GetAccountState builds a new object per lookup, so two objects can
// denote one account; a pointer comparison then takes "same account" for
// "different accounts" (double put of stale data, coin credited to a discarded
// copy).
var accountIdentityExempt = map[string]string{
	"contract.NewVmContext": "only decides whether a second entry is added to a map keyed by AccountID; equal ids overwrite the same key",
}

func c01AccountIdentity(c *rep.Ctx) {
	p := c.Prog
	accT, _ := p.LookupObj("state", "AccountState").(*types.TypeName)
	if accT == nil {
		c.Undecide("account-identity", "state.AccountState", "type not found")
		return
	}
	isAcc := func(t types.Type) bool {
		pt, ok := t.(*types.Pointer)
		return ok && types.Identical(pt.Elem(), accT.Type())
	}
	n := 0
	for _, pk := range p.ModulePkgs() {
		info := pk.TypesInfo
		if info == nil {
			continue
		}
		for _, file := range pk.Syntax {
			var stack []ast.Node
			ast.Inspect(file, func(nd ast.Node) bool {
				if nd == nil {
					stack = stack[:len(stack)-1]
					return true
				}
				stack = append(stack, nd)
				be, ok := nd.(*ast.BinaryExpr)
				if !ok || (be.Op != token.EQL && be.Op != token.NEQ) {
					return true
				}
				tx, okx := info.Types[be.X]
				ty, oky := info.Types[be.Y]
				if !okx || !oky || tx.Type == nil || ty.Type == nil || !isAcc(tx.Type) || !isAcc(ty.Type) {
					return true
				}
				if tx.IsNil() || ty.IsNil() {
					return true
				}
				fn := p.EnclosingFunc(pk, be.Pos())
				if c01OffNodePkg(fn) {
					return true
				}
				name := "<package level>"
				if fn != nil {
					name = fn.TopDecl().Name()
				}
				n++
				_, ok2 := accountIdentityExempt[name]
				// a pointer test that only short-cuts an id comparison (p == q || p.AccountID() == q.AccountID(),
				// p != q && ids differ) decides nothing by itself
				for i := len(stack) - 2; i >= 0 && !ok2; i-- {
					par, isBin := stack[i].(*ast.BinaryExpr)
					if pe, isPar := stack[i].(*ast.ParenExpr); isPar {
						_ = pe
						continue
					}
					if !isBin {
						break
					}
					if (be.Op == token.EQL && par.Op == token.LOR) || (be.Op == token.NEQ && par.Op == token.LAND) {
						if containsCallTo(info, par, "state.(*AccountState).AccountID") {
							ok2 = true
						}
						continue
					}
					break
				}
				c.Check("account-identity", name+"|"+an.ExprString(be), be.Pos(), ok2, "two *AccountState values are compared as pointers: each lookup builds a new object, so one account can be two objects; identity must be decided by AccountID()")
				return true
			})
		}
	}
	c.Note("account-identity: %d pointer comparisons of *state.AccountState in the module", n)
	// the guard around the receiver's put in executeTx is by account id
	if f := c.Fn("chain.executeTx"); f != nil {
		g := f.Graph()
		info := f.Info()
		execs := sitesOf(f, "contract.Execute")
		if len(execs) == 0 {
			return
		}
		sender, receiver := c01ExecParty(f, execs[0], 4), c01ExecParty(f, execs[0], 5)
		at := func(e ast.Expr) (string, bool, bool) {
			be, ok := e.(*ast.BinaryExpr)
			if !ok || (be.Op != token.EQL && be.Op != token.NEQ) {
				return "", false, false
			}
			idOf := func(x ast.Expr) types.Object {
				call, ok := ast.Unparen(x).(*ast.CallExpr)
				if !ok || an.CalleeName(info, call) != "state.(*AccountState).AccountID" {
					return nil
				}
				return recvObj(info, call)
			}
			a, b := idOf(be.X), idOf(be.Y)
			if (a == sender && b == receiver) || (a == receiver && b == sender) {
				return "same", be.Op == token.NEQ, true
			}
			return "", false, false
		}
		for _, s := range sitesOf(f, "state.(*AccountState).PutState") {
			if recvObj(info, s.Call) != receiver || receiver == nil {
				continue
			}
			ok, how := g.GuardedAt(s.Node, at, map[string]bool{"same": false})
			c.Check("account-identity", "chain.executeTx|receiver.PutState", s.Call.Pos(), ok, "the receiver object is stored after the sender only when its account id differs from the sender's (otherwise the stale second object would overwrite the sender's nonce and fee): "+how)
		}
	}
}

// --- C01: the fee the payer can be charged is covered by the balance ---
func c01MinGasGate(c *rep.Ctx) {
	f := c.Fn("fee.TxMaxFee")
	if f == nil {
		return
	}
	g := f.Graph()
	info := f.Info()
	limit := f.ParamObj(2)
	roleMin := func(e ast.Expr) bool {
		return containsCallTo(info, e, "fee.TxGas")
	}
	roleLimit := func(e ast.Expr) bool { return an.ObjOf(info, e) == limit && limit != nil }
	cmps, _ := g.OrdCmps(roleMin, roleLimit, 0) // d = minGas - gasLimit ; error iff d > 0
	var rets []*an.Node
	for _, r := range g.Returns() {
		rs := r.Ast.(*ast.ReturnStmt)
		if len(rs.Results) == 2 && containsCallTo(info, rs.Results[0], "fee.CalcFee") {
			rets = append(rets, r)
		}
	}
	if len(rets) == 0 {
		c.Undecide("min-gas-gate", "fee.TxMaxFee", "no gas-based fee return found")
		return
	}
	for _, r := range rets {
		ok := false
		for _, cm := range cmps {
			if !g.Dominated(r, an.SetOf(cm.Node)) {
				continue
			}
			e := g.EdgeFor(cm, +1)
			if e != nil && !g.Reach([]*an.Node{e}, nil)[r] {
				ok = true
			}
		}
		c.Check("min-gas-gate", "fee.TxMaxFee|CalcFee-return", r.Ast.Pos(), ok, "a gas-based maximum fee is returned only after the gas limit (given, or what the balance can pay) was checked against the minimum gas of the transaction: otherwise a transfer that leaves less than the base fee is admitted and the fee debit overdraws the payer")
	}
}

// --- C03/C12: an account's working state never aliases a buffered state ---
func c03NewStateFresh(c *rep.Ctx) {
	p := c.Prog
	newF := p.LookupField("state", "AccountState", "newState")
	if newF == nil {
		c.Undecide("newstate-fresh", "state.AccountState.newState", "field not found")
		return
	}
	var fresh func(fn *an.Func, info *types.Info, e ast.Expr) (bool, string)
	fresh = func(fn *an.Func, info *types.Info, e ast.Expr) (bool, string) {
		e = ast.Unparen(e)
		if o := an.ObjOf(info, e); o != nil && fn != nil {
			if _, isVar := o.(*types.Var); isVar && o.Parent() != nil && o.Parent() != o.Pkg().Scope() {
				if rhs, _ := fn.Graph().SingleDef(o); rhs != nil && rhs != e {
					return fresh(nil, info, rhs)
				}
			}
		}
		if u, ok := e.(*ast.UnaryExpr); ok && u.Op == token.AND {
			if _, isLit := ast.Unparen(u.X).(*ast.CompositeLit); isLit {
				return true, "fresh literal"
			}
		}
		if call, ok := e.(*ast.CallExpr); ok && an.CalleeName(info, call) == "types.(*State).Clone" {
			return true, "Clone()"
		}
		return false, an.ExprString(e)
	}
	n := 0
	for _, pk := range p.ModulePkgs() {
		if an.Rel(pk.PkgPath) != "state" || pk.TypesInfo == nil {
			continue
		}
		info := pk.TypesInfo
		for _, file := range pk.Syntax {
			ast.Inspect(file, func(nd ast.Node) bool {
				var rhs ast.Expr
				var pos token.Pos
				switch s := nd.(type) {
				case *ast.AssignStmt:
					for i, l := range s.Lhs {
						if an.FieldOf(info, l) == newF && i < len(s.Rhs) {
							rhs, pos = s.Rhs[i], l.Pos()
						}
					}
				case *ast.KeyValueExpr:
					if id, ok := s.Key.(*ast.Ident); ok && info.Uses[id] == newF {
						rhs, pos = s.Value, s.Pos()
					}
				}
				if rhs == nil {
					return true
				}
				fn := p.EnclosingFunc(pk, pos)
				name := "<package level>"
				if fn != nil {
					name = fn.TopDecl().Name()
				}
				n++
				ok, what := fresh(fn, info, rhs)
				if !ok && name == "state.InitAccountState" && fn != nil && an.ObjOf(info, rhs) == fn.ParamObj(3) {
					ok, what = true, "parameter of InitAccountState (callers checked below)"
				}
				c.Check("newstate-fresh", name+"|newState", pos, ok, "the working copy of an account state is a fresh object (Clone or literal), never the object held by the state buffer or by oldState: setters write through it in place, so an alias would modify entries that a rollback must keep ("+what+")")
				return true
			})
		}
	}
	if n < 4 {
		c.Undecide("newstate-fresh", "state.AccountState.newState", "fewer writes of the working state than on the reference tree")
	}
	// callers of InitAccountState: the working state handed in is fresh, or the documented read-only query context
	initExempt := map[string]string{"contract.NewVmContextQuery": "read-only query context on a throw-away block state (C20): the account is never put"}
	for _, s := range p.CallSitesOf(map[string]bool{"state.InitAccountState": true}) {
		if s.Fn == nil || c01OffNodePkg(s.Fn) {
			continue
		}
		name := s.Fn.TopDecl().Name()
		ok, what := false, ""
		if len(s.Call.Args) == 4 {
			ok, what = fresh(s.Fn, s.Fn.Info(), s.Call.Args[3])
		}
		if _, ex := initExempt[name]; ex {
			ok = true
		}
		c.Check("newstate-fresh", name+"|InitAccountState(stNew)", s.Call.Pos(), ok, "the working state passed to InitAccountState is a fresh object ("+what+")")
	}
}

// --- C15: governance records are keyed by the resolved sender, not by the tx's account field ---
func c15VoterIdentity(c *rep.Ctx) {
	p := c.Prog
	accF := p.LookupField("types", "TxBody", "Account")
	if accF == nil {
		c.Undecide("voter-identity", "types.TxBody.Account", "field not found")
		return
	}
	n := 0
	for _, pk := range p.ModulePkgs() {
		if an.Rel(pk.PkgPath) != "contract/system" || pk.TypesInfo == nil {
			continue
		}
		info := pk.TypesInfo
		for _, file := range pk.Syntax {
			// parents for context
			var stack []ast.Node
			ast.Inspect(file, func(nd ast.Node) bool {
				if nd == nil {
					stack = stack[:len(stack)-1]
					return true
				}
				stack = append(stack, nd)
				use := false
				switch x := nd.(type) {
				case *ast.SelectorExpr:
					use = an.FieldOf(info, x) == accF
				case *ast.CallExpr:
					use = an.CalleeName(info, x) == "types.(*TxBody).GetAccount"
				}
				if !use {
					return true
				}
				n++
				// allowed context: argument of types.EncodeAddress (event text)
				ok := false
				for i := len(stack) - 2; i >= 0 && i >= len(stack)-5; i-- {
					if call, isCall := stack[i].(*ast.CallExpr); isCall {
						cn := an.CalleeName(info, call)
						if cn == "types.EncodeAddress" || strings.Contains(cn, "zerolog") || strings.Contains(cn, "aergo-lib/log") || strings.HasPrefix(cn, "fmt.") {
							ok = true
						}
					}
				}
				fn := p.EnclosingFunc(pk, nd.Pos())
				name := "<package level>"
				if fn != nil {
					name = fn.TopDecl().Name()
				}
				c.Check("voter-identity", name+"|TxBody.Account", nd.Pos(), ok, "inside the system contract the account field of the transaction body (a name for named senders) is used only for event text: staking and vote records are keyed by the resolved sender account handed in by the executor")
				return true
			})
		}
	}
	c.Note("voter-identity: %d uses of TxBody.Account in contract/system", n)
}

// --- C14/C15: the tally is credited and debited under the same key derivation ---
func c14TallyKeyAgreement(c *rep.Ctx) {
	add := c.Fn("contract/system.(*VoteResult).AddVote")
	sub := c.Fn("contract/system.(*VoteResult).SubVote")
	if add == nil || sub == nil {
		return
	}
	rmap := c.Prog.LookupField("contract/system", "VoteResult", "rmap")
	// shapes(f, precise): the key shapes of f.  A slice expression that walks
	// a byte string in K-byte strides is normalised to stride(<base>,K) in
	// both spellings
	//     for off := 0; ...; off += K { B[off : off+K] }        (index-stride)
	//     for r := B; ...; r = r[K:]   { r[:K] }                (shrinking slice)
	// (the i-th key is B[i*K:(i+1)*K] in both; how many strides are taken is the
	// loop bound, decided by stored-bounds).  A window whose width differs from
	// the step of its cursor is spelled window(<base>,W,step=S): crediting under
	// 39-byte keys and debiting under 38-byte keys is a disagreement.
	// With precise == false a stride is
	// spelled like any other slice, slice(<base>), the abstraction this rule
	// had before (bounds ignored); it is used only when one of the two
	// functions slices in a way that is not recognised as a stride walk.
	// unrec reports whether such an unrecognised slice occurred.
	shapes := func(f *an.Func, precise bool) (keys []string, unrec bool) {
		info := f.Info()
		g := f.Graph()
		set := map[string]bool{}
		// every assignment of a function-local variable: tok DEFINE for the
		// declaration (rhs nil: zero value), ASSIGN / ADD_ASSIGN / INC ... for the
		// others; opaque when the variable is a range variable, part of a
		// multi-value assignment, or has its address taken.
		type asg struct {
			tok token.Token
			rhs ast.Expr
		}
		assignsOf := func(o types.Object) (out []asg, opaque bool) {
			ast.Inspect(f.Body, func(n ast.Node) bool {
				switch st := n.(type) {
				case *ast.AssignStmt:
					for i, l := range st.Lhs {
						if an.ObjOf(info, l) != o {
							continue
						}
						if _, isID := ast.Unparen(l).(*ast.Ident); !isID {
							continue
						}
						if len(st.Lhs) != len(st.Rhs) {
							opaque = true
							continue
						}
						out = append(out, asg{st.Tok, st.Rhs[i]})
					}
				case *ast.IncDecStmt:
					if id, isID := ast.Unparen(st.X).(*ast.Ident); isID && an.ObjOf(info, id) == o {
						out = append(out, asg{st.Tok, nil})
					}
				case *ast.ValueSpec:
					for i, nm := range st.Names {
						if info.Defs[nm] != o {
							continue
						}
						switch {
						case len(st.Values) == 0:
							out = append(out, asg{token.DEFINE, nil})
						case len(st.Values) == len(st.Names):
							out = append(out, asg{token.DEFINE, st.Values[i]})
						default:
							opaque = true
						}
					}
				case *ast.RangeStmt:
					if (st.Key != nil && an.ObjOf(info, st.Key) == o) || (st.Value != nil && an.ObjOf(info, st.Value) == o) {
						opaque = true
					}
				case *ast.UnaryExpr:
					if st.Op == token.AND && an.ObjOf(info, st.X) == o {
						opaque = true
					}
				}
				return true
			})
			return
		}
		localVar := func(e ast.Expr) types.Object {
			id, isID := ast.Unparen(e).(*ast.Ident)
			if !isID {
				return nil
			}
			v, isVar := an.ObjOf(info, id).(*types.Var)
			if !isVar || v.IsField() || v.Pkg() == nil || v.Parent() == v.Pkg().Scope() || f.Body == nil || v.Pos() < f.Body.Pos() || v.Pos() > f.Body.End() {
				return nil // parameters and package-level variables are not loop cursors
			}
			return v
		}
		constOf := func(e ast.Expr) (int64, bool) {
			if e == nil {
				return 0, true
			}
			l, ok := linOf(info, e)
			if !ok {
				return 0, false
			}
			for k := range l {
				if k != "1" {
					return 0, false
				}
			}
			return l["1"], true
		}
		// strideOf: (base expression, stride K, first offset) of a slice
		// expression that is one step of a K-byte stride walk.
		strideOf := func(x *ast.SliceExpr) (base ast.Expr, k, step, from int64, ok bool) {
			// shrinking slice: r[:K], r := B once, every other assignment r = r[K:]
			if r := localVar(x.X); r != nil && x.High != nil {
				lo, okLo := constOf(x.Low)
				hi, okHi := constOf(x.High)
				as, opaque := assignsOf(r)
				if okLo && okHi && lo == 0 && hi > 0 && !opaque {
					var init ast.Expr
					inits, steps, good := 0, 0, true
					stepBy := int64(-1)
					for _, a := range as {
						switch a.tok {
						case token.DEFINE:
							inits++
							init = a.rhs
						case token.ASSIGN:
							se, isSl := ast.Unparen(a.rhs).(*ast.SliceExpr)
							if !isSl || se.High != nil || se.Slice3 || localVar(se.X) != r {
								good = false
								break
							}
							if by, isC := constOf(se.Low); !isC || se.Low == nil || by <= 0 || (stepBy >= 0 && by != stepBy) {
								good = false
							} else {
								stepBy = by
							}
							steps++
						default:
							good = false
						}
					}
					if good && inits == 1 && init != nil && steps >= 1 {
						return init, hi, stepBy, 0, true
					}
				}
				return nil, 0, 0, 0, false
			}
			// index stride: B[off+c : off+c+K], off := c0 once, every other assignment off += K
			if x.High == nil {
				return nil, 0, 0, 0, false
			}
			lo := linForm{}
			if x.Low != nil {
				l, okLo := linOf(info, x.Low)
				if !okLo {
					return nil, 0, 0, 0, false
				}
				lo = l
			}
			hi, okHi := linOf(info, x.High)
			if !okHi {
				return nil, 0, 0, 0, false
			}
			width, isC := int64(0), true
			for t, v := range hi.add(lo, -1) {
				if t != "1" {
					isC = false
				}
				width = v
			}
			if !isC || width <= 0 {
				return nil, 0, 0, 0, false
			}
			if x.Low == nil {
				return nil, 0, 0, 0, false // B[:K]: a prefix, not a walk
			}
			// the cursor: the one function-local variable of the lower bound, with coefficient 1
			var off types.Object
			offName := ""
			ast.Inspect(x.Low, func(n ast.Node) bool {
				if id, isID := n.(*ast.Ident); isID {
					if o := localVar(id); o != nil && lo[id.Name] == 1 {
						if off != nil && off != o {
							offName = "?"
						}
						off = o
						if offName == "" {
							offName = id.Name
						}
					}
				}
				return true
			})
			if off == nil || offName == "?" {
				return nil, 0, 0, 0, false
			}
			c := int64(0)
			for t, v := range lo {
				switch t {
				case offName:
				case "1":
					c = v
				default:
					return nil, 0, 0, 0, false
				}
			}
			as, opaque := assignsOf(off)
			if opaque {
				return nil, 0, 0, 0, false
			}
			inits, steps, c0 := 0, 0, int64(0)
			stepBy := int64(-1)
			sameStep := func(v int64) bool {
				if v <= 0 || (stepBy >= 0 && v != stepBy) {
					return false
				}
				stepBy = v
				return true
			}
			for _, a := range as {
				switch a.tok {
				case token.DEFINE:
					inits++
					v, isConst := constOf(a.rhs)
					if !isConst {
						return nil, 0, 0, 0, false
					}
					c0 = v
				case token.ADD_ASSIGN:
					if v, isConst := constOf(a.rhs); !isConst || a.rhs == nil || !sameStep(v) {
						return nil, 0, 0, 0, false
					}
					steps++
				case token.INC:
					if !sameStep(1) {
						return nil, 0, 0, 0, false
					}
					steps++
				case token.ASSIGN: // off = off + K
					l, okL := linOf(info, a.rhs)
					if !okL {
						return nil, 0, 0, 0, false
					}
					d := l.add(linForm{offName: 1}, -1)
					if len(d) != 1 || !sameStep(d["1"]) {
						return nil, 0, 0, 0, false
					}
					steps++
				default:
					return nil, 0, 0, 0, false
				}
			}
			if inits != 1 || steps < 1 {
				return nil, 0, 0, 0, false
			}
			return x.X, width, stepBy, c0 + c, true
		}
		var shape func(e ast.Expr, depth int) string
		shape = func(e ast.Expr, depth int) string {
			e = ast.Unparen(e)
			if depth > 6 {
				return "?"
			}
			switch x := e.(type) {
			case *ast.Ident:
				o := an.ObjOf(info, x)
				if o == nil {
					return x.Name
				}
				// range value of a loop
				var rs *ast.RangeStmt
				ast.Inspect(f.Body, func(n ast.Node) bool {
					if r, ok := n.(*ast.RangeStmt); ok && r.Value != nil && an.ObjOf(info, r.Value) == o {
						rs = r
					}
					return true
				})
				// other assignments to the same variable (a rewritten loop variable is a different key)
				var extra []string
				ast.Inspect(f.Body, func(n ast.Node) bool {
					as, ok := n.(*ast.AssignStmt)
					if !ok || as.Tok == token.DEFINE && rs == nil {
						return true
					}
					for i, l := range as.Lhs {
						if an.ObjOf(info, l) == o && as.Tok != token.DEFINE {
							if i < len(as.Rhs) && len(as.Lhs) == len(as.Rhs) {
								extra = append(extra, shape(as.Rhs[i], depth+2))
							} else {
								extra = append(extra, "multi")
							}
						}
					}
					return true
				})
				if rs != nil {
					if len(extra) > 0 {
						return "elem(" + shape(rs.X, depth+1) + ")/reassigned:" + strings.Join(extra, "+")
					}
					return "elem(" + shape(rs.X, depth+1) + ")"
				}
				if len(extra) > 0 {
					return "reassigned:" + strings.Join(extra, "+")
				}
				if rhs, _ := g.SingleDefInLoop(o); rhs != nil {
					return shape(rhs, depth+1)
				}
				if v, ok := o.(*types.Var); ok {
					return "var:" + v.Type().String()
				}
				return x.Name
			case *ast.CallExpr:
				name := an.CalleeName(info, x)
				if name == "" {
					name = an.ExprString(x.Fun)
				}
				var args []string
				if sel, ok := ast.Unparen(x.Fun).(*ast.SelectorExpr); ok {
					if _, isPkg := info.Uses[identOf(sel.X)].(*types.PkgName); !isPkg {
						args = append(args, shape(sel.X, depth+1))
					}
				}
				for _, a := range x.Args {
					args = append(args, shape(a, depth+1))
				}
				return name + "(" + strings.Join(args, ",") + ")"
			case *ast.SliceExpr:
				if base, k, step, from, isStride := strideOf(x); isStride {
					if !precise {
						return "slice(" + shape(base, depth+1) + ")"
					}
					// stride(B,K): consecutive K-byte pieces; a window narrower or wider
					// than the step is a different key derivation and spelled as such
					sh := "stride(" + shape(base, depth+1) + "," + itoa64(k)
					if step != k {
						sh = "window(" + shape(base, depth+1) + "," + itoa64(k) + ",step=" + itoa64(step)
					}
					if from != 0 {
						sh += ",from=" + itoa64(from)
					}
					return sh + ")"
				}
				unrec = true
				return "slice(" + shape(x.X, depth+1) + ")"
			case *ast.SelectorExpr:
				if fld := an.FieldOf(info, x); fld != nil {
					return "field:" + fld.Name()
				}
			case *ast.BasicLit:
				return x.Value
			}
			return "expr"
		}
		ast.Inspect(f.Body, func(n ast.Node) bool {
			ix, ok := n.(*ast.IndexExpr)
			if ok && an.FieldOf(info, ix.X) == rmap && rmap != nil {
				set[shape(ix.Index, 0)] = true
			}
			return true
		})
		for k := range set {
			keys = append(keys, k)
		}
		sort.Strings(keys)
		return keys, unrec
	}
	a, unrecA := shapes(add, true)
	s, unrecS := shapes(sub, true)
	ok := len(a) > 0 && strings.Join(a, " | ") == strings.Join(s, " | ")
	if !ok && (unrecA || unrecS) {
		// a slice that is not a recognised stride walk on one side: compare with bounds ignored on both
		ca, _ := shapes(add, false)
		cs, _ := shapes(sub, false)
		if len(ca) > 0 && strings.Join(ca, " | ") == strings.Join(cs, " | ") {
			ok, a, s = true, ca, cs
		}
	}
	c.Check("tally-key-agreement", "contract/system.(*VoteResult).AddVote/SubVote", add.Pos(), ok, "the tally map is credited and debited under keys derived the same way from the recorded vote (AddVote: "+strings.Join(a, " | ")+"; SubVote: "+strings.Join(s, " | ")+"): otherwise taking a vote back looks up a key that was never credited (nil big.Int: panic in block execution) and the tally keeps coins that were withdrawn")
}

// --- C19: the hardfork heights on disk change only after the compatibility check ---
func c19HardforkRecordAfterCheck(c *rep.Ctx) {
	f := c.Fn("chain.(*ChainService).checkHardfork")
	if f == nil {
		return
	}
	g := f.Graph()
	info := f.Info()
	chk := errGate(c, f, "config.(*HardforkConfig).CheckCompatibility")
	writes := sitesOf(f, "chain.(*ChainDB).WriteHardfork")
	if len(writes) == 0 {
		c.Undecide("hardfork-record", "chain.(*ChainService).checkHardfork", "no WriteHardfork call found")
		return
	}
	// "no stored configuration" edge: len(dbConfig) == 0
	var dbCfg types.Object
	for _, s := range g.CallsTo("chain.(*ChainDB).Hardfork") {
		dbCfg = g.ResultVarAt(s, 0)
	}
	fresh := an.Set{}
	for _, n := range g.Nodes {
		if n.Kind != an.KTrue && n.Kind != an.KFalse {
			continue
		}
		be, ok := n.Ast.(*ast.BinaryExpr)
		if !ok {
			continue
		}
		call, ok := ast.Unparen(be.X).(*ast.CallExpr)
		if !ok || !an.IsBuiltin(info, call, "len") || an.ObjOf(info, call.Args[0]) != dbCfg || dbCfg == nil {
			continue
		}
		if tv, has := info.Types[be.Y]; has && tv.Value != nil && tv.Value.ExactString() == "0" {
			if (be.Op == token.EQL && n.Kind == an.KTrue) || (be.Op == token.NEQ && n.Kind == an.KFalse) {
				fresh[n] = true
			}
		}
	}
	for _, w := range writes {
		ok := len(chk.edges) > 0 && g.Dominated(w.Node, chk.edges.Union(fresh))
		c.Check("hardfork-record", "chain.(*ChainService).checkHardfork|WriteHardfork", w.Call.Pos(), ok, "the hardfork heights stored in the chain DB are overwritten only when none were stored yet or after CheckCompatibility accepted the running configuration: a rejected configuration must not become the stored one (the version assigned to a height would change on the next start)")
	}
}

// --- C20: a query context never gets the execution slots ---
func c20QuerySlot(c *rep.Ctx) {
	f := c.Fn("contract.allocContextSlot")
	if f == nil {
		return
	}
	info := f.Info()
	g := f.Graph()
	p := c.Prog
	csConst, _ := p.LookupObj("contract", "ChainService").(*types.Const)
	contexts := p.LookupObj("contract", "contexts")
	if csConst == nil || contexts == nil {
		c.Undecide("query-slot", "contract.{ChainService,contexts}", "anchors not found")
		return
	}
	// the variable indexing contexts[...] in the slot assignment
	var slot types.Object
	ast.Inspect(f.Body, func(n ast.Node) bool {
		as, ok := n.(*ast.AssignStmt)
		if !ok || len(as.Lhs) != 1 {
			return true
		}
		if ix, ok := as.Lhs[0].(*ast.IndexExpr); ok && an.ObjOf(info, ix.X) == contexts {
			slot = an.ObjOf(info, ix.Index)
		}
		return true
	})
	if slot == nil {
		c.Undecide("query-slot", "contract.allocContextSlot", "slot assignment contexts[i] = ctx not found")
		return
	}
	limit := csConst.Val().ExactString() // value of ChainService
	n := 0
	for _, node := range g.StmtNodes(func(n *an.Node) bool { return an.Assigns(info, n.Ast, slot) }) {
		switch s := node.Ast.(type) {
		case *ast.IncDecStmt:
			n++
			c.CheckTrivial("query-slot", "contract.allocContextSlot|"+an.ExprString(s.X)+"++", s.Pos(), s.Tok == token.INC, "the slot index only counts upwards")
		case *ast.AssignStmt:
			for i, l := range s.Lhs {
				if an.ObjOf(info, l) != slot || i >= len(s.Rhs) {
					continue
				}
				n++
				tv, has := info.Types[s.Rhs[i]]
				if has && tv.Value != nil {
					// constant: must be above the last execution slot
					ok := cmpConstGreater(tv.Value.ExactString(), limit)
					c.Check("query-slot", "contract.allocContextSlot|wrap", s.Pos(), ok, "when the query slot index wraps it restarts above the ChainService slot (value "+tv.Value.ExactString()+", ChainService = "+limit+"): slots up to ChainService belong to transaction execution, whose context has isQuery == false")
				} else {
					// non-constant: the remembered last query index, incremented before use
					inc := false
					for _, m := range g.StmtNodes(func(m *an.Node) bool { st, ok := m.Ast.(*ast.IncDecStmt); return ok && an.ObjOf(info, st.X) == slot }) {
						inc = inc || g.Reachable(node, m)
					}
					c.Check("query-slot", "contract.allocContextSlot|start", s.Pos(), inc, "the search starts from the last query slot and increments before the first use")
				}
			}
		}
	}
	if n < 2 {
		c.Undecide("query-slot", "contract.allocContextSlot", "slot index assignments not found")
	}
}

func cmpConstGreater(a, b string) bool {
	if len(a) != len(b) {
		return len(a) > len(b)
	}
	return a > b
}

// --- C09: the producer index map is rebuilt, not refilled ---
func c09BpIndexFresh(c *rep.Ctx) {
	f := c.Fn("consensus/impl/dpos/bp.(*Cluster).Update")
	if f == nil {
		return
	}
	info := f.Info()
	g := f.Graph()
	p := c.Prog
	for _, fname := range []string{"index", "member"} {
		fld := p.LookupField("consensus/impl/dpos/bp", "Cluster", fname)
		if fld == nil {
			c.Undecide("bp-index-fresh", "bp.Cluster."+fname, "field not found")
			continue
		}
		whole, elem := 0, 0
		okFresh := true
		resets := an.Set{}
		var elemWrites []*an.Node
		ast.Inspect(f.Body, func(n ast.Node) bool {
			if call, isCall := n.(*ast.CallExpr); isCall && an.IsBuiltin(info, call, "clear") && len(call.Args) == 1 && an.FieldOf(info, call.Args[0]) == fld {
				if nd := g.NodeContaining(call.Pos()); nd != nil {
					resets[nd] = true
				}
			}
			as, ok := n.(*ast.AssignStmt)
			if !ok {
				return true
			}
			for i, l := range as.Lhs {
				if ix, isIx := ast.Unparen(l).(*ast.IndexExpr); isIx && an.FieldOf(info, ix.X) == fld {
					if nd := g.NodeContaining(as.Pos()); nd != nil {
						elemWrites = append(elemWrites, nd)
					} else {
						elem++
					}
				}
				if an.FieldOf(info, l) == fld && i < len(as.Rhs) {
					whole++
					rhs := as.Rhs[i]
					if o := an.ObjOf(info, rhs); o != nil {
						if r2, _ := g.SingleDef(o); r2 != nil {
							rhs = r2
						}
					}
					call, isCall := ast.Unparen(rhs).(*ast.CallExpr)
					if !isCall || !an.IsBuiltin(info, call, "make") {
						okFresh = false
					} else if nd := g.NodeContaining(as.Pos()); nd != nil {
						// in-place refill after a fresh map was installed in this call
						if an.FieldOf(info, as.Rhs[i]) == nil && an.ObjOf(info, as.Rhs[i]) == nil {
							resets[nd] = true
						}
					}
				}
			}
			return true
		})
		for _, w := range elemWrites {
			if len(resets) == 0 || !g.Dominated(w, resets) {
				elem++
			}
		}
		c.Check("bp-index-fresh", "consensus/impl/dpos/bp.(*Cluster).Update|"+fname, f.Pos(), (whole >= 1 || len(resets) > 0) && elem == 0 && okFresh, "a producer-set update installs a freshly made "+fname+" map built only from the new list (entries of ousted producers cannot survive and keep their slot index)")
	}
}

// --- C08: a rollback of the LIB status always clears the confirmation list ---
func c08LibLoadClears(c *rep.Ctx) {
	f := c.Fn("consensus/impl/dpos.(*libStatus).load")
	if f == nil {
		return
	}
	g := f.Graph()
	info := f.Info()
	confirms := c.Prog.LookupField("consensus/impl/dpos", "libStatus", "confirms")
	gates := an.Set{}
	for _, s := range g.CallsTo("container/list.(*List).Init") {
		if sel, ok := ast.Unparen(s.Call.Fun).(*ast.SelectorExpr); ok && an.FieldOf(info, sel.X) == confirms && confirms != nil {
			gates[s.Node] = true
		}
	}
	// skipping Init is fine only when the list is empty:  `Len() > 0` false edge
	for _, n := range g.Nodes {
		if n.Kind != an.KFalse && n.Kind != an.KTrue {
			continue
		}
		be, ok := n.Ast.(*ast.BinaryExpr)
		if !ok {
			continue
		}
		call, ok := ast.Unparen(be.X).(*ast.CallExpr)
		if !ok || an.CalleeName(info, call) != "container/list.(*List).Len" {
			continue
		}
		if tv, has := info.Types[be.Y]; has && tv.Value != nil && tv.Value.ExactString() == "0" {
			if (be.Op == token.GTR && n.Kind == an.KFalse) || (be.Op == token.EQL && n.Kind == an.KTrue) || (be.Op == token.NEQ && n.Kind == an.KFalse) {
				gates[n] = true
			}
		}
	}
	ok := len(gates) >= 2
	for _, r := range g.Returns() {
		ok = ok && g.Dominated(r, gates)
	}
	ok = ok && g.Dominated(g.Exit, gates)
	c.Check("lib-load-clears", "consensus/impl/dpos.(*libStatus).load|confirms", f.Pos(), ok, "every path through the status rebuild (restart, reorganisation rollback - also to genesis) first empties the confirmation list: entries of an abandoned branch must not be confirmed by blocks of the new branch")
}

// --- C10: a node is dropped from the live cache exactly when it could have been cached ---
func c10CacheGuardAgreement(c *rep.Ctx) {
	p := c.Prog
	limitF := p.LookupField("pkg/trie", "Trie", "CacheHeightLimit")
	live := p.LookupField("pkg/trie", "CacheDB", "liveCache")
	if limitF == nil || live == nil {
		c.Undecide("cache-guard-agreement", "pkg/trie", "CacheHeightLimit / liveCache not found")
		return
	}
	// for a function: the set of signs of (height - CacheHeightLimit) under which the liveCache access is reachable
	signsOf := func(f *an.Func, isAccess func(n *an.Node) bool) (map[int]bool, bool) {
		g := f.Graph()
		info := f.Info()
		roleH := func(e ast.Expr) bool {
			o := an.ObjOf(info, e)
			if o == nil {
				return false
			}
			for i := 0; ; i++ {
				pr := f.ParamObj(i)
				if pr == nil {
					return false
				}
				if pr == o && pr.Name() == "height" {
					return true
				}
			}
		}
		roleL := func(e ast.Expr) bool { return an.FieldOf(info, e) == limitF }
		cmps, und := g.OrdCmps(roleH, roleL, 0)
		if len(cmps) != 1 || len(und) > 0 {
			return nil, false
		}
		var acc []*an.Node
		for _, n := range g.Nodes {
			if n.Kind == an.KStmt && isAccess(n) {
				acc = append(acc, n)
			}
		}
		if len(acc) == 0 {
			return nil, false
		}
		out := map[int]bool{}
		for _, sign := range []int{-1, 0, +1} {
			e := g.EdgeFor(cmps[0], sign)
			if e == nil {
				return nil, false
			}
			out[sign] = g.CanReachAny(e, acc)
			// the access must be behind the comparison
			for _, a := range acc {
				if !g.Dominated(a, an.SetOf(cmps[0].Node)) {
					return nil, false
				}
			}
		}
		return out, true
	}
	store := c.Fn("pkg/trie.(*Trie).storeNode")
	del := c.Fn("pkg/trie.(*Trie).deleteOldNode")
	if store == nil || del == nil {
		return
	}
	isInsert := func(f *an.Func) func(n *an.Node) bool {
		return func(n *an.Node) bool {
			as, ok := n.Ast.(*ast.AssignStmt)
			if !ok {
				return false
			}
			for _, l := range as.Lhs {
				if ix, isIx := ast.Unparen(l).(*ast.IndexExpr); isIx && an.FieldOf(f.Info(), ix.X) == live {
					return true
				}
			}
			return false
		}
	}
	isDelete := func(f *an.Func) func(n *an.Node) bool {
		return func(n *an.Node) bool {
			for _, call := range an.CallsIn(n.Ast) {
				if an.IsBuiltin(f.Info(), call, "delete") && len(call.Args) == 2 && an.FieldOf(f.Info(), call.Args[0]) == live {
					return true
				}
			}
			return false
		}
	}
	ins, ok1 := signsOf(store, isInsert(store))
	dl, ok2 := signsOf(del, isDelete(del))
	if !ok1 || !ok2 {
		c.Undecide("cache-guard-agreement", "pkg/trie.(*Trie).storeNode/deleteOldNode", "cannot normalise the height comparisons against CacheHeightLimit")
		return
	}
	ok := true
	for _, sign := range []int{-1, 0, +1} {
		if ins[sign] && !dl[sign] {
			ok = false
		}
	}
	c.Check("cache-guard-agreement", "pkg/trie.(*Trie).storeNode/deleteOldNode", del.Pos(), ok, "every height at which a batch can be put into the live cache is also a height at which its replaced predecessor is removed from it (same strictness of the comparison with CacheHeightLimit): a stale entry would answer reads at a historical root with newer contents")
}

// --- C05/C06: receipts of the old branch are deleted only inside the marker bracket ---
func c05ReceiptDeleteSite(c *rep.Ctx) {
	p := c.Prog
	sites := p.CallSitesOf(map[string]bool{"chain.(*reorganizer).deleteOldReceipts": true})
	if len(sites) == 0 {
		c.Undecide("receipt-delete-site", "chain.(*reorganizer).deleteOldReceipts", "no call site found")
		return
	}
	var inBracket func(s an.CallSite, depth int) bool
	inBracket = func(s an.CallSite, depth int) bool {
		if s.Fn == nil || depth > 3 {
			return false
		}
		name := s.Fn.TopDecl().Name()
		if name == "chain.(*reorganizer).swapChain" {
			g := s.Fn.Graph()
			wr := g.CallsTo("chain.(*ReorgMarker).write")
			node := g.NodeContaining(s.Call.Pos())
			return len(wr) == 1 && node != nil && len(g.ErrNilEdges(wr[0])) > 0 && g.Dominated(node, g.ErrNilEdges(wr[0]))
		}
		// a helper: every caller of it must be inside the bracket
		callers := p.CallSitesOf(map[string]bool{name: true})
		if len(callers) == 0 || len(p.FuncRefs(map[string]bool{name: true})) > 0 {
			return false
		}
		for _, cs := range callers {
			if !inBracket(cs, depth+1) {
				return false
			}
		}
		return true
	}
	for _, s := range sites {
		name := s.Fn.TopDecl().Name()
		ok := inBracket(s, 0)
		c.Check("receipt-delete-site", name+"|deleteOldReceipts", s.Call.Pos(), ok, "the receipts of the abandoned branch are deleted only in swapChain, after the reorg marker was written: the branch has been validated completely by then and a crash is repaired from the marker; deleting earlier leaves main-chain blocks without receipts when the roll-forward fails or the process dies")
	}
}

// --- C08: the window of blocks a new block confirms has exactly Confirms members ---
//
// A producer sets header.Confirms = BlockNo - (number of its previous block):
// the blocks after its own last one, itself included.  The consumer must
// count confirmations for exactly that many blocks ending at the new block;
// one more and a producer confirms its own previous block twice (a block turns
// irreversible with fewer than 2n/3+1 distinct producers), one less and
// finality stalls.  Decided on linear forms, so any spelling of the bounds with
// the same arithmetic passes.
func init() { extend("C08", c08ConfirmWindow) }

type linForm map[string]int64

func (a linForm) add(b linForm, k int64) linForm {
	out := linForm{}
	for t, v := range a {
		out[t] = v
	}
	for t, v := range b {
		out[t] += k * v
	}
	for t, v := range out {
		if v == 0 {
			delete(out, t)
		}
	}
	return out
}

func (a linForm) String() string {
	var ks []string
	for k := range a {
		ks = append(ks, k)
	}
	sort.Strings(ks)
	var sb strings.Builder
	for _, k := range ks {
		sb.WriteString(" ")
		if a[k] >= 0 {
			sb.WriteString("+")
		}
		sb.WriteString(strings.TrimSpace(strings.Replace(strings.Replace(itoa64(a[k])+"*"+k, "1*", "", 1), "*1", "", 1)))
	}
	if sb.Len() == 0 {
		return "0"
	}
	return strings.TrimSpace(sb.String())
}

func itoa64(v int64) string {
	neg := v < 0
	if neg {
		v = -v
	}
	s := ""
	for {
		s = string(rune('0'+v%10)) + s
		v /= 10
		if v == 0 {
			break
		}
	}
	if neg {
		return "-" + s
	}
	return s
}

// linOf normalises an integer expression built from +, -, constants,
// conversions and operands into a linear form over operand spellings.
func linOf(info *types.Info, e ast.Expr) (linForm, bool) {
	e = ast.Unparen(e)
	if tv, ok := info.Types[e]; ok && tv.Value != nil {
		s := tv.Value.ExactString()
		var v int64
		neg := false
		for i, ch := range s {
			if i == 0 && ch == '-' {
				neg = true
				continue
			}
			if ch < '0' || ch > '9' || len(s) > 18 {
				return nil, false
			}
			v = v*10 + int64(ch-'0')
		}
		if neg {
			v = -v
		}
		if v == 0 {
			return linForm{}, true
		}
		return linForm{"1": v}, true
	}
	switch x := e.(type) {
	case *ast.BinaryExpr:
		if x.Op == token.ADD || x.Op == token.SUB {
			a, ok1 := linOf(info, x.X)
			b, ok2 := linOf(info, x.Y)
			if !ok1 || !ok2 {
				return nil, false
			}
			k := int64(1)
			if x.Op == token.SUB {
				k = -1
			}
			return a.add(b, k), true
		}
		return nil, false
	case *ast.CallExpr:
		if tv, ok := info.Types[x.Fun]; ok && tv.IsType() && len(x.Args) == 1 {
			return linOf(info, x.Args[0])
		}
		return linForm{an.ExprString(e): 1}, true // a call result is an opaque operand
	case *ast.Ident, *ast.SelectorExpr:
		return linForm{an.ExprString(e): 1}, true
	}
	return nil, false
}

func c08ConfirmWindow(c *rep.Ctx) {
	f := c.Fn("consensus/impl/dpos.(*libStatus).getPreLIB")
	if f == nil {
		return
	}
	info := f.Info()
	p := c.Prog
	rangeF := p.LookupField("consensus/impl/dpos", "blockInfo", "ConfirmRange")
	noF := p.LookupField("consensus/impl/dpos", "blockInfo", "BlockNo")
	leftF := p.LookupField("consensus/impl/dpos", "confirmInfo", "confirmsLeft")
	if rangeF == nil || noF == nil || leftF == nil {
		c.Undecide("confirm-window", "consensus/impl/dpos.confirmInfo", "fields ConfirmRange / BlockNo / confirmsLeft not found")
		return
	}
	// all definitions of a local
	defs := func(o types.Object) []ast.Expr {
		var out []ast.Expr
		ast.Inspect(f.Body, func(n ast.Node) bool {
			switch s := n.(type) {
			case *ast.AssignStmt:
				if len(s.Lhs) == len(s.Rhs) {
					for i, l := range s.Lhs {
						if an.ObjOf(info, l) == o {
							if s.Tok == token.ASSIGN || s.Tok == token.DEFINE {
								out = append(out, s.Rhs[i])
							} else {
								out = append(out, nil)
							}
						}
					}
				}
			case *ast.ValueSpec:
				for i, nm := range s.Names {
					if info.Defs[nm] == o && i < len(s.Values) {
						out = append(out, s.Values[i])
					}
				}
			case *ast.IncDecStmt:
				if an.ObjOf(info, s.X) == o {
					out = append(out, nil)
				}
			}
			return true
		})
		return out
	}
	// expand: linear forms of an expression, one per combination of definitions of the locals in it
	var forms func(e ast.Expr, depth int) ([]linForm, bool)
	forms = func(e ast.Expr, depth int) ([]linForm, bool) {
		lf, ok := linOf(info, e)
		if !ok || depth > 4 {
			return nil, false
		}
		out := []linForm{lf}
		ast.Inspect(e, func(n ast.Node) bool {
			id, isId := n.(*ast.Ident)
			if !isId {
				return true
			}
			o, isVar := info.Uses[id].(*types.Var)
			if !isVar || o.IsField() || o.Parent() == nil || o.Parent() == o.Pkg().Scope() {
				return true
			}
			if _, present := lf[id.Name]; !present {
				return true
			}
			ds := defs(o)
			if len(ds) == 0 {
				return true
			}
			var next []linForm
			for _, d := range ds {
				if d == nil {
					ok = false
					continue
				}
				if _, isInt := info.Types[d].Type.Underlying().(*types.Basic); !isInt {
					return true // not an integer local (e.g. the list element): keep as a term
				}
				sub, ok2 := forms(d, depth+1)
				if !ok2 {
					// opaque definition: the local stays a term of its own
					return true
				}
				for _, base := range out {
					k := base[id.Name]
					b2 := base.add(linForm{id.Name: 1}, -k)
					for _, sf := range sub {
						next = append(next, b2.add(sf, k))
					}
				}
			}
			if len(next) > 0 {
				out = next
			}
			return true
		})
		return out, ok
	}
	// the comparisons guarding confirmsLeft--
	var dec *ast.IncDecStmt
	ast.Inspect(f.Body, func(n ast.Node) bool {
		if s, ok := n.(*ast.IncDecStmt); ok && s.Tok == token.DEC && an.FieldOf(info, s.X) == leftF {
			dec = s
		}
		return true
	})
	if dec == nil {
		c.Undecide("confirm-window", "consensus/impl/dpos.(*libStatus).getPreLIB", "confirmsLeft-- not found")
		return
	}
	g := f.Graph()
	dn := g.NodeContaining(dec.Pos())
	type bound struct {
		e      ast.Expr
		strict bool
	}
	var lows, highs []bound
	var elem string
	for _, n := range g.Nodes {
		if n.Kind != an.KTrue || dn == nil || !g.Dominated(dn, an.SetOf(n)) {
			continue
		}
		var be *ast.BinaryExpr
		switch x := n.Ast.(type) {
		case *ast.BinaryExpr:
			be = x
		case *ast.ExprStmt:
			be, _ = ast.Unparen(x.X).(*ast.BinaryExpr)
		case *ast.ParenExpr:
			be, _ = ast.Unparen(x).(*ast.BinaryExpr)
		}
		if be == nil {
			c.Note("confirm-window: dominating true edge with condition %T", n.Ast)
			continue
		}
		// a true edge establishes every conjunct
		var conj []*ast.BinaryExpr
		var split func(e ast.Expr)
		split = func(e ast.Expr) {
			if b, ok := ast.Unparen(e).(*ast.BinaryExpr); ok {
				if b.Op == token.LAND {
					split(b.X)
					split(b.Y)
				} else {
					conj = append(conj, b)
				}
			}
		}
		split(be)
		for _, be := range conj {
			isElemNo := func(e ast.Expr) bool {
				sel, ok := ast.Unparen(e).(*ast.SelectorExpr)
				return ok && an.FieldOf(info, sel) == noF
			}
			x, y, op := be.X, be.Y, be.Op
			if !isElemNo(x) && isElemNo(y) {
				x, y = y, x
				switch op {
				case token.LSS:
					op = token.GTR
				case token.LEQ:
					op = token.GEQ
				case token.GTR:
					op = token.LSS
				case token.GEQ:
					op = token.LEQ
				}
			}
			if !isElemNo(x) {
				c.Note("confirm-window: dominating condition %s is not a bound of the element's block number", an.ExprString(be))
				continue
			}
			elem = an.ExprString(x)
			switch op {
			case token.GEQ:
				lows = append(lows, bound{y, false})
			case token.GTR:
				lows = append(lows, bound{y, true})
			case token.LEQ:
				highs = append(highs, bound{y, false})
			case token.LSS:
				highs = append(highs, bound{y, true})
			}
		}
	}
	if len(lows) != 1 || len(highs) != 1 {
		c.Undecide("confirm-window", "consensus/impl/dpos.(*libStatus).getPreLIB", "the decrement of confirmsLeft is not guarded by one lower and one upper bound on "+elem+".BlockNo")
		return
	}
	lo, ok1 := forms(lows[0].e, 0)
	hi, ok2 := forms(highs[0].e, 0)
	if !ok1 || !ok2 {
		c.Undecide("confirm-window", "consensus/impl/dpos.(*libStatus).getPreLIB", "window bounds are not linear expressions")
		return
	}
	ok := true
	var seen []string
	for _, l := range lo {
		// a constant definition of the lower bound is a clamp, not the window formula
		clamp := true
		for t := range l {
			if t != "1" {
				clamp = false
			}
		}
		if clamp && len(lo) > 1 {
			continue
		}
		for _, h := range hi {
			size := h.add(l, -1).add(linForm{"1": 1}, 1)
			if lows[0].strict {
				size = size.add(linForm{"1": 1}, -1)
			}
			if highs[0].strict {
				size = size.add(linForm{"1": 1}, -1)
			}
			seen = append(seen, size.String())
			// exactly one term: +1 * <x>.ConfirmRange
			good := len(size) == 1
			for t, k := range size {
				if k != 1 || !strings.HasSuffix(t, "."+rangeF.Name()) {
					good = false
				}
			}
			ok = ok && good
		}
	}
	c.Check("confirm-window", "consensus/impl/dpos.(*libStatus).getPreLIB|size", dec.Pos(), ok && len(seen) > 0, "the number of blocks whose confirmation count is decremented for a new block equals the new block's Confirms value (window size computed from the bounds: "+strings.Join(seen, "; ")+"): the header value counts the blocks after the producer's previous block, itself included")
	// producer side: Confirms = BlockNo - last produced block number
	if bf := c.Fn("consensus/impl/dpos.(*txExec).Apply"); bf != nil {
		_ = bf
	}
	for _, s := range p.CallSitesOf(map[string]bool{"types.(*Block).SetConfirms": true}) {
		if s.Fn == nil || an.Rel(s.Fn.Pkg.PkgPath) != "consensus/impl/dpos" {
			continue
		}
		lf, okL := linOf(s.Fn.Info(), s.Call.Args[0])
		good := okL && len(lf) == 2
		pos, neg := "", ""
		for t, k := range lf {
			if k == 1 {
				pos = t
			} else if k == -1 {
				neg = t
			} else {
				good = false
			}
		}
		good = good && strings.Contains(pos, "BlockNo") && neg != ""
		c.Check("confirm-window", shortName(an.FuncName(s.Fn.TopDecl().Obj))+"|SetConfirms", s.Call.Pos(), good, "a produced block announces Confirms = its number minus the number of the producer's previous block ("+lf.String()+")")
	}
}

// --- C10: an update that leaves a subtree empty says so (shortcut move-up depends on it) ---
//
// The trie is canonical (one shape per content, hence history independent)
// only if a shortcut whose sibling subtree became empty moves up.  The parent
// learns that from mresult.deleted.  Decided: (1) every successful result that
// carries no node (the subtree is empty) has deleted == true; an error result
// carries no node; (2) in the three combining functions the interior node is
// built only on paths where no child reported a deletion or the move-up
// declined.  Which shortcut moves where (the arithmetic) is not decided.
func init() { extend("C10", c10EmptyResultDeleted) }

func c10EmptyResultDeleted(c *rep.Ctx) {
	p := c.Prog
	st := p.LookupStruct("pkg/trie", "mresult")
	if st == nil || st.NumFields() != 3 {
		c.Undecide("empty-result", "pkg/trie.mresult", "result type not found or changed its fields")
		return
	}
	pk := p.Pkg("pkg/trie")
	info := pk.TypesInfo
	idx := map[string]int{}
	for i := 0; i < st.NumFields(); i++ {
		idx[st.Field(i).Name()] = i
	}
	iU, okU := idx["update"]
	iD, okD := idx["deleted"]
	iE, okE := idx["err"]
	if !okU || !okD || !okE {
		c.Undecide("empty-result", "pkg/trie.mresult", "fields update/deleted/err not found")
		return
	}
	isNil := func(e ast.Expr) bool {
		if e == nil {
			return true // omitted in a keyed literal
		}
		tv, ok := info.Types[e]
		return ok && tv.IsNil()
	}
	n := 0
	seen := map[string]int{}
	for _, file := range pk.Syntax {
		ast.Inspect(file, func(nd ast.Node) bool {
			cl, ok := nd.(*ast.CompositeLit)
			if !ok {
				return true
			}
			tv, ok := info.Types[cl]
			if !ok {
				return true
			}
			named, ok := tv.Type.(*types.Named)
			if !ok || named.Obj().Name() != "mresult" || named.Obj().Pkg() != pk.Types {
				return true
			}
			fields := make([]ast.Expr, 3)
			for i, el := range cl.Elts {
				if kv, isKV := el.(*ast.KeyValueExpr); isKV {
					if id, isId := kv.Key.(*ast.Ident); isId {
						if j, has := idx[id.Name]; has {
							fields[j] = kv.Value
						}
					}
				} else if i < 3 {
					fields[i] = el
				}
			}
			fn := p.EnclosingFunc(pk, cl.Pos())
			name := "<package level>"
			if fn != nil {
				name = fn.TopDecl().Name()
			}
			n++
			// deleted as a constant, looking through a once-defined local
			del := fields[iD]
			constVal := func(e ast.Expr) (bool, bool) {
				if e == nil {
					return false, true
				}
				if tv, ok := info.Types[e]; ok && tv.Value != nil {
					return tv.Value.ExactString() == "true", true
				}
				if o := an.ObjOf(info, e); o != nil && fn != nil {
					if rhs, _ := fn.Graph().SingleDef(o); rhs != nil {
						if tv, ok := info.Types[rhs]; ok && tv.Value != nil {
							return tv.Value.ExactString() == "true", true
						}
					}
				}
				return false, false
			}
			switch {
			case isNil(fields[iU]) && isNil(fields[iE]):
				v, known := constVal(del)
				seen[name+"|empty"]++
				key := name + "|empty"
				if k := seen[key]; k > 1 {
					key += "#" + itoa(k)
				}
				c.Check("empty-result", key, cl.Pos(), known && v, "a successful result without a node (the subtree is empty now) always reports deleted, so that the parent can move a sibling shortcut up: otherwise the same content gets a different shape and root depending on the order of earlier updates")
			case !isNil(fields[iE]):
				seen[name+"|error"]++
				key := name + "|error"
				if k := seen[key]; k > 1 {
					key += "#" + itoa(k)
				}
				c.CheckTrivial("empty-result", key, cl.Pos(), isNil(fields[iU]), "an error result carries no node")
			}
			return true
		})
	}
	if n < 12 {
		c.Undecide("empty-result", "pkg/trie.mresult", "fewer result literals than on the reference tree")
	}
	// consumers
	delF := st.Field(iD)
	for _, fname := range []string{"pkg/trie.(*Trie).updateRight", "pkg/trie.(*Trie).updateLeft", "pkg/trie.(*Trie).updateParallel"} {
		f := c.Fn(fname)
		if f == nil {
			continue
		}
		g := f.Graph()
		finfo := f.Info()
		gates := an.Set{}
		for _, s := range g.CallsTo("pkg/trie.(*Trie).maybeMoveUpShortcut") {
			for e := range g.BoolEdges(s, false) {
				gates[e] = true
			}
		}
		nDel := 0
		for _, nd := range g.Nodes {
			if nd.Kind != an.KFalse {
				continue
			}
			cond, ok := nd.Ast.(ast.Expr)
			if !ok {
				continue
			}
			// the false edge of a condition that is a disjunction of .deleted reads: no child deleted
			all := true
			var walk func(e ast.Expr)
			cnt := 0
			walk = func(e ast.Expr) {
				e = ast.Unparen(e)
				if be, isB := e.(*ast.BinaryExpr); isB && be.Op == token.LOR {
					walk(be.X)
					walk(be.Y)
					return
				}
				if an.FieldOf(finfo, e) == delF {
					cnt++
					return
				}
				all = false
			}
			walk(cond)
			if all && cnt > 0 {
				gates[nd] = true
				nDel += cnt
			}
		}
		want := 1
		if strings.HasSuffix(fname, "updateParallel") {
			want = 2
		}
		ih := g.CallsTo("pkg/trie.(*Trie).interiorHash")
		ok := len(ih) == 1 && nDel == want && len(gates) >= 2
		for _, s := range ih {
			ok = ok && g.Dominated(s.Node, gates)
		}
		c.Check("empty-result", fname+"|interior-after-moveup", f.Pos(), ok, "the interior node is built only when no updated child reported a deletion (all of them are consulted) or the shortcut move-up declined")
	}
}
