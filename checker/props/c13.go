package props

import (
	"go/ast"
	"go/token"
	"go/types"
	"sort"
	"strings"

	"verif/checker/internal/an"
	"verif/checker/internal/rep"
)

// C13 — transaction pool: per-account nonce order, no stale or duplicate
// entries, totals equal to what is held, also under concurrency.
//
// Decided (shape of the code, package mempool):
//   lockset          every access to MemPool.pool/length/orphan and to the mutable
//                    fields of txList is made with one common mutex held (writes
//                    exclusively); functions are summarised by their call sites
//   lock-pairing     every Lock/RLock is released in the same mode on every path,
//                    every release follows an acquisition, no re-acquisition
//   lock-reentry     no call, with the pool or list mutex held, of a function that
//                    (transitively) acquires it again
//   list-op-counted  every txList.Put / RemoveTx / FilterByState is followed by the
//                    matching change of the hash index
//   cache-stable     the sync.Map hash index is never overwritten after construction
//   counter-pairing  cache.Store <-> length++, cache.Delete <-> length--, reset together
//   update-gated     the hash index / counter change only when the list changed
//   cache-key        the hash-index key is the id of the very transaction added/removed
//   orphan-pairing   orphan is adjusted by the delta returned by the list operation
//   pool-map         lists are inserted only when absent and dropped only when empty
//   put-gate         duplicate / nonce gates of txList.Put and MemPool.put
//   nonce-ops        comparison operators of the nonce guards (too low, too high,
//                    successor, binary-search predicate) agree with the statement
//   ready            ready counts exactly the continuous prefix and readers use it
//   block-arrival    removeOnBlockArrival / FilterByState loop shapes, and setStateDB's
//                    partial-filter flag (false only for a sequential block)

func init() { register("C13", runC13) }

type c13Env struct {
	c  *rep.Ctx
	p  *an.Prog
	la *an.PLockAnalysis

	pool, length, orphan, cache *types.Var
	mpMutex, tlMutex            *types.Var
	tlList, tlReady, tlBase     *types.Var
	tlFields                    []*types.Var
	stNonce                     *types.Var
	acc                         []an.FieldAccess
}

// c13PoolGuarded: the bookkeeping fields of MemPool that the statement talks
// about (per-account lists, reported totals).  Frozen after the inference run
// (every access but the ones listed in the final report holds MemPool.RWMutex).
var c13PoolGuarded = []string{"pool", "length", "orphan"}

// c13DeadOK: functions without any call site in the loaded program (tests are
// not loaded); their accesses are not obligations.
var c13DeadOK = map[string]string{
	"mempool.(*txList).allLen": "used by the package tests only",
	"mempool.(*MemPool).puts":  "used by the package tests only",
}

func runC13(c *rep.Ctx) {
	c.Explain = "Structural decision of the pool's bookkeeping discipline in package mempool: (1) a lockset analysis (per-function must-hold sets over the control-flow graph, functions summarised by the meet over their call sites) decides that every access to MemPool.pool/length/orphan and to the mutable txList fields happens with one common mutex held, exclusively for writes, and that every acquisition is released on every path; (2) pairing rules decide that the hash index, the length and orphan counters and the per-account lists are changed together, by the same transaction and only when the list operation succeeded; (3) gate and operator rules decide the duplicate/nonce guards of txList.Put, MemPool.put, the nonce comparisons and the block-arrival filter loop. The shape of the code is decided, not its run-time behaviour: a lockset is a discipline check, not a happens-before analysis."
	c.NotDecided = []string{
		"actual data races (the lockset abstracts mutex instances to their declaring field; goroutine structure is not modelled)",
		"behaviour over histories of submissions/removals against a model",
		"arithmetic of the ready prefix beyond the successor test (index ready-1 in continuous, slice arithmetic of the insertion)",
		"MemPool fields describing the chain view (stateDB, bestBlockInfo, bestBlockID, acceptChainIdHash, whitelist, isPublic): read by validateTx/verifyTx outside the pool lock by design",
		"agreement of the account under which put and removeTx look the list up (verified account vs. body account)",
		"fairness / deadlock freedom beyond re-acquisition of a held mutex",
	}
	c.Assume = []string{
		"a mutex is identified by its declaring field (MemPool.RWMutex, txList.RWMutex), not by the instance",
		"functions of package mempool are called only from the call sites visible in the module (tests are not loaded); exported functions of exported types and functions used as values are assumed to be entered with no mutex held",
		"a function literal passed to sort.Search / sync.Map.Range runs before that call returns; a deferred call runs with the mutexes held at the function's normal exit minus those released by later-registered defers; panicking paths are ignored",
		"aliases of the guarded fields (a local copy of the map or slice header) are not tracked",
	}
	p := c.Prog
	e := &c13Env{c: c, p: p}
	e.pool = p.LookupField("mempool", "MemPool", "pool")
	e.length = p.LookupField("mempool", "MemPool", "length")
	e.orphan = p.LookupField("mempool", "MemPool", "orphan")
	e.cache = p.LookupField("mempool", "MemPool", "cache")
	e.mpMutex = p.LookupField("mempool", "MemPool", "RWMutex")
	e.tlMutex = p.LookupField("mempool", "txList", "RWMutex")
	e.tlList = p.LookupField("mempool", "txList", "list")
	e.tlReady = p.LookupField("mempool", "txList", "ready")
	e.tlBase = p.LookupField("mempool", "txList", "base")
	e.stNonce = p.LookupField("types", "State", "Nonce")
	for name, v := range map[string]*types.Var{"MemPool.pool": e.pool, "MemPool.length": e.length, "MemPool.orphan": e.orphan, "MemPool.cache": e.cache,
		"MemPool.RWMutex": e.mpMutex, "txList.RWMutex": e.tlMutex, "txList.list": e.tlList, "txList.ready": e.tlReady, "txList.base": e.tlBase, "types.State.Nonce": e.stNonce} {
		if v == nil {
			c.Undecide("anchor", name, "field not found")
		}
	}
	if len(c.Undecided) > 0 {
		return
	}
	if _, ok := e.pool.Type().Underlying().(*types.Map); !ok {
		c.Undecide("anchor", "MemPool.pool", "no longer a map")
		return
	}
	if st := p.LookupStruct("mempool", "txList"); st != nil {
		for i := 0; i < st.NumFields(); i++ {
			if st.Field(i) != e.tlMutex {
				e.tlFields = append(e.tlFields, st.Field(i))
			}
		}
	}
	cg := p.BuildCallGraph()
	e.la = p.Lockset(cg, "mempool")
	if e.la == nil {
		c.Undecide("anchor", "mempool", "package not loaded")
		return
	}
	for _, u := range e.la.Undecided {
		c.Undecide("lockset", "engine", u)
	}
	c.Pkgs["mempool"] = true
	all := map[*types.Var]bool{e.pool: true, e.length: true, e.orphan: true, e.cache: true}
	for _, f := range e.tlFields {
		all[f] = true
	}
	e.acc = p.FieldAccesses(all)

	c13Lockset(e)
	c13LockPairing(e)
	c13Book(e)
	c13List(e)
	c13BlockArrival(e)
}

// ---------------------------------------------------------------------------
// lockset

func c13Owner(e *c13Env, v *types.Var) string {
	switch v {
	case e.pool, e.length, e.orphan, e.cache:
		return "MemPool." + v.Name()
	}
	return "txList." + v.Name()
}

func c13Lockset(e *c13Env) {
	c, la := e.c, e.la
	// candidate mutexes per guarded field
	cand := map[*types.Var][]*types.Var{}
	for _, n := range c13PoolGuarded {
		v := e.p.LookupField("mempool", "MemPool", n)
		cand[v] = []*types.Var{e.mpMutex}
	}
	// txList: every field written after construction is guarded; the others are immutable
	mutable := map[*types.Var]bool{}
	for _, a := range e.acc {
		if a.Write && a.How != "literal" {
			mutable[a.Field] = true
		}
	}
	for _, f := range e.tlFields {
		if mutable[f] {
			cand[f] = []*types.Var{e.mpMutex, e.tlMutex}
		} else {
			c.CheckTrivial("lockset", "txList."+f.Name()+"|immutable", f.Pos(), true, "set only by the constructor literal: reads need no mutex")
		}
	}
	type site struct {
		a    an.FieldAccess
		ls   an.PLockSet
		need an.PLockMode
	}
	sites := map[*types.Var][]site{}
	for _, a := range e.acc {
		if cand[a.Field] == nil || a.How == "literal" {
			continue
		}
		if a.Fn == nil {
			c.Undecide("lockset", c13Owner(e, a.Field), "access outside any function")
			continue
		}
		if a.Fn.Pkg != la.Pkg {
			c.Check("lockset", a.Fn.Name()+"|"+c13Owner(e, a.Field), a.Pos, false, "pool bookkeeping field accessed from another package")
			continue
		}
		if st := la.Status[a.Fn.TopDecl()]; st == "dead" {
			why, ok := c13DeadOK[a.Fn.TopDecl().Name()]
			if !ok {
				why = "no call site in the loaded program"
			}
			c.CheckTrivial("lockset-dead", a.Fn.Name()+"|"+c13Owner(e, a.Field), a.Pos, true, "not an obligation: "+why)
			continue
		}
		ls, ok := la.At(a.Fn, a.Pos)
		if !ok {
			c.Undecide("lockset", a.Fn.Name()+"|"+c13Owner(e, a.Field), "access not found in the control-flow graph")
			continue
		}
		need := an.PLockR
		if a.Write {
			need = an.PLockW
		}
		sites[a.Field] = append(sites[a.Field], site{a, ls, need})
	}
	var fields []*types.Var
	for f := range cand {
		fields = append(fields, f)
	}
	sort.Slice(fields, func(i, j int) bool { return c13Owner(e, fields[i]) < c13Owner(e, fields[j]) })
	for _, f := range fields {
		// the mutex held by most accesses is the field's guard
		var best *types.Var
		bestBad := -1
		for _, m := range cand[f] {
			bad := 0
			for _, s := range sites[f] {
				if s.ls.Mode(m) < s.need {
					bad++
				}
			}
			if bestBad < 0 || bad < bestBad {
				best, bestBad = m, bad
			}
		}
		c.Note("lockset: %s is guarded by %s (%d accesses, %d without it)", c13Owner(e, f), la.MutexName(best), len(sites[f]), bestBad)
		type agg struct {
			ok   bool
			pos  token.Pos
			hows map[string]bool
			bad  string
			n    int
		}
		groups := map[string]*agg{}
		var order []string
		for _, s := range sites[f] {
			kind := "read"
			if s.a.Write {
				kind = "write"
			}
			key := s.a.Fn.Name() + "|" + c13Owner(e, f) + "|" + kind
			g := groups[key]
			if g == nil {
				g = &agg{ok: true, pos: s.a.Pos, hows: map[string]bool{}}
				groups[key] = g
				order = append(order, key)
			}
			g.n++
			g.hows[s.a.How] = true
			if s.ls.Mode(best) < s.need {
				if g.ok {
					g.pos = s.a.Pos
				}
				g.ok = false
				g.bad = "held here: " + la.Format(s.ls)
				if fn := s.a.Fn; la.Status[fn] == "closed" {
					g.bad += "; entry lockset of " + fn.Name() + " = meet over its call sites " + strings.Join(la.From[fn], ", ")
				} else {
					g.bad += "; " + fn.Name() + " is " + la.Status[fn]
				}
			}
		}
		for _, key := range order {
			g := groups[key]
			var hs []string
			for h := range g.hows {
				hs = append(hs, h)
			}
			sort.Strings(hs)
			want := "in any mode"
			if strings.HasSuffix(key, "|write") {
				want = "exclusively"
			}
			msg := itoa(g.n) + " access(es) (" + strings.Join(hs, ",") + ") need " + la.MutexName(best) + " " + want
			if !g.ok {
				msg += " — NOT held: " + g.bad
			}
			c.Check("lockset", key, g.pos, g.ok, msg)
		}
	}
	c.Floor("lockset", 60)
}

// ---------------------------------------------------------------------------
// lock-pairing

func c13LockPairing(e *c13Env) {
	c, la := e.c, e.la
	type key struct {
		m    *types.Var
		mode an.PLockMode
	}
	for _, f := range la.Funcs {
		g := f.Graph()
		ops := la.Ops(f)
		acq := map[key][]*an.Node{}
		rel := map[key][]*an.Node{}
		gates := map[key]an.Set{}
		for _, n := range g.Nodes {
			if n.Kind != an.KStmt {
				continue
			}
			for _, op := range ops[n] {
				k := key{op.Mutex, op.Mode}
				if op.Acquire {
					acq[k] = append(acq[k], n)
				} else {
					rel[k] = append(rel[k], n)
					if gates[k] == nil {
						gates[k] = an.Set{}
					}
					gates[k][n] = true
				}
			}
			if ds, ok := n.Ast.(*ast.DeferStmt); ok {
				for _, op := range la.DeferredOps(f, ds) {
					k := key{op.Mutex, op.Mode}
					if op.Acquire {
						c.Check("lock-pairing", f.Name()+"|"+la.MutexName(op.Mutex)+":"+op.Mode.String()+"|deferred-acquire", ds.Pos(), false, "a mutex is acquired in a deferred call")
						continue
					}
					rel[k] = append(rel[k], n)
					if gates[k] == nil {
						gates[k] = an.Set{}
					}
					gates[k][n] = true
				}
			}
		}
		var ks []key
		for k := range acq {
			ks = append(ks, k)
		}
		for k := range rel {
			if _, ok := acq[k]; !ok {
				ks = append(ks, k)
			}
		}
		sort.Slice(ks, func(i, j int) bool {
			a, b := la.MutexName(ks[i].m)+ks[i].mode.String(), la.MutexName(ks[j].m)+ks[j].mode.String()
			return a < b
		})
		for _, k := range ks {
			name := f.Name() + "|" + la.MutexName(k.m) + ":" + k.mode.String()
			for _, n := range acq[k] {
				released := len(gates[k]) > 0 && g.PostDominated(n, c13Without(gates[k], n))
				held := la.AtNode(f, n)
				fresh := held.Top || held.Mode(k.m) == an.PLockNone
				msg := "released in the same mode on every path to the normal exit, and not already held when acquired"
				if !released {
					msg = "some path from this acquisition reaches the function's exit without the matching release (" + map[an.PLockMode]string{an.PLockR: "RUnlock", an.PLockW: "Unlock"}[k.mode] + ")"
				} else if !fresh {
					msg = "the mutex is already held here (" + la.Format(held) + "): self-deadlock"
				}
				c.Check("lock-pairing", name+"|acquire", n.Ast.Pos(), released && fresh, msg)
			}
			for _, n := range rel[k] {
				as := an.Set{}
				for _, a := range acq[k] {
					as[a] = true
				}
				ok := len(as) > 0 && g.Dominated(n, as)
				c.Check("lock-pairing", name+"|release", n.Ast.Pos(), ok, "every path to this release (or to the registration of this deferred release) passes the matching acquisition in the same function")
			}
		}
	}
	c.Floor("lock-pairing", 30)

	// no call, with a mutex held, of a function that may acquire the same mutex
	may := map[*types.Var]map[*an.Func]bool{}
	for _, f := range la.Funcs {
		for _, ops := range la.Ops(f) {
			for _, op := range ops {
				if op.Acquire {
					if may[op.Mutex] == nil {
						may[op.Mutex] = map[*an.Func]bool{}
					}
					may[op.Mutex][f] = true
				}
			}
		}
	}
	for _, m := range []*types.Var{e.mpMutex, e.tlMutex} {
		set := may[m]
		if set == nil {
			continue
		}
		for changed := true; changed; {
			changed = false
			for _, f := range la.Funcs {
				if set[f] {
					continue
				}
				for _, ed := range la.CG.Out[f] {
					if ed.Callee == nil || !set[ed.Callee] {
						continue
					}
					if ed.Call != nil {
						if _, how := la.SiteLockset(f, ed.Call); how == "go" {
							continue
						}
					}
					set[f] = true
					changed = true
					break
				}
			}
		}
		seen := map[string]bool{}
		for _, f := range la.Funcs {
			for _, ed := range la.CG.Out[f] {
				if ed.Call == nil || ed.Callee == nil || !set[ed.Callee] {
					continue
				}
				ls, how := la.SiteLockset(f, ed.Call)
				if how == "go" {
					continue
				}
				key := f.Name() + "|" + la.MutexName(m) + "|calls " + ed.Callee.Name()
				held := !ls.Top && ls.Mode(m) != an.PLockNone
				if seen[key] && !held {
					continue
				}
				seen[key] = true
				c.Check("lock-reentry", key, ed.Call.Pos(), !held, "the callee (transitively) acquires "+la.MutexName(m)+", so it must not be called with that mutex held (sync mutexes are not reentrant); held at the call: "+la.Format(ls))
			}
		}
	}
	c.Floor("lock-reentry", 25)
}

func c13Without(s an.Set, n *an.Node) an.Set {
	if !s[n] {
		return s
	}
	r := an.Set{}
	for k := range s {
		if k != n {
			r[k] = true
		}
	}
	return r
}
