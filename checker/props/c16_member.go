package props

import (
	"go/ast"
	"go/token"
	"go/types"
	"sort"

	"verif/checker/internal/an"
)

const c16Cluster = c16RaftPkg + ".(*Cluster)"

// c16MemberMutators: closed caller sets of the functions that change the applied / removed member sets.
var c16MemberMutators = map[string]map[string]string{
	c16Cluster + ".removeMember": {
		c16RS + ".applyConfChange": "apply of a committed, validated RemoveNode entry",
	},
	c16Cluster + ".addMember|applied": {
		c16RS + ".applyConfChange": "apply of a committed, validated AddNode entry",
		c16Cluster + ".Recover":    "members restored from a snapshot (the snapshot carries members that were validated when they were applied)",
	},
	c16RaftPkg + ".(*Members).remove": {
		c16Cluster + ".removeMember": "the only remover",
	},
	c16RaftPkg + ".(*Members).add": {
		c16Cluster + ".addMember":    "adds to applied (applied=true) and to the boot member list",
		c16Cluster + ".removeMember": "moves the member to the removed set",
		c16Cluster + ".Recover":      "removed members restored from a snapshot",
	},
}

// c16SubmitCallers: callers of submitProposal, with the reason the proposal they pass was checked.
var c16SubmitViaParam = map[string]string{
	c16RaftPkg + ".(*RaftOperator).ProposeConfChange": "submits blockState.CCProposal, which is written only from the result of MakeConfChangeProposal (rule proposal-flow); MakeConfChangeProposal is checked as a proposal producer",
}

func c16Member(e *c16Env) {
	c16ValidateGuards(e)
	c16DupScan(e)
	c16DupAttr(e)
	c16Availability(e)
	c16ProposalGates(e)
	c16ApplyGates(e)
	c16Mutators(e)
	c16MemberLock(e)
}

// c16MemberLock: validateChangeMembership reads the applied / removed member sets; it runs under the
// cluster mutex: either it takes the lock itself (needlock == true) or every caller chain holds it.
func c16MemberLock(e *c16Env) {
	c, p := e.c, e.p
	held := func(f *an.Func, target *an.Node) bool {
		// a Lock() on a *Cluster value dominates target, a deferred Unlock on it is registered before target,
		// and no direct Unlock lies between
		g, info := f.Graph(), f.Info()
		isCl := func(call *ast.CallExpr) bool {
			sel, ok := ast.Unparen(call.Fun).(*ast.SelectorExpr)
			return ok && c16IsNamed(info.TypeOf(sel.X), an.Module+"/"+c16RaftPkg, "Cluster")
		}
		for _, l := range g.CallsTo("sync.(*Mutex).Lock") {
			if !isCl(l.Call) || !g.Dominated(target, an.SetOf(l.Node)) {
				continue
			}
			if _, d := l.Node.Ast.(*ast.DeferStmt); d {
				continue
			}
			okDefer, unlockBetween := false, false
			for _, u := range g.CallsTo("sync.(*Mutex).Unlock") {
				if !isCl(u.Call) {
					continue
				}
				if _, d := u.Node.Ast.(*ast.DeferStmt); d {
					if g.Dominated(u.Node, an.SetOf(l.Node)) && g.Dominated(target, an.SetOf(u.Node)) {
						okDefer = true
					}
					continue
				}
				if g.Between(l.Node, target)[u.Node] {
					unlockBetween = true
				}
			}
			if okDefer && !unlockBetween {
				return true
			}
		}
		return false
	}
	vf := c.Fn(c16Cluster + ".validateChangeMembership")
	if vf == nil {
		return
	}
	// inside: the needlock branch takes the lock and defers the unlock
	{
		g, info := vf.Graph(), vf.Info()
		var needlock types.Object
		for i := 0; i < 4; i++ {
			if po := c16Param(vf, i); po != nil {
				if b, ok := po.Type().Underlying().(*types.Basic); ok && b.Kind() == types.Bool {
					needlock = po
				}
			}
		}
		ok := false
		if needlock != nil {
			at := func(x ast.Expr) (string, bool, bool) {
				if an.ObjOf(info, x) == needlock {
					return "need", false, true
				}
				return "", false, false
			}
			skip := g.EdgesImplying(at, map[string]bool{"need": false})
			// every read of the member sets is reached either through Lock or through the needlock==false edge
			locks := an.Set{}
			for _, l := range g.CallsTo("sync.(*Mutex).Lock") {
				locks[l.Node] = true
			}
			ok = len(locks) > 0 && len(skip) > 0
			for _, s := range g.Calls(nil) {
				if s.Fn == nil {
					continue
				}
				nm := an.FuncName(s.Fn)
				if nm == c16Cluster+".AppliedMembers" || nm == c16Cluster+".RemovedMembers" {
					if !g.Dominated(s.Node, locks.Union(skip)) {
						ok = false
					}
				}
			}
			hasDefer := false
			for _, u := range g.CallsTo("sync.(*Mutex).Unlock") {
				if _, d := u.Node.Ast.(*ast.DeferStmt); d && g.Dominated(u.Node, locks) {
					hasDefer = true
				}
			}
			ok = ok && hasDefer
		}
		c.Check("member-lock", vf.Name()+"|needlock", vf.Pos(), ok, "validateChangeMembership reads the member sets after taking the cluster mutex (deferred unlock) unless the caller said it holds it (needlock == false)")
	}
	for _, cs := range p.CallSitesOf(map[string]bool{c16Cluster + ".validateChangeMembership": true}) {
		if cs.Fn == nil || len(cs.Call.Args) != 3 {
			continue
		}
		f := cs.Fn
		tv := f.Info().Types[cs.Call.Args[2]]
		if tv.Value != nil && tv.Value.String() == "true" {
			c.CheckTrivial("member-lock", f.Name()+"|self-locking", cs.Call.Pos(), true, "called with needlock == true: the validation takes the cluster mutex itself")
			continue
		}
		// needlock false (or unknown): the caller, or every caller of the caller, holds the mutex
		n := f.Graph().NodeContaining(cs.Call.Pos())
		if n != nil && held(f, n) {
			c.Check("member-lock", f.Name()+"|holds", cs.Call.Pos(), true, "called with needlock == false while the function holds the cluster mutex")
			continue
		}
		if f.Obj == nil {
			c.Check("member-lock", f.Name()+"|holds", cs.Call.Pos(), false, "called with needlock == false from a function literal that does not hold the cluster mutex")
			continue
		}
		outer := p.CallSitesOf(map[string]bool{an.FuncName(f.Obj): true})
		if len(outer) == 0 {
			c.Check("member-lock", f.Name()+"|holds", cs.Call.Pos(), false, "called with needlock == false and no caller holds the cluster mutex")
		}
		for _, oc := range outer {
			if oc.Fn == nil {
				continue
			}
			on := oc.Fn.Graph().NodeContaining(oc.Call.Pos())
			c.Check("member-lock", f.Name()+"|caller|"+oc.Fn.Name(), oc.Call.Pos(), on != nil && held(oc.Fn, on), "validation with needlock == false: the caller of "+c16Short(f.Name())+" holds the cluster mutex (Lock + deferred Unlock) at the call")
		}
	}
	c.Floor("member-lock", 4)
}

// accessorField: fn is a method whose body is `return recv.f` — returns f.
func c16AccessorField(p *an.Prog, fn *types.Func) *types.Var {
	af := p.FuncOf(fn)
	if af == nil || af.Body == nil || len(af.Body.List) != 1 {
		return nil
	}
	rs, ok := af.Body.List[0].(*ast.ReturnStmt)
	if !ok || len(rs.Results) != 1 {
		return nil
	}
	sel, ok := ast.Unparen(rs.Results[0]).(*ast.SelectorExpr)
	if !ok || an.ObjOf(af.Info(), sel.X) != c16Recv(af) {
		return nil
	}
	return an.FieldOf(af.Info(), sel)
}

// c16MembersField resolves an expression of type *Members to the Cluster field it reads
// (appliedMembers / removedMembers / members), through accessors and single-assignment locals.
func c16MembersField(g *an.Graph, x ast.Expr, depth int) *types.Var {
	info := g.Fn.Info()
	x = ast.Unparen(x)
	switch y := x.(type) {
	case *ast.CallExpr:
		if fn := an.Callee(info, y); fn != nil {
			return c16AccessorField(g.Fn.Prog, fn)
		}
	case *ast.SelectorExpr:
		return an.FieldOf(info, y)
	case *ast.Ident:
		if depth > 0 {
			if o := an.ObjOf(info, y); o != nil {
				rhs, _, other := c16ValueAssigns(g, o)
				if len(rhs) == 1 && other == 0 {
					return c16MembersField(g, rhs[0], depth-1)
				}
			}
		}
	}
	return nil
}

// ---------------------------------------------------------------------------
// validateChangeMembership

func c16ValidateGuards(e *c16Env) {
	c, p := e.c, e.p
	f := c.Fn(c16Cluster + ".validateChangeMembership")
	if f == nil {
		return
	}
	g, info := f.Graph(), f.Info()
	name := f.Name()
	var cc, member types.Object
	for i := 0; i < 4; i++ {
		po := c16Param(f, i)
		if po == nil {
			continue
		}
		if c16IsNamed(po.Type(), c16Raftpb, "ConfChange") {
			cc = po
		}
		if c16IsNamed(po.Type(), an.Module+"/consensus", "Member") {
			member = po
		}
	}
	applied := p.LookupField(c16RaftPkg, "Cluster", "appliedMembers")
	removed := p.LookupField(c16RaftPkg, "Cluster", "removedMembers")
	if cc == nil || member == nil || applied == nil || removed == nil {
		c.Undecide("anchor", name, "parameters or Cluster.appliedMembers/removedMembers not found")
		return
	}
	accept := c16NilErrReturns(g)
	if len(accept) == 0 {
		c.Undecide("validate-guards", name, "no accepting return (return nil) found")
		return
	}
	isMemberID := func(x ast.Expr) bool {
		base, fv := c16FieldSel(info, x, "ID")
		return fv != nil && an.ObjOf(info, base) == member
	}
	allDominated := func(gates an.Set) bool {
		if len(gates) == 0 {
			return false
		}
		for _, r := range accept {
			if !g.Dominated(r, gates) {
				return false
			}
		}
		return true
	}
	// 1. nil member
	okNil := true
	for _, r := range accept {
		if ok, _ := g.GuardedAt(r, an.NilAtom(info, member), map[string]bool{"nil": false}); !ok {
			okNil = false
		}
	}
	c.Check("validate-guards", name+"|nil-member", f.Pos(), okNil, "a nil member is refused: every accepting return is dominated by member != nil")
	// 2. invalid id
	atID := func(x ast.Expr) (string, bool, bool) {
		be, ok := ast.Unparen(x).(*ast.BinaryExpr)
		if !ok || (be.Op != token.EQL && be.Op != token.NEQ) {
			return "", false, false
		}
		for _, pr := range [][2]ast.Expr{{be.X, be.Y}, {be.Y, be.X}} {
			if isMemberID(pr[0]) && c16IsConst(info, pr[1], an.Module+"/consensus", "InvalidMemberID") {
				return "invalid", be.Op == token.NEQ, true
			}
		}
		return "", false, false
	}
	okID := true
	for _, r := range accept {
		if ok, _ := g.GuardedAt(r, atID, map[string]bool{"invalid": false}); !ok {
			okID = false
		}
	}
	c.Check("validate-guards", name+"|invalid-id", f.Pos(), okID, "a member with the invalid id is refused: every accepting return is dominated by member.ID != InvalidMemberID")
	// 3. already removed: isExist(member.ID) on the removed set
	var remGate an.Set = an.Set{}
	var getSites []an.Site
	for _, s := range g.Calls(nil) {
		if s.Fn == nil {
			continue
		}
		sel, ok := ast.Unparen(s.Call.Fun).(*ast.SelectorExpr)
		if !ok {
			continue
		}
		switch an.FuncName(s.Fn) {
		case c16RaftPkg + ".(*Members).isExist":
			if c16MembersField(g, sel.X, 3) == removed && len(s.Call.Args) == 1 && isMemberID(s.Call.Args[0]) {
				for ed := range g.BoolEdges(s, false) {
					remGate[ed] = true
				}
			}
		case c16RaftPkg + ".(*Members).getMember":
			if c16MembersField(g, sel.X, 3) == applied && len(s.Call.Args) == 1 && isMemberID(s.Call.Args[0]) {
				getSites = append(getSites, s)
			}
		}
	}
	c.Check("validate-guards", name+"|already-removed", f.Pos(), allDominated(remGate), "a member whose id is in the removed set is refused (re-adding a removed id): every accepting return is dominated by removedMembers.isExist(member.ID) == false")
	// 4. arms of the switch on cc.Type
	var sw *ast.SwitchStmt
	an.InspectShallow(f.Body, func(n ast.Node) bool {
		if s, ok := n.(*ast.SwitchStmt); ok && s.Tag != nil {
			if base, fv := c16FieldSel(info, s.Tag, "Type"); fv != nil && an.ObjOf(info, base) == cc {
				sw = s
			}
		}
		return true
	})
	if sw == nil {
		c.Undecide("validate-guards", name, "no switch on the conf change type")
		return
	}
	armEdge := func(constName string) *an.Node {
		for _, st := range sw.Body.List {
			cl, ok := st.(*ast.CaseClause)
			if !ok || len(cl.List) != 1 || !c16IsConst(info, cl.List[0], c16Raftpb, constName) {
				continue
			}
			n := g.NodeOf(cl.List[0])
			if n == nil {
				return nil
			}
			for _, s := range n.Succs {
				if s.Kind == an.KTrue {
					return s
				}
			}
		}
		return nil
	}
	addEdge, rmEdge := armEdge("ConfChangeAddNode"), armEdge("ConfChangeRemoveNode")
	if addEdge == nil || rmEdge == nil {
		c.Undecide("validate-guards", name, "the AddNode / RemoveNode arms were not found")
		return
	}
	c.Check("validate-guards", name+"|other-type", sw.Pos(), allDominated(an.SetOf(addEdge, rmEdge)), "a change that is neither AddNode nor RemoveNode is refused: every accepting return lies behind one of the two arms")
	fromArm := func(arm *an.Node, gates an.Set) bool {
		if len(gates) == 0 {
			return false
		}
		r := g.Reach([]*an.Node{arm}, gates)
		for _, a := range accept {
			if r[a] {
				return false
			}
		}
		return true
	}
	inArm := func(arm *an.Node, other *an.Node, n *an.Node) bool {
		return g.Reach([]*an.Node{arm}, nil)[n] && !g.Reach([]*an.Node{other}, nil)[n]
	}
	// add arm
	validGate, addedGate, dupGate := an.Set{}, an.Set{}, an.Set{}
	for _, s := range g.CallsTo("consensus.(*Member).IsValid") {
		if sel, ok := ast.Unparen(s.Call.Fun).(*ast.SelectorExpr); ok && an.ObjOf(info, sel.X) == member {
			for ed := range g.BoolEdges(s, true) {
				validGate[ed] = true
			}
		}
	}
	for _, s := range getSites {
		if inArm(addEdge, rmEdge, s.Node) {
			for ed := range g.ErrNilEdges(s) { // edges on which the member found is nil
				addedGate[ed] = true
			}
		}
	}
	for _, s := range g.CallsTo(c16RaftPkg + ".(*Members).hasDuplicatedMember") {
		sel, ok := ast.Unparen(s.Call.Fun).(*ast.SelectorExpr)
		if ok && c16MembersField(g, sel.X, 3) == applied && len(s.Call.Args) == 1 && an.ObjOf(info, s.Call.Args[0]) == member {
			for ed := range g.ErrNilEdges(s) {
				dupGate[ed] = true
			}
		}
	}
	c.Check("validate-guards", name+"|add|invalid-fields", f.Pos(), fromArm(addEdge, validGate), "add: a member with invalid fields is refused (member.IsValid() must be true on every accepting path of the add arm)")
	c.Check("validate-guards", name+"|add|already-added", f.Pos(), fromArm(addEdge, addedGate), "add: an id that is already an applied member is refused (appliedMembers.getMember(member.ID) must be nil on every accepting path of the add arm)")
	c.Check("validate-guards", name+"|add|duplicated-attr", f.Pos(), fromArm(addEdge, dupGate), "add: a member that duplicates an attribute of an applied member is refused (appliedMembers.hasDuplicatedMember(member) must succeed on every accepting path of the add arm)")
	// remove arm
	knownGate := an.Set{}
	for _, s := range getSites {
		if inArm(rmEdge, addEdge, s.Node) {
			for _, ed := range c16FailEdges(g, g.ErrNilEdges(s)) { // edges on which the member found is not nil
				knownGate[ed] = true
			}
		}
	}
	c.Check("validate-guards", name+"|remove|unknown-member", f.Pos(), fromArm(rmEdge, knownGate), "remove: an id that is not an applied member is refused (appliedMembers.getMember(member.ID) must be non-nil on every accepting path of the remove arm)")
	c.Floor("validate-guards", 8)
}

// ---------------------------------------------------------------------------
// every scan for duplicates visits all members and refuses on the first hit

func c16DupScan(e *c16Env) {
	c, p := e.c, e.p
	byID := p.LookupField(c16RaftPkg, "Members", "MapByID")
	sites := p.CallSitesOf(map[string]bool{"consensus.(*Member).HasDuplicatedAttr": true})
	for _, cs := range sites {
		if cs.Fn == nil {
			continue
		}
		f := cs.Fn
		g, info := f.Graph(), f.Info()
		n := g.NodeContaining(cs.Call.Pos())
		var site *an.Site
		for _, s := range g.Calls(nil) {
			if s.Call == cs.Call {
				s := s
				site = &s
			}
		}
		if n == nil || site == nil {
			c.Undecide("dup-scan", f.Name(), "call not located")
			continue
		}
		// inside a range over <members>.MapByID, one operand the range value, the other a parameter
		var rl *c16RangeLoop
		an.InspectShallow(f.Body, func(nd ast.Node) bool {
			rs, ok := nd.(*ast.RangeStmt)
			if !ok || an.FieldOf(info, rs.X) != byID || byID == nil {
				return true
			}
			if rs.Body.Pos() <= cs.Call.Pos() && cs.Call.End() <= rs.Body.End() {
				if id, ok := rs.Value.(*ast.Ident); ok {
					rl = &c16RangeLoop{stmt: rs, val: info.Defs[id]}
				}
			}
			return true
		})
		okOperands := false
		if rl != nil && rl.val != nil && len(cs.Call.Args) == 1 {
			if sel, ok := ast.Unparen(cs.Call.Fun).(*ast.SelectorExpr); ok {
				a, b := an.ObjOf(info, sel.X), an.ObjOf(info, cs.Call.Args[0])
				isParam := func(o types.Object) bool {
					for i := 0; i < 6; i++ {
						if po := c16Param(f, i); po != nil && po == o {
							return true
						}
					}
					return false
				}
				okOperands = (a == rl.val && isParam(b)) || (b == rl.val && isParam(a))
			}
		}
		// a hit leads only to error returns
		hit := g.BoolEdges(*site, true)
		okHit := len(hit) > 0
		if okHit {
			var from []*an.Node
			for ed := range hit {
				from = append(from, ed)
			}
			r := g.Reach(from, nil)
			for _, pr := range g.Exit.Preds {
				if !r[pr] {
					continue
				}
				if _, isRet := pr.Ast.(*ast.ReturnStmt); isRet && c16SureErr(g, pr) {
					continue
				}
				okHit = false
			}
			// and the loop cannot be left early without a hit: no break / return nil inside the body
			for _, a := range c16NilErrReturns(g) {
				if rl != nil && rl.stmt.Body.Pos() <= a.Ast.Pos() && a.Ast.End() <= rl.stmt.Body.End() {
					okHit = false
				}
			}
			if rl != nil {
				ast.Inspect(rl.stmt.Body, func(nd ast.Node) bool {
					if b, ok := nd.(*ast.BranchStmt); ok && (b.Tok == token.BREAK || b.Tok == token.GOTO) {
						okHit = false
					}
					return true
				})
			}
		}
		c.Check("dup-scan", f.Name(), cs.Call.Pos(), okOperands && okHit, "the duplicate scan compares the candidate with every member of the set (range over MapByID, no early exit) and a hit leads only to an error return")
	}
	c.Floor("dup-scan", 2)
}

// HasDuplicatedAttr covers every attribute of types.MemberAttr
func c16DupAttr(e *c16Env) {
	c, p := e.c, e.p
	f := c.Fn("consensus.(*Member).HasDuplicatedAttr")
	if f == nil {
		return
	}
	st := p.LookupStruct("types", "MemberAttr")
	if st == nil {
		c.Undecide("anchor", "types.MemberAttr", "struct not found")
		return
	}
	g, info := f.Graph(), f.Info()
	recv, other := c16Recv(f), c16Param(f, 0)
	at := func(x ast.Expr) (string, bool, bool) {
		x = ast.Unparen(x)
		var l, r ast.Expr
		neg := false
		switch y := x.(type) {
		case *ast.BinaryExpr:
			if y.Op != token.EQL && y.Op != token.NEQ {
				return "", false, false
			}
			l, r, neg = y.X, y.Y, y.Op == token.NEQ
		case *ast.CallExpr:
			if an.CalleeName(info, y) != "bytes.Equal" || len(y.Args) != 2 {
				return "", false, false
			}
			l, r = y.Args[0], y.Args[1]
		default:
			return "", false, false
		}
		strip := func(z ast.Expr) ast.Expr { // []byte(x.f) conversions
			if call, ok := ast.Unparen(z).(*ast.CallExpr); ok && len(call.Args) == 1 {
				if tv, ok := info.Types[call.Fun]; ok && tv.IsType() {
					return call.Args[0]
				}
			}
			return z
		}
		lsel, ok1 := ast.Unparen(strip(l)).(*ast.SelectorExpr)
		rsel, ok2 := ast.Unparen(strip(r)).(*ast.SelectorExpr)
		if !ok1 || !ok2 {
			return "", false, false
		}
		lf, rf := an.FieldOf(info, lsel), an.FieldOf(info, rsel)
		if lf == nil || lf != rf {
			return "", false, false
		}
		a, b := an.ObjOf(info, lsel.X), an.ObjOf(info, rsel.X)
		if (a == recv && b == other) || (a == other && b == recv) {
			return "eq:" + lf.Name(), neg, true
		}
		return "", false, false
	}
	n := 0
	for i := 0; i < st.NumFields(); i++ {
		fld := st.Field(i)
		if !fld.Exported() {
			continue // protobuf bookkeeping (state, sizeCache, unknownFields)
		}
		n++
		atom := "eq:" + fld.Name()
		ok := true
		for _, r := range g.Returns() {
			rs := r.Ast.(*ast.ReturnStmt)
			if len(rs.Results) != 1 {
				ok = false
				continue
			}
			tv := info.Types[rs.Results[0]]
			if tv.Value != nil && tv.Value.String() == "true" {
				continue
			}
			if okG, _ := g.GuardedAt(r, at, map[string]bool{atom: false}); okG {
				continue
			}
			if tv.Value == nil && !an.CondPossible(info, rs.Results[0], false, at, map[string]bool{atom: true}) {
				// the returned expression cannot be false when the attribute is equal;
				// it must mention the atom at all
				if an.CondImplies(info, rs.Results[0], false, at, map[string]bool{atom: false}) {
					continue
				}
			}
			ok = false
		}
		c.Check("dup-attr", f.Name()+"|"+fld.Name(), f.Pos(), ok, "two members with the same "+fld.Name()+" are reported as duplicates: the function can answer false only when "+fld.Name()+" of the receiver differs from "+fld.Name()+" of the argument")
	}
	if n < 4 {
		c.Undecide("dup-attr", "types.MemberAttr", "fewer than 4 exported attributes")
	}
	c.Floor("dup-attr", 4)
}

// ---------------------------------------------------------------------------
// isEnableChangeMembership: removing a healthy node must keep a quorum of healthy nodes

// c16LitOf: the function literal stored (once) in the local variable called at call.
func c16LitOf(g *an.Graph, call *ast.CallExpr) *an.Func {
	info := g.Fn.Info()
	id, ok := ast.Unparen(call.Fun).(*ast.Ident)
	if !ok {
		return nil
	}
	o, ok := info.Uses[id].(*types.Var)
	if !ok {
		return nil
	}
	rhs, _, other := c16ValueAssigns(g, o)
	if len(rhs) != 1 || other != 0 {
		return nil
	}
	lit, ok := ast.Unparen(rhs[0]).(*ast.FuncLit)
	if !ok {
		return nil
	}
	return g.Fn.Prog.LitFunc(lit)
}

func c16Availability(e *c16Env) {
	c, p := e.c, e.p
	f := c.Fn(c16Cluster + ".isEnableChangeMembership")
	if f == nil {
		return
	}
	g, info := f.Graph(), f.Info()
	name := f.Name()
	cc := c16Param(f, 0)
	statusF := p.LookupField(c16RaftPkg, "MemberProgress", "Status")
	nF := p.LookupField(c16RaftPkg, "ClusterProgress", "N")
	mpsF := p.LookupField(c16RaftPkg, "ClusterProgress", "MemberProgresses")
	if cc == nil || statusF == nil || nF == nil || mpsF == nil {
		c.Undecide("anchor", name, "ClusterProgress / MemberProgress fields not found")
		return
	}
	healthyAtom := func(inf *types.Info, subject types.Object) an.Atomizer {
		return func(x ast.Expr) (string, bool, bool) {
			be, ok := ast.Unparen(x).(*ast.BinaryExpr)
			if !ok || (be.Op != token.EQL && be.Op != token.NEQ) {
				return "", false, false
			}
			for _, pr := range [][2]ast.Expr{{be.X, be.Y}, {be.Y, be.X}} {
				base, fv := c16FieldSel(inf, pr[0], "Status")
				if fv == statusF && (subject == nil || an.ObjOf(inf, base) == subject) && c16IsConst(inf, pr[1], an.Module+"/"+c16RaftPkg, "MemberProgressStateHealthy") {
					return "healthy", be.Op == token.NEQ, true
				}
			}
			return "", false, false
		}
	}
	// the progress of the cluster
	cps := g.CallsTo(c16RS + ".GetClusterProgress")
	if len(cps) != 1 {
		c.Undecide("availability", name, "expected one GetClusterProgress site")
		return
	}
	cp := g.ResultVarAt(cps[0], 0)
	// classify the calls of local function literals
	var quorumCalls, countCalls []an.Site
	var quorumLit, countLit *an.Func
	for _, s := range g.Calls(nil) {
		if s.Fn != nil {
			continue
		}
		lit := c16LitOf(g, s.Call)
		if lit == nil || lit.Type.Results == nil || len(lit.Type.Results.List) != 1 {
			continue
		}
		rt := lit.Info().TypeOf(lit.Type.Results.List[0].Type)
		b, ok := rt.Underlying().(*types.Basic)
		if !ok {
			continue
		}
		switch {
		case b.Info()&types.IsBoolean != 0 && len(s.Call.Args) == 2:
			quorumCalls, quorumLit = append(quorumCalls, s), lit
		case b.Info()&types.IsInteger != 0 && len(s.Call.Args) == 1:
			countCalls, countLit = append(countCalls, s), lit
		}
	}
	if quorumLit == nil || countLit == nil || len(countCalls) != 1 {
		c.Undecide("availability", name, "the quorum predicate / the healthy counter (local function literals) were not recognised")
		return
	}
	// ---- the quorum predicate:  healthy >= total/2 + 1
	{
		lg, li := quorumLit.Graph(), quorumLit.Info()
		total, healthy := c16Param(quorumLit, 0), c16Param(quorumLit, 1)
		ok, why := false, ""
		rets := lg.Returns()
		if len(rets) == 1 {
			rs := rets[0].Ast.(*ast.ReturnStmt)
			if be, isB := ast.Unparen(rs.Results[0]).(*ast.BinaryExpr); isB {
				l, r, op := be.X, be.Y, be.Op
				if an.ObjOf(li, r) == healthy {
					l, r = r, l
					switch op {
					case token.LEQ:
						op = token.GEQ
					case token.LSS:
						op = token.GTR
					case token.GEQ:
						op = token.LEQ
					case token.GTR:
						op = token.LSS
					}
				}
				if an.ObjOf(li, l) == healthy && healthy != nil {
					base, off := c16Resolve(lg, r, 3)
					if q, isQ := ast.Unparen(base).(*ast.BinaryExpr); isQ && q.Op == token.QUO && an.ObjOf(li, q.X) == total {
						if two, isC := c16IntConst(li, q.Y); isC && two == 2 {
							ok = (op == token.GEQ && off == 1) || (op == token.GTR && off == 0)
							why = "healthy " + op.String() + " total/2 + " + itoa(int(off))
						}
					}
				}
			}
		}
		c.Check("availability", name+"|quorum-predicate", quorumLit.Pos(), ok, "the cluster is available iff healthy >= total/2 + 1 (a strict majority of all members is healthy) "+why)
	}
	// ---- the healthy counter counts members whose Status == Healthy
	{
		lg, li := countLit.Graph(), countLit.Info()
		ok := false
		cpParam := c16Param(countLit, 0)
		rets := lg.Returns()
		if len(rets) == 1 && cpParam != nil {
			V := an.ObjOf(li, rets[0].Ast.(*ast.ReturnStmt).Results[0])
			incs := lg.StmtNodes(func(n *an.Node) bool {
				s, isI := n.Ast.(*ast.IncDecStmt)
				return isI && s.Tok == token.INC && an.ObjOf(li, s.X) == V && V != nil
			})
			nMod := 0
			for _, n := range c16AssignNodes(lg, V) {
				if vs, isVS := n.Ast.(*ast.ValueSpec); isVS && len(vs.Values) == 0 {
					continue // var healthy int
				}
				nMod++
			}
			if len(incs) == 1 && nMod == 1 {
				okG, _ := lg.GuardedAt(incs[0], healthyAtom(li, nil), map[string]bool{"healthy": true})
				// the loop ranges over the member progresses of the parameter
				rng := false
				an.InspectShallow(countLit.Body, func(nd ast.Node) bool {
					if rs, isR := nd.(*ast.RangeStmt); isR {
						if base, fv := c16FieldSel(li, rs.X, "MemberProgresses"); fv == mpsF && an.ObjOf(li, base) == cpParam {
							rng = rs.Body.Pos() <= incs[0].Ast.Pos() && incs[0].Ast.End() <= rs.Body.End()
						}
					}
					return true
				})
				// only the healthy test guards the increment
				only := true
				for _, ft := range lg.FactsAt(incs[0]) {
					if !an.CondImplies(li, ft.Cond, ft.Val, healthyAtom(li, nil), map[string]bool{"healthy": true}) {
						only = false
					}
				}
				ok = okG && rng && only
			}
		}
		c.Check("availability", name+"|healthy-count", countLit.Pos(), ok, "the number of healthy members counts exactly the member progresses whose Status == MemberProgressStateHealthy")
	}
	H := g.ResultVarAt(countCalls[0], 0)
	okH := H != nil && len(c16AssignNodes(g, H)) == 1 && an.ObjOf(info, countCalls[0].Call.Args[0]) == cp && cp != nil
	c.Check("availability", name+"|healthy-source", countCalls[0].Call.Pos(), okH, "the healthy count is computed once from the cluster progress just read")
	// ---- the remove arm
	atRm := func(x ast.Expr) (string, bool, bool) {
		be, ok := ast.Unparen(x).(*ast.BinaryExpr)
		if !ok || (be.Op != token.EQL && be.Op != token.NEQ) {
			return "", false, false
		}
		for _, pr := range [][2]ast.Expr{{be.X, be.Y}, {be.Y, be.X}} {
			base, fv := c16FieldSel(info, pr[0], "Type")
			if fv != nil && an.ObjOf(info, base) == cc && c16IsConst(info, pr[1], c16Raftpb, "ConfChangeRemoveNode") {
				return "rm", be.Op == token.NEQ, true
			}
		}
		return "", false, false
	}
	rmEdges := g.EdgesImplying(atRm, map[string]bool{"rm": true})
	if len(rmEdges) == 0 {
		c.Undecide("availability", name, "no branch on cc.Type == ConfChangeRemoveNode")
		return
	}
	var rmFrom []*an.Node
	for ed := range rmEdges {
		rmFrom = append(rmFrom, ed)
	}
	inRm := g.Reach(rmFrom, nil)
	// the member progress of the node to remove:  mp, ok := cp.MemberProgresses[cc.NodeID]
	var mp types.Object
	for _, n := range g.StmtNodes(func(n *an.Node) bool { _, ok := n.Ast.(*ast.AssignStmt); return ok }) {
		as := n.Ast.(*ast.AssignStmt)
		if len(as.Rhs) != 1 || !inRm[n] {
			continue
		}
		ix, ok := ast.Unparen(as.Rhs[0]).(*ast.IndexExpr)
		if !ok {
			continue
		}
		base, fv := c16FieldSel(info, ix.X, "MemberProgresses")
		kb, kf := c16FieldSel(info, ix.Index, "NodeID")
		if fv == mpsF && an.ObjOf(info, base) == cp && kf != nil && an.ObjOf(info, kb) == cc {
			mp = an.ObjOf(info, as.Lhs[0])
		}
	}
	c.Check("availability", name+"|remove|subject", f.Pos(), mp != nil, "the health examined is that of the node to remove (cp.MemberProgresses[cc.NodeID])")
	var site *an.Site
	for i := range quorumCalls {
		if inRm[quorumCalls[i].Node] {
			if site != nil {
				c.Undecide("availability", name, "more than one quorum test in the remove arm")
				return
			}
			site = &quorumCalls[i]
		}
	}
	if site == nil {
		c.Check("availability", name+"|remove|guard", f.Pos(), false, "the remove arm tests the availability of the cluster without the node")
		return
	}
	// arguments: (cp.N - 1, healthy - 1)
	b0, o0 := c16SplitOff(info, site.Call.Args[0])
	b1, o1 := c16SplitOff(info, site.Call.Args[1])
	nb, nf := c16FieldSel(info, b0, "N")
	okArgs := nf == nF && an.ObjOf(info, nb) == cp && o0 == -1 && an.ObjOf(info, b1) == H && H != nil && o1 == -1
	c.Check("availability", name+"|remove|arguments", site.Call.Pos(), okArgs, "availability after the removal is evaluated for N-1 members of which healthy-1 are healthy (the node removed is healthy on this path); arguments: "+an.ExprString(site.Call.Args[0])+", "+an.ExprString(site.Call.Args[1]))
	// acceptance in the remove arm: slow node, or the quorum test passed
	pass := g.BoolEdges(*site, true)
	slow := an.Set{}
	if mp != nil {
		slow = g.EdgesImplying(healthyAtom(info, mp), map[string]bool{"healthy": false})
	}
	gates := pass.Union(slow)
	okAcc := len(pass) > 0
	r := g.Reach(rmFrom, gates)
	nAcc := 0
	for _, a := range c16NilErrReturns(g) {
		if !inRm[a] {
			continue
		}
		nAcc++
		if r[a] {
			okAcc = false
		}
	}
	c.Check("availability", name+"|remove|guard", site.Call.Pos(), okAcc && nAcc > 0, "a removal is accepted only when the node is not healthy, or the cluster stays available without it (every accepting return of the remove arm lies behind one of the two)")
	// the failing test leads only to error returns
	okRef := len(pass) > 0
	rr := g.Reach(c16FailEdges(g, pass), nil)
	for _, pr := range g.Exit.Preds {
		if rr[pr] {
			if _, isRet := pr.Ast.(*ast.ReturnStmt); !isRet || !c16SureErr(g, pr) {
				okRef = false
			}
		}
	}
	c.Check("availability", name+"|remove|refusal", site.Call.Pos(), okRef, "when the cluster would lose its healthy quorum the removal is refused with an error")
	c.Floor("availability", 7)
}

// ---------------------------------------------------------------------------
// proposals leave only after validation and the availability check

func c16ProposalGates(e *c16Env) {
	c, p := e.c, e.p
	// 1. who creates a ConfChangePropose
	nLit := 0
	for _, pk := range p.ModulePkgs() {
		if pk.TypesInfo == nil {
			continue
		}
		for _, file := range pk.Syntax {
			ast.Inspect(file, func(n ast.Node) bool {
				cl, ok := n.(*ast.CompositeLit)
				if !ok || !c16IsNamed(pk.TypesInfo.TypeOf(cl), an.Module+"/consensus", "ConfChangePropose") {
					return true
				}
				nLit++
				fn := "<package level>"
				if ef := p.EnclosingFunc(pk, cl.Pos()); ef != nil {
					fn = ef.TopDecl().Name()
				}
				c.Check("proposal-creators", fn, cl.Pos(), fn == c16Cluster+".makeProposal", "a membership proposal value is built only by Cluster.makeProposal (which validates it)")
				return true
			})
		}
	}
	if nLit == 0 {
		c.Undecide("proposal-creators", "consensus.ConfChangePropose", "no construction site found")
	}
	// 2. makeProposal validates before it returns a proposal
	if f := c.Fn(c16Cluster + ".makeProposal"); f != nil {
		g, info := f.Graph(), f.Info()
		vs := g.CallsTo(c16Cluster + ".validateChangeMembership")
		mk := g.CallsTo(c16Cluster + ".makeConfChange")
		if len(vs) != 1 || len(mk) != 1 {
			c.Undecide("proposal-gates", f.Name(), "expected one validateChangeMembership and one makeConfChange site")
		} else {
			gate := g.ErrNilEdges(vs[0])
			ok := len(gate) > 0
			n := 0
			for _, r := range c16NilErrReturns(g) {
				rs := r.Ast.(*ast.ReturnStmt)
				if tv, isNil := info.Types[rs.Results[0]]; isNil && tv.IsNil() {
					continue
				}
				n++
				if !g.Dominated(r, gate) {
					ok = false
				}
			}
			okF, _ := c16FailureReported(g, vs[0])
			c.Check("proposal-gates", f.Name()+"|validate", vs[0].Call.Pos(), ok && n > 0 && okF, "makeProposal returns a proposal only after validateChangeMembership accepted it; a refusal is returned as the error")
			// the conf change validated is the one put into the proposal, built from the member validated
			ccv := g.ResultVarAt(mk[0], 0)
			okArgs := ccv != nil && len(vs[0].Call.Args) >= 2 && an.ObjOf(info, vs[0].Call.Args[0]) == ccv
			var mem types.Object
			if okArgs {
				mem = an.ObjOf(info, vs[0].Call.Args[1])
				okArgs = mem != nil
				found := false
				for _, a := range mk[0].Call.Args {
					if an.ObjOf(info, a) == mem {
						found = true
					}
				}
				okArgs = okArgs && found
			}
			if okArgs {
				okArgs = false
				an.InspectShallow(f.Body, func(nd ast.Node) bool {
					cl, isCL := nd.(*ast.CompositeLit)
					if !isCL || !c16IsNamed(info.TypeOf(cl), an.Module+"/consensus", "ConfChangePropose") {
						return true
					}
					for _, el := range cl.Elts {
						if kv, isKV := el.(*ast.KeyValueExpr); isKV {
							if id, isID := kv.Key.(*ast.Ident); isID && id.Name == "Cc" && an.ObjOf(info, kv.Value) == ccv {
								okArgs = true
							}
						}
					}
					return true
				})
			}
			c.Check("proposal-gates", f.Name()+"|same-change", vs[0].Call.Pos(), okArgs, "the conf change that is validated is built from the validated member and is the one stored in the proposal")
		}
	}
	// 3. every caller of makeProposal runs the availability check on the proposal's change before the proposal leaves
	for _, cs := range p.CallSitesOf(map[string]bool{c16Cluster + ".makeProposal": true}) {
		if cs.Fn == nil {
			continue
		}
		f := cs.Fn
		g, info := f.Graph(), f.Info()
		name := f.Name()
		c.Fns[f.TopDecl().Name()] = true
		var mk *an.Site
		for _, s := range g.Calls(nil) {
			if s.Call == cs.Call {
				s := s
				mk = &s
			}
		}
		if mk == nil {
			c.Undecide("proposal-gates", name, "makeProposal call not located")
			continue
		}
		P := g.ResultVarAt(*mk, 0)
		en := g.CallsTo(c16Cluster + ".isEnableChangeMembership")
		if P == nil || len(en) != 1 {
			c.Check("proposal-gates", name+"|availability", cs.Call.Pos(), false, "the caller of makeProposal runs isEnableChangeMembership exactly once on the proposal")
			continue
		}
		okArg := false
		if len(en[0].Call.Args) == 1 {
			base, fv := c16FieldSel(info, en[0].Call.Args[0], "Cc")
			okArg = fv != nil && an.ObjOf(info, base) == P
		}
		g1, g2 := g.ErrNilEdges(*mk), g.ErrNilEdges(en[0])
		// escapes of the proposal: argument of a call other than the check, or returned
		nEsc := 0
		okEsc := len(g1) > 0 && len(g2) > 0
		for _, s := range g.Calls(nil) {
			if s.Call == mk.Call || s.Call == en[0].Call {
				continue
			}
			for _, a := range s.Call.Args {
				if an.ObjOf(info, a) == P {
					nEsc++
					if !g.Dominated(s.Node, g1) || !g.Dominated(s.Node, g2) {
						okEsc = false
					}
				}
			}
		}
		for _, r := range g.Returns() {
			rs := r.Ast.(*ast.ReturnStmt)
			for _, x := range rs.Results {
				if an.ObjOf(info, x) == P {
					nEsc++
					if !g.Dominated(r, g1) || !g.Dominated(r, g2) {
						okEsc = false
					}
				}
			}
		}
		okF1, _ := c16FailureReported(g, *mk)
		okF2, _ := c16FailureReported(g, en[0])
		c.Check("proposal-gates", name+"|availability", en[0].Call.Pos(), okArg && okEsc && nEsc > 0 && okF1 && okF2, "the proposal is submitted / handed out only after makeProposal (validation) and isEnableChangeMembership(proposal.Cc) both succeeded; a refusal is returned as the error")
	}
	// 4. callers of submitProposal
	for _, cs := range p.CallSitesOf(map[string]bool{c16Cluster + ".submitProposal": true}) {
		if cs.Fn == nil {
			continue
		}
		f := cs.Fn
		g := f.Graph()
		name := f.Name()
		hasMk := len(g.CallsTo(c16Cluster+".makeProposal")) == 1
		reason, ex := c16SubmitViaParam[name]
		msg := "submitProposal is called by a function that built and checked the proposal itself"
		if ex {
			msg += " — exception: " + reason
		}
		c.Check("proposal-submit", name, cs.Call.Pos(), hasMk || ex, msg)
	}
	c.Floor("proposal-submit", 2)
	// 5. the proposal channel is written only by submitProposal
	chF := p.LookupField(c16RaftPkg, "Cluster", "confChangeC")
	if pk := p.Pkg(c16RaftPkg); pk != nil && chF != nil {
		n := 0
		for _, file := range pk.Syntax {
			ast.Inspect(file, func(nd ast.Node) bool {
				ss, ok := nd.(*ast.SendStmt)
				if !ok || an.FieldOf(pk.TypesInfo, ss.Chan) != chF {
					return true
				}
				n++
				fn := "<package level>"
				if ef := p.EnclosingFunc(pk, ss.Pos()); ef != nil {
					fn = ef.TopDecl().Name()
				}
				c.Check("proposal-send", fn, ss.Pos(), fn == c16Cluster+".submitProposal", "a proposal is sent to the raft loop only by Cluster.submitProposal")
				return true
			})
		}
		if n == 0 {
			c.Undecide("proposal-send", "Cluster.confChangeC", "no send site found")
		}
	}
	// 6. BlockState.CCProposal is written only from the result of MakeConfChangeProposal
	if ccp := p.LookupField("state", "BlockState", "CCProposal"); ccp != nil {
		n := 0
		for _, w := range p.FieldWrites(map[*types.Var]bool{ccp: true}) {
			if w.Fn == nil {
				continue
			}
			g, info := w.Fn.Graph(), w.Fn.Info()
			node := g.NodeContaining(w.Pos)
			ok := false
			if node != nil {
				if as, isA := node.Ast.(*ast.AssignStmt); isA && len(as.Lhs) == 1 && len(as.Rhs) == 1 {
					if tv, isNil := info.Types[as.Rhs[0]]; isNil && tv.IsNil() {
						ok = true // reset
					} else if o := an.ObjOf(info, as.Rhs[0]); o != nil {
						for _, s := range g.Calls(nil) {
							if s.Fn != nil && s.Fn.Name() == "MakeConfChangeProposal" && g.ResultVarAt(s, 0) == o && g.Dominated(node, g.ErrNilEdges(s)) {
								ok = true
							}
						}
					}
				}
			}
			n++
			c.Check("proposal-flow", w.Fn.TopDecl().Name(), w.Pos, ok, "BlockState.CCProposal (submitted by the raft operator together with the block) is the result of a successful MakeConfChangeProposal")
		}
		if n == 0 {
			c.Undecide("proposal-flow", "state.BlockState.CCProposal", "no write found")
		}
	} else {
		c.Undecide("anchor", "state.BlockState.CCProposal", "field not found")
	}
	c.Floor("proposal-gates", 4)
}

// ---------------------------------------------------------------------------
// apply

func c16ApplyGates(e *c16Env) {
	c := e.c
	if f := c.Fn(c16RS + ".ValidateConfChangeEntry"); f != nil {
		g, info := f.Graph(), f.Info()
		vs := g.CallsTo(c16Cluster + ".validateChangeMembership")
		um := g.CallsTo(c16RaftPkg + ".unmarshalConfChangeEntry")
		if len(vs) != 1 || len(um) != 1 {
			c.Undecide("apply-gates", f.Name(), "expected one validateChangeMembership and one unmarshalConfChangeEntry site")
		} else {
			gate := g.ErrNilEdges(vs[0])
			ok := len(gate) > 0
			n := 0
			for _, r := range c16NilErrReturns(g) {
				n++
				if !g.Dominated(r, gate) {
					ok = false
				}
			}
			okF, _ := c16FailureReported(g, vs[0])
			c.Check("apply-gates", f.Name()+"|validate", vs[0].Call.Pos(), ok && n > 0 && okF, "a committed conf change entry is reported valid only after validateChangeMembership accepted it against the current applied / removed members")
			a, b := g.ResultVarAt(um[0], 0), g.ResultVarAt(um[0], 1)
			okA := a != nil && b != nil && len(vs[0].Call.Args) >= 2 && an.ObjOf(info, vs[0].Call.Args[0]) == a && an.ObjOf(info, vs[0].Call.Args[1]) == b
			c.Check("apply-gates", f.Name()+"|same-entry", vs[0].Call.Pos(), okA, "what is validated is the conf change and the member decoded from the entry being applied")
		}
	}
	if f := c.Fn(c16RS + ".applyConfChange"); f != nil {
		g := f.Graph()
		vs := g.CallsTo(c16RS + ".ValidateConfChangeEntry")
		if len(vs) != 1 {
			c.Undecide("apply-gates", f.Name(), "expected one ValidateConfChangeEntry site")
			return
		}
		gate := g.ErrNilEdges(vs[0])
		targets := g.CallsTo(c16Raftlib+".(Node).ApplyConfChange", c16Cluster+".addMember", c16Cluster+".removeMember")
		for _, t := range targets {
			c.Check("apply-gates", f.Name()+"|"+t.Fn.Name(), t.Call.Pos(), len(gate) > 0 && g.Dominated(t.Node, gate), "the membership change takes effect ("+t.Fn.Name()+") only after the entry was validated again at apply time")
		}
		if len(targets) < 3 {
			c.Undecide("apply-gates", f.Name(), "ApplyConfChange / addMember / removeMember sites not found")
		}
	}
	c.Floor("apply-gates", 5)
}

// ---------------------------------------------------------------------------
// closed mutator sets

func c16Mutators(e *c16Env) {
	c, p := e.c, e.p
	var keys []string
	for k := range c16MemberMutators {
		keys = append(keys, k)
	}
	sort.Strings(keys)
	for _, k := range keys {
		allowed := c16MemberMutators[k]
		callee := k
		appliedOnly := false
		if len(k) > 8 && k[len(k)-8:] == "|applied" {
			callee = k[:len(k)-8]
			appliedOnly = true
		}
		n := 0
		for _, cs := range p.CallSitesOf(map[string]bool{callee: true}) {
			fn := "<package level>"
			var info *types.Info
			if cs.Fn != nil {
				fn = cs.Fn.TopDecl().Name()
				info = cs.Fn.Info()
			}
			if appliedOnly {
				// only calls whose `applied` argument is not the constant false
				if info != nil && len(cs.Call.Args) == 2 {
					if tv, ok := info.Types[cs.Call.Args[1]]; ok && tv.Value != nil && tv.Value.String() == "false" {
						continue
					}
				}
			}
			n++
			reason, ok := allowed[fn]
			msg := c16Short(k) + " is called only from the enumerated functions"
			if ok {
				msg += " (" + reason + ")"
			}
			c.Check("member-mutators", c16Short(k)+"|"+fn, cs.Call.Pos(), ok, msg)
		}
		if n == 0 {
			c.Undecide("member-mutators", k, "no call site found")
		}
	}
	c.Floor("member-mutators", 6)
}
