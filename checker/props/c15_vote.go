package props

import (
	"go/ast"
	"go/token"
	"go/types"

	"verif/checker/internal/an"
)

const (
	c15SetVote   = "contract/system.setVote"
	c15GetVote   = "contract/system.getVote"
	c15GetVoteEx = "contract/system.GetVote"
	c15Sync      = "contract/system.(*VoteResult).Sync"
	c15GetAmount = "types.(*Staking).GetAmount"
)

// voteOrder: rules vote-order / vote-pair over every function that changes the
// vote tally through the add/sub function fields of vprCmd.
func (e *c15Env) voteOrder() {
	c, p := e.c, e.p
	addF := p.LookupField("contract/system", "vprCmd", "add")
	subF := p.LookupField("contract/system", "vprCmd", "sub")
	voteAmount := p.LookupField("types", "Vote", "Amount")
	if addF == nil || subF == nil || voteAmount == nil {
		c.Undecide("vote-order", "contract/system.vprCmd.{add,sub}", "tally function fields not found")
		return
	}
	// the function fields are bound only in the constructor, to literals that end in AddVote / SubVote
	e.vprBinding(addF, "contract/system.(*VoteResult).AddVote", "contract/system.(*vpr).add")
	e.vprBinding(subF, "contract/system.(*VoteResult).SubVote", "contract/system.(*vpr).sub")

	type fnSites struct {
		f         *an.Func
		adds, sub []an.Site
	}
	var fns []*fnSites
	// setVote arguments over the package (vote record writes), per enclosing method set
	type recWrite struct {
		f    *an.Func
		site an.Site
	}
	var recs []recWrite
	for _, f := range p.Funcs() {
		if f.Pkg != e.sys || f.Body == nil {
			continue
		}
		var all []*an.Func
		var walk func(x *an.Func)
		walk = func(x *an.Func) {
			all = append(all, x)
			for _, l := range x.Lits {
				walk(l)
			}
		}
		walk(f)
		for _, x := range all {
			g := x.Graph()
			info := x.Info()
			fs := &fnSites{f: x}
			for _, s := range g.Calls(func(_ *types.Func, call *ast.CallExpr) bool {
				v := an.CalleeVar(info, call)
				return v != nil && (v == addF || v == subF)
			}) {
				if an.CalleeVar(info, s.Call) == addF {
					fs.adds = append(fs.adds, s)
				} else {
					fs.sub = append(fs.sub, s)
				}
			}
			if len(fs.adds)+len(fs.sub) > 0 {
				fns = append(fns, fs)
			}
			for _, s := range g.CallsTo(c15SetVote) {
				recs = append(recs, recWrite{x, s})
			}
		}
	}
	for _, fs := range fns {
		f := fs.f
		g := f.Graph()
		r := c15ResolverOf(f)
		key := f.Name()
		c.Fns[key] = true
		if f.Lit != nil {
			c.Check("vote-order", key, f.Pos(), false, "the tally is changed inside a function literal: order cannot be decided")
			continue
		}
		_, fails := c15Returns(g)
		failSet := an.SetOf(fails...)
		addNodes := an.Set{}
		for _, a := range fs.adds {
			addNodes[a.Node] = true
		}
		syncNodes := an.Set{}
		for _, s := range g.CallsTo(c15Sync) {
			syncNodes[s.Node] = true
		}
		// sub dominates add, having succeeded
		for _, a := range fs.adds {
			ok := false
			for _, s := range fs.sub {
				if g.Dominated(a.Node, g.ErrNilEdges(s)) {
					ok = true
				}
			}
			c.Check("vote-order", key+"|sub<add", a.Call.Pos(), ok, "the old vote is subtracted (and the subtraction succeeded) on every path before the new vote is added")
			// after a successful add the tally is written back on every non-failing path
			okSync := len(syncNodes) > 0
			edges := g.ErrNilEdges(a)
			if len(edges) == 0 {
				okSync = false
			}
			for ed := range edges {
				if !g.PostDominated(ed, syncNodes.Union(failSet)) {
					okSync = false
				}
			}
			c.Check("vote-order", key+"|add<sync", a.Call.Pos(), okSync, "after a successful add every path to a success return passes VoteResult.Sync (the tally is persisted)")
		}
		// a sub is always followed by an add (or the transaction fails)
		for _, s := range fs.sub {
			ok := len(addNodes) > 0
			edges := g.ErrNilEdges(s)
			if len(edges) == 0 {
				ok = false
			}
			for ed := range edges {
				if !g.PostDominated(ed, addNodes.Union(failSet)) {
					ok = false
				}
			}
			c.Check("vote-order", key+"|sub→add", s.Call.Pos(), ok, "after a successful sub every non-failing path passes add: a vote is never only removed from the tally")
		}
		// value pairing
		for _, a := range fs.adds {
			if len(a.Call.Args) != 1 {
				continue
			}
			av := r.Resolve(a.Call.Args[0])
			// (i) the vote added is the vote recorded
			paired := false
			var pairedRec *recWrite
			for i := range recs {
				rw := &recs[i]
				// the record written: the *types.Vote argument of setVote, wherever it stands
				rec := c15TypedArg(rw.site.Fn, rw.site.Call, c15IsPtrTo(an.Module+"/types", "Vote"))
				if rec == nil {
					continue
				}
				rr := c15ResolverOf(rw.f)
				if rw.f.TopDecl() == f.TopDecl() {
					if r.SameValue(a.Call.Args[0], rec) {
						paired, pairedRec = true, rw
					}
					continue
				}
				// another method of the same receiver type: same field
				fa := an.FieldOf(r.info, av.Expr)
				if av.Expr != nil && fa != nil && fa == rr.Field(rec) && c15SameRecvType(f, rw.f) {
					paired, pairedRec = true, rw
				}
			}
			c.Check("vote-pair", key+"|add=record", a.Call.Pos(), paired, "the vote added to the tally is the value written to the voter's record by setVote")
			// (ii) the vote subtracted is the previously recorded vote
			for _, s := range fs.sub {
				if len(s.Call.Args) != 1 {
					continue
				}
				sv := r.Resolve(s.Call.Args[0])
				okOld := false
				how := ""
				switch {
				case sv.Expr != nil && an.FieldOf(r.info, sv.Expr) == e.fVote:
					okOld = e.voteFieldSource()
					how = "context.Vote, which is only ever set from validateForVote's result"
				case sv.Call != nil && sv.Idx == 0 && (c15CalleeName(r.info, sv.Call) == c15GetVote || c15CalleeName(r.info, sv.Call) == c15GetVoteEx):
					okOld = true
					how = "the record just read by getVote"
				}
				c.Check("vote-pair", key+"|sub=old", s.Call.Pos(), okOld, "the vote subtracted is the voter's previous record ("+how+")")
				// (iii) if sub and add take the same object, its amount is replaced by the current stake in between
				if r.SameValue(a.Call.Args[0], s.Call.Args[0]) {
					var w *an.Node
					for _, n := range g.StmtNodes(func(n *an.Node) bool {
						as, ok := n.Ast.(*ast.AssignStmt)
						if !ok || as.Tok != token.ASSIGN || len(as.Lhs) != 1 || len(as.Rhs) != 1 {
							return false
						}
						if an.FieldOf(r.info, as.Lhs[0]) != voteAmount {
							return false
						}
						sel := ast.Unparen(as.Lhs[0]).(*ast.SelectorExpr)
						if !r.SameValue(sel.X, a.Call.Args[0]) {
							return false
						}
						rv := r.Resolve(as.Rhs[0])
						return rv.Call != nil && c15CalleeName(r.info, rv.Call) == c15GetAmount && e.recvIsField(r, rv.Call, e.fStaked)
					}) {
						w = n
					}
					ok := w != nil && g.Dominated(w, g.ErrNilEdges(s)) && g.Dominated(a.Node, an.SetOf(w)) && !g.InLoop(w) == !g.InLoop(a.Node)
					if ok && pairedRec != nil && pairedRec.f == f {
						ok = g.Dominated(pairedRec.site.Node, an.SetOf(w))
					}
					c.Check("vote-pair", key+"|shrink", a.Call.Pos(), ok, "between sub and add the vote's Amount is replaced by the context's current Staked amount, before it is recorded and added")
				}
			}
		}
	}
	c.Floor("vote-order", 5)
	c.Floor("vote-pair", 5)

	// the new vote of a vote command carries the current stake
	if nv := p.LookupField("contract/system", "voteCmd", "newVote"); nv != nil {
		ws, complete := e.fieldWriteValues(nv)
		if len(ws) == 0 || !complete {
			c.Undecide("vote-pair", "contract/system.voteCmd.newVote", "writes of the new vote not enumerable")
		}
		for _, w := range ws {
			ok := false
			if w.fn != nil && w.expr != nil {
				r := c15ResolverOf(w.fn)
				x := ast.Unparen(r.Resolve(w.expr).Expr)
				if u, isU := x.(*ast.UnaryExpr); isU && u.Op == token.AND {
					x = u.X
				}
				if cl, isCL := x.(*ast.CompositeLit); isCL {
					for _, el := range cl.Elts {
						kv, isKV := el.(*ast.KeyValueExpr)
						if !isKV {
							continue
						}
						if id, isID := kv.Key.(*ast.Ident); isID && r.info.Uses[id] == voteAmount {
							rv := r.Resolve(kv.Value)
							ok = rv.Call != nil && c15CalleeName(r.info, rv.Call) == c15GetAmount && e.recvIsField(r, rv.Call, e.fStaked)
						}
					}
				}
			}
			fn := "<package level>"
			if w.fn != nil {
				fn = w.fn.Name()
			}
			c.Check("vote-pair", fn+"|newVote.Amount", w.pos, ok, "the new vote's Amount is the context's Staked amount (a vote never exceeds the stake)")
		}
	} else {
		c.Undecide("vote-pair", "contract/system.voteCmd.newVote", "field not found")
	}
}

func c15SameRecvType(a, b *an.Func) bool {
	ra, rb := c15RecvNamed(a.TopDecl()), c15RecvNamed(b.TopDecl())
	return ra != nil && ra == rb
}

func c15RecvNamed(f *an.Func) *types.Named {
	if f == nil || f.Obj == nil {
		return nil
	}
	sig := f.Obj.Type().(*types.Signature)
	if sig.Recv() == nil {
		return nil
	}
	t := sig.Recv().Type()
	if pt, ok := t.(*types.Pointer); ok {
		t = pt.Elem()
	}
	n, _ := t.(*types.Named)
	return n
}

// voteFieldSource: every write of SystemContext.Vote lies in ValidateSystemTx
// and its value is result 1 of a validateForVote call.
func (e *c15Env) voteFieldSource() bool {
	ws, complete := e.fieldWriteValues(e.fVote)
	if !complete || len(ws) == 0 {
		return false
	}
	for _, w := range ws {
		if w.fn == nil || w.expr == nil {
			return false
		}
		r := c15ResolverOf(w.fn)
		v := r.Resolve(w.expr)
		if v.Call == nil || v.Idx != 1 || c15CalleeName(r.info, v.Call) != "contract/system.validateForVote" {
			return false
		}
	}
	return true
}

// vprBinding: the function field is assigned only function literals (in one
// constructor) and each literal's every return passes the tally method; the
// voting-power side effect, if any, is the matching vpr method.
func (e *c15Env) vprBinding(field *types.Var, tally, power string) {
	c := e.c
	ws, complete := e.fieldWriteValues(field)
	if !complete || len(ws) == 0 {
		c.Undecide("vote-binding", field.Name(), "assignments of the tally function field are not enumerable")
		return
	}
	opposite := map[string]string{
		"contract/system.(*VoteResult).AddVote": "contract/system.(*VoteResult).SubVote",
		"contract/system.(*VoteResult).SubVote": "contract/system.(*VoteResult).AddVote",
	}
	for i, w := range ws {
		lit, _ := ast.Unparen(w.expr).(*ast.FuncLit)
		key := "vprCmd." + field.Name() + "#" + itoa(i+1)
		if lit == nil || w.fn == nil {
			c.Check("vote-binding", key, w.pos, false, "the tally function field is bound to something other than a function literal")
			continue
		}
		lf := e.p.LitFunc(lit)
		g := lf.Graph()
		t := g.CallsTo(tally)
		ok := len(t) >= 1 && len(g.CallsTo(opposite[tally])) == 0
		if ok {
			gates := an.Set{}
			for _, s := range t {
				gates[s.Node] = true
			}
			for _, rn := range g.Returns() {
				if !gates[rn] && !g.Dominated(rn, gates) {
					ok = false
				}
			}
		}
		// reachable voting-power update has the same direction
		cg := e.callGraph()
		reach := cg.ReachableFrom([]*an.Func{lf}, func(ed an.Edge) bool { return ed.Callee != nil && ed.Callee.Pkg == e.sys })
		other := "contract/system.(*vpr).add"
		if power == other {
			other = "contract/system.(*vpr).sub"
		}
		for f := range reach {
			if f.Body == nil {
				continue
			}
			if f != lf && (f.Name() == tally || f.Name() == opposite[tally]) {
				continue
			}
			if len(f.Graph().CallsTo(other)) > 0 {
				ok = false
			}
		}
		c.Check("vote-binding", key, w.pos, ok, "vprCmd."+field.Name()+" is bound to a literal whose every return passes "+tally+" and which never reaches the opposite voting-power update")
	}
	c.Floor("vote-binding", 3)
}

var c15CG *an.CallGraph

func (e *c15Env) callGraph() *an.CallGraph {
	if c15CG == nil || c15CG.Prog != e.p {
		c15CG = e.p.BuildCallGraph()
	}
	return c15CG
}
