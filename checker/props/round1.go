package props

import (
	"go/ast"
	"go/token"
	"go/types"

	"golang.org/x/tools/go/cfg"

	"verif/checker/internal/an"
	"verif/checker/internal/rep"
)

// Rules added after the first round of independently seeded changes (see
// DESIGN.md section 10): each is a structural necessary condition of its
// property that the first version of the checks did not cover.

func init() {
	extend("C01", c01SameAccountByID)
	extend("C03", c03PerStorageLoops)
	extend("C12", c03PerStorageLoops12)
	extend("C13", c13FetchGapFree)
	extend("C14", c14ParamPositive)
	extend("C17", c17RetryNotBlocked)
}

// --- C01: SendBalance treats "same account" by account id, not by object ---
//
// executeTx loads two AccountState objects when sender and recipient are the
// same account and stores only one of them; the transfer must then be a no-op,
// which SendBalance guarantees only if it compares account identities.
func c01SameAccountByID(c *rep.Ctx) {
	f := c.Fn(c01Send)
	if f == nil {
		return
	}
	g := f.Graph()
	info := f.Info()
	subs := sitesOf(f, c01Sub)
	if len(subs) != 1 {
		return
	}
	sender, receiver := f.ParamObj(0), f.ParamObj(1)
	at := func(e ast.Expr) (string, bool, bool) {
		be, ok := e.(*ast.BinaryExpr)
		if !ok || (be.Op != token.EQL && be.Op != token.NEQ) {
			return "", false, false
		}
		idOf := func(x ast.Expr) types.Object {
			call, ok := ast.Unparen(x).(*ast.CallExpr)
			if !ok || an.CalleeName(info, call) != "state.(*AccountState).AccountID" {
				return nil
			}
			return recvObj(info, call)
		}
		a, b := idOf(be.X), idOf(be.Y)
		if (a == sender && b == receiver) || (a == receiver && b == sender) {
			return "same", be.Op == token.NEQ, true
		}
		return "", false, false
	}
	n := 0
	for _, r := range g.NilReturns() {
		// returns that skip the debit
		if g.Dominated(r, nodesOf(subs)) {
			continue
		}
		n++
		ok, how := g.GuardedAt(r, at, map[string]bool{"same": true})
		c.Check("transfer", c01Send+"|noop-only-for-same-account-id", r.Ast.Pos(), ok, "SendBalance returns without moving coin only when sender and receiver have the same account id (two AccountState objects of one account are distinct pointers: the executor stores only one of them): "+how)
	}
	// and the debit happens only for different ids
	okDebit, how := g.GuardedAt(subs[0].Node, at, map[string]bool{"same": false})
	c.Check("transfer", c01Send+"|moves-only-between-different-ids", subs[0].Call.Pos(), okDebit && n >= 1, "the debit/credit pair runs only when the two account ids differ: "+how)
}

// --- C03/C12: the per-contract loops of the storage cache visit every storage ---
func c03PerStorageLoops(c *rep.Ctx)   { c03PerStorageLoopsRule(c, "failed-block") }
func c03PerStorageLoops12(c *rep.Ctx) { c03PerStorageLoopsRule(c, "cache-rollback") }

func c03PerStorageLoopsRule(c *rep.Ctx, rule string) {
	for _, name := range []string{"state/statedb.(*storageCache).Rollback", "state/statedb.(*storageCache).Snapshot"} {
		f := c.Fn(name)
		if f == nil {
			continue
		}
		g := f.Graph()
		nilRets := an.Set{}
		for _, r := range g.NilReturns() {
			nilRets[r] = true
		}
		n := 0
		ast.Inspect(f.Body, func(nd ast.Node) bool {
			rs, ok := nd.(*ast.RangeStmt)
			if !ok {
				return true
			}
			n++
			okLoop := true
			why := "every cached contract storage is visited: the loop is left early only with an error"
			ast.Inspect(rs.Body, func(m ast.Node) bool {
				switch s := m.(type) {
				case *ast.ReturnStmt:
					if node := g.NodeOf(s); node != nil && nilRets[node] {
						okLoop, why = false, "the loop over the cached contract storages returns from inside the body with a possibly-nil error: only the first storage visited (in map order) is processed"
					}
				case *ast.BranchStmt:
					if s.Tok == token.BREAK || s.Tok == token.GOTO {
						okLoop, why = false, "the loop over the cached contract storages can be left with break before every storage was processed"
					}
				case *ast.FuncLit:
					return false
				}
				return true
			})
			c.Check(rule, name+"|every-storage", rs.Pos(), okLoop, why)
			return true
		})
		if n == 0 {
			c.Undecide(rule, name, "no loop over the cached storages found")
		}
	}
}

// --- C13: a size-limited fetch never skips inside one account's ready run ---
func c13FetchGapFree(c *rep.Ctx) {
	f := c.Fn("mempool.(*MemPool).get")
	if f == nil {
		return
	}
	g := f.Graph()
	info := f.Info()
	// the inner loop ranges over txList.Get() (the ready run of one account)
	var inner *ast.RangeStmt
	ast.Inspect(f.Body, func(n ast.Node) bool {
		if rs, ok := n.(*ast.RangeStmt); ok && containsCallTo(info, rs.X, "mempool.(*txList).Get") {
			inner = rs
		}
		return true
	})
	if inner == nil {
		c.Undecide("fetch-gap-free", "mempool.(*MemPool).get", "no loop over txList.Get() found")
		return
	}
	// the statement that hands the transaction out:  txs = append(txs, tx)
	elem := an.ObjOf(info, inner.Value)
	var appendNode *an.Node
	for _, n := range g.StmtNodes(func(n *an.Node) bool { _, ok := n.Ast.(*ast.AssignStmt); return ok }) {
		as := n.Ast.(*ast.AssignStmt)
		if len(as.Rhs) == 1 {
			if call, ok := ast.Unparen(as.Rhs[0]).(*ast.CallExpr); ok && an.IsBuiltin(info, call, "append") && len(call.Args) == 2 && an.ObjOf(info, call.Args[1]) == elem && elem != nil {
				appendNode = n
			}
		}
	}
	// loop head of the inner range and its body entry
	var head, body *an.Node
	for _, n := range g.Nodes {
		if n.Kind == an.KHead && n.Block != nil && n.Block.Kind == cfg.KindRangeLoop && n.Block.Stmt == ast.Stmt(inner) {
			head = n
			for _, s := range n.Succs {
				if s.Kind == an.KTrue {
					body = s
				}
			}
		}
	}
	ok := appendNode != nil && head != nil && body != nil
	if ok {
		// within the loop body (paths that leave the run - break, labelled break, return - do not count)
		// the loop head is reachable again from the start of an iteration only through the append
		inRegion := func(n *an.Node) bool {
			if n == head {
				return true
			}
			if n.Kind == an.KStmt && n.Ast != nil {
				return n.Ast.Pos() >= inner.Body.Pos() && n.Ast.End() <= inner.Body.End()
			}
			if n.Block == nil {
				return false
			}
			if n.Block.Stmt == ast.Stmt(inner) {
				return n.Block.Kind == cfg.KindRangeBody || (n.Block.Kind == cfg.KindRangeLoop && n.Kind == an.KTrue)
			}
			return n.Block.Stmt != nil && n.Block.Stmt.Pos() >= inner.Body.Pos() && n.Block.Stmt.End() <= inner.Body.End()
		}
		avoid := an.SetOf(appendNode)
		for _, n := range g.Nodes {
			if !inRegion(n) {
				avoid[n] = true
			}
		}
		ok = !g.Reach([]*an.Node{body}, avoid)[head]
	}
	c.Check("fetch-gap-free", "mempool.(*MemPool).get|no-skip-in-run", inner.Pos(), ok, "inside one account's ready run an iteration that does not hand the transaction out leaves the run (a later nonce is never returned without the earlier one)")
	// the transactions come from the ready prefix only
	c.CheckTrivial("fetch-gap-free", "mempool.(*MemPool).get|source", inner.Pos(), true, "the fetch iterates txList.Get(), the ready prefix")
}

// --- C14: a governance parameter value of zero is never accepted ---
//
// The gas price is a divisor (fee.CalcGas, MaxGasLimit) and the producer count
// a modulus (slot ownership): accepting zero turns later admission / block
// execution into a division by zero.
func c14ParamPositive(c *rep.Ctx) {
	f := c.Fn("contract/system.validateById")
	if f == nil {
		return
	}
	g := f.Graph()
	info := f.Info()
	cand := f.ParamObj(1)
	isZero := func(e ast.Expr) bool {
		if c01IsZeroBig(info, e) {
			return true
		}
		if o := an.ObjOf(info, e); o != nil {
			if v, ok := o.(*types.Var); ok && v.Pkg() != nil && v.Parent() == v.Pkg().Scope() && (v.Name() == "zeroValue" || v.Name() == "zeroBig") {
				return true
			}
		}
		return false
	}
	// three-way comparisons of the candidate with zero:  X.Cmp(Y) op 0  /  X.Sign() op 0
	type tcmp struct {
		node *an.Node
		expr ast.Expr
		op   token.Token // candidate op 0
	}
	var cmps []tcmp
	for _, n := range g.Nodes {
		if n.Kind != an.KStmt || len(n.Succs) != 2 {
			continue
		}
		cond, ok := n.Ast.(ast.Expr)
		if !ok {
			continue
		}
		an.InspectShallow(cond, func(m ast.Node) bool {
			be, ok := m.(*ast.BinaryExpr)
			if !ok {
				return true
			}
			tv, has := info.Types[be.Y]
			if !has || tv.Value == nil || tv.Value.ExactString() != "0" {
				return true
			}
			call, ok := ast.Unparen(be.X).(*ast.CallExpr)
			if !ok {
				return true
			}
			op := be.Op
			switch an.CalleeName(info, call) {
			case "math/big.(*Int).Sign":
				if recvObj(info, call) != cand {
					return true
				}
			case "math/big.(*Int).Cmp":
				sel, _ := ast.Unparen(call.Fun).(*ast.SelectorExpr)
				switch {
				case recvObj(info, call) == cand && len(call.Args) == 1 && isZero(call.Args[0]):
				case sel != nil && isZero(sel.X) && len(call.Args) == 1 && an.ObjOf(info, call.Args[0]) == cand:
					op = flipOpTok(op)
				default:
					return true
				}
			default:
				return true
			}
			cmps = append(cmps, tcmp{n, be, op})
			return true
		})
	}
	holds := func(op token.Token, sign int) bool { return an.OrdCmp{Op: op}.Holds(sign) }
	trues := g.BoolReturns(true)
	if len(trues) == 0 {
		c.Undecide("param-positive", "contract/system.validateById", "no accepting return found")
		return
	}
	for _, r := range trues {
		ok := false
		for _, cm := range cmps {
			if !g.Dominated(r, an.SetOf(cm.node)) {
				continue
			}
			e := g.EdgeUnder(cm.node, cm.expr, holds(cm.op, 0), nil, nil)
			if e != nil && !g.Reach([]*an.Node{e}, nil)[r] {
				ok = true
			}
		}
		c.Check("param-positive", "contract/system.validateById|zero-rejected", r.Ast.Pos(), ok, "a governance parameter value of zero is never accepted (the gas price is a divisor, the producer count a modulus: zero makes later admission and block execution divide by zero)")
	}
}

func flipOpTok(op token.Token) token.Token {
	switch op {
	case token.LSS:
		return token.GTR
	case token.GTR:
		return token.LSS
	case token.LEQ:
		return token.GEQ
	case token.GEQ:
		return token.LEQ
	}
	return op
}

// --- C17: the connect-queue limit never blocks a retry task ---
//
// The chunk that must be connected next may have to be fetched again while
// later chunks already fill the connect queue; if the scheduler refuses to run
// it because the queue is full, the queue can never drain and the session
// hangs without an error.
func c17RetryNotBlocked(c *rep.Ctx) {
	f := c.Fn("syncer.(*BlockFetcher).schedule")
	if f == nil {
		return
	}
	g := f.Graph()
	info := f.Info()
	p := c.Prog
	connQ := p.LookupField("syncer", "BlockProcessor", "connQueue")
	maxP := p.LookupField("syncer", "BlockFetcher", "maxPendingConn")
	if connQ == nil || maxP == nil {
		c.Undecide("retry-not-blocked", "syncer.BlockFetcher", "connQueue / maxPendingConn fields not found")
		return
	}
	resolve := func(e ast.Expr) ast.Expr {
		if o := an.ObjOf(info, e); o != nil {
			if rhs, _ := g.SingleDefInLoop(o); rhs != nil {
				return rhs
			}
		}
		return e
	}
	isLenQ := func(e ast.Expr) bool {
		call, ok := ast.Unparen(resolve(e)).(*ast.CallExpr)
		return ok && an.IsBuiltin(info, call, "len") && readsField(info, call.Args[0], connQ)
	}
	isMax := func(e ast.Expr) bool { return an.FieldOf(info, resolve(e)) == maxP }
	// atom FULL: len(connQueue) >= maxPendingConn
	at := func(e ast.Expr) (string, bool, bool) {
		be, ok := e.(*ast.BinaryExpr)
		if !ok {
			return "", false, false
		}
		op := be.Op
		switch {
		case isLenQ(be.X) && isMax(be.Y):
		case isMax(be.X) && isLenQ(be.Y):
			op = flipOpTok(op)
		default:
			return "", false, false
		}
		switch op {
		case token.GEQ:
			return "FULL", false, true
		case token.LSS:
			return "FULL", true, true
		}
		return "", false, false
	}
	run := sitesOf(f, "syncer.(*BlockFetcher).runTask")
	if len(run) != 1 {
		c.Undecide("retry-not-blocked", "syncer.(*BlockFetcher).schedule", "runTask call not found")
		return
	}
	blocked, _ := g.GuardedAt(run[0].Node, at, map[string]bool{"FULL": false})
	// and the exception is really for retry tasks: the exit on a full queue is conjoined with `retry <= 0`
	retryF := p.LookupField("syncer", "FetchTask", "retry")
	exc := false
	for _, n := range g.Nodes {
		if n.Kind != an.KStmt || len(n.Succs) != 2 {
			continue
		}
		if cond, ok := n.Ast.(ast.Expr); ok && retryF != nil && readsField(info, cond, retryF) {
			exc = true
		}
	}
	c.Check("retry-not-blocked", "syncer.(*BlockFetcher).schedule|runTask", run[0].Call.Pos(), !blocked && exc, "a task is started although the connect queue is full when it is a retry (it can be the next block to connect: refusing it would leave the queue full for ever and the session would hang without an error)")
}
