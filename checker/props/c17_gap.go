package props

import (
	"go/ast"
	"go/token"
	"go/types"

	"golang.org/x/tools/go/cfg"

	"verif/checker/internal/an"
	"verif/checker/internal/rep"
)

// C17 gap rules (found by applying realistic breaking patches that no rule
// decided; the base rules cover the block processor and the sequence table,
// these cover the actor/worker channel protocol, the fetch-task and peer
// bookkeeping of the block fetcher, and the start/range of the ancestor search):
//
//	actor-send         a send executed on the syncer's actor goroutine is
//	                   non-blocking (select with default), or goes to a
//	                   buffered channel, or goes to a worker whose receiving
//	                   select never stops listening on its own (only the
//	                   receive arm itself and arms on a quit channel closed by
//	                   the actor may leave): otherwise a late answer blocks the
//	                   actor for ever with the worker's stop request queued
//	                   behind it
//	session-exclusive  handleSyncStart advances the sequence / builds the
//	                   context / starts the finder only where !isRunning is known
//	task-conserved     a fetch task handed out by findFinished or to
//	                   processFailedTask has been removed from the running
//	                   queue; processFailedTask re-queues it on every
//	                   successful return; a task obtained from findFinished is
//	                   queued for connection or re-queued on every path
//	peer-conserved     the peer of such a task is given back (pushFreePeer) or
//	                   penalised (processPeerFail: free list or bad list)
//	all-bad-stops      processFailedTask succeeds only where isAllBad() is
//	                   known false (nothing else reports "no peer left")
//	match-count        FetchTask.isMatched says true only after comparing the
//	                   number of received blocks with the task's count
//	insert-shift       the index store of pushToConnQueue is an insert (grown by
//	                   one, tail shifted by copy) and the result is written back
//	answer-err         GetHashByNoRsp / GetHashesRsp / FinderResult: the Err of
//	                   the answer is honoured before the payload is used
//	err-propagates-lit a failed call of an error-returning local function
//	                   literal makes the enclosing syncer function fail
//	scan-range         the full scan covers [0, LastAnchor-1] (or more); the
//	                   LastNo reported with the anchors is the number of the
//	                   last anchor appended
//	start-point        processor and hash fetcher start at the session's
//	                   common ancestor and stop at its target
//	retry-first        searchCandidateTask offers a pending task only where the
//	                   retry queue is known empty (schedule lets only retry
//	                   tasks pass a full connect queue)
//	submit-request     the synchronising AddBlock is sent with RequestTo (the
//	                   chain service answers to the sender; a Tell has none)
func init() { extend("C17", c17GapRun) }

func c17GapRun(c *rep.Ctx) {
	c.NotDecided = append(c.NotDecided,
		"that the buffer of BlockFetcher.responseCh (2 x maxBlockReqTasks) is at least the number of answers that can be outstanding when the fetcher goroutine has exited (actor-send accepts any buffered channel)",
		"that an AddBlockRsp belongs to the running session (the message has no Seq: a late answer of an earlier session is only recognised by number/hash of the block in flight and then ends the new session with an error)",
		"that Finder.getAnchors looks at GetAnchorsRsp.Err (it does not; table row in answer-err: the session still ends with an error)",
	)
	c17GapActorSend(c)
	c17GapSessionExclusive(c)
	c17GapTasks(c)
	c17GapMatchCount(c)
	c17GapInsertShift(c)
	c17GapAnswerErr(c)
	c17GapLitErr(c)
	c17GapScanRange(c)
	c17GapStartPoint(c)
	c17GapRetryFirst(c)
	c17GapSubmitRequest(c)
}

// ---------------------------------------------------------------------------
// small helpers

// c17GapPkgFuncs: every function of the package, literals included.
func c17GapPkgFuncs(p *an.Prog, rel string) []*an.Func {
	pk := p.Pkg(rel)
	var out []*an.Func
	for _, f := range p.Funcs() {
		if f.Pkg == pk {
			out = append(out, c17Lits(f)...)
		}
	}
	return out
}

// c17GapRecvOf: `<-x` (possibly parenthesised) -> x.
func c17GapRecvOf(e ast.Expr) ast.Expr {
	if u, ok := ast.Unparen(e).(*ast.UnaryExpr); ok && u.Op == token.ARROW {
		return u.X
	}
	return nil
}

// c17GapCommRecv: the channel expression a comm clause receives from (nil for sends / default).
func c17GapCommRecv(cl *ast.CommClause) ast.Expr {
	switch s := cl.Comm.(type) {
	case *ast.ExprStmt:
		return c17GapRecvOf(s.X)
	case *ast.AssignStmt:
		if len(s.Rhs) == 1 {
			return c17GapRecvOf(s.Rhs[0])
		}
	}
	return nil
}

// c17GapWalk visits the nodes of body (not nested literals) with the stack of ancestors.
func c17GapWalk(body ast.Node, fn func(n ast.Node, stack []ast.Node)) {
	var stack []ast.Node
	ast.Inspect(body, func(n ast.Node) bool {
		if n == nil {
			stack = stack[:len(stack)-1]
			return true
		}
		if _, ok := n.(*ast.FuncLit); ok && n != body {
			return false
		}
		fn(n, stack)
		stack = append(stack, n)
		return true
	})
}

// c17GapSelectOf: the select statement and clause whose Comm contains the node on top of the stack.
func c17GapSelectOf(n ast.Node, stack []ast.Node) (*ast.SelectStmt, *ast.CommClause) {
	for i := len(stack) - 1; i >= 0; i-- {
		cl, ok := stack[i].(*ast.CommClause)
		if !ok {
			continue
		}
		if cl.Comm == nil || !c17In(cl.Comm, n.Pos()) {
			return nil, nil // inside the body of a clause: an ordinary statement
		}
		for j := i - 1; j >= 0; j-- {
			if s, ok := stack[j].(*ast.SelectStmt); ok {
				return s, cl
			}
		}
		return nil, nil
	}
	return nil, nil
}

func c17GapHasDefault(s *ast.SelectStmt) bool {
	for _, cc := range s.Body.List {
		if cl, ok := cc.(*ast.CommClause); ok && cl.Comm == nil {
			return true
		}
	}
	return false
}

// c17GapHasTimeArm: one arm receives from time.After(...) or from the C of a time.Timer / time.Ticker.
func c17GapHasTimeArm(info *types.Info, s *ast.SelectStmt) bool {
	for _, cc := range s.Body.List {
		cl, ok := cc.(*ast.CommClause)
		if !ok || cl.Comm == nil {
			continue
		}
		ch := c17GapCommRecv(cl)
		if ch == nil {
			continue
		}
		ch = ast.Unparen(ch)
		if call, ok := ch.(*ast.CallExpr); ok && an.CalleeName(info, call) == "time.After" {
			return true
		}
		if fld := an.FieldOf(info, ch); fld != nil && fld.Name() == "C" && fld.Pkg() != nil && fld.Pkg().Path() == "time" {
			return true
		}
	}
	return false
}

// c17GapListCall: x.<field>.<method>(...) of container/list through the queue
// field `fld` (TaskQueue embeds list.List; PeerSet holds *list.List).
func c17GapListCall(info *types.Info, call *ast.CallExpr, fld *types.Var, method string) bool {
	sel, ok := ast.Unparen(call.Fun).(*ast.SelectorExpr)
	if !ok || sel.Sel.Name != method {
		return false
	}
	fn := an.Callee(info, call)
	if fn == nil || fn.Pkg() == nil || fn.Pkg().Path() != "container/list" {
		return false
	}
	return an.FieldOf(info, sel.X) == fld
}

// c17GapParams lists the parameter objects of f in order.
func c17GapParams(f *an.Func) []types.Object {
	var out []types.Object
	if f.Type.Params == nil {
		return nil
	}
	for _, fl := range f.Type.Params.List {
		for _, nm := range fl.Names {
			out = append(out, f.Info().Defs[nm])
		}
	}
	return out
}

// c17GapLitValue returns the value given to field fld in composite literal lit.
func c17GapLitValue(info *types.Info, lit *ast.CompositeLit, fld *types.Var) ast.Expr {
	for _, el := range lit.Elts {
		if kv, ok := el.(*ast.KeyValueExpr); ok {
			if id, ok := kv.Key.(*ast.Ident); ok && info.Uses[id] == fld {
				return kv.Value
			}
		}
	}
	return nil
}

// ---------------------------------------------------------------------------
// actor-send

type c17GapRecvSite struct {
	fn     *an.Func
	sel    *ast.SelectStmt // nil: plain receive / range
	clause *ast.CommClause
	pos    token.Pos
}

type c17GapChan struct {
	buffered, unbuffered, other int
	closers                     []*an.Func
	recvs                       []c17GapRecvSite
}

func c17GapIsChan(t types.Type) bool {
	_, ok := t.Underlying().(*types.Chan)
	return ok
}

// c17GapArmLeaves: can control reach the normal exit of the function from the
// body of clause cl without evaluating the select's comm statements again?
func c17GapArmLeaves(g *an.Graph, sel *ast.SelectStmt, cl *ast.CommClause) (leaves bool, decided bool) {
	avoid := an.Set{}
	for _, cc := range sel.Body.List {
		if c2, ok := cc.(*ast.CommClause); ok && c2.Comm != nil {
			if n := g.NodeOf(c2.Comm); n != nil {
				avoid[n] = true
			}
		}
	}
	if len(avoid) == 0 {
		return true, false
	}
	live := g.Reach([]*an.Node{g.Entry}, nil)
	var from []*an.Node
	for _, n := range g.Nodes {
		if !live[n] || n.Block == nil {
			continue
		}
		switch {
		case n.Kind == an.KHead && cl.Comm != nil && n.Block.Kind == cfg.KindSelectCaseBody && n.Block.Stmt == ast.Stmt(cl):
			from = append(from, n)
		case n.Kind == an.KHead && cl.Comm == nil && len(cl.Body) == 0 && n.Block.Kind == cfg.KindSelectDone && n.Block.Stmt == ast.Stmt(sel):
			from = append(from, n)
		case n.Kind == an.KStmt && n.Ast != nil && !avoid[n] && cl.Colon < n.Ast.Pos() && n.Ast.End() <= cl.End():
			from = append(from, n)
		}
	}
	if len(from) == 0 {
		return true, false
	}
	return g.Reach(from, avoid)[g.Exit], true
}

func c17GapActorSend(c *rep.Ctx) {
	p := c.Prog
	pk := p.Pkg("syncer")
	recv := c.Fn("syncer.(*Syncer).Receive")
	handle := c.Fn("syncer.(*Syncer).handleMessage")
	reset := c.Fn("syncer.(*Syncer).Reset")
	if pk == nil || recv == nil || handle == nil || reset == nil {
		return
	}
	roots := []*an.Func{recv, handle}
	if f := p.Func("syncer.(*Syncer).BeforeStop"); f != nil {
		roots = append(roots, f)
	}
	all := c17GapPkgFuncs(p, "syncer")

	// goroutine bodies: literals (or functions) started with `go`
	launched := map[*an.Func]bool{}
	goCalls := map[*ast.CallExpr]bool{}
	for _, f := range all {
		if f.Body == nil {
			continue
		}
		an.InspectShallow(f.Body, func(n ast.Node) bool {
			gs, ok := n.(*ast.GoStmt)
			if !ok {
				return true
			}
			goCalls[gs.Call] = true
			if lit, ok := ast.Unparen(gs.Call.Fun).(*ast.FuncLit); ok {
				if lf := p.LitFunc(lit); lf != nil {
					launched[lf] = true
				}
			} else if lf := c17LitOfVar(p, f.TopDecl(), gs.Call); lf != nil {
				launched[lf] = true
			}
			return true
		})
	}
	cg := p.BuildCallGraphCached()
	actor := cg.ReachableFrom(roots, func(e an.Edge) bool {
		if e.Callee.Pkg != pk {
			return false
		}
		if e.Kind == an.ELit {
			return !launched[e.Callee]
		}
		return e.Call == nil || !goCalls[e.Call]
	})
	if !actor[reset] || len(launched) < 3 {
		c.Undecide("actor-send", "syncer", "the actor-side call closure / the worker goroutines were not recognised (Reset not reachable from handleMessage, or fewer than 3 `go` literals)")
		return
	}

	// facts about the channel-typed struct fields used in the package
	chans := map[*types.Var]*c17GapChan{}
	get := func(v *types.Var) *c17GapChan {
		if chans[v] == nil {
			chans[v] = &c17GapChan{}
		}
		return chans[v]
	}
	classify := func(info *types.Info, fld *types.Var, rhs ast.Expr) {
		ci := get(fld)
		call, ok := ast.Unparen(rhs).(*ast.CallExpr)
		if !ok || !an.IsBuiltin(info, call, "make") {
			ci.other++
			return
		}
		if len(call.Args) >= 2 && c17Const(info, call.Args[1]) != "0" {
			ci.buffered++
		} else {
			ci.unbuffered++
		}
	}
	for _, f := range all {
		if f.Body == nil {
			continue
		}
		f := f
		info := f.Info()
		c17GapWalk(f.Body, func(n ast.Node, stack []ast.Node) {
			switch x := n.(type) {
			case *ast.AssignStmt:
				if len(x.Lhs) != len(x.Rhs) {
					return
				}
				for i, l := range x.Lhs {
					if fld := an.FieldOf(info, l); fld != nil && c17GapIsChan(fld.Type()) {
						classify(info, fld, x.Rhs[i])
					}
				}
			case *ast.KeyValueExpr:
				if id, ok := x.Key.(*ast.Ident); ok {
					if fld, ok := info.Uses[id].(*types.Var); ok && fld.IsField() && c17GapIsChan(fld.Type()) {
						classify(info, fld, x.Value)
					}
				}
			case *ast.CallExpr:
				if an.IsBuiltin(info, x, "close") && len(x.Args) == 1 {
					if fld := an.FieldOf(info, x.Args[0]); fld != nil {
						get(fld).closers = append(get(fld).closers, f)
					}
				}
			case *ast.UnaryExpr:
				if x.Op != token.ARROW {
					return
				}
				if fld := an.FieldOf(info, x.X); fld != nil {
					sel, cl := c17GapSelectOf(x, stack)
					get(fld).recvs = append(get(fld).recvs, c17GapRecvSite{fn: f, sel: sel, clause: cl, pos: x.Pos()})
				}
			case *ast.RangeStmt:
				if fld := an.FieldOf(info, x.X); fld != nil && c17GapIsChan(fld.Type()) {
					get(fld).recvs = append(get(fld).recvs, c17GapRecvSite{fn: f, pos: x.Pos()})
				}
			}
		})
	}
	isQuit := func(fld *types.Var) bool {
		ci := chans[fld]
		if ci == nil || len(ci.closers) == 0 {
			return false
		}
		for _, cf := range ci.closers {
			if !actor[cf] {
				return false
			}
		}
		return true
	}

	nSend := 0
	for _, f := range all {
		if !actor[f] || f.Body == nil {
			continue
		}
		f := f
		info := f.Info()
		c17GapWalk(f.Body, func(n ast.Node, stack []ast.Node) {
			send, ok := n.(*ast.SendStmt)
			if !ok {
				return
			}
			nSend++
			fld := an.FieldOf(info, send.Chan)
			name := "?"
			if fld != nil {
				name = fld.Name()
			}
			key := f.Name() + "|" + name
			if sel, _ := c17GapSelectOf(send, stack); sel != nil && (c17GapHasDefault(sel) || c17GapHasTimeArm(info, sel)) {
				c.Check("actor-send", key, send.Pos(), true, "the send on the actor goroutine is an arm of a select with a default arm (or a timer arm): it does not block for ever")
				return
			}
			if fld == nil || chans[fld] == nil || chans[fld].other > 0 || chans[fld].buffered+chans[fld].unbuffered == 0 {
				c.Undecide("actor-send", key, "a blocking send on the actor goroutine uses a channel whose creation (make) is not visible as an assignment of a struct field")
				return
			}
			ci := chans[fld]
			if ci.unbuffered == 0 {
				c.Check("actor-send", key, send.Pos(), true, "the channel is created with a buffer everywhere (the size of the buffer against the number of outstanding answers is not decided)")
				return
			}
			ok = len(ci.recvs) > 0
			why := "nobody receives from the channel"
			for _, r := range ci.recvs {
				if actor[r.fn] {
					ok, why = false, "the receive at "+r.fn.Name()+" runs on the actor goroutine itself"
					continue
				}
				if r.sel == nil {
					continue // a plain receive waits until the message comes
				}
				rg := r.fn.Graph()
				for _, cc := range r.sel.Body.List {
					cl := cc.(*ast.CommClause)
					if cl == r.clause {
						continue
					}
					arm := "default"
					if cl.Comm != nil {
						arm = "other"
						if ch := c17GapCommRecv(cl); ch != nil {
							arm = "<-" + an.ExprString(ch)
							if q := an.FieldOf(r.fn.Info(), ch); q != nil && isQuit(q) {
								continue // closed only by the actor goroutine: the actor is not sending at that time
							}
						}
					}
					leaves, decided := c17GapArmLeaves(rg, r.sel, cl)
					if !decided {
						ok, why = false, "the select in "+r.fn.Name()+" was not found in the control-flow graph"
					} else if leaves {
						ok, why = false, "the receiving select in "+r.fn.Name()+" can stop listening through its arm `"+arm+"` (the function returns without evaluating the select again)"
					}
				}
			}
			msg := "a blocking send on the syncer's actor goroutine goes to an unbuffered channel only if the receiving worker never gives up on its own (only its receive arm and quit arms closed by the actor leave the select): otherwise an answer that arrives after the worker gave up (timeout) blocks the actor for ever, the worker's own SyncStop stays queued behind it, the session never reports a result and no later synchronisation can start"
			if !ok {
				msg += ": " + why
			}
			c.Check("actor-send", key, send.Pos(), ok, msg)
		})
	}
	if nSend == 0 {
		c.Undecide("actor-send", "syncer", "no send statement found on the actor goroutine: anchor lost")
	}
	c.Floor("actor-send", 4)
}

// ---------------------------------------------------------------------------
// session-exclusive

func c17GapSessionExclusive(c *rep.Ctx) {
	p := c.Prog
	start := c.Fn("syncer.(*Syncer).handleSyncStart")
	isRunning := p.LookupField("syncer", "Syncer", "isRunning")
	if start == nil || isRunning == nil {
		return
	}
	g := start.Graph()
	info := start.Info()
	runAt := func(x ast.Expr) (string, bool, bool) {
		x = ast.Unparen(x)
		if o := an.ObjOf(info, x); o != nil {
			if rhs, _ := g.SingleDef(o); rhs != nil {
				x = ast.Unparen(rhs) // `busy := syncer.isRunning`
			}
		}
		if an.FieldOf(info, x) == isRunning {
			return "RUN", false, true
		}
		return "", false, false
	}
	idle := g.EdgesImplying(runAt, map[string]bool{"RUN": false})
	n := 0
	for _, s := range g.CallsTo("syncer.(*Syncer).IncSeq", "types.NewSyncCtx", "syncer.newFinder", "syncer.(*Finder).start") {
		n++
		c.Check("session-exclusive", start.Name()+"|"+c17Short(an.FuncName(s.Fn)), s.Call.Pos(), len(idle) > 0 && g.Dominated(s.Node, idle),
			"a new session (sequence, context, finder) is set up only on paths on which `!syncer.isRunning` is known: a SyncStart that arrives during a session must not replace its context while the old workers still submit blocks (AddBlockRsp carries no sequence)")
	}
	if n == 0 {
		c.Undecide("session-exclusive", start.Name(), "no session set-up call found")
	}
	c.Floor("session-exclusive", 3)
}

// ---------------------------------------------------------------------------
// task-conserved / peer-conserved / all-bad-stops

func c17GapTasks(c *rep.Ctx) {
	p := c.Prog
	find := c.Fn("syncer.(*BlockFetcher).findFinished")
	failed := c.Fn("syncer.(*BlockFetcher).processFailedTask")
	addTask := c.Fn(c17BP + "addConnectTask")
	running := p.LookupField("syncer", "BlockFetcher", "runningQueue")
	retryQ := p.LookupField("syncer", "BlockFetcher", "retryQueue")
	syncPeer := p.LookupField("syncer", "FetchTask", "syncPeer")
	if find == nil || failed == nil || addTask == nil {
		return
	}
	if running == nil || retryQ == nil || syncPeer == nil {
		c.Undecide("anchor", "syncer.BlockFetcher.{runningQueue,retryQueue} / FetchTask.syncPeer", "field not found")
		return
	}
	// removed(f, at, task): a runningQueue.Remove(e) dominates `at` and the task value derives from e
	removed := func(f *an.Func, at *an.Node, task ast.Expr) bool {
		g := f.Graph()
		info := f.Info()
		for _, s := range g.Calls(nil) {
			if !c17GapListCall(info, s.Call, running, "Remove") || len(s.Call.Args) != 1 {
				continue
			}
			el := an.ObjOf(info, s.Call.Args[0])
			for i := 0; i < 3 && el != nil; i++ { // `finished := e`
				rhs, _ := g.SingleDef(el)
				if rhs == nil {
					break
				}
				o := an.ObjOf(info, rhs)
				if o == nil {
					break
				}
				el = o
			}
			if el == nil || !g.Dominated(at, an.SetOf(s.Node)) {
				continue
			}
			if c17Derives(f.TopDecl(), task, c17ObjPred(info, el), 3) {
				return true
			}
		}
		return false
	}

	// (a) findFinished hands out only tasks it removed from the running queue
	fg := find.Graph()
	finfo := find.Info()
	nRet := 0
	for _, r := range fg.Returns() {
		rs := r.Ast.(*ast.ReturnStmt)
		if len(rs.Results) != 2 || c17IsNil(finfo, rs.Results[0]) {
			continue
		}
		nRet++
		arm := "other"
		for _, s := range fg.CallsTo("syncer.(*FetchTask).isMatched") {
			if fg.Dominated(r, an.SetOf(s.Node)) {
				arm = "data"
			}
		}
		for _, s := range fg.CallsTo("syncer.(*FetchTask).isPeerMatched") {
			if fg.Dominated(r, an.SetOf(s.Node)) {
				arm = "peer-only"
			}
		}
		c.Check("task-conserved", find.Name()+"|removed|"+arm, r.Ast.Pos(), removed(find, r, rs.Results[0]),
			"the task findFinished hands out has been removed from the running queue (runningQueue.Remove of the element it was read from, on every path): a finished task left there times out later, is fetched again and its duplicate chunk stays at the head of the connect queue for ever (firstNo <= prevBlock is never popped)")
	}
	if nRet == 0 {
		c.Undecide("task-conserved", find.Name()+"|removed", "no successful return")
	}

	// (b) whoever calls processFailedTask passes a task that left the running queue
	nCall := 0
	for _, cs := range p.CallSitesOf(map[string]bool{failed.Name(): true}) {
		if cs.Fn == nil || len(cs.Call.Args) < 1 {
			continue
		}
		nCall++
		g := cs.Fn.Graph()
		info := cs.Fn.Info()
		node := g.NodeContaining(cs.Call.Pos())
		ok := false
		if obj := an.ObjOf(info, cs.Call.Args[0]); obj != nil && node != nil {
			for _, s := range g.CallsTo(find.Name()) {
				if g.ResultVarAt(s, 0) == obj && g.Dominated(node, g.ErrNilEdges(s)) {
					ok = true
				}
			}
		}
		if !ok && node != nil {
			ok = removed(cs.Fn, node, cs.Call.Args[0])
		}
		c.Check("task-conserved", c17Top(cs.Fn)+"|failed-task-left-running", cs.Call.Pos(), ok,
			"a task handed to processFailedTask (which re-queues it) comes from findFinished or was removed from the running queue first: otherwise it is scheduled twice and a duplicate chunk blocks the connect queue")
	}
	if nCall < 2 {
		c.Undecide("task-conserved", failed.Name(), "fewer than 2 call sites of processFailedTask (timeout path and error-answer path expected)")
	}

	// (c) processFailedTask re-queues, penalises the peer, and reports when no peer is left
	pg := failed.Graph()
	pinfo := failed.Info()
	pars := c17GapParams(failed)
	if len(pars) < 1 || pars[0] == nil {
		c.Undecide("task-conserved", failed.Name(), "expected processFailedTask(task, isErr)")
		return
	}
	task := pars[0]
	pushes := an.Set{}
	for _, s := range pg.CallsTo("syncer.(*SortedTaskQueue).Push") {
		sel, ok := ast.Unparen(s.Call.Fun).(*ast.SelectorExpr)
		if ok && an.FieldOf(pinfo, sel.X) == retryQ && len(s.Call.Args) == 1 && an.ObjOf(pinfo, s.Call.Args[0]) == task {
			pushes[s.Node] = true
		}
	}
	penal := an.Set{}
	for _, s := range pg.CallsTo("syncer.(*PeerSet).processPeerFail") {
		if len(s.Call.Args) >= 1 && c17Derives(failed, s.Call.Args[0], func(x ast.Expr) bool {
			return an.FieldOf(pinfo, x) == syncPeer && c17Contains(x, c17ObjPred(pinfo, task))
		}, 3) {
			penal[s.Node] = true
		}
	}
	notAllBad := an.Set{}
	for _, s := range pg.CallsTo("syncer.(*PeerSet).isAllBad") {
		notAllBad = notAllBad.Union(pg.BoolEdges(s, false))
	}
	nilRets := pg.NilReturns()
	okPush, okPenal, okBad := len(pushes) > 0 && len(nilRets) > 0, len(penal) > 0, len(notAllBad) > 0
	for _, r := range nilRets {
		if !pg.Dominated(r, pushes) {
			okPush = false
		}
		if !pg.Dominated(r, notAllBad) {
			okBad = false
		}
	}
	for _, r := range pg.Returns() {
		if !pg.Dominated(r, penal) {
			okPenal = false
		}
	}
	for _, asn := range c17AssignNodes(pg, task) {
		_ = asn
		okPush = false // the parameter is overwritten: which task is re-queued is no longer decided
	}
	c.Check("task-conserved", failed.Name()+"|requeued", failed.Pos(), okPush,
		"every successful return of processFailedTask is dominated by retryQueue.Push(task) of its own parameter: a failed chunk that is not re-queued is never fetched, the connect queue waits for it for ever with no task running (no timeout, no error)")
	c.Check("peer-conserved", failed.Name()+"|penalised", failed.Pos(), okPenal,
		"every return of processFailedTask is dominated by peers.processPeerFail(task.syncPeer): the peer of a failed task goes back to the free list or to the bad list")
	c.Check("all-bad-stops", failed.Name(), failed.Pos(), okBad,
		"processFailedTask returns nil only on paths on which peers.isAllBad() is known false: the scheduler loop `for peers.free > 0` silently does nothing when every peer is bad, so this is the only place that ends the session with ErrAllPeerBad")

	// processPeerFail: free list or bad list on every path
	if ppf := c.Fn("syncer.(*PeerSet).processPeerFail"); ppf != nil {
		g := ppf.Graph()
		info := ppf.Info()
		pp := c17GapParams(ppf)
		freeL := p.LookupField("syncer", "PeerSet", "freePeers")
		badL := p.LookupField("syncer", "PeerSet", "badPeers")
		gates := an.Set{}
		for _, s := range g.Calls(nil) {
			if len(pp) > 0 && len(s.Call.Args) == 1 && an.ObjOf(info, s.Call.Args[0]) == pp[0] &&
				(c17GapListCall(info, s.Call, freeL, "PushBack") || c17GapListCall(info, s.Call, badL, "PushBack")) {
				gates[s.Node] = true
			}
		}
		c.Check("peer-conserved", ppf.Name()+"|listed", ppf.Pos(), len(gates) > 0 && g.PostDominated(g.Entry, gates),
			"processPeerFail puts the failed peer on the free list or on the bad list on every path (a peer on neither list is never used again and never counted as bad: isAllBad stays false and the session hangs)")
	}

	// (d) the consumers of findFinished: the task (and its peer) goes somewhere on every path
	nUse := 0
	for _, cs := range p.CallSitesOf(map[string]bool{find.Name(): true}) {
		if cs.Fn == nil {
			continue
		}
		nUse++
		g := cs.Fn.Graph()
		info := cs.Fn.Info()
		var site *an.Site
		for _, s := range g.CallsTo(find.Name()) {
			s := s
			if s.Call == cs.Call {
				site = &s
			}
		}
		if site == nil {
			c.Undecide("task-conserved", c17Top(cs.Fn)+"|consumed", "findFinished call not found in the control-flow graph")
			continue
		}
		tv := g.ResultVarAt(*site, 0)
		okEdges := g.ErrNilEdges(*site)
		taskGates, peerGates := an.Set{}, an.Set{}
		for _, s := range g.CallsTo(addTask.Name()) {
			taskGates[s.Node] = true
		}
		for _, s := range g.CallsTo(failed.Name()) {
			if len(s.Call.Args) >= 1 && tv != nil && an.ObjOf(info, s.Call.Args[0]) == tv {
				taskGates[s.Node] = true
				peerGates[s.Node] = true
			}
		}
		for _, s := range g.CallsTo("syncer.(*BlockFetcher).pushFreePeer") {
			if len(s.Call.Args) == 1 && tv != nil && c17Derives(cs.Fn.TopDecl(), s.Call.Args[0], func(x ast.Expr) bool {
				return an.FieldOf(info, x) == syncPeer && c17Contains(x, c17ObjPred(info, tv))
			}, 3) {
				peerGates[s.Node] = true
			}
		}
		okT, okP := tv != nil && len(okEdges) > 0 && len(taskGates) > 0, tv != nil && len(okEdges) > 0 && len(peerGates) > 0
		for en := range okEdges {
			if !g.PostDominated(en, taskGates) {
				okT = false
			}
			if !g.PostDominated(en, peerGates) {
				okP = false
			}
		}
		c.Check("task-conserved", c17Top(cs.Fn)+"|consumed", cs.Call.Pos(), okT,
			"once findFinished returned a task (it left the running queue), every path to the end of the handler queues the chunk for connection (addConnectTask) or re-queues the task (processFailedTask): a chunk dropped here is never fetched again and the session hangs")
		c.Check("peer-conserved", c17Top(cs.Fn)+"|peer-returned", cs.Call.Pos(), okP,
			"once findFinished returned a task, every path gives its peer back (pushFreePeer(task.syncPeer)) or penalises it (processFailedTask): peers that leak out of the free list end the scheduling loop `for peers.free > 0` without an error")
	}
	if nUse < 2 {
		c.Undecide("task-conserved", find.Name()+"|consumed", "fewer than 2 callers of findFinished")
	}
	c.Floor("task-conserved", 6)
	c.Floor("peer-conserved", 4)
	c.Floor("all-bad-stops", 1)
}

// ---------------------------------------------------------------------------
// match-count

func c17GapMatchCount(c *rep.Ctx) {
	p := c.Prog
	im := c.Fn("syncer.(*FetchTask).isMatched")
	find := c.Fn("syncer.(*BlockFetcher).findFinished")
	countFld := p.LookupField("syncer", "FetchTask", "count")
	hashesFld := p.LookupField("syncer", "FetchTask", "hashes")
	blocksFld := p.LookupField(c17Msg, "GetBlockChunksRsp", "Blocks")
	if im == nil || find == nil {
		return
	}
	if countFld == nil || hashesFld == nil || blocksFld == nil {
		c.Undecide("anchor", "syncer.FetchTask.{count,hashes}", "field not found")
		return
	}
	info := im.Info()
	g := im.Graph()
	var blocksPar, countPar types.Object
	blocksIdx, countIdx := -1, -1
	for i, o := range c17GapParams(im) {
		if o == nil {
			continue
		}
		switch t := o.Type().Underlying().(type) {
		case *types.Slice:
			if c17TypeKey(t.Elem()) == "types.Block" {
				blocksPar, blocksIdx = o, i
			}
		case *types.Basic:
			if t.Info()&types.IsInteger != 0 {
				countPar, countIdx = o, i
			}
		}
	}
	if blocksPar == nil {
		c.Undecide("match-count", im.Name(), "no []*types.Block parameter")
		return
	}
	lenOf := func(x ast.Expr, pred func(ast.Expr) bool) bool {
		call, ok := ast.Unparen(x).(*ast.CallExpr)
		return ok && an.IsBuiltin(info, call, "len") && len(call.Args) == 1 && pred(ast.Unparen(call.Args[0]))
	}
	isWant := func(x ast.Expr) bool {
		x = ast.Unparen(x)
		return an.FieldOf(info, x) == countFld || lenOf(x, func(y ast.Expr) bool { return an.FieldOf(info, y) == hashesFld })
	}
	isGot := func(x ast.Expr) bool {
		x = ast.Unparen(x)
		if countPar != nil && an.ObjOf(info, x) == countPar {
			return true
		}
		return lenOf(x, func(y ast.Expr) bool { return an.ObjOf(info, y) == blocksPar })
	}
	ok, why := c17TrueOnlyIf(g, c17EqAtom(info, "CNT", false, isWant, isGot), "CNT")
	msg := "isMatched answers true only if the number of received blocks equals the number requested (task.count / len(task.hashes) == count / len(blocks)): a prefix of the requested chunk must not finish the task, the rest would never be fetched"
	if !ok {
		msg += ": " + why
	}
	c.Check("match-count", im.Name()+"|count", im.Pos(), ok, msg)
	// the caller passes the blocks of the answer and their number
	finfo := find.Info()
	for _, s := range find.Graph().CallsTo(im.Name()) {
		good := blocksIdx < len(s.Call.Args) && an.FieldOf(finfo, s.Call.Args[blocksIdx]) == blocksFld
		if good && countIdx >= 0 && countIdx < len(s.Call.Args) {
			good = c17Derives(find, s.Call.Args[countIdx], func(x ast.Expr) bool {
				call, ok := x.(*ast.CallExpr)
				return ok && an.IsBuiltin(finfo, call, "len") && len(call.Args) == 1 && an.FieldOf(finfo, call.Args[0]) == blocksFld
			}, 3)
		}
		c.Check("match-count", find.Name()+"|args", s.Call.Pos(), good, "findFinished passes the answer's Blocks and len(Blocks) to isMatched")
	}
	c.Floor("match-count", 2)
}

// ---------------------------------------------------------------------------
// insert-shift

func c17GapInsertShift(c *rep.Ctx) {
	p := c.Prog
	push := c.Fn(c17BP + "pushToConnQueue")
	q := p.LookupField("syncer", "BlockProcessor", "connQueue")
	if push == nil || q == nil {
		return
	}
	g := push.Graph()
	info := push.Info()
	pars := c17GapParams(push)
	sites := g.CallsTo("sort.Search")
	if len(pars) != 1 || len(sites) != 1 {
		return // reported by push-sorted
	}
	idx := g.ResultVarAt(sites[0], 0)
	var store *an.Node
	var slice types.Object
	for _, n := range g.StmtNodes(func(n *an.Node) bool { _, ok := n.Ast.(*ast.AssignStmt); return ok }) {
		as := n.Ast.(*ast.AssignStmt)
		if len(as.Lhs) != 1 || len(as.Rhs) != 1 {
			continue
		}
		ix, isIx := ast.Unparen(as.Lhs[0]).(*ast.IndexExpr)
		if isIx && idx != nil && an.ObjOf(info, ix.Index) == idx && an.ObjOf(info, as.Rhs[0]) == pars[0] {
			store, slice = n, an.ObjOf(info, ix.X)
		}
	}
	if store == nil || slice == nil {
		return // other insertion idiom: push-sorted|store reports it
	}
	isS := func(x ast.Expr) bool { return an.ObjOf(info, x) == slice }
	// growth by one element
	grow := an.Set{}
	for _, n := range c17AssignNodes(g, slice) {
		as, ok := n.Ast.(*ast.AssignStmt)
		if !ok || len(as.Lhs) != 1 || len(as.Rhs) != 1 || !isS(as.Lhs[0]) {
			continue
		}
		call, ok := ast.Unparen(as.Rhs[0]).(*ast.CallExpr)
		if ok && an.IsBuiltin(info, call, "append") && len(call.Args) == 2 && !call.Ellipsis.IsValid() && isS(call.Args[0]) {
			grow[n] = true
		}
	}
	// copy(s[idx+1:], s[idx:])
	shift := an.Set{}
	for _, s := range g.Calls(nil) {
		if !an.IsBuiltin(info, s.Call, "copy") || len(s.Call.Args) != 2 {
			continue
		}
		dst, ok1 := ast.Unparen(s.Call.Args[0]).(*ast.SliceExpr)
		src, ok2 := ast.Unparen(s.Call.Args[1]).(*ast.SliceExpr)
		if !ok1 || !ok2 || !isS(dst.X) || !isS(src.X) || dst.Low == nil || src.Low == nil || dst.High != nil || dst.Slice3 || src.Slice3 {
			continue
		}
		if src.High != nil {
			// s[idx:len(s)-1] (the old elements) and s[idx:len(s)] copy the same tail
			lf, ok := linOf(info, src.High)
			var lenCall ast.Expr
			an.InspectShallow(src.High, func(x ast.Node) bool {
				if call, isC := x.(*ast.CallExpr); isC && an.IsBuiltin(info, call, "len") && len(call.Args) == 1 && isS(call.Args[0]) {
					lenCall = call
				}
				return true
			})
			if !ok || lenCall == nil || lf[an.ExprString(lenCall)] != 1 || lf["1"] > 0 || lf["1"] < -1 || len(lf) > 2 || (len(lf) == 2 && lf["1"] == 0) {
				continue
			}
		}
		ld, okd := linOf(info, dst.Low)
		ls, oks := linOf(info, src.Low)
		if !okd || !oks {
			continue
		}
		diff := ld.add(ls, -1)
		if len(diff) == 1 && diff["1"] == 1 && an.ObjOf(info, src.Low) == idx {
			shift[s.Node] = true
		}
	}
	ok := len(grow) > 0 && len(shift) > 0 && g.Dominated(store, shift)
	for sn := range shift {
		if !g.Dominated(sn, grow) || !g.Dominated(sn, an.SetOf(sites[0].Node)) {
			ok = false
		}
	}
	c.Check("insert-shift", push.Name()+"|copy", store.Ast.Pos(), ok,
		"the index store `queue[i] = new` of the sorted insert is preceded on every path by growing the slice by one element and by copy(queue[i+1:], queue[i:]): without the shift the store overwrites a queued chunk (lost chunk: the session hangs) whenever answers arrive out of order")
	// the result is written back to the field, after the store
	wb := false
	for _, w := range p.FieldWrites(map[*types.Var]bool{q: true}) {
		if w.Fn != push {
			continue
		}
		n := g.NodeContaining(w.Pos)
		if n == nil {
			continue
		}
		if rhs, ok := c17FieldAssign(info, n, q); ok && isS(rhs) && (g.Dominated(n, an.SetOf(store)) || g.Dominated(store, an.SetOf(n))) {
			wb = true
			// every path to the exit passes a write-back that follows the growth
			wb = g.PostDominated(g.Entry, an.SetOf(n)) && g.Dominated(n, grow)
		}
	}
	c.Check("insert-shift", push.Name()+"|write-back", store.Ast.Pos(), wb,
		"the grown slice is stored back into BlockProcessor.connQueue on every path (append may have reallocated it)")
	c.Floor("insert-shift", 2)
}

// ---------------------------------------------------------------------------
// answer-err

// c17GapAnswerErrExempt: consumers that use the payload of an answer without
// looking at its Err and are still safe.
var c17GapAnswerErrExempt = map[string]string{
	"syncer.(*Finder).getAnchors|GetAnchorsRsp": "chain.getAnchorsNew returns no hashes together with an error; with an empty anchor list the finder goroutine panics on anchors[0] (recovered: the session stops with ErrSyncerPanic) and, without that log line, the full scan fails on GetHashByNo of an impossible height: the session ends with an error either way. Fragile, recorded in the gap report",
}

// c17GapGuardedInCond: every sub-expression of cond satisfying use lies in an
// operand that short-circuit evaluation reaches only when atom ERRNIL is true
// (`Err != nil || <use>`, `Err == nil && <use>`).
func c17GapGuardedInCond(info *types.Info, cond ast.Expr, use func(ast.Expr) bool, at an.Atomizer) bool {
	cond = ast.Unparen(cond)
	if !c17Contains(cond, use) {
		return true
	}
	switch e := cond.(type) {
	case *ast.UnaryExpr:
		if e.Op == token.NOT {
			return c17GapGuardedInCond(info, e.X, use, at)
		}
	case *ast.BinaryExpr:
		if e.Op == token.LOR || e.Op == token.LAND {
			if !c17GapGuardedInCond(info, e.X, use, at) {
				return false
			}
			if an.CondImplies(info, e.X, e.Op == token.LAND, at, map[string]bool{"ERRNIL": true}) {
				return true
			}
			return c17GapGuardedInCond(info, e.Y, use, at)
		}
	}
	return false
}

func c17GapAnswerErr(c *rep.Ctx) {
	p := c.Prog
	// (i) GetHashByNoRsp: whoever takes it from the channel hands its Err on
	same := c.Fn("syncer.(*Finder).hasSameHash")
	errHB := p.LookupField(c17Msg, "GetHashByNoRsp", "Err")
	if same != nil && errHB != nil {
		n := 0
		for _, f := range c17Lits(same) {
			if f.Body == nil {
				continue
			}
			info := f.Info()
			g := f.Graph()
			var recvNodes []*an.Node
			var msgVar types.Object
			c17GapWalk(f.Body, func(x ast.Node, stack []ast.Node) {
				u, ok := x.(*ast.UnaryExpr)
				if !ok || u.Op != token.ARROW {
					return
				}
				tv, ok := info.Types[u]
				if !ok || c17TypeKey(tv.Type) != c17Msg+".GetHashByNoRsp" {
					return
				}
				_, cl := c17GapSelectOf(u, stack)
				var as *ast.AssignStmt
				if cl != nil {
					as, _ = cl.Comm.(*ast.AssignStmt)
				} else if len(stack) > 0 {
					as, _ = stack[len(stack)-1].(*ast.AssignStmt)
				}
				if as != nil && len(as.Lhs) >= 1 {
					msgVar = an.ObjOf(info, as.Lhs[0])
					if nd := g.NodeOf(as); nd != nil {
						recvNodes = append(recvNodes, nd)
					}
				}
			})
			if len(recvNodes) == 0 {
				continue
			}
			n++
			at := c17NilCmpAtom(info, "ERRNIL", func(x ast.Expr) bool {
				return an.FieldOf(info, x) == errHB && msgVar != nil && c17Contains(x, c17ObjPred(info, msgVar))
			})
			good := g.EdgesImplying(at, map[string]bool{"ERRNIL": true})
			ok := msgVar != nil
			// after the receive, a return with a nil error is behind `Err == nil`
			for _, r := range g.NilReturns() {
				after := false
				for _, rn := range recvNodes {
					if g.Reachable(rn, r) {
						after = true
					}
				}
				if !after {
					continue
				}
				rs := r.Ast.(*ast.ReturnStmt)
				if len(rs.Results) > 0 {
					if tv, has := info.Types[rs.Results[len(rs.Results)-1]]; !has || !tv.IsNil() {
						// `return err` style: err must derive from the answer's Err
						if c17Derives(f.TopDecl(), rs.Results[len(rs.Results)-1], c17FieldPred(info, errHB), 2) {
							continue
						}
					}
				}
				if len(good) == 0 || !g.Dominated(r, good) {
					ok = false
				}
			}
			c.Check("answer-err", f.Name()+"|GetHashByNoRsp", f.Pos(), ok,
				"the function that takes a GetHashByNoRsp from the finder's channel returns a nil error only where the answer's Err is known nil (or returns that Err): a failed probe (remote error, timeout at the p2p layer) must fail the scan, not count as `hash differs` and push the search below the highest shared block")
		}
		if n == 0 {
			c.Undecide("answer-err", same.Name()+"|GetHashByNoRsp", "no receive of a *message.GetHashByNoRsp found in hasSameHash")
		}
	}
	// (ii) GetHashesRsp
	if valid := c.Fn("syncer.(*HashFetcher).isValidResponse"); valid != nil {
		info := valid.Info()
		errF := p.LookupField(c17Msg, "GetHashesRsp", "Err")
		ok, why := c17TrueOnlyIf(valid.Graph(), c17NilCmpAtom(info, "ERRNIL", c17FieldPred(info, errF)), "ERRNIL")
		msg := "HashFetcher.isValidResponse answers true only if the answer's Err was tested and is nil"
		if !ok {
			msg += ": " + why
		}
		c.Check("answer-err", valid.Name()+"|GetHashesRsp", valid.Pos(), ok, msg)
	}
	// (iii) payload uses behind the Err test
	for _, row := range []struct{ fn, typ, payload string }{
		{"syncer.(*Syncer).handleFinderResult", "FinderResult", "Ancestor"},
		{"syncer.(*Finder).getAnchors", "GetAnchorsRsp", "Hashes"},
	} {
		f := c.Fn(row.fn)
		errF := p.LookupField(c17Msg, row.typ, "Err")
		pay := p.LookupField(c17Msg, row.typ, row.payload)
		if f == nil {
			continue
		}
		if errF == nil || pay == nil {
			c.Undecide("anchor", "message."+row.typ+".{Err,"+row.payload+"}", "field not found")
			continue
		}
		key := row.fn + "|" + row.typ
		g := f.Graph()
		info := f.Info()
		errAt := c17NilCmpAtom(info, "ERRNIL", c17FieldPred(info, errF))
		good := g.EdgesImplying(errAt, map[string]bool{"ERRNIL": true})
		uses, bad := 0, 0
		var pos token.Pos = f.Pos()
		for _, n := range g.Nodes {
			if n.Kind != an.KStmt || n.Ast == nil {
				continue
			}
			if !c17Contains(n.Ast, c17FieldPred(info, pay)) {
				continue
			}
			uses++
			if cond, isE := n.Ast.(ast.Expr); isE && len(n.Succs) == 2 && c17GapGuardedInCond(info, cond, c17FieldPred(info, pay), errAt) {
				continue // used only in the operand that is evaluated when Err == nil
			}
			if len(good) == 0 || !g.Dominated(n, good) {
				bad++
				pos = n.Ast.Pos()
			}
		}
		if uses == 0 {
			c.Undecide("answer-err", key, "the payload field is not used: anchor lost")
			continue
		}
		if why, ex := c17GapAnswerErrExempt[key]; ex && bad > 0 {
			c.CheckTrivial("answer-err", key+"|exempt", pos, true, why)
			continue
		}
		c.Check("answer-err", key, pos, bad == 0, "the payload of a "+row.typ+" ("+row.payload+") is used only on paths on which its Err is known nil")
	}
	c.Floor("answer-err", 3)
}

// ---------------------------------------------------------------------------
// err-propagates-lit

func c17GapLitErr(c *rep.Ctx) {
	p := c.Prog
	n := 0
	for _, f := range c17GapPkgFuncs(p, "syncer") {
		if f.Body == nil || f.Type.Results == nil || len(f.Type.Results.List) == 0 {
			continue
		}
		info := f.Info()
		last := f.Type.Results.List[len(f.Type.Results.List)-1]
		if tv, ok := info.Types[last.Type]; !ok || tv.Type.String() != "error" {
			continue
		}
		g := f.Graph()
		rej := c17NonNilReturns(g, -1)
		for _, s := range g.CallsTo("syncer.stopSyncer") {
			rej[s.Node] = true
		}
		for _, s := range g.Calls(nil) {
			if s.Fn != nil {
				continue
			}
			lf := c17LitOfVar(p, f.TopDecl(), s.Call)
			if lf == nil || lf.Type.Results == nil || len(lf.Type.Results.List) == 0 {
				continue
			}
			nres := 0
			for _, fl := range lf.Type.Results.List {
				if len(fl.Names) == 0 {
					nres++
				} else {
					nres += len(fl.Names)
				}
			}
			lres := lf.Type.Results.List[len(lf.Type.Results.List)-1]
			if tv, ok := info.Types[lres.Type]; !ok || tv.Type.String() != "error" {
				continue
			}
			n++
			construct := f.Name() + "|" + lf.Name()
			if _, isRet := s.Node.Ast.(*ast.ReturnStmt); isRet {
				c.CheckTrivial("err-propagates-lit", construct, s.Call.Pos(), true, "the literal's result is returned directly")
				continue
			}
			errVar := g.ResultVarAt(s, nres-1)
			if errVar == nil {
				c.Check("err-propagates-lit", construct, s.Call.Pos(), false, "the error result of a local step (function literal) is discarded")
				continue
			}
			at := c17NilCmpAtom(info, "ERRNIL", func(x ast.Expr) bool { return an.ObjOf(info, x) == errVar })
			// every outcome of a test of the error that does not establish `err == nil`
			okEdges := g.EdgesImplying(at, map[string]bool{"ERRNIL": true})
			failedE := an.Set{}
			for _, en := range g.Nodes {
				if (en.Kind != an.KTrue && en.Kind != an.KFalse) || okEdges[en] || !g.Reachable(s.Node, en) {
					continue
				}
				if cond, isE := en.Ast.(ast.Expr); isE && an.CondMentions(info, cond, at, "ERRNIL") {
					failedE[en] = true
				}
			}
			avoid := rej.Union(okEdges)
			ok := len(failedE) > 0
			for en := range failedE {
				if g.Reach([]*an.Node{en}, avoid)[g.Exit] {
					ok = false
				}
			}
			c.Check("err-propagates-lit", construct, s.Call.Pos(), ok,
				"when this local step (an error-returning function literal of the sync code) fails, every path from the failed test makes the enclosing function return a non-nil error (or request the stop)")
		}
	}
	if n == 0 {
		c.Undecide("err-propagates-lit", "syncer", "no call of an error-returning function literal found")
	}
	c.Floor("err-propagates-lit", 4)
}

// ---------------------------------------------------------------------------
// scan-range

func c17GapScanRange(c *rep.Ctx) {
	p := c.Prog
	full := c.Fn("syncer.(*Finder).fullscan")
	lastAnchor := p.LookupField("types", "SyncContext", "LastAnchor")
	if full != nil && lastAnchor != nil {
		g := full.Graph()
		info := full.Info()
		resolve := func(e ast.Expr) ast.Expr {
			for i := 0; i < 3; i++ {
				o := an.ObjOf(info, e)
				if o == nil {
					break
				}
				rhs, _ := g.SingleDef(o)
				if rhs == nil {
					break
				}
				e = rhs
			}
			return e
		}
		sites := g.CallsTo("syncer.(*Finder).binarySearch")
		if len(sites) == 0 {
			c.Undecide("scan-range", full.Name(), "fullscan does not call binarySearch")
		}
		for _, s := range sites {
			if len(s.Call.Args) != 2 {
				c.Undecide("scan-range", full.Name(), "expected binarySearch(left, right)")
				continue
			}
			lo, hi := resolve(s.Call.Args[0]), resolve(s.Call.Args[1])
			c.Check("scan-range", full.Name()+"|from-genesis", s.Call.Pos(), c17Const(info, lo) == "0",
				"the full scan starts at block 0: genesis is the last-resort common ancestor, a search from 1 reports `no ancestor` for chains that fork right after genesis")
			okHi := false
			if lf, ok := linOf(info, hi); ok {
				var sel ast.Expr
				an.InspectShallow(hi, func(x ast.Node) bool {
					if e, isE := x.(ast.Expr); isE && an.FieldOf(info, e) == lastAnchor && sel == nil {
						sel = e
					}
					return true
				})
				ops := 0
				for k := range lf {
					if k != "1" {
						ops++
					}
				}
				okHi = sel != nil && ops == 1 && lf[an.ExprString(sel)] == 1 && lf["1"] >= -1
			}
			c.Check("scan-range", full.Name()+"|below-last-anchor", s.Call.Pos(), okHi,
				"the full scan's upper bound is LastAnchor-1 or higher (linear form of the argument): every height below the lowest anchor that was compared is searched, so the highest shared block cannot be missed")
		}
	}
	// the LastNo reported with the anchors is the number of the last hash appended
	ga := c.Fn("chain.(*ChainService).getAnchorsNew")
	if ga == nil {
		return
	}
	g := ga.Graph()
	info := ga.Info()
	var lastV, anchorsV types.Object
	succ := an.Set{}
	for _, r := range g.Returns() {
		rs := r.Ast.(*ast.ReturnStmt)
		if len(rs.Results) != 3 || !c17IsNil(info, rs.Results[2]) {
			continue
		}
		succ[r] = true
		anchorsV, lastV = an.ObjOf(info, rs.Results[0]), an.ObjOf(info, rs.Results[1])
	}
	if lastV == nil || anchorsV == nil {
		c.Undecide("scan-range", ga.Name(), "no successful return of (anchors, lastNo, nil) built from local variables")
		return
	}
	var hsite *an.Site
	for _, s := range g.CallsTo("chain.(*ChainService).getHashByNo") {
		s := s
		if g.InLoop(s.Node) {
			hsite = &s
		}
	}
	if hsite == nil || len(hsite.Call.Args) != 1 {
		c.Undecide("scan-range", ga.Name(), "no getHashByNo(blkNo) inside the anchor loop")
		return
	}
	noV := an.ObjOf(info, hsite.Call.Args[0])
	hashV := g.ResultVarAt(*hsite, 0)
	var appends []*an.Node
	for _, n := range c17AssignNodes(g, anchorsV) {
		as, ok := n.Ast.(*ast.AssignStmt)
		if !ok || len(as.Rhs) != 1 {
			continue
		}
		call, ok := ast.Unparen(as.Rhs[0]).(*ast.CallExpr)
		if ok && an.IsBuiltin(info, call, "append") && len(call.Args) == 2 && hashV != nil && an.ObjOf(info, call.Args[1]) == hashV {
			appends = append(appends, n)
		}
	}
	lastAsg := an.Set{}
	ok := noV != nil && len(appends) > 0
	why := ""
	for _, n := range c17AssignNodes(g, lastV) {
		as, isAs := n.Ast.(*ast.AssignStmt)
		if !isAs || len(as.Lhs) != len(as.Rhs) {
			if vs, isSpec := n.Ast.(*ast.ValueSpec); isSpec && len(vs.Values) == 0 {
				continue // `var lastNo types.BlockNo`
			}
			ok, why = false, "lastNo is assigned in a form the rule does not understand"
			continue
		}
		for i, l := range as.Lhs {
			if an.ObjOf(info, l) != lastV {
				continue
			}
			lastAsg[n] = true
			clean := an.ObjOf(info, as.Rhs[i]) == noV && g.Dominated(n, an.SetOf(hsite.Node))
			for m := range g.Between(hsite.Node, n) {
				if m.Kind == an.KStmt && noV != nil && an.Assigns(info, m.Ast, noV) {
					clean = false
				}
			}
			if !clean {
				ok, why = false, "lastNo is not set to the block number whose hash was just read (the number changes between getHashByNo and the assignment)"
			}
		}
	}
	if len(lastAsg) == 0 {
		ok, why = false, "lastNo is never assigned"
	}
	if ok {
		stop := lastAsg.Union(an.SetOf(hsite.Node))
		r1 := g.Reach(hsite.Node.Succs, stop)
		for _, a := range appends {
			if !r1[a] {
				continue // lastNo was recorded before the append in this iteration
			}
			r2 := g.Reach(a.Succs, stop)
			r2[a] = true
			for n := range r2 {
				if succ[n] {
					ok, why = false, "a successful return is reachable after an anchor was appended without recording its number in lastNo"
				}
				for _, sx := range n.Succs {
					if sx == hsite.Node {
						ok, why = false, "the next anchor is read after an anchor was appended without recording its number in lastNo"
					}
				}
			}
		}
	}
	msg := "the LastNo returned by getAnchorsNew is the block number of the last anchor hash appended (same variable that indexed getHashByNo, unchanged in between, recorded in every iteration that appends): the finder uses it as the upper end of the full scan, a smaller value leaves heights unsearched and the highest shared block can be missed"
	if !ok {
		msg += ": " + why
	}
	c.Check("scan-range", ga.Name()+"|last-anchor-no", ga.Pos(), ok, msg)
	c.Floor("scan-range", 3)
}

// ---------------------------------------------------------------------------
// start-point

func c17GapStartPoint(c *rep.Ctx) {
	p := c.Prog
	nbp := c.Fn("syncer.NewBlockProcessor")
	nbf := c.Fn("syncer.newBlockFetcher")
	nhf := c.Fn("syncer.newHashFetcher")
	anc := p.LookupField("types", "SyncContext", "CommonAncestor")
	tgt := p.LookupField("types", "SyncContext", "TargetNo")
	prev := p.LookupField("syncer", "BlockProcessor", "prevBlock")
	tno := p.LookupField("syncer", "BlockProcessor", "targetBlockNo")
	last := p.LookupField("syncer", "HashFetcher", "lastBlockInfo")
	if nbp == nil || nbf == nil || nhf == nil {
		return
	}
	if anc == nil || tgt == nil || prev == nil || tno == nil || last == nil {
		c.Undecide("anchor", "types.SyncContext.{CommonAncestor,TargetNo} / syncer.{BlockProcessor,HashFetcher}", "field not found")
		return
	}
	info := nbp.Info()
	pars := c17GapParams(nbp)
	parIdx := func(o types.Object) int {
		for i, q := range pars {
			if q != nil && q == o {
				return i
			}
		}
		return -1
	}
	var lit *ast.CompositeLit
	an.InspectShallow(nbp.Body, func(x ast.Node) bool {
		if cl, ok := x.(*ast.CompositeLit); ok {
			if tv, ok := info.Types[cl]; ok && c17TypeKey(tv.Type) == "syncer.BlockProcessor" {
				lit = cl
			}
		}
		return true
	})
	if lit == nil {
		c.Undecide("start-point", nbp.Name(), "no BlockProcessor literal")
	} else {
		for _, row := range []struct {
			fld  *types.Var
			ctx  *types.Var
			what string
		}{{prev, anc, "prevBlock"}, {tno, tgt, "targetBlockNo"}} {
			val := c17GapLitValue(info, lit, row.fld)
			i := -1
			if val != nil {
				i = parIdx(an.ObjOf(info, val))
			}
			ok := i >= 0
			if ok {
				// no assignment of the parameter before the literal, and no later write of the field in the constructor
				if len(c17AssignNodes(nbp.Graph(), pars[i])) > 0 {
					ok = false
				}
				n := 0
				for _, cs := range p.CallSitesOf(map[string]bool{nbp.Name(): true}) {
					if cs.Fn == nil {
						continue
					}
					n++
					if i >= len(cs.Call.Args) || an.FieldOf(cs.Fn.Info(), cs.Call.Args[i]) != row.ctx {
						ok = false
					}
				}
				if n == 0 {
					ok = false
				}
			}
			msg := "the block processor starts with prevBlock = the session's common ancestor (the continuation guard `firstNo == prevBlock+1` then admits only the chunk that follows it; a nil prevBlock admits whatever chunk arrives first)"
			if row.what == "targetBlockNo" {
				msg = "the block processor's target is the session's TargetNo (success is reported when exactly that block was connected)"
			}
			c.Check("start-point", nbp.Name()+"|"+row.what, lit.Pos(), ok, msg)
		}
	}
	// the hash fetcher starts at the ancestor
	hinfo := nhf.Info()
	n := 0
	for _, w := range p.FieldWrites(map[*types.Var]bool{last: true}) {
		if w.Fn != nhf {
			continue
		}
		n++
		node := nhf.Graph().NodeContaining(w.Pos)
		ok := false
		if node != nil {
			if rhs, has := c17FieldAssign(hinfo, node, last); has {
				var bl *ast.CompositeLit
				an.InspectShallow(rhs, func(x ast.Node) bool {
					if cl, isL := x.(*ast.CompositeLit); isL && bl == nil {
						bl = cl
					}
					return true
				})
				if bl != nil {
					h := c17GapLitValue(hinfo, bl, p.LookupField("types", "BlockInfo", "Hash"))
					no := c17GapLitValue(hinfo, bl, p.LookupField("types", "BlockInfo", "No"))
					fromAnc := c17FieldPred(hinfo, anc)
					ok = h != nil && no != nil &&
						c17Derives(nhf, h, fromAnc, 3) && c17Derives(nhf, h, c17BlockHashPred(p, hinfo), 3) &&
						c17Derives(nhf, no, fromAnc, 3) && c17Derives(nhf, no, c17BlockNoPred(p, hinfo), 3)
				}
			}
		}
		c.Check("start-point", nhf.Name()+"|lastBlockInfo", w.Pos, ok, "the hash fetcher's first request continues the common ancestor: lastBlockInfo starts as (hash, number) of ctx.CommonAncestor")
	}
	if n == 0 {
		c.Undecide("start-point", nhf.Name()+"|lastBlockInfo", "newHashFetcher does not initialise lastBlockInfo")
	}
	c.Floor("start-point", 3)
}

// ---------------------------------------------------------------------------
// retry-first

func c17GapRetryFirst(c *rep.Ctx) {
	p := c.Prog
	f := c.Fn("syncer.(*BlockFetcher).searchCandidateTask")
	retryQ := p.LookupField("syncer", "BlockFetcher", "retryQueue")
	pendQ := p.LookupField("syncer", "BlockFetcher", "pendingQueue")
	if f == nil {
		return
	}
	if retryQ == nil || pendQ == nil {
		c.Undecide("anchor", "syncer.BlockFetcher.{retryQueue,pendingQueue}", "field not found")
		return
	}
	g := f.Graph()
	info := f.Info()
	isRetryLen := func(x ast.Expr) bool {
		x = ast.Unparen(x)
		if o := an.ObjOf(info, x); o != nil {
			if rhs, _ := g.SingleDef(o); rhs != nil {
				x = ast.Unparen(rhs)
			}
		}
		call, ok := x.(*ast.CallExpr)
		if !ok {
			return false
		}
		sel, ok := ast.Unparen(call.Fun).(*ast.SelectorExpr)
		return ok && sel.Sel.Name == "Len" && len(call.Args) == 0 && an.FieldOf(info, sel.X) == retryQ
	}
	// atom RETRY: the retry queue is not empty
	at := func(e ast.Expr) (string, bool, bool) {
		be, ok := ast.Unparen(e).(*ast.BinaryExpr)
		if !ok {
			return "", false, false
		}
		l, r, op := be.X, be.Y, be.Op
		if isRetryLen(r) {
			l, r = r, l
			op = flipOpTok(op)
		}
		if !isRetryLen(l) {
			return "", false, false
		}
		k := c17Const(info, r)
		switch {
		case k == "0" && (op == token.GTR || op == token.NEQ), k == "1" && op == token.GEQ:
			return "RETRY", false, true
		case k == "0" && (op == token.EQL || op == token.LEQ), k == "1" && op == token.LSS:
			return "RETRY", true, true
		}
		return "", false, false
	}
	empty := g.EdgesImplying(at, map[string]bool{"RETRY": false})
	n := 0
	for _, s := range g.Calls(nil) {
		sel, ok := ast.Unparen(s.Call.Fun).(*ast.SelectorExpr)
		if !ok || an.FieldOf(info, sel.X) != pendQ || (sel.Sel.Name != "Peek" && sel.Sel.Name != "Pop" && sel.Sel.Name != "Front") {
			continue
		}
		n++
		c.Check("retry-first", f.Name()+"|pending."+sel.Sel.Name, s.Call.Pos(), len(empty) > 0 && g.Dominated(s.Node, empty),
			"a task of the pending queue becomes the candidate only on paths on which the retry queue is known empty: schedule() lets only retry tasks pass a full connect queue, so a pending candidate offered while a failed chunk waits for its retry leaves the queue full for ever (no task running, no timeout, no error)")
	}
	if n == 0 {
		c.Undecide("retry-first", f.Name(), "no read of the pending queue's head found")
	}
	c.Floor("retry-first", 1)
}

// ---------------------------------------------------------------------------
// submit-request

// c17GapRequestCallees: ways of sending a message that attach the sender, so
// that the receiver's context.Respond comes back to the syncer actor.
var c17GapRequestCallees = map[string]bool{
	"pkg/component.(IComponentRequester).RequestTo": true,
	"pkg/component.(*BaseComponent).RequestTo":      true,
}

func c17GapSubmitRequest(c *rep.Ctx) {
	p := c.Prog
	connect := c.Fn(c17BP + "connectBlock")
	isSync := p.LookupField(c17Msg, "AddBlock", "IsSync")
	if connect == nil || isSync == nil {
		return
	}
	info := connect.Info()
	g := connect.Graph()
	var lit *ast.CompositeLit
	an.InspectShallow(connect.Body, func(x ast.Node) bool {
		if cl, ok := x.(*ast.CompositeLit); ok {
			if tv, ok := info.Types[cl]; ok && c17TypeKey(tv.Type) == c17Msg+".AddBlock" && c17GapLitValue(info, cl, isSync) != nil {
				lit = cl
			}
		}
		return true
	})
	if lit == nil {
		return // sync-submit reports the lost anchor
	}
	carries := func(e ast.Expr) bool {
		if c17In(e, lit.Pos()) {
			return true
		}
		if o := an.ObjOf(info, e); o != nil {
			if rhs, _ := g.SingleDef(o); rhs != nil && c17In(rhs, lit.Pos()) {
				return true
			}
		}
		return false
	}
	n := 0
	for _, s := range g.Calls(nil) {
		sent := false
		for _, a := range s.Call.Args {
			if carries(a) {
				sent = true
			}
		}
		if !sent {
			continue
		}
		n++
		name := ""
		if s.Fn != nil {
			name = an.FuncName(s.Fn)
		}
		c.Check("submit-request", connect.Name()+"|"+c17Short(name), s.Call.Pos(), c17GapRequestCallees[name],
			"the synchronising AddBlock is sent as a request (RequestTo: the sender is attached), so that the chain service's context.Respond(AddBlockRsp) reaches the syncer; sent with TellTo the answer is dead-lettered, curBlock is never cleared and the session hangs without an error")
	}
	if n == 0 {
		c.Undecide("submit-request", connect.Name(), "the AddBlock literal is not passed to a call")
	}
	c.Floor("submit-request", 1)
}
