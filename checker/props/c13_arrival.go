package props

import (
	"go/ast"
	"go/token"
	"go/types"

	"golang.org/x/tools/go/cfg"

	"verif/checker/internal/an"
)

// block-arrival: shape of MemPool.removeOnBlockArrival and txList.FilterByState.

// c13Inside reports whether vertex n belongs to the body of range statement rs.
func c13Inside(n *an.Node, rs *ast.RangeStmt) bool {
	in := func(a ast.Node) bool { return a != nil && rs.Body.Pos() <= a.Pos() && a.End() <= rs.Body.End() }
	if n.Ast != nil {
		return in(n.Ast)
	}
	if n.Block == nil {
		return false
	}
	if n.Block.Stmt == ast.Stmt(rs) {
		return n.Block.Kind == cfg.KindRangeBody
	}
	return n.Block.Stmt != nil && in(n.Block.Stmt)
}

// c13BodyEntry returns the head vertex of the body block of rs.
func c13BodyEntry(g *an.Graph, rs *ast.RangeStmt) *an.Node {
	for _, n := range g.Nodes {
		if n.Kind == an.KHead && n.Block != nil && n.Block.Stmt == ast.Stmt(rs) && n.Block.Kind == cfg.KindRangeBody {
			return n
		}
	}
	return nil
}

// c13EveryIteration: every path from the start of an iteration of rs that
// leaves the body (next iteration, break, return) passes a vertex of must or
// one of the allowed skip edges.
func c13EveryIteration(g *an.Graph, rs *ast.RangeStmt, must, skip an.Set) bool {
	entry := c13BodyEntry(g, rs)
	if entry == nil {
		return false
	}
	for n := range g.Reach([]*an.Node{entry}, must.Union(skip)) {
		if !c13Inside(n, rs) {
			return false
		}
	}
	return true
}

// c13NoEarlyExit: the body of rs is left only towards the loop head (no break,
// return or goto out of the loop; panics excepted).
func c13NoEarlyExit(g *an.Graph, rs *ast.RangeStmt) bool {
	for _, n := range g.Nodes {
		if !c13Inside(n, rs) {
			continue
		}
		for _, s := range n.Succs {
			if c13Inside(s, rs) || s == g.Panic {
				continue
			}
			if s.Kind == an.KHead && s.Block != nil && s.Block.Stmt == ast.Stmt(rs) && s.Block.Kind == cfg.KindRangeLoop {
				continue
			}
			return false
		}
	}
	return true
}

func c13Ranges(f *an.Func, pred func(rs *ast.RangeStmt) bool) []*ast.RangeStmt {
	var out []*ast.RangeStmt
	an.InspectShallow(f.Body, func(n ast.Node) bool {
		if rs, ok := n.(*ast.RangeStmt); ok && pred(rs) {
			out = append(out, rs)
		}
		return true
	})
	return out
}

func c13BlockArrival(e *c13Env) {
	c := e.c
	c13FilterByState(e)
	c13Sequential(e)
	f := c.Fn("mempool.(*MemPool).removeOnBlockArrival")
	if f == nil {
		return
	}
	g := f.Graph()
	info := f.Info()
	name := "mempool.(*MemPool).removeOnBlockArrival"
	sets := g.CallsTo("mempool.(*MemPool).setStateDB")
	pools := c13Ranges(f, func(rs *ast.RangeStmt) bool { return an.FieldOf(info, rs.X) == e.pool })
	if len(sets) != 1 || len(pools) != 1 {
		c.Undecide("block-arrival", name, "expected one call of setStateDB and one loop over the pool")
		return
	}
	ss, pr := sets[0], pools[0]
	reorg := g.ResultVarAt(ss, 0)
	var keyObj, lstObj types.Object
	if pr.Key != nil {
		keyObj = an.ObjOf(info, pr.Key)
	}
	if pr.Value != nil {
		lstObj = an.ObjOf(info, pr.Value)
	}
	var filters []an.Site
	for _, s := range g.CallsTo("mempool.(*txList).FilterByState") {
		if pr.Body.Pos() <= s.Call.Pos() && s.Call.End() <= pr.Body.End() && c13RecvObj(info, s.Call) == lstObj {
			filters = append(filters, s)
		}
	}
	if reorg == nil || keyObj == nil || lstObj == nil || len(filters) != 1 {
		c.Undecide("block-arrival", name, "loop variables, the reorg flag or the FilterByState call of the loop's list not found")
		return
	}
	fs := filters[0]
	// the dirty set: the local map indexed by the loop key in a condition of the loop
	var dirty types.Object
	for _, n := range g.Nodes {
		if (n.Kind == an.KTrue || n.Kind == an.KFalse) && n.Ast != nil && c13Inside(n.Cond, pr) {
			ast.Inspect(n.Ast, func(x ast.Node) bool {
				if ix, ok := x.(*ast.IndexExpr); ok && an.ObjOf(info, ix.Index) == keyObj {
					if o := an.ObjOf(info, ix.X); o != nil {
						dirty = o
					}
				}
				return true
			})
		}
	}
	at := func(x ast.Expr) (string, bool, bool) {
		x = ast.Unparen(x)
		if id, ok := x.(*ast.Ident); ok && info.Uses[id] == reorg {
			return "R", false, true
		}
		if ix, ok := x.(*ast.IndexExpr); ok && dirty != nil && an.ObjOf(info, ix.X) == dirty && an.ObjOf(info, ix.Index) == keyObj {
			return "D", false, true
		}
		return "", false, false
	}
	// (a) every list is filtered unless (not reorg and not dirty) or its state cannot be read
	skip := an.Set{}
	if dirty != nil {
		skip = g.EdgesImplying(at, map[string]bool{"R": false, "D": false})
	}
	var stateSite *an.Site
	for _, s := range g.CallsTo("mempool.(*MemPool).getAccountState") {
		s := s
		if !(pr.Body.Pos() <= s.Call.Pos() && s.Call.End() <= pr.Body.End()) {
			continue
		}
		stateSite = &s
		for en := range g.ErrNilEdges(s) {
			for _, sib := range en.Cond.Succs {
				if sib != en {
					skip[sib] = true
				}
			}
		}
	}
	okLoop := c13EveryIteration(g, pr, an.SetOf(fs.Node), skip) && c13Stable(f, reorg) && c13NoEarlyExit(g, pr)
	c.Check("block-arrival", name+"|every-list", fs.Call.Pos(), okLoop, "in the loop over the pool every list reaches FilterByState, except on the edge `!reorg && !dirty[account]` and when the account state cannot be read (no break/return/continue skips a list otherwise)")
	// (d) the state handed to FilterByState is the new state of that list's account
	okState := false
	if stateSite != nil && len(fs.Call.Args) == 1 && len(stateSite.Call.Args) == 1 {
		ns := g.ResultVarAt(*stateSite, 0)
		if ga, ok := ast.Unparen(stateSite.Call.Args[0]).(*ast.CallExpr); ok && an.CalleeName(info, ga) == "mempool.(*txList).GetAccount" && c13RecvObj(info, ga) == lstObj {
			okState = ns != nil && an.ObjOf(info, fs.Call.Args[0]) == ns && g.Dominated(fs.Node, g.ErrNilEdges(*stateSite)) && g.Dominated(stateSite.Node, an.SetOf(ss.Node))
			for m := range g.Between(stateSite.Node, fs.Node) {
				if m.Kind == an.KStmt && an.Assigns(info, m.Ast, ns) {
					okState = false
				}
			}
		}
	}
	c.Check("block-arrival", name+"|new-state", fs.Call.Pos(), okState, "FilterByState receives the state getAccountState(list.GetAccount()) read after setStateDB(block) moved the pool's state view to the new block")
	// (b) when not reorg, the dirty set is filled from the block's transactions before the loop
	txRanges := c13Ranges(f, func(rs *ast.RangeStmt) bool {
		call, ok := ast.Unparen(rs.X).(*ast.CallExpr)
		return ok && an.CalleeName(info, call) == "types.(*BlockBody).GetTxs"
	})
	okDirty, okMark := false, false
	if len(txRanges) == 1 && dirty != nil {
		tr := txRanges[0]
		trX, prX := g.NodeOf(tr.X), g.NodeOf(pr.X)
		if trX != nil && prX != nil {
			avoid := g.EdgesImplying(at, map[string]bool{"R": true})
			avoid[trX] = true
			okDirty = !g.Reach(ss.Node.Succs, avoid)[prX]
		}
		// (c) every transaction of the block marks its sender
		marks := an.Set{}
		var txv types.Object
		if tr.Value != nil {
			txv = an.ObjOf(info, tr.Value)
		}
		for _, n := range g.Nodes {
			as, ok := n.Ast.(*ast.AssignStmt)
			if n.Kind != an.KStmt || !ok || len(as.Lhs) != 1 || len(as.Rhs) != 1 || !c13Inside(n, tr) {
				continue
			}
			ix, ok := ast.Unparen(as.Lhs[0]).(*ast.IndexExpr)
			if !ok || an.ObjOf(info, ix.X) != dirty {
				continue
			}
			if v, isC := c13BoolConst(info, as.Rhs[0]); !isC || !v {
				continue
			}
			kc, ok := ast.Unparen(ix.Index).(*ast.CallExpr)
			if !ok || an.CalleeName(info, kc) != "types.ToAccountID" || len(kc.Args) != 1 {
				continue
			}
			if c13FromSender(f, kc.Args[0], txv) {
				marks[n] = true
			}
		}
		okMark = len(marks) > 0 && txv != nil && c13EveryIteration(g, tr, marks, an.Set{})
	}
	c.Check("block-arrival", name+"|dirty-filled", ss.Call.Pos(), okDirty, "between setStateDB and the loop over the pool, the loop over the block's transactions is skipped only on an edge that implies reorg == true (then every list is filtered anyway)")
	c.Check("block-arrival", name+"|sender-marked", ss.Call.Pos(), okMark, "every transaction of the block marks dirty[ToAccountID(sender)] = true, the sender being tx.GetBody().GetAccount() (or its resolved name)")
	// (e) on a chain fork the pool is reset before anything else is filtered
	okFork := false
	if fork := g.ResultVarAt(ss, 1); fork != nil {
		fat := func(x ast.Expr) (string, bool, bool) {
			if id, ok := ast.Unparen(x).(*ast.Ident); ok && info.Uses[id] == fork {
				return "F", false, true
			}
			return "", false, false
		}
		yes := g.EdgesImplying(fat, map[string]bool{"F": true})
		no := g.EdgesImplying(fat, map[string]bool{"F": false})
		for _, rs := range g.CallsTo("mempool.(*MemPool).resetAll") {
			if g.Dominated(rs.Node, yes) && g.Dominated(fs.Node, no) && !g.Reachable(rs.Node, fs.Node) {
				okFork = true
			}
		}
	}
	c.Check("block-arrival", name+"|fork-reset", ss.Call.Pos(), okFork, "when setStateDB reports a chain fork the pool is reset (resetAll) and no list is filtered afterwards; otherwise the filter loop runs")
	c.Floor("block-arrival", 7)
}

// c13FromSender: x is a local whose definitions include
// txv.GetBody().GetAccount(), every other definition being derived from x itself.
func c13FromSender(f *an.Func, x ast.Expr, txv types.Object) bool {
	info := f.Info()
	isSender := func(y ast.Expr) bool {
		call, ok := ast.Unparen(y).(*ast.CallExpr)
		if !ok || an.CalleeName(info, call) != "types.(*TxBody).GetAccount" {
			return false
		}
		sel, ok := ast.Unparen(call.Fun).(*ast.SelectorExpr)
		if !ok {
			return false
		}
		inner, ok := ast.Unparen(sel.X).(*ast.CallExpr)
		if !ok {
			return false
		}
		fn := an.Callee(info, inner)
		return fn != nil && fn.Name() == "GetBody" && c13RecvObj(info, inner) == txv
	}
	if isSender(x) {
		return true
	}
	obj := an.ObjOf(info, x)
	if obj == nil {
		return false
	}
	defs, _ := c13Defs(f, obj)
	found := false
	for _, d := range defs {
		switch {
		case d == nil:
			return false
		case isSender(d):
			found = true
		case c13Mentions(info, d, obj):
			// account = resolve(account)
		default:
			return false
		}
	}
	return found
}

// c13FilterByState: internal shape of txList.FilterByState.
func c13FilterByState(e *c13Env) {
	c := e.c
	f := c.Fn("mempool.(*txList).FilterByState")
	if f == nil {
		return
	}
	g := f.Graph()
	info := f.Info()
	name := "mempool.(*txList).FilterByState"
	var st types.Object
	if f.Type.Params != nil && len(f.Type.Params.List) == 1 && len(f.Type.Params.List[0].Names) == 1 {
		st = info.Defs[f.Type.Params.List[0].Names[0]]
	}
	if st == nil {
		c.Undecide("block-arrival", name, "state parameter not found")
		return
	}
	// (f) base = st on every path
	bases := an.Set{}
	for _, a := range e.acc {
		if a.Fn == f && a.Field == e.tlBase && a.Write && a.How == "assign" {
			n := g.NodeContaining(a.Pos)
			if as, ok := n.Ast.(*ast.AssignStmt); ok && len(as.Rhs) == 1 && an.ObjOf(info, as.Rhs[0]) == st {
				bases[n] = true
			}
		}
	}
	okBase := len(bases) > 0 && c13Stable(f, st)
	for _, r := range g.Returns() {
		if !g.Dominated(r, bases) {
			okBase = false
		}
	}
	c.Check("block-arrival", name+"|base-updated", f.Pos(), okBase, "every return is preceded by `base = st`: the next txList.Put compares nonces with the new account state")
	// (g) partition: each entry of the old list is kept (only when valid or nonce too high) or reported removed
	lists := c13Ranges(f, func(rs *ast.RangeStmt) bool { return an.FieldOf(info, rs.X) == e.tlList })
	vals := g.CallsTo("types.(Transaction).ValidateWithSenderState")
	if len(lists) != 1 || len(vals) != 1 {
		c.Undecide("block-arrival", name, "expected one loop over the list with one call of ValidateWithSenderState")
		return
	}
	lr, vs := lists[0], vals[0]
	var elem types.Object
	if lr.Value != nil {
		elem = an.ObjOf(info, lr.Value)
	}
	ev := g.ResultVarAt(vs, 0)
	tooHigh := e.p.LookupObj("types", "ErrTxNonceToohigh")
	okVal := elem != nil && ev != nil && tooHigh != nil && c13RecvObj(info, vs.Call) == elem && len(vs.Call.Args) >= 1 && an.ObjOf(info, vs.Call.Args[0]) == st
	at := func(x ast.Expr) (string, bool, bool) {
		b, ok := ast.Unparen(x).(*ast.BinaryExpr)
		if !ok || (b.Op != token.EQL && b.Op != token.NEQ) {
			return "", false, false
		}
		for _, pr := range [][2]ast.Expr{{b.X, b.Y}, {b.Y, b.X}} {
			if ev == nil || an.ObjOf(info, pr[0]) != ev {
				continue
			}
			if tv, ok := info.Types[pr[1]]; ok && tv.IsNil() {
				return "NIL", b.Op == token.NEQ, true
			}
			if sel, ok := ast.Unparen(pr[1]).(*ast.SelectorExpr); ok && info.Uses[sel.Sel] == tooHigh {
				return "HIGH", b.Op == token.NEQ, true
			}
		}
		return "", false, false
	}
	pass := an.Set{}
	for en := range g.EdgesRefuting(at, []map[string]bool{{"NIL": false, "HIGH": false}}) {
		clean := g.Dominated(en.Cond, an.SetOf(vs.Node))
		for m := range g.Between(vs.Node, en.Cond) {
			if m.Kind == an.KStmt && ev != nil && an.Assigns(info, m.Ast, ev) {
				clean = false
			}
		}
		if clean {
			pass[en] = true
		}
	}
	// the slice that becomes the new list, the slice that is returned
	var keptVar, remVar types.Object
	for _, a := range e.acc {
		if a.Fn == f && a.Field == e.tlList && a.Write && a.How == "assign" {
			if as, ok := g.NodeContaining(a.Pos).Ast.(*ast.AssignStmt); ok && len(as.Rhs) == 1 {
				keptVar = an.ObjOf(info, as.Rhs[0])
			}
		}
	}
	for _, r := range g.Returns() {
		rs := r.Ast.(*ast.ReturnStmt)
		if len(rs.Results) == 2 {
			if o := an.ObjOf(info, rs.Results[1]); o != nil {
				if _, isVar := o.(*types.Var); isVar {
					remVar = o
				}
			}
		}
	}
	appends := func(v types.Object) an.Set {
		out := an.Set{}
		for _, n := range g.Nodes {
			as, ok := n.Ast.(*ast.AssignStmt)
			if n.Kind != an.KStmt || !ok || len(as.Lhs) != 1 || len(as.Rhs) != 1 || an.ObjOf(info, as.Lhs[0]) != v || !c13Inside(n, lr) {
				continue
			}
			if call, ok := ast.Unparen(as.Rhs[0]).(*ast.CallExpr); ok && an.IsBuiltin(info, call, "append") && len(call.Args) >= 2 && an.ObjOf(info, call.Args[0]) == v {
				out[n] = true
			}
		}
		return out
	}
	okKeep, okPart := false, false
	if keptVar != nil && remVar != nil && keptVar != remVar {
		keep, rem := appends(keptVar), appends(remVar)
		okKeep = okVal && len(keep) > 0 && len(pass) > 0
		for n := range keep {
			if !g.Dominated(n, pass) {
				okKeep = false
			}
		}
		// removed gets exactly the current element
		okRem := len(rem) > 0
		for n := range rem {
			call := ast.Unparen(n.Ast.(*ast.AssignStmt).Rhs[0]).(*ast.CallExpr)
			if len(call.Args) != 2 || an.ObjOf(info, call.Args[1]) != elem || call.Ellipsis.IsValid() {
				okRem = false
			}
		}
		okPart = okRem && c13EveryIteration(g, lr, keep.Union(rem), an.Set{})
	}
	c.Check("block-arrival", name+"|kept-valid", vs.Call.Pos(), okKeep, "an entry stays in the list only when ValidateWithSenderState(st, ...) on that entry returned nil or ErrTxNonceToohigh (a nonce at or below the new state's nonce is dropped)")
	c.Check("block-arrival", name+"|partition", vs.Call.Pos(), okPart, "every iteration appends the entry either to the slice that becomes the new list or, as the single current element, to the slice returned to the pool for un-counting: no entry vanishes uncounted")
}

// c13Sequential: setStateDB's first result selects, in removeOnBlockArrival,
// between filtering every list (true) and filtering only the accounts of the
// arriving block (false).  The partial filter is sound only when the pool's
// previous state view was the parent of the arriving block: false may be
// returned only where `parent == bestBlockID` is known.
func c13Sequential(e *c13Env) {
	c := e.c
	f := c.Fn("mempool.(*MemPool).setStateDB")
	best := e.p.LookupField("mempool", "MemPool", "bestBlockID")
	if f == nil || best == nil {
		c.Undecide("block-arrival", "mempool.(*MemPool).setStateDB", "anchor not found")
		return
	}
	g := f.Graph()
	info := f.Info()
	derivedFrom := func(x ast.Node, getter string) bool {
		found := false
		ast.Inspect(x, func(n ast.Node) bool {
			id, ok := n.(*ast.Ident)
			if !ok {
				return true
			}
			v, ok := info.Uses[id].(*types.Var)
			if !ok || v.IsField() {
				return true
			}
			if d := c13SingleDef(f, v); d != nil {
				ast.Inspect(d, func(m ast.Node) bool {
					if call, ok := m.(*ast.CallExpr); ok {
						if fn := an.Callee(info, call); fn != nil && fn.Name() == getter {
							found = true
						}
					}
					return true
				})
			}
			return true
		})
		return found
	}
	fromParent := func(x ast.Node) bool { return derivedFrom(x, "GetPrevBlockHash") }
	fromSelf := func(x ast.Node) bool { return derivedFrom(x, "BlockHash") && !derivedFrom(x, "GetPrevBlockHash") }
	mentionsBest := func(x ast.Node) bool {
		found := false
		ast.Inspect(x, func(n ast.Node) bool {
			if s, ok := n.(*ast.SelectorExpr); ok && an.FieldOf(info, s) == best {
				found = true
			}
			return true
		})
		return found
	}
	at := func(x ast.Expr) (string, bool, bool) {
		b, ok := ast.Unparen(x).(*ast.BinaryExpr)
		if !ok || (b.Op != token.EQL && b.Op != token.NEQ) {
			return "", false, false
		}
		for _, pr := range [][2]ast.Expr{{b.X, b.Y}, {b.Y, b.X}} {
			call, ok := ast.Unparen(pr[0]).(*ast.CallExpr)
			if !ok || !c13IsZero(info, pr[1]) {
				continue
			}
			fn := an.Callee(info, call)
			if fn == nil || (fn.Name() != "Compare" && an.FuncName(fn) != "bytes.Compare") {
				continue
			}
			if fromParent(call) && mentionsBest(call) {
				return "SEQ", b.Op == token.NEQ, true
			}
			if fromSelf(call) && mentionsBest(call) {
				return "SAME", b.Op == token.NEQ, true
			}
		}
		// bytes.Equal(parent, best)
		if call, ok := ast.Unparen(x).(*ast.CallExpr); ok {
			if fn := an.Callee(info, call); fn != nil && (fn.Name() == "Equal") && mentionsBest(call) {
				if fromParent(call) {
					return "SEQ", false, true
				}
				if fromSelf(call) {
					return "SAME", false, true
				}
			}
		}
		return "", false, false
	}
	// the comparison must see the previous best block: no write of bestBlockID before it
	ok := true
	msg := ""
	for _, w := range e.p.FieldWrites(map[*types.Var]bool{best: true}) {
		if w.Fn != f {
			continue
		}
		wn := g.NodeContaining(w.Pos)
		for _, n := range g.Nodes {
			if (n.Kind == an.KTrue || n.Kind == an.KFalse) && n.Ast != nil {
				if _, _, isA := at(n.Ast.(ast.Expr)); isA && wn != nil && g.Reachable(wn, n.Cond) {
					ok, msg = false, "bestBlockID is overwritten before it is compared with the block's parent"
				}
			}
		}
	}
	// a vertex that makes the flag false is fine when the block is known to be
	// sequential (or the very block the pool already stands on) there, or when
	// every path from it to the exit learns so or overwrites the flag
	seqEdges := g.EdgesImplying(at, map[string]bool{"SEQ": true}).Union(g.EdgesImplying(at, map[string]bool{"SAME": true}))
	checkFalse := func(n *an.Node, others an.Set) {
		if g2, _ := g.GuardedAt(n, at, map[string]bool{"SEQ": true}); g2 {
			return
		}
		if g2, _ := g.GuardedAt(n, at, map[string]bool{"SAME": true}); g2 {
			return
		}
		if !g.Reach(n.Succs, seqEdges.Union(others))[g.Exit] {
			return
		}
		ok, msg = false, "the flag is false at "+e.p.Pos(n.Ast.Pos())+" and reaches the return on a path on which the block's parent is NOT known to be the pool's previous best block"
	}
	nFalse := 0
	for _, r := range g.Returns() {
		rs := r.Ast.(*ast.ReturnStmt)
		if len(rs.Results) != 2 {
			ok, msg = false, "unexpected return form"
			continue
		}
		if v, isC := c13BoolConst(info, rs.Results[0]); isC {
			if !v {
				nFalse++
				checkFalse(r, an.Set{})
			}
			continue
		}
		obj := an.ObjOf(info, rs.Results[0])
		if obj == nil {
			ok, msg = false, "first result is neither a constant nor a local"
			continue
		}
		defs, nodes := c13Defs(f, obj)
		for i, d := range defs {
			others := an.Set{}
			for j, m := range nodes {
				if j != i {
					others[m] = true
				}
			}
			v, isC := false, false
			if d != nil {
				v, isC = c13BoolConst(info, d)
			}
			switch {
			case !isC:
				ok, msg = false, "the flag is assigned a non-constant"
			case !v:
				nFalse++
				checkFalse(nodes[i], others)
			}
		}
	}
	if f.Type.Results == nil || f.Type.Results.NumFields() != 2 {
		ok = false
	}
	c.Check("block-arrival", "mempool.(*MemPool).setStateDB|partial-filter-only-when-sequential", f.Pos(), ok && nFalse > 0,
		"setStateDB returns false as first result (removeOnBlockArrival then filters only the accounts of this block) only when the block's parent is the pool's previous best block; for any other block every list must be filtered against the new state "+msg)
}
