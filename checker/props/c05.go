package props

import (
	"go/ast"
	"go/token"
	"go/types"
	"strings"

	"verif/checker/internal/an"
	"verif/checker/internal/rep"
)

// C05 — chain database consistency after any history of block arrivals.
//
// Decided clauses: the tip move is one DB transaction (single-transaction
// discipline of every writer reached from it); state and receipts are written
// before the tip moves; every query that maps a hash to a confirmed result
// filters by the main chain; the in-memory tip has a closed writer set and is
// updated after the matching DB write; index guards before indexing.

func init() { register("C05", runC05) }

const (
	c05TxSet    = "github.com/aergoio/aergo-lib/db.(Transaction).Set"
	c05TxDel    = "github.com/aergoio/aergo-lib/db.(Transaction).Delete"
	c05TxCommit = "github.com/aergoio/aergo-lib/db.(Transaction).Commit"
	c05BulkSet  = "github.com/aergoio/aergo-lib/db.(Bulk).Set"
	c05BulkDel  = "github.com/aergoio/aergo-lib/db.(Bulk).Delete"
	c05Flush    = "github.com/aergoio/aergo-lib/db.(Bulk).Flush"
	c05NewTx    = "github.com/aergoio/aergo-lib/db.(DB).NewTx"
	c05NewBulk  = "github.com/aergoio/aergo-lib/db.(DB).NewBulk"
	c05StoreSet = "github.com/aergoio/aergo-lib/db.(DB).Set"
	c05StoreDel = "github.com/aergoio/aergo-lib/db.(DB).Delete"
)

func runC05(c *rep.Ctx) {
	c.Explain = "Decides the structural conditions of a coherent chain database: chainProcessor.connectToChain opens one DB transaction, hands that very transaction to ChainDB.connectToChain (block, height index, latest pointer, consensus status) and addTxsOfBlock (transaction index) and commits once after both, and none of the helpers reached from it writes through anything but the transaction it was given; swapChainMapping writes the whole height mapping, the latest pointer and the consensus status into one bulk and updates the in-memory tip only after the flush, dropBlock likewise after its commit; the block is executed and its receipts written before the tip transaction; every query that turns a transaction or block hash into a confirmed result compares the block found with the main-chain block of the same height and errors on mismatch; the in-memory tip is stored only by setLatest, which is called only from the tip-moving functions; positional lookups are bounds-checked with the right operator. It does not decide coherence after arbitrary arrival histories."
	c.NotDecided = []string{"coherence after arbitrary histories of orphans, forks and reorganisations (needs executions)", "completeness of the old-transaction deletion in swapTxMapping beyond the set flow decided in C07", "key-space collisions between raw block and transaction hashes"}
	c.Assume = []string{"a db.Transaction is atomic (aergo-lib)", "function literals stored in chainProcessor fields are resolved through the assignments in newChainProcessor"}
	c05TipTransaction(c)
	c05HelperDiscipline(c)
	c05BulkSwaps(c)
	c05MainChainFilter(c)
	c05TipWriters(c)
	c05IndexGuards(c)
}

func c05TipTransaction(c *rep.Ctx) {
	f := c.Fn("chain.(*chainProcessor).connectToChain")
	if f == nil {
		return
	}
	g := f.Graph()
	info := f.Info()
	newTx := g.CallsTo(c05NewTx)
	commit := g.CallsTo(c05TxCommit)
	conn := g.CallsTo("chain.(*ChainDB).connectToChain")
	addTxs := g.CallsTo("chain.(*ChainDB).addTxsOfBlock")
	ok := len(newTx) == 1 && len(commit) == 1 && len(conn) == 1 && len(addTxs) == 1
	c.Check("tip-tx", "chain.(*chainProcessor).connectToChain|shape", f.Pos(), ok, "the tip move opens exactly one DB transaction, calls the chain-DB connect and the transaction-index writer once each and commits once")
	if !ok {
		return
	}
	tx := g.ResultVarAt(newTx[0], 0)
	same := tx != nil && argIs(info, conn[0].Call, 0, tx) && argIs(info, addTxs[0].Call, 0, tx) && recvObj(info, commit[0].Call) == tx
	c.Check("tip-tx", "chain.(*chainProcessor).connectToChain|same-tx", newTx[0].Call.Pos(), same, "block, height index, latest pointer, consensus status and transaction index are written through the same DB transaction that is then committed")
	order := g.Dominated(commit[0].Node, nodesOf(conn)) && g.Dominated(commit[0].Node, g.ErrNilEdges(addTxs[0])) && len(g.ErrNilEdges(addTxs[0])) > 0 && !g.InLoop(commit[0].Node)
	c.Check("tip-tx", "chain.(*chainProcessor).connectToChain|commit-last", commit[0].Call.Pos(), order, "the commit comes after all writes and only if writing the transaction index succeeded")
	// no write outside the transaction
	bad := g.CallsTo(c05StoreSet, c05StoreDel, c05NewBulk)
	c.Check("tip-tx", "chain.(*chainProcessor).connectToChain|no-side-write", f.Pos(), len(bad) == 0, "nothing is written to the store outside the transaction")
	// the transaction index names the block that was connected
	blk := f.ParamObj(0)
	// once-defined locals are looked through ( txs := block.GetBody().GetTxs() ); the exact pairing of list and
	// hash with one block value is decided by index-own-hash in c05_gap.go
	var expand func(e ast.Expr, depth int) ast.Expr
	expand = func(e ast.Expr, depth int) ast.Expr {
		e = ast.Unparen(e)
		if o := an.ObjOf(info, e); o != nil && depth < 4 {
			if rhs, _ := g.SingleDef(o); rhs != nil && rhs != e {
				return expand(rhs, depth+1)
			}
		}
		return e
	}
	a1, a2 := expand(addTxs[0].Call.Args[1], 0), expand(addTxs[0].Call.Args[2], 0)
	okArgs := argIs(info, conn[0].Call, 1, blk) && mentions(info, a1, blk) && mentions(info, a2, blk) &&
		containsCallTo(info, a2, "types.(*Block).BlockHash", "types.(*Block).GetHash")
	c.Check("tip-tx", "chain.(*chainProcessor).connectToChain|same-block", conn[0].Call.Pos(), okArgs, "the transactions indexed and the block hash they are indexed under belong to the block being connected")
	// ChainDB.connectToChain: height index and latest pointer for the same number
	if cf := c.Fn("chain.(*ChainDB).connectToChain"); cf != nil {
		cg := cf.Graph()
		ci := cf.Info()
		sets := cg.CallsTo(c05TxSet)
		latest, height := false, false
		var idx types.Object
		for _, s := range sets {
			if containsCallTo(ci, s.Call.Args[0], "types/dbkey.LatestBlock") {
				latest = true
				idx = an.ObjOf(ci, s.Call.Args[1])
			}
		}
		for _, s := range sets {
			if idx != nil && an.ObjOf(ci, s.Call.Args[0]) == idx && containsCallTo(ci, s.Call.Args[1], "types.(*Block).BlockHash", "types.(*Block).GetHash") && mentions(ci, s.Call.Args[1], cf.ParamObj(1)) {
				height = true
			}
		}
		okIdx := false
		if idx != nil {
			if rhs, _ := cg.SingleDef(idx); rhs != nil && containsCallTo(ci, rhs, "types.BlockNoToBytes") {
				if o := firstIdentArg(ci, rhs); o != nil {
					if r2, _ := cg.SingleDef(o); r2 != nil && mentions(ci, r2, cf.ParamObj(1)) {
						okIdx = true
					}
				}
			}
		}
		c.Check("tip-tx", "chain.(*ChainDB).connectToChain|height-and-latest", cf.Pos(), latest && height && okIdx, "the latest pointer and the height index entry are written for the number of the connected block, the entry holding that block's hash")
		// the in-memory tip is set after the writes
		sl := cg.CallsTo("chain.(*ChainDB).setLatest")
		okMem := len(sl) == 1 && argIs(ci, sl[0].Call, 0, cf.ParamObj(1))
		for _, s := range sets {
			okMem = okMem && cg.Dominated(sl[0].Node, an.SetOf(s.Node))
		}
		c.Check("tip-tx", "chain.(*ChainDB).connectToChain|memory-after-writes", posOf(sl), okMem, "the in-memory tip moves to the connected block after the index writes were issued")
	}
}

func firstIdentArg(info *types.Info, e ast.Expr) types.Object {
	call, ok := ast.Unparen(e).(*ast.CallExpr)
	if !ok || len(call.Args) == 0 {
		return nil
	}
	return an.ObjOf(info, call.Args[0])
}

// helpers that receive a transaction must write only through it
var c05Helpers = []string{
	"chain.(*ChainDB).connectToChain",
	"chain.(*ChainDB).addBlock",
	"chain.(*ChainDB).addTxsOfBlock",
	"chain.(*ChainDB).addTx",
	"chain.(*ChainDB).deleteTx",
	"chain.(*ChainDB).deleteReceiptsAndOperations",
}

func c05HelperDiscipline(c *rep.Ctx) {
	for _, name := range c05Helpers {
		f := c.Fn(name)
		if f == nil {
			continue
		}
		g := f.Graph()
		info := f.Info()
		// the transaction parameter: the first parameter whose type is db.Transaction or *db.Transaction
		var txp types.Object
		for i := 0; ; i++ {
			o := f.ParamObj(i)
			if o == nil {
				break
			}
			if strings.HasSuffix(strings.TrimPrefix(o.Type().String(), "*"), "aergo-lib/db.Transaction") {
				txp = o
				break
			}
		}
		ok := txp != nil
		n := 0
		for _, s := range g.CallsTo(c05TxSet, c05TxDel) {
			n++
			sel, _ := ast.Unparen(s.Call.Fun).(*ast.SelectorExpr)
			root := ast.Expr(nil)
			if sel != nil {
				root = sel.X
			}
			for {
				switch x := ast.Unparen(root).(type) {
				case *ast.StarExpr:
					root = x.X
					continue
				}
				break
			}
			if an.ObjOf(info, root) != txp {
				ok = false
			}
		}
		bad := g.CallsTo(c05StoreSet, c05StoreDel, c05NewTx, c05NewBulk, c05TxCommit, c05Flush)
		c.Check("helper-tx", name, f.Pos(), ok && len(bad) == 0, "a helper of the tip move writes only through the transaction it was handed and neither opens, commits nor bypasses a transaction")
		// callees that take the transaction get the same one
		for _, s := range g.Calls(func(fn *types.Func, _ *ast.CallExpr) bool {
			if fn == nil {
				return false
			}
			for _, h := range c05Helpers {
				if an.FuncName(fn) == h {
					return true
				}
			}
			return false
		}) {
			pass := false
			for _, a := range s.Call.Args {
				if mentions(info, a, txp) {
					pass = true
				}
			}
			c.Check("helper-tx", name+"|passes-tx|"+shortName(an.FuncName(s.Fn)), s.Call.Pos(), pass, "the same transaction is handed down")
		}
		_ = n
	}
	c.Floor("helper-tx", 6)
}

func c05BulkSwaps(c *rep.Ctx) {
	if f := c.Fn("chain.(*ChainDB).swapChainMapping"); f != nil {
		g := f.Graph()
		info := f.Info()
		bulk := g.CallsTo(c05NewBulk)
		flush := g.CallsTo(c05Flush)
		sl := g.CallsTo("chain.(*ChainDB).setLatest")
		ok := len(bulk) == 1 && len(flush) == 1 && len(sl) == 1
		if ok {
			b := g.ResultVarAt(bulk[0], 0)
			sets := g.CallsTo(c05BulkSet)
			latest := false
			for _, s := range sets {
				if recvObj(info, s.Call) != b {
					ok = false
				}
				if !g.Dominated(flush[0].Node, an.SetOf(s.Node)) && !g.InLoop(s.Node) {
					ok = false
				}
				if containsCallTo(info, s.Call.Args[0], "types/dbkey.LatestBlock") {
					latest = true
				}
			}
			ok = ok && latest && len(sets) >= 2 && recvObj(info, flush[0].Call) == b &&
				g.Dominated(sl[0].Node, nodesOf(flush)) && len(g.CallsTo(c05StoreSet, c05NewTx)) == 0
			// the new tip is element 0 of the new branch (a once-defined local holding the element is resolved)
			if len(sl[0].Call.Args) != 1 || !c05IsElemZero(g, sl[0].Call.Args[0], f.ParamObj(0)) {
				ok = false
			}
		}
		c.Check("bulk-swap", "chain.(*ChainDB).swapChainMapping|one-bulk", f.Pos(), ok, "the whole height mapping of the new branch and the latest pointer go into one bulk; the in-memory tip moves to the new tip only after the flush")
		// every block of the new branch is mapped (any loop that visits all elements)
		cov, descending := false, false
		var loopBody *ast.BlockStmt
		ast.Inspect(f.Body, func(n ast.Node) bool {
			switch fs := n.(type) {
			case *ast.ForStmt:
				if c05LoopCoversDescendingParam(info, fs, f.ParamObj(0)) && containsCallTo(info, fs.Body, "types.BlockNoToBytes") {
					cov, descending, loopBody = true, true, fs.Body
				}
			case *ast.RangeStmt:
				if an.ObjOf(info, fs.X) == f.ParamObj(0) && f.ParamObj(0) != nil && containsCallTo(info, fs.Body, "types.BlockNoToBytes") {
					cov, descending, loopBody = true, false, fs.Body
				}
			}
			return true
		})
		c.Check("bulk-swap", "chain.(*ChainDB).swapChainMapping|every-block", f.Pos(), cov, "a height entry is written for every block of the new branch")
		// the latest pointer names the tip, element 0 of the new branch (the in-memory tip is set to the same element)
		okLatest := false
		for _, s := range g.CallsTo(c05BulkSet) {
			if !containsCallTo(info, s.Call.Args[0], "types/dbkey.LatestBlock") {
				continue
			}
			val := s.Call.Args[1]
			tipDirect := func(e ast.Node) bool {
				found := false
				ast.Inspect(e, func(n ast.Node) bool {
					if ix, isIx := n.(*ast.IndexExpr); isIx && an.ObjOf(info, ix.X) == f.ParamObj(0) {
						if tv, has := info.Types[ix.Index]; has && tv.Value != nil && tv.Value.ExactString() == "0" {
							found = true
						}
					}
					return true
				})
				return found
			}
			if tipDirect(val) {
				okLatest = true
				continue
			}
			// a variable assigned inside the covering loop: its last value is that of the last element visited,
			// which is element 0 only for the descending loop
			if o := an.ObjOf(info, val); o != nil && loopBody != nil && descending && !g.InLoop(s.Node) {
				assignedInLoop := false
				ast.Inspect(loopBody, func(n ast.Node) bool {
					if st, isSt := n.(ast.Stmt); isSt && an.Assigns(info, st, o) {
						assignedInLoop = true
					}
					return true
				})
				okLatest = assignedInLoop
			}
		}
		c.Check("bulk-swap", "chain.(*ChainDB).swapChainMapping|latest-is-tip", f.Pos(), okLatest, "the persisted latest pointer is the number of the new branch's tip (element 0), the same block the in-memory tip is set to")
	}
	if f := c.Fn("chain.(*ChainDB).dropBlock"); f != nil {
		g := f.Graph()
		commit := g.CallsTo(c05TxCommit)
		sl := g.CallsTo("chain.(*ChainDB).setLatest")
		ok := len(commit) == 1 && len(sl) == 1 && g.Dominated(sl[0].Node, nodesOf(commit))
		for _, s := range g.CallsTo(c05TxSet, c05TxDel) {
			ok = ok && g.Dominated(commit[0].Node, an.SetOf(s.Node))
		}
		c.Check("bulk-swap", "chain.(*ChainDB).dropBlock|commit-then-memory", f.Pos(), ok, "dropping a block deletes index, block, receipts and moves the latest pointer in one committed transaction before the in-memory tip moves back")
	}
}

// c05IsElemZero: e is param[0] (constant index 0 of the never reassigned slice parameter), directly or through
// locals that are defined exactly once.
func c05IsElemZero(g *an.Graph, e ast.Expr, param types.Object) bool {
	info := g.Fn.Info()
	if param == nil || !g.SingleDefOrParam(param) {
		return false
	}
	for i := 0; i < 4; i++ {
		e = ast.Unparen(e)
		if ix, isIx := e.(*ast.IndexExpr); isIx {
			tv, has := info.Types[ix.Index]
			return an.ObjOf(info, ix.X) == param && has && tv.Value != nil && tv.Value.ExactString() == "0"
		}
		o := an.ObjOf(info, e)
		if v, isVar := o.(*types.Var); !isVar || v.IsField() {
			return false
		}
		rhs, idx := g.SingleDef(o)
		if rhs == nil || idx != 0 {
			return false
		}
		if tv, has := info.Types[rhs]; has {
			if _, isTuple := tv.Type.(*types.Tuple); isTuple {
				return false
			}
		}
		e = rhs
	}
	return false
}

func c05LoopCoversDescendingParam(info *types.Info, fs *ast.ForStmt, param types.Object) bool {
	as, ok := fs.Init.(*ast.AssignStmt)
	if !ok || len(as.Lhs) != 1 || len(as.Rhs) != 1 {
		return false
	}
	iv := an.ObjOf(info, as.Lhs[0])
	be, ok := ast.Unparen(as.Rhs[0]).(*ast.BinaryExpr)
	if !ok || be.Op != token.SUB {
		return false
	}
	call, ok := ast.Unparen(be.X).(*ast.CallExpr)
	if !ok || !an.IsBuiltin(info, call, "len") || an.ObjOf(info, call.Args[0]) != param || param == nil {
		return false
	}
	cond, ok := fs.Cond.(*ast.BinaryExpr)
	if !ok || an.ObjOf(info, cond.X) != iv {
		return false
	}
	tv, has := info.Types[cond.Y]
	if !has || tv.Value == nil || !((cond.Op == token.GEQ && tv.Value.ExactString() == "0") || (cond.Op == token.GTR && tv.Value.ExactString() == "-1")) {
		return false
	}
	post, ok := fs.Post.(*ast.IncDecStmt)
	return ok && post.Tok == token.DEC && an.ObjOf(info, post.X) == iv
}

// queries that must filter by the main chain
var c05Queries = []string{
	"chain.(*ChainService).getTx",
	"chain.(*ChainService).getReceipt",
	"chain.(*ChainService).getReceipts",
	"chain.(*ChainService).getReceiptsByNo",
	"chain.(*ChainService).getInternalOperations",
}

func c05MainChainFilter(c *rep.Ctx) {
	for _, name := range c05Queries {
		f := c.Fn(name)
		if f == nil {
			continue
		}
		g := f.Graph()
		info := f.Info()
		// the main-chain block of the same height
		var mainBlk types.Object
		for _, s := range g.CallsTo("chain.(*ChainDB).GetBlockByNo") {
			mainBlk = g.ResultVarAt(s, 0)
		}
		var eq an.Set
		var pos token.Pos
		for _, s := range g.CallsTo("bytes.Equal") {
			if len(s.Call.Args) != 2 {
				continue
			}
			a, b := s.Call.Args[0], s.Call.Args[1]
			if containsCallTo(info, a, "types.(*Block).BlockHash") && containsCallTo(info, b, "types.(*Block).BlockHash") &&
				mainBlk != nil && (mentions(info, a, mainBlk) != mentions(info, b, mainBlk)) {
				eq, pos = g.BoolEdges(s, true), s.Call.Pos()
			}
		}
		ok := len(eq) > 0 && mainBlk != nil
		// every return that hands out a result without error is behind the comparison
		nRet := 0
		for _, r := range g.Returns() {
			rs := r.Ast.(*ast.ReturnStmt)
			if len(rs.Results) == 0 {
				continue
			}
			last := rs.Results[len(rs.Results)-1]
			if an.NonNilErrorExpr(info, last) {
				continue
			}
			// `return nil..., err` right after a failed lookup is an error return
			isErrRet := false
			if o := an.ObjOf(info, last); o != nil {
				nn := g.EdgesImplying(an.NilAtom(info, o), map[string]bool{"nil": false})
				if len(nn) > 0 && g.Dominated(r, nn) {
					isErrRet = true
				}
			}
			if isErrRet {
				continue
			}
			nRet++
			if !g.Dominated(r, eq) {
				ok = false
			}
		}
		c.Check("main-chain-filter", name, pos, ok && nRet >= 1, "a result is reported as confirmed only if the block it was found in is the main-chain block of that height (hash comparison with GetBlockByNo, error otherwise)")
	}
	c.Floor("main-chain-filter", 5)
}

func c05TipWriters(c *rep.Ctx) {
	p := c.Prog
	latest := p.LookupField("chain", "ChainDB", "latest")
	best := p.LookupField("chain", "ChainDB", "bestBlock")
	if latest == nil || best == nil {
		c.Undecide("tip-writers", "chain.ChainDB.{latest,bestBlock}", "fields not found")
		return
	}
	// Store calls on the two atomic fields
	allowedStore := map[string]string{"chain.(*ChainDB).setLatest": "the setter", "chain.NewChainDB": "zero initialisation"}
	n := 0
	for _, pk := range p.ModulePkgs() {
		info := pk.TypesInfo
		if info == nil {
			continue
		}
		for _, file := range pk.Syntax {
			ast.Inspect(file, func(nd ast.Node) bool {
				call, ok := nd.(*ast.CallExpr)
				if !ok {
					return true
				}
				sel, ok := ast.Unparen(call.Fun).(*ast.SelectorExpr)
				if !ok || sel.Sel.Name != "Store" {
					return true
				}
				fld := an.FieldOf(info, sel.X)
				if fld != latest && fld != best {
					return true
				}
				fn := p.EnclosingFunc(pk, call.Pos())
				name := "<package level>"
				if fn != nil {
					name = fn.TopDecl().Name()
				}
				n++
				_, okW := allowedStore[name]
				c.Check("tip-writers", name+"|"+fld.Name()+".Store", call.Pos(), okW, "the in-memory tip is stored only by setLatest (and zeroed by the constructor)")
				return true
			})
		}
	}
	if n < 3 {
		c.Undecide("tip-writers", "chain.ChainDB", "Store sites not found")
	}
	// setLatest stores number and block of the same argument
	if f := c.Fn("chain.(*ChainDB).setLatest"); f != nil {
		info := f.Info()
		okPair := false
		var numObj types.Object
		ast.Inspect(f.Body, func(nd ast.Node) bool {
			call, ok := nd.(*ast.CallExpr)
			if !ok {
				return true
			}
			sel, ok := ast.Unparen(call.Fun).(*ast.SelectorExpr)
			if !ok || sel.Sel.Name != "Store" || len(call.Args) != 1 {
				return true
			}
			switch an.FieldOf(info, sel.X) {
			case latest:
				numObj = an.ObjOf(info, call.Args[0])
			case best:
				okPair = an.ObjOf(info, call.Args[0]) == f.ParamObj(0)
			}
			return true
		})
		if numObj != nil {
			rhs, _ := f.Graph().SingleDef(numObj)
			okPair = okPair && rhs != nil && mentions(info, rhs, f.ParamObj(0))
		} else {
			okPair = false
		}
		c.Check("tip-writers", "chain.(*ChainDB).setLatest|pair", f.Pos(), okPair, "the cached best block and the cached best number are taken from the same block")
	}
	allowedCallers := map[string]string{
		"chain.(*ChainDB).connectToChain":            "tip moves forward",
		"chain.(*ChainDB).swapChainMapping":          "tip moves to the new branch",
		"chain.(*ChainDB).dropBlock":                 "manual reset (test chains)",
		"chain.(*ChainDB).loadChainData":             "start-up",
		"chain.(*ReorgMarker).RecoverChainMapping":   "crash recovery of an interrupted reorganisation",
		"chain.(*ChainDB).addGenesisBlock":           "genesis",
	}
	for _, s := range p.CallSitesOf(map[string]bool{"chain.(*ChainDB).setLatest": true}) {
		name := s.Fn.TopDecl().Name()
		_, ok := allowedCallers[name]
		c.Check("tip-writers", name+"|setLatest", s.Call.Pos(), ok, "the in-memory tip moves only in the functions that also move the persistent tip")
	}
	c.Floor("tip-writers", 8)
}

// c05IndexGuards: positional lookups X[idx] in the chain DB readers are
// dominated by a guard that rejects idx >= len(X).
func c05IndexGuards(c *rep.Ctx) {
	for _, name := range []string{"chain.(*ChainDB).getTx", "chain.(*ChainDB).getReceipt"} {
		f := c.Fn(name)
		if f == nil {
			continue
		}
		g := f.Graph()
		info := f.Info()
		n := 0
		ast.Inspect(f.Body, func(nd ast.Node) bool {
			ix, ok := nd.(*ast.IndexExpr)
			if !ok {
				return true
			}
			tv, has := info.Types[ix.X]
			if !has {
				return true
			}
			if _, isSlice := tv.Type.Underlying().(*types.Slice); !isSlice {
				return true
			}
			idxObj := rootObj(info, ix.Index)
			sl := an.ObjOf(info, ix.X)
			if idxObj == nil || sl == nil {
				return true
			}
			n++
			roleIdx := func(e ast.Expr) bool { return rootObj(info, e) == idxObj && !containsLen(info, e) }
			roleLen := func(e ast.Expr) bool {
				call := innerLen(info, e)
				return call != nil && an.ObjOf(info, call.Args[0]) == sl
			}
			cmps, _ := g.OrdCmps(roleIdx, roleLen, 0)
			ok2 := false
			node := g.NodeContaining(ix.Pos())
			for _, cm := range cmps {
				// idx == len and idx > len must not reach the index expression
				good := true
				for _, sign := range []int{0, +1} {
					e := g.EdgeUnder(cm.Node, cm.Expr, cm.Holds(sign), nil, nil)
					if e == nil {
						// the comparison is a disjunct: taken alone, does the error edge follow?
						e2 := edgeWhenTrue(g, cm, sign)
						if e2 == nil || g.Reach([]*an.Node{e2}, nil)[node] {
							good = false
						}
						continue
					}
					if g.Reach([]*an.Node{e}, nil)[node] {
						good = false
					}
				}
				if good && g.Dominated(node, an.SetOf(cm.Node)) {
					ok2 = true
				}
			}
			c.Check("index-guard", name+"|"+sl.Name()+"["+idxObj.Name()+"]", ix.Pos(), ok2, "a positional lookup is reached only when index < length (index == length is rejected)")
			return true
		})
		if n == 0 {
			c.Undecide("index-guard", name, "no positional lookup found")
		}
	}
}

// edgeWhenTrue: for a condition `A || cmp` (or cmp alone) return the true edge when cmp holds under sign.
func edgeWhenTrue(g *an.Graph, cm an.OrdCmp, sign int) *an.Node {
	if !cm.Holds(sign) {
		return nil
	}
	cond, _ := cm.Node.Ast.(ast.Expr)
	// cmp must be a top-level disjunct
	var isDisjunct func(e ast.Expr) bool
	isDisjunct = func(e ast.Expr) bool {
		e = ast.Unparen(e)
		if e == cm.Expr {
			return true
		}
		if be, ok := e.(*ast.BinaryExpr); ok && be.Op == token.LOR {
			return isDisjunct(be.X) || isDisjunct(be.Y)
		}
		return false
	}
	if !isDisjunct(cond) {
		return nil
	}
	for _, s := range cm.Node.Succs {
		if s.Kind == an.KTrue {
			return s
		}
	}
	return nil
}

func rootObj(info *types.Info, e ast.Expr) types.Object {
	for {
		e = ast.Unparen(e)
		switch x := e.(type) {
		case *ast.CallExpr:
			if len(x.Args) == 1 {
				if tv, ok := info.Types[x.Fun]; ok && tv.IsType() {
					e = x.Args[0]
					continue
				}
			}
			return nil
		case *ast.SelectorExpr:
			if f := an.FieldOf(info, x); f != nil {
				return f
			}
			return nil
		case *ast.Ident:
			return an.ObjOf(info, x)
		}
		return nil
	}
}

func innerLen(info *types.Info, e ast.Expr) *ast.CallExpr {
	for {
		e = ast.Unparen(e)
		call, ok := e.(*ast.CallExpr)
		if !ok {
			return nil
		}
		if an.IsBuiltin(info, call, "len") {
			return call
		}
		if len(call.Args) == 1 {
			if tv, ok := info.Types[call.Fun]; ok && tv.IsType() {
				e = call.Args[0]
				continue
			}
		}
		return nil
	}
}

func containsLen(info *types.Info, e ast.Expr) bool { return innerLen(info, e) != nil }
