package props

import (
	"go/ast"
	"go/token"
	"go/types"

	"verif/checker/internal/an"
)

// rank: the producer ranking is sorted with VoteList.Less; for the ranking to
// be a function of the tally (and identical on every node: buildVoteList feeds
// the sort from a map range) Less must be a strict total order on distinct
// candidates: on equal amounts it has to compare the *whole* Candidate of both
// elements with a strict operator.
func (e *c15Env) rank() {
	e.rankLess()
	e.rankSort()
}

func (e *c15Env) rankLess() {
	c, p := e.c, e.p
	f := c.Fn("types.(VoteList).Less")
	cand := p.LookupField("types", "Vote", "Candidate")
	amt := p.LookupField("types", "Vote", "Amount")
	if f == nil || cand == nil || amt == nil {
		if f != nil {
			c.Undecide("rank-total", "types.Vote.{Candidate,Amount}", "fields not found")
		}
		return
	}
	c.Pkgs["types"] = true
	g := f.Graph()
	info := f.Info()
	r := c15ResolverOf(f)
	sig := f.Obj.Type().(*types.Signature)
	if sig.Params().Len() != 2 {
		c.Undecide("rank-total", f.Name(), "Less does not take two indices")
		return
	}
	pi, pj := sig.Params().At(0), sig.Params().At(1)
	// elemField: does x denote <field> of element <param> (possibly sliced / wrapped in big.Int.SetBytes)?
	// returns the index parameter, the field, and whether a slice expression truncated it.
	var elemField func(x ast.Expr, depth int) (idx *types.Var, fld *types.Var, sliced bool)
	elemField = func(x ast.Expr, depth int) (*types.Var, *types.Var, bool) {
		if depth > 8 {
			return nil, nil, false
		}
		v := r.Resolve(x)
		if v.Call != nil && v.Expr != nil {
			name := c15CalleeName(info, v.Call)
			if name == "math/big.(*Int).SetBytes" && len(v.Call.Args) == 1 {
				return elemField(v.Call.Args[0], depth+1)
			}
			if tv, ok := info.Types[v.Call.Fun]; ok && tv.IsType() && len(v.Call.Args) == 1 {
				return elemField(v.Call.Args[0], depth+1) // conversion
			}
			// getters of the element:  x.GetAmountBigInt(), x.GetAmount(), x.GetCandidate()
			getter := map[string]*types.Var{"types.(*Vote).GetAmountBigInt": amt, "types.(*Vote).GetAmount": amt, "types.(*Vote).GetCandidate": cand}
			if fl := getter[name]; fl != nil && len(v.Call.Args) == 0 {
				if recv := c15Recv(v.Call); recv != nil {
					base := r.Resolve(recv)
					if ix, ok := ast.Unparen(base.Expr).(*ast.IndexExpr); base.Expr != nil && ok {
						if o, isVar := an.ObjOf(info, ix.Index).(*types.Var); isVar && (o == pi || o == pj) {
							return o, fl, false
						}
					}
				}
			}
			return nil, nil, false
		}
		if v.Expr == nil {
			return nil, nil, false
		}
		switch y := ast.Unparen(v.Expr).(type) {
		case *ast.SliceExpr:
			i, fl, _ := elemField(y.X, depth+1)
			return i, fl, true
		case *ast.SelectorExpr:
			fl := an.FieldOf(info, y)
			if fl == nil {
				return nil, nil, false
			}
			// base: something[index] with index one of the parameters
			base := r.Resolve(y.X)
			if ix, ok := ast.Unparen(base.Expr).(*ast.IndexExpr); base.Expr != nil && ok {
				if o, isVar := an.ObjOf(info, ix.Index).(*types.Var); isVar && (o == pi || o == pj) {
					return o, fl, false
				}
			}
		}
		return nil, nil, false
	}
	// comparison descriptor of an expression  A.Cmp(B)
	type cmpD struct {
		ia, ib *types.Var
		fa, fb *types.Var
		sliced bool
	}
	cmpOf := func(x ast.Expr) *cmpD {
		v := r.Resolve(x)
		if v.Call == nil || c15CalleeName(info, v.Call) != "math/big.(*Int).Cmp" && c15CalleeName(info, v.Call) != "bytes.Compare" {
			return nil
		}
		var a, b ast.Expr
		if c15CalleeName(info, v.Call) == "bytes.Compare" {
			if len(v.Call.Args) != 2 {
				return nil
			}
			a, b = v.Call.Args[0], v.Call.Args[1]
		} else {
			if len(v.Call.Args) != 1 {
				return nil
			}
			a, b = c15Recv(v.Call), v.Call.Args[0]
		}
		ia, fa, sa := elemField(a, 0)
		ib, fb, sb := elemField(b, 0)
		if ia == nil || ib == nil {
			return nil
		}
		return &cmpD{ia, ib, fa, fb, sa || sb}
	}
	// primary comparison: the amounts of i and j
	var primary types.Object
	for _, n := range g.StmtNodes(func(n *an.Node) bool { return true }) {
		var lhs, rhs []ast.Expr
		switch s := n.Ast.(type) {
		case *ast.AssignStmt:
			lhs, rhs = s.Lhs, s.Rhs
		case *ast.ValueSpec:
			for _, nm := range s.Names {
				lhs = append(lhs, nm)
			}
			rhs = s.Values
		}
		if len(lhs) == 1 && len(rhs) == 1 {
			if d := cmpOf(rhs[0]); d != nil && d.fa == amt && d.fb == amt && d.ia == pi && d.ib == pj && !d.sliced {
				primary = an.ObjOf(info, lhs[0])
			}
		}
	}
	if !c.Check("rank-total", f.Name()+"|primary", f.Pos(), primary != nil, "Less first compares the whole Amount of element i with that of element j") {
		return
	}
	// tie edges: edges implying primary == 0
	tieAt := func(x ast.Expr) (string, bool, bool) {
		be, ok := ast.Unparen(x).(*ast.BinaryExpr)
		if !ok {
			return "", false, false
		}
		for _, pr := range [][2]ast.Expr{{be.X, be.Y}, {be.Y, be.X}} {
			if an.ObjOf(info, pr[0]) == primary {
				if k, isK := c15ConstInt(info, pr[1]); isK && k == 0 {
					switch be.Op {
					case token.EQL:
						return "tie", false, true
					case token.NEQ:
						return "tie", true, true
					}
				}
			}
		}
		return "", false, false
	}
	tieEdges := g.EdgesImplying(tieAt, map[string]bool{"tie": true})
	if !c.Check("rank-total", f.Name()+"|tie-branch", f.Pos(), len(tieEdges) > 0, "Less has a branch for equal amounts (a tie-break exists)") {
		return
	}
	n := 0
	chainLinks, wholeLinks := 0, 0
	for _, rn := range g.Returns() {
		if !g.Dominated(rn, tieEdges) {
			continue
		}
		rs := rn.Ast.(*ast.ReturnStmt)
		if len(rs.Results) != 1 {
			continue
		}
		n++
		ok, how, code := false, "the tie-break does not return a strict comparison of the two candidates", "shape"
		if be, isBE := ast.Unparen(rs.Results[0]).(*ast.BinaryExpr); isBE {
			var d *cmpD
			var k int64
			var isK bool
			var cmpObj types.Object // the local holding the comparison result, if any
			for _, pr := range [][2]ast.Expr{{be.X, be.Y}, {be.Y, be.X}} {
				if dd := cmpOf(pr[0]); dd != nil {
					d = dd
					k, isK = c15ConstInt(info, pr[1])
					cmpObj = an.ObjOf(info, pr[0])
				}
			}
			strict := (be.Op == token.GTR || be.Op == token.LSS) && isK && k == 0
			switch {
			case d == nil || !isK:
			case d.fa != cand || d.fb != cand:
				how, code = "the tie-break does not compare the Candidate fields", "fields"
			case d.ia == d.ib:
				how, code = "the tie-break compares an element with itself", "self"
			case !strict:
				how, code = "the tie-break operator is not strict: Less(i,j) and Less(j,i) can both hold", "nonstrict"
			case d.sliced && cmpObj != nil && g.Dominated(rn, g.EdgesImplying(c15NonZeroAtom(info, cmpObj), map[string]bool{"nz": true})):
				// a partial key returned only when it differs: one link of a lexicographic chain;
				// totality then rests on the link that compares the whole candidate
				ok, how, code = true, "partial key returned only when it differs (lexicographic chain)", "chain"
				chainLinks++
			case d.sliced:
				code = "sliced"
				how = "the tie-break compares only a sub-slice of Candidate: two distinct candidates that differ only outside the slice are unordered (Less false both ways), so the sort result depends on the input order, which comes from a map range"
			default:
				ok, how, code = true, "strict comparison of the whole Candidate of i and j", "whole"
				wholeLinks++
			}
		}
		// key by shape of the tie-break, not by position
		c.Check("rank-total", f.Name()+"|tie-break|"+code, rs.Pos(), ok, "on equal amounts Less must order any two distinct candidates: "+how)
	}
	if n == 0 {
		c.Check("rank-total", f.Name()+"|tie-break|none", f.Pos(), false, "no return statement under the equal-amount branch")
	}
	if chainLinks > 0 {
		c.Check("rank-total", f.Name()+"|tie-break|chain-end", f.Pos(), wholeLinks > 0, "a chain of partial tie-breaks ends in a strict comparison of the whole Candidate")
	}
}

func (e *c15Env) rankSort() {
	c := e.c
	c.Floor("rank-total", 3)
	// buildVoteList: the list built from the tally map is sorted with VoteList.Less before it is returned
	if bf := c.Fn("contract/system.(*VoteResult).buildVoteList"); bf != nil {
		bg := bf.Graph()
		binfo := bf.Info()
		sorts := bg.Calls(func(fn *types.Func, call *ast.CallExpr) bool {
			if fn == nil || fn.Pkg() == nil || fn.Pkg().Path() != "sort" || (fn.Name() != "Sort" && fn.Name() != "Stable") || len(call.Args) != 1 {
				return false
			}
			// argument (possibly through sort.Reverse) is a types.VoteList
			a := ast.Unparen(call.Args[0])
			if inner, ok := a.(*ast.CallExpr); ok && c15CalleeName(binfo, inner) == "sort.Reverse" && len(inner.Args) == 1 {
				a = inner.Args[0]
			}
			tv, ok := binfo.Types[a]
			if !ok {
				return false
			}
			t := tv.Type
			if pt, isP := t.(*types.Pointer); isP {
				t = pt.Elem()
			}
			nt, isN := t.(*types.Named)
			return isN && nt.Obj().Name() == "VoteList"
		})
		gates := an.Set{}
		for _, s := range sorts {
			gates[s.Node] = true
		}
		ok := len(gates) > 0
		for _, rn := range bg.Returns() {
			if !bg.Dominated(rn, gates) {
				ok = false
			}
		}
		c.Check("rank-sort", bf.Name(), bf.Pos(), ok, "the vote list built from the tally map is sorted (sort.Sort on a VoteList) on every path before it is returned")
	}
	// voting-power rank comparator: tie-break on the account id
	if tf := c.Fn("contract/system.newTopVoters$1"); tf != nil {
		tg := tf.Graph()
		tinfo := tf.Info()
		nCmp, nRet := 0, 0
		idTie := false
		for _, s := range tg.Calls(nil) {
			switch an.FuncName(s.Fn) {
			case "math/big.(*Int).Cmp":
				nCmp++
			case "bytes.Compare":
				if len(s.Call.Args) == 2 {
					a, aok := ast.Unparen(s.Call.Args[0]).(*ast.CallExpr)
					b, bok := ast.Unparen(s.Call.Args[1]).(*ast.CallExpr)
					if aok && bok && c15CalleeName(tinfo, a) == "contract/system.(*votingPower).idBytes" && c15CalleeName(tinfo, b) == "contract/system.(*votingPower).idBytes" &&
						an.ObjOf(tinfo, c15Recv(a)) != nil && an.ObjOf(tinfo, c15Recv(a)) != an.ObjOf(tinfo, c15Recv(b)) {
						idTie = true
					}
				}
			}
		}
		nRet = len(tg.Returns())
		c.Check("rank-total", tf.Name()+"|tie-break", tf.Pos(), nCmp >= 1 && idTie && nRet >= 2, "the voting-power rank comparator breaks ties of equal power by the whole account id of both operands")
	}
}

// c15NonZeroAtom recognises  v != 0 / v == 0  for a local v as atom "nz".
func c15NonZeroAtom(info *types.Info, v types.Object) an.Atomizer {
	return func(x ast.Expr) (string, bool, bool) {
		be, ok := ast.Unparen(x).(*ast.BinaryExpr)
		if !ok || (be.Op != token.EQL && be.Op != token.NEQ) {
			return "", false, false
		}
		for _, pr := range [][2]ast.Expr{{be.X, be.Y}, {be.Y, be.X}} {
			if an.ObjOf(info, pr[0]) == v {
				if k, isK := c15ConstInt(info, pr[1]); isK && k == 0 {
					return "nz", be.Op == token.EQL, true
				}
			}
		}
		return "", false, false
	}
}
