package props

import (
	"go/ast"
	"go/token"
	"go/types"
	"sort"
	"strings"

	"verif/checker/internal/an"
	"verif/checker/internal/rep"
)

// ---------------------------------------------------------------------------
// block identifier: a network block is stored / cached / referenced only under
// the digest of its own header

// c18LocalProducers: producers of message.AddBlock that were read and do not
// take their block from the network (table rows: construct -> reason).  A
// producer is classified by role (Bstate non-nil = executed locally by the
// block factory); this table only documents the reading.
var c18LocalProducers = map[string]string{
	"consensus/chain.ConnectBlock": "block produced and executed by this node's block factory (Bstate is the factory's block state, Hash is empty until BlockHash() computes it), or, under raft, a block committed through the raft log by the elected leader (raftv2.(*BlockFactory).connect passes a nil state then): raft members are trusted by the consensus, this is not a block of the open p2p network; a choke-point fix in ChainService.addBlock covers it as well",
}

// c18BodyDependent: functions whose failure depends on the block body (or on
// other blocks), by role: body validation and transaction execution.
var c18BodyDependent = []string{
	"chain.(*BlockValidator).ValidateBody",
	"chain.(*blockExecutor).execute",
}

// c18Verifiers computes the functions that certainly recompute the header
// digest: they call types.(*Block).calculateBlockHash (or another verifier)
// on every path to their normal exit.
func c18Verifiers(c *rep.Ctx) (map[*an.Func]bool, *an.Func) {
	p := c.Prog
	calc := c.Fn("types.(*Block).calculateBlockHash")
	if calc == nil {
		return nil, nil
	}
	v := map[*an.Func]bool{calc: true}
	for changed := true; changed; {
		changed = false
		for _, f := range p.Funcs() {
			if v[f] || f.Body == nil || f.Pkg.Types == nil {
				continue
			}
			rel := an.Rel(f.Pkg.PkgPath)
			if rel != "types" && rel != "chain" && rel != "syncer" && !c18InScope(rel) {
				continue
			}
			// cheap pre-filter on direct calls
			g := (*an.Graph)(nil)
			info := f.Info()
			hit := false
			an.InspectShallow(f.Body, func(n ast.Node) bool {
				if call, ok := n.(*ast.CallExpr); ok {
					if cf := p.FuncOf(an.Callee(info, call)); cf != nil && v[cf] {
						hit = true
					}
				}
				return !hit
			})
			if !hit {
				continue
			}
			g = f.Graph()
			gates := an.Set{}
			for _, s := range g.Calls(func(fn *types.Func, _ *ast.CallExpr) bool { cf := p.FuncOf(fn); return cf != nil && v[cf] }) {
				gates[s.Node] = true
			}
			if len(gates) > 0 && g.PostDominated(g.Entry, gates) {
				v[f] = true
				changed = true
			}
		}
	}
	delete(v, calc)
	return v, calc
}

// c18GateEdges: the edges / vertices of f on which a verifier was applied to
// the block object and succeeded.
func c18GateEdges(c *rep.Ctx, f *an.Func, v map[*an.Func]bool, block types.Object) (an.Set, string) {
	g := f.Graph()
	info := f.Info()
	out := an.Set{}
	why := ""
	for _, s := range g.Calls(func(fn *types.Func, _ *ast.CallExpr) bool { cf := c.Prog.FuncOf(fn); return cf != nil && v[cf] }) {
		onBlock := false
		if sel, ok := ast.Unparen(s.Call.Fun).(*ast.SelectorExpr); ok && an.ObjOf(info, sel.X) == block {
			onBlock = true
		}
		for _, a := range s.Call.Args {
			if an.ObjOf(info, a) == block {
				onBlock = true
			}
		}
		if !onBlock {
			continue
		}
		sig := s.Fn.Type().(*types.Signature)
		switch {
		case sig.Results().Len() == 0:
			out[s.Node] = true
		case types.Identical(sig.Results().At(sig.Results().Len()-1).Type(), types.Universe.Lookup("error").Type()):
			for e := range g.ErrNilEdges(s) {
				out[e] = true
			}
		case sig.Results().Len() == 1 && types.Identical(sig.Results().At(0).Type().Underlying(), types.Typ[types.Bool]):
			for e := range g.BoolEdges(s, true) {
				out[e] = true
			}
		default:
			why = "a header-digest verifier (" + an.FuncName(s.Fn) + ") is called but its result is not used in a recognised way (error / bool / no result)"
		}
	}
	return out, why
}

func c18BlockID(c *rep.Ctx) {
	p := c.Prog
	verifiers, _ := c18Verifiers(c)
	if verifiers == nil {
		return
	}
	bh := c.Fn("types.(*Block).BlockHash")
	choke := c.Fn("chain.(*ChainService).addBlock")
	internal := c.Fn("chain.(*ChainService).addBlockInternal")
	if bh == nil || choke == nil || internal == nil {
		return
	}
	var vnames []string
	for f := range verifiers {
		vnames = append(vnames, f.Name())
	}
	sort.Strings(vnames)
	c.Note("blockid-gate: functions that recompute the header digest on every path: %v", vnames)
	accessorAlwaysDigest := verifiers[bh]

	// ---- choke point: ChainService.addBlock
	cg := choke.Graph()
	cinfo := choke.Info()
	var chokeBlock types.Object
	if choke.Type.Params != nil && len(choke.Type.Params.List) > 0 && len(choke.Type.Params.List[0].Names) > 0 {
		chokeBlock = cinfo.Defs[choke.Type.Params.List[0].Names[0]]
	}
	errBlocks := p.LookupField("chain", "ChainService", "errBlocks")
	if errBlocks == nil || chokeBlock == nil {
		c.Undecide("errblocks", "chain.ChainService.errBlocks", "bad-block cache field or the block parameter of addBlock not found")
		return
	}
	onErrBlocks := func(info *types.Info, call *ast.CallExpr) bool {
		sel, ok := ast.Unparen(call.Fun).(*ast.SelectorExpr)
		return ok && an.FieldOf(info, sel.X) == errBlocks
	}
	var cacheSites, internalSites []an.Site
	for _, s := range cg.Calls(nil) {
		if onErrBlocks(cinfo, s.Call) {
			cacheSites = append(cacheSites, s)
		}
		if s.Fn != nil && p.FuncOf(s.Fn) == internal {
			internalSites = append(internalSites, s)
		}
	}
	chokeGated := false
	if len(cacheSites) >= 2 && len(internalSites) >= 1 {
		edges, _ := c18GateEdges(c, choke, verifiers, chokeBlock)
		chokeGated = len(edges) > 0
		for _, s := range append(append([]an.Site{}, cacheSites...), internalSites...) {
			if !cg.Dominated(s.Node, edges) {
				chokeGated = false
			}
		}
	} else {
		c.Undecide("errblocks", choke.Name(), "expected the Contains/Add calls on errBlocks and the call of addBlockInternal")
	}

	// ---- producers of message.AddBlock
	addBlockT, _ := p.LookupObj("types/message", "AddBlock").(*types.TypeName)
	if addBlockT == nil {
		c.Undecide("blockid-gate", "types/message.AddBlock", "message type not found")
		return
	}
	type producer struct {
		fn  *an.Func
		lit *ast.CompositeLit
	}
	var prods []producer
	for _, pk := range p.ModulePkgs() {
		info := pk.TypesInfo
		if info == nil {
			continue
		}
		for _, file := range pk.Syntax {
			ast.Inspect(file, func(n ast.Node) bool {
				cl, ok := n.(*ast.CompositeLit)
				if !ok || c18Named(info.TypeOf(cl)) != addBlockT {
					return true
				}
				if f := p.EnclosingFunc(pk, cl.Pos()); f != nil {
					prods = append(prods, producer{f, cl})
				}
				return true
			})
		}
	}
	nNet := 0
	for _, pr := range prods {
		info := pr.fn.Info()
		var blockExpr, bstate ast.Expr
		for _, el := range pr.lit.Elts {
			if kv, ok := el.(*ast.KeyValueExpr); ok {
				if id, ok := kv.Key.(*ast.Ident); ok {
					switch id.Name {
					case "Block":
						blockExpr = kv.Value
					case "Bstate":
						bstate = kv.Value
					}
				}
			}
		}
		name := pr.fn.TopDecl().Name()
		local := false
		if bstate != nil {
			if tv, ok := info.Types[bstate]; !ok || !tv.IsNil() {
				local = true
			}
		}
		if local {
			why, listed := c18LocalProducers[name]
			c.CheckTrivial("blockid-gate", name+"|local", pr.lit.Pos(), listed, "producer of message.AddBlock with a block state (locally produced block) must be a reviewed row of the local-producer table: "+why)
			continue
		}
		nNet++
		c.Fns[name] = true
		g := pr.fn.Graph()
		target := g.NodeContaining(pr.lit.Pos())
		block := an.ObjOf(info, blockExpr)
		if target == nil || block == nil {
			c.Undecide("blockid-gate", name, "cannot locate the AddBlock message or its block variable")
			continue
		}
		edges, why := c18GateEdges(c, pr.fn, verifiers, block)
		ok := accessorAlwaysDigest || chokeGated || (len(edges) > 0 && g.Dominated(target, edges))
		// caches keyed by the block's identifier inside the producer must be gated as well
		if !accessorAlwaysDigest && !chokeGated && ok {
			for _, s := range g.Calls(func(fn *types.Func, _ *ast.CallExpr) bool {
				return fn != nil && fn.Pkg() != nil && strings.HasSuffix(fn.Pkg().Path(), "golang-lru") && (fn.Name() == "ContainsOrAdd" || fn.Name() == "Add")
			}) {
				if len(s.Call.Args) > 0 && c18FromStatus(pr.fn, s.Call.Args[0], block, 0) && !g.Dominated(s.Node, edges) {
					ok = false
					why = "the p2p block cache is filled under the sender-supplied identifier before the digest check"
				}
			}
		}
		msg := "a block taken from the network is handed to the chain service only after its Hash field was checked against / replaced by the digest of its own header (here, or at the choke point ChainService.addBlock, or by BlockHash() itself)"
		if !ok {
			msg = "network block reaches ChainService.addBlock with the sender-supplied Hash field: nothing between " + name + " and the chain DB recomputes types.(*Block).calculateBlockHash (BlockHash() only fills an EMPTY field); the block is cached (p2p blkCache, chain errBlocks) and stored (cdb.addBlock: dbtx.Set(block.BlockHash(), ..)) under an identifier chosen by the peer"
			if why != "" {
				msg += "; " + why
			}
		}
		c.Check("blockid-gate", name, pr.lit.Pos(), ok, msg)
	}
	if nNet < 3 {
		c.Undecide("blockid-gate", "producers", "expected at least 3 network producers of message.AddBlock (2 in p2p/syncmanager, 1 in syncer), found "+itoa(nNet))
	}

	// ---- BlockHash(): documents today's behaviour (conditional digest)
	c.CheckTrivial("blockid-accessor", bh.Name(), bh.Pos(), true, map[bool]string{true: "BlockHash() recomputes the header digest on every path", false: "BlockHash() computes the header digest only on some paths (empty Hash field); otherwise it returns the stored field — network blocks therefore need an explicit gate (rule blockid-gate)"}[accessorAlwaysDigest])

	// ---- bad-block cache: who touches it, and under which key
	nSites := 0
	for _, pk := range p.ModulePkgs() {
		info := pk.TypesInfo
		if info == nil {
			continue
		}
		for _, file := range pk.Syntax {
			ast.Inspect(file, func(n ast.Node) bool {
				sel, ok := n.(*ast.SelectorExpr)
				if !ok || an.FieldOf(info, sel) != errBlocks {
					return true
				}
				f := p.EnclosingFunc(pk, sel.Pos())
				name := "<package level>"
				if f != nil {
					name = f.TopDecl().Name()
				}
				nSites++
				allowed := name == choke.Name() || name == "chain.NewChainService"
				c.Check("errblocks-sites", name, sel.Pos(), allowed, "the bad-block cache is used only by ChainService.addBlock (and created by NewChainService)")
				return true
			})
		}
	}
	if nSites < 3 {
		c.Undecide("errblocks-sites", "chain.ChainService.errBlocks", "expected the constructor and the Contains/Add uses")
	}
	// key pairing: Contains(k) and Add(k, blk) use one key object, defined once from the block parameter's identifier
	if len(cacheSites) >= 2 {
		var key types.Object
		same := true
		for _, s := range cacheSites {
			if len(s.Call.Args) == 0 {
				same = false
				continue
			}
			o := an.ObjOf(cinfo, s.Call.Args[0])
			if o == nil || (key != nil && o != key) {
				same = false
			}
			key = o
		}
		okKey := same && key != nil
		if okKey {
			def := c18UniqueDef(choke, key)
			for i := 0; i < 3 && def != nil; i++ {
				// key := other ; follow plain copies
				if o := an.ObjOf(cinfo, def); o != nil {
					def = c18UniqueDef(choke, o)
					continue
				}
				break
			}
			okKey = false
			if def != nil {
				// ToHashID(<block>.BlockHash()) / <block>.BlockID()
				ast.Inspect(def, func(n ast.Node) bool {
					call, ok := n.(*ast.CallExpr)
					if !ok {
						return true
					}
					if sel, ok := ast.Unparen(call.Fun).(*ast.SelectorExpr); ok && an.ObjOf(cinfo, sel.X) == chokeBlock {
						if cf := p.FuncOf(an.Callee(cinfo, call)); cf == bh || (cf != nil && cf.Name() == "types.(*Block).BlockID") {
							okKey = true
						}
					}
					return true
				})
			}
		}
		// the block validated is the block cached: addBlockInternal(<block>, ..) and Add(key, <block>)
		for _, s := range internalSites {
			if len(s.Call.Args) == 0 || an.ObjOf(cinfo, s.Call.Args[0]) != chokeBlock {
				okKey = false
			}
		}
		c.Check("errblocks-key", choke.Name(), choke.Pos(), okKey, "Contains and Add use the same key, defined once as the identifier (BlockHash/BlockID) of the block parameter that is also the block handed to addBlockInternal")
	}

	c.Floor("blockid-gate", 4)
	c.Floor("errblocks-sites", 3)
	// ---- F5: a verdict cached under the header identifier must not depend on the body
	c18ErrCacheScope(c, internal)

	// ---- chunk receiver and size gates
	c18ChunkReceiver(c)
}

func c18ErrCacheScope(c *rep.Ctx, internal *an.Func) {
	p := c.Prog
	cgraph := p.BuildCallGraph()
	seeds := map[*an.Func]bool{}
	for _, n := range c18BodyDependent {
		if f := c.Fn(n); f != nil {
			seeds[f] = true
		}
	}
	if len(seeds) == 0 {
		return
	}
	// a function literal counts as executed by the function that defines it only when it is
	// invoked on the spot (func(){..}(), defer, go) or handed to a call as an argument; a
	// literal stored in a field / variable is reached through the calls of that field / variable
	executed := map[*an.Func]bool{}
	for _, pk := range p.ModulePkgs() {
		for _, file := range pk.Syntax {
			ast.Inspect(file, func(n ast.Node) bool {
				call, ok := n.(*ast.CallExpr)
				if !ok {
					return true
				}
				if lit, ok := ast.Unparen(call.Fun).(*ast.FuncLit); ok {
					executed[p.LitFunc(lit)] = true
				}
				for _, a := range call.Args {
					if lit, ok := ast.Unparen(a).(*ast.FuncLit); ok {
						executed[p.LitFunc(lit)] = true
					}
				}
				return true
			})
		}
	}
	bodyDep := cgraph.MayReach(seeds, func(e an.Edge) bool { return e.Kind != an.ELit || executed[e.Callee] })
	g := internal.Graph()
	info := internal.Info()
	n := 0
	for _, r := range g.Returns() {
		rs := r.Ast.(*ast.ReturnStmt)
		if len(rs.Results) != 2 {
			continue
		}
		tv, ok := info.Types[rs.Results[1]]
		if !ok || tv.Value == nil || tv.Value.ExactString() != "true" {
			continue
		}
		if tv0, ok := info.Types[rs.Results[0]]; ok && tv0.IsNil() {
			continue // success
		}
		obj := an.ObjOf(info, rs.Results[0])
		if obj == nil {
			c.Undecide("errcache-scope", internal.Name(), "cached error return whose error is not a variable")
			continue
		}
		// the call that produced this error: the nearest call site assigning obj that reaches r
		var origin *an.Site
		for _, s := range g.Calls(nil) {
			s := s
			sigT := info.TypeOf(s.Call)
			idx := 0
			if tup, ok := sigT.(*types.Tuple); ok {
				idx = tup.Len() - 1
			}
			if g.ResultVarAt(s, idx) != obj || !g.Reachable(s.Node, r) {
				continue
			}
			clean := true
			for m := range g.Between(s.Node, r) {
				if m.Kind == an.KStmt && m != s.Node && an.Assigns(info, m.Ast, obj) {
					clean = false
				}
			}
			if clean {
				origin = &s
			}
		}
		if origin == nil {
			c.Undecide("errcache-scope", internal.Name(), "cannot find the call whose error is returned with cache=true")
			continue
		}
		n++
		name := ""
		dep := false
		var via []string
		if origin.Fn != nil {
			name = an.FuncName(origin.Fn)
			if cf := p.FuncOf(origin.Fn); cf != nil {
				dep = bodyDep[cf]
			} else {
				// interface method: any implementation
				for _, e := range cgraph.Out[internal] {
					if e.Call == origin.Call && e.Callee != nil && bodyDep[e.Callee] {
						dep = true
						via = append(via, e.Callee.Name())
					}
				}
			}
		} else if v := an.CalleeVar(info, origin.Call); v != nil {
			name = "chain.chainProcessor." + v.Name()
			for _, t := range cgraph.FuncValues(v) {
				if bodyDep[t] {
					dep = true
					via = append(via, t.Name())
				}
			}
		}
		msg := "an error of " + name + " marks the block as bad under its header identifier; " + name + " does not depend on the block body"
		if dep {
			msg = "an error of " + name + " is cached in errBlocks under the header identifier although it can come from body validation / transaction execution (" + strings.Join(c18BodyDependent, ", ") + " reachable" + map[bool]string{true: " via " + strings.Join(via, ", "), false: ""}[len(via) > 0] + "): a copy of a genuine block with an altered body poisons the cache entry of the genuine block"
		}
		c.Check("errcache-scope", internal.Name()+"|"+name, rs.Pos(), !dep, msg)
	}
	if n < 2 {
		c.Undecide("errcache-scope", internal.Name(), "expected at least 2 cached error returns (signature check, chain processor construction)")
	}
}

// c18ChunkReceiver: p2p.(*BlocksChunkReceiver).handleInWaiting and the size gates of the AddBlock producers in p2p.
func c18ChunkReceiver(c *rep.Ctx) {
	p := c.Prog
	f := c.Fn("p2p.(*BlocksChunkReceiver).handleInWaiting")
	if f == nil {
		return
	}
	got := p.LookupField("p2p", "BlocksChunkReceiver", "got")
	hashes := p.LookupField("p2p", "BlocksChunkReceiver", "blockHashes")
	offset := p.LookupField("p2p", "BlocksChunkReceiver", "offset")
	if got == nil || hashes == nil || offset == nil {
		c.Undecide("chunk-recv", f.Name(), "receiver fields got/blockHashes/offset not found")
		return
	}
	g := f.Graph()
	info := f.Info()
	// the store  got[offset] = block
	var store *an.Node
	var blockObj types.Object
	for _, n := range g.StmtNodes(func(n *an.Node) bool {
		as, ok := n.Ast.(*ast.AssignStmt)
		if !ok || len(as.Lhs) != 1 || len(as.Rhs) != 1 {
			return false
		}
		ix, ok := ast.Unparen(as.Lhs[0]).(*ast.IndexExpr)
		return ok && an.FieldOf(info, ix.X) == got
	}) {
		store = n
		blockObj = an.ObjOf(info, n.Ast.(*ast.AssignStmt).Rhs[0])
	}
	if store == nil || blockObj == nil {
		c.Undecide("chunk-recv", f.Name(), "the store into the received-blocks slice was not found")
		return
	}
	ix := ast.Unparen(store.Ast.(*ast.AssignStmt).Lhs[0]).(*ast.IndexExpr)
	isOffset := func(e ast.Expr) bool { return an.FieldOf(info, c18StripConv(info, e)) == offset }
	isLenGot := func(e ast.Expr) bool {
		call, ok := c18StripConv(info, e).(*ast.CallExpr)
		return ok && an.IsBuiltin(info, call, "len") && len(call.Args) == 1 && (an.FieldOf(info, call.Args[0]) == got || an.FieldOf(info, call.Args[0]) == hashes)
	}
	isBlockHash := func(e ast.Expr) bool {
		e = ast.Unparen(e)
		if sel, ok := e.(*ast.SelectorExpr); ok {
			if fv := an.FieldOf(info, sel); fv != nil && fv.Name() == "Hash" && an.ObjOf(info, sel.X) == blockObj {
				return true
			}
		}
		if call, ok := e.(*ast.CallExpr); ok {
			if sel, ok := ast.Unparen(call.Fun).(*ast.SelectorExpr); ok && an.ObjOf(info, sel.X) == blockObj {
				switch sel.Sel.Name {
				case "GetHash", "BlockHash":
					return true
				}
			}
		}
		return false
	}
	isRequested := func(e ast.Expr) bool {
		e = c18StripConv(info, e)
		x, ok := e.(*ast.IndexExpr)
		return ok && an.FieldOf(info, x.X) == hashes && isOffset(x.Index)
	}
	// 1. requested identifier
	eq := g.EdgesImplying(func(e ast.Expr) (string, bool, bool) {
		call, ok := ast.Unparen(e).(*ast.CallExpr)
		if !ok || an.CalleeName(info, call) != "bytes.Equal" || len(call.Args) != 2 {
			return "", false, false
		}
		if (isRequested(call.Args[0]) && isBlockHash(call.Args[1])) || (isRequested(call.Args[1]) && isBlockHash(call.Args[0])) {
			return "EQ", false, true
		}
		return "", false, false
	}, map[string]bool{"EQ": true})
	// the offset is not advanced between the comparison and the store
	adv := false
	for e := range eq {
		for m := range g.Between(e.Cond, store) {
			if m.Kind != an.KStmt {
				continue
			}
			switch s := m.Ast.(type) {
			case *ast.IncDecStmt:
				if isOffset(s.X) {
					adv = true
				}
			case *ast.AssignStmt:
				for _, l := range s.Lhs {
					if isOffset(l) {
						adv = true
					}
				}
			}
		}
	}
	c.Check("chunk-recv", f.Name()+"|requested-id", store.Ast.Pos(), isOffset(ix.Index) && len(eq) > 0 && g.Dominated(store, eq) && !adv, "a received block is kept only if its identifier equals the requested identifier at the same position (got[offset] / blockHashes[offset], offset unchanged in between)")
	// 2. index bound, strict
	in := g.EdgesImplying(func(e ast.Expr) (string, bool, bool) {
		be, ok := ast.Unparen(e).(*ast.BinaryExpr)
		if !ok {
			return "", false, false
		}
		op := be.Op
		switch {
		case isOffset(be.X) && isLenGot(be.Y):
		case isOffset(be.Y) && isLenGot(be.X):
			switch op {
			case token.LSS:
				op = token.GTR
			case token.GTR:
				op = token.LSS
			case token.LEQ:
				op = token.GEQ
			case token.GEQ:
				op = token.LEQ
			}
		default:
			return "", false, false
		}
		switch op {
		case token.LSS:
			return "IN", false, true
		case token.GEQ:
			return "IN", true, true
		}
		return "", false, false
	}, map[string]bool{"IN": true})
	c.Check("chunk-recv", f.Name()+"|index-bound", store.Ast.Pos(), len(in) > 0 && g.Dominated(store, in), "the position is checked with `offset >= len(got) -> cancel` (strict) before blockHashes[offset] / got[offset] are indexed: more blocks than requested cannot panic or overwrite")
	// 3. block size
	big := c18SizeEdges(f, blockObj)
	c.Check("block-size", f.Name(), store.Ast.Pos(), len(big) > 0 && g.Dominated(store, big), "a received block is kept only if Size() does not exceed chain.MaxBlockSize()")
	// 4. delivery only when complete
	rspT, _ := p.LookupObj("types/message", "GetBlockChunksRsp").(*types.TypeName)
	full := g.EdgesImplying(func(e ast.Expr) (string, bool, bool) {
		be, ok := ast.Unparen(e).(*ast.BinaryExpr)
		if !ok {
			return "", false, false
		}
		op := be.Op
		switch {
		case isOffset(be.X) && isLenGot(be.Y):
		case isOffset(be.Y) && isLenGot(be.X):
			switch op {
			case token.LSS:
				op = token.GTR
			case token.GTR:
				op = token.LSS
			case token.LEQ:
				op = token.GEQ
			case token.GEQ:
				op = token.LEQ
			}
		default:
			return "", false, false
		}
		switch op {
		case token.LSS:
			return "FULL", true, true
		case token.GEQ, token.EQL:
			return "FULL", false, true
		}
		return "", false, false
	}, map[string]bool{"FULL": true})
	nDel := 0
	okDel := true
	ast.Inspect(f.Body, func(n ast.Node) bool {
		cl, ok := n.(*ast.CompositeLit)
		if !ok || rspT == nil || c18Named(info.TypeOf(cl)) != rspT {
			return true
		}
		for _, el := range cl.Elts {
			if kv, ok := el.(*ast.KeyValueExpr); ok {
				if id, ok := kv.Key.(*ast.Ident); ok && id.Name == "Blocks" && an.FieldOf(info, kv.Value) == got {
					nDel++
					nd := g.NodeContaining(cl.Pos())
					if nd == nil || len(full) == 0 || !g.Dominated(nd, full) {
						okDel = false
					}
				}
			}
		}
		return true
	})
	c.Check("chunk-recv", f.Name()+"|complete", f.Pos(), nDel > 0 && okDel, "the received blocks are delivered to the syncer only when every requested position was filled (`offset < len(got)` is false)")

	// size gates of the AddBlock producers in p2p
	addBlockT, _ := p.LookupObj("types/message", "AddBlock").(*types.TypeName)
	n := 0
	for _, pf := range p.Funcs() {
		if pf.Body == nil || an.Rel(pf.Pkg.PkgPath) != "p2p" {
			continue
		}
		pinfo := pf.Info()
		an.InspectShallow(pf.Body, func(nd ast.Node) bool {
			cl, ok := nd.(*ast.CompositeLit)
			if !ok || addBlockT == nil || c18Named(pinfo.TypeOf(cl)) != addBlockT {
				return true
			}
			var blk types.Object
			for _, el := range cl.Elts {
				if kv, ok := el.(*ast.KeyValueExpr); ok {
					if id, ok := kv.Key.(*ast.Ident); ok && id.Name == "Block" {
						blk = an.ObjOf(pinfo, kv.Value)
					}
				}
			}
			pg := pf.Graph()
			target := pg.NodeContaining(cl.Pos())
			if blk == nil || target == nil {
				c.Undecide("block-size", pf.Name(), "AddBlock message without a block variable")
				return true
			}
			n++
			edges := c18SizeEdges(pf, blk)
			c.Check("block-size", pf.Name(), cl.Pos(), len(edges) > 0 && pg.Dominated(target, edges), "a block received from a peer is handed to the chain service only if Size() does not exceed chain.MaxBlockSize()")
			return true
		})
	}
	if n < 2 {
		c.Undecide("block-size", "p2p", "expected the two AddBlock producers of the sync manager")
	}
	c.Floor("block-size", 3)
	c.Floor("chunk-recv", 3)
}

// c18SizeEdges: edges on which  block.Size() <= chain.MaxBlockSize()  is known.
func c18SizeEdges(f *an.Func, block types.Object) an.Set {
	g := f.Graph()
	info := f.Info()
	isSize := func(e ast.Expr) bool {
		call, ok := c18StripConv(info, e).(*ast.CallExpr)
		if !ok {
			return false
		}
		sel, ok := ast.Unparen(call.Fun).(*ast.SelectorExpr)
		return ok && sel.Sel.Name == "Size" && an.ObjOf(info, sel.X) == block
	}
	isMax := func(e ast.Expr) bool {
		call, ok := c18StripConv(info, e).(*ast.CallExpr)
		return ok && an.CalleeName(info, call) == "chain.MaxBlockSize"
	}
	return g.EdgesImplying(func(e ast.Expr) (string, bool, bool) {
		be, ok := ast.Unparen(e).(*ast.BinaryExpr)
		if !ok {
			return "", false, false
		}
		op := be.Op
		switch {
		case isSize(be.X) && isMax(be.Y):
		case isSize(be.Y) && isMax(be.X):
			switch op {
			case token.LSS:
				op = token.GTR
			case token.GTR:
				op = token.LSS
			case token.LEQ:
				op = token.GEQ
			case token.GEQ:
				op = token.LEQ
			}
		default:
			return "", false, false
		}
		switch op {
		case token.GTR, token.GEQ:
			return "BIG", false, true
		case token.LEQ, token.LSS:
			return "BIG", true, true
		}
		return "", false, false
	}, map[string]bool{"BIG": false})
}

var _ = rep.New
