package props

import (
	"bytes"
	"encoding/json"
	"go/ast"
	"go/constant"
	"go/token"
	"go/types"
	"os"
	"os/exec"
	"path/filepath"
	"regexp"
	"sort"
	"strings"

	"verif/checker/internal/an"
	"verif/checker/internal/rep"
)

// C20 gap rules (gap review).  Each rule is a structural necessary condition
// of "read-only contexts never change state" that the first rules did not
// decide; every one was found by applying a realistic breaking patch that the
// check did not report (seeded/_mut/C20).
//
//	view-depth-export     luaCheckView (the only source of the C SQL guard) reports the view depth itself
//	view-start            luaViewStart raises the depth on every path (a flag instead of a counter lets an
//	                      inner view's end re-open the outer view)
//	call-view-covers-run  in executor.call the Lua function runs (vm_pcall) only after the depth was raised,
//	                      or on an edge on which the function is known not to be a view
//	call-view-balanced    in executor.call no path lowers the depth more often than it raised it
//	executor-view-flag    newExecutor takes the view flag from the ABI entry whose name it is going to run
//	event-count-guard     the per-transaction event counter (it becomes EventIdx of every later event) is
//	                      advanced only behind the read-only guard, like the event list itself
//	query-slot-start      the remembered query slot never starts below the ChainService slot
//	readonly-slot         Query / CheckFeeDelegation create their executor only after allocContextSlot(ctx) for
//	                      the same context (otherwise ctx.service is 0, the block producer's slot)
//	slot-binding          allocContextSlot stores the context at the very index it records in ctx.service
//	view-hooks-installed  C.initViewFunction() runs before the first Lua state is created
//	readonly-closure      nothing reachable from Query / CheckFeeDelegation inside package contract calls a
//	                      state mutator directly (the commit step of Call/Create is not part of them)
//	sql-query-only        the SQL connection opened for a query carries `_query_only`: the C layer refuses
//	                      db.exec only in view functions, a query is stopped by SQLite alone
//	sql-readonly-handle   beginReadOnly never builds a writable transaction nor truncates the branch
//	query-state-flow      the block state and contract state handed to Query / CheckFeeDelegation by the
//	                      chain worker are built over the state view opened for that request
//	c-clear-guard         C: luaClearRecovery is called only with a start sequence known to be positive
//	                      (0 = "read-only, nothing recorded"; clearing from 0 reverts every recovery point of
//	                      the enclosing transaction from inside a view)
//	c-view-threshold      C: the result of luaCheckView is compared with zero, nothing else
//	c-readonly-sql        C: sqlcheck_is_readonly_sql never consults the write-permission table; the keywords
//	                      and pragmas it accepts are a frozen, classified set
func init() { extend("C20", c20GapRun) }

func c20GapRun(c *rep.Ctx) {
	p := c.Prog
	nestedView := p.LookupField("contract", "vmContext", "nestedView")
	isView := p.LookupField("contract", "executor", "isView")
	fname := p.LookupField("contract", "executor", "fname")
	if nestedView == nil || isView == nil || fname == nil {
		c.Undecide("anchor", "contract.{vmContext.nestedView,executor.isView,executor.fname}", "fields not found")
		return
	}
	cg := p.BuildCallGraph()
	c20GapViewDepthExport(c, nestedView)
	c20GapViewStart(c, nestedView)
	c20GapCallView(c, nestedView, isView)
	c20GapExecutorViewFlag(c, isView, fname)
	c20GapEventCount(c, nestedView)
	c20GapQuerySlotStart(c)
	c20GapSlotBinding(c)
	c20GapHooksInstalled(c)
	c20GapReadOnlyClosure(c, cg)
	c20GapSqlReadOnly(c, cg)
	c20GapQueryStateFlow(c)
	c20GapCFront(c)
}

// ---------------------------------------------------------------------------
// helpers

// c20GapStripConv removes parentheses and conversions (T(x), C.int(x)).
func c20GapStripConv(info *types.Info, e ast.Expr) ast.Expr {
	for {
		e = ast.Unparen(e)
		call, ok := e.(*ast.CallExpr)
		if !ok || len(call.Args) != 1 {
			return e
		}
		if tv, ok := info.Types[call.Fun]; ok && tv.IsType() {
			e = call.Args[0]
			continue
		}
		// cgo: C.int(x) -- the fake package C leaves the selector untyped
		if sel, ok := ast.Unparen(call.Fun).(*ast.SelectorExpr); ok {
			if id, ok := sel.X.(*ast.Ident); ok && id.Name == "C" {
				if _, isPkg := info.Uses[id].(*types.PkgName); isPkg || info.Uses[id] == nil {
					if an.Callee(info, call) == nil {
						e = call.Args[0]
						continue
					}
				}
			}
		}
		return e
	}
}

// c20GapDefs returns the right-hand sides assigned to a local object in f
// (1:1 assignments and value specs); multi is set when the object is also
// written in a way that has no single right-hand side (tuple assignment from a
// call, ++/--, address taken, range).
func c20GapDefs(f *an.Func, obj types.Object) (rhs []ast.Expr, stmts []ast.Node, multi bool) {
	info := f.Info()
	isObj := func(e ast.Expr) bool {
		id, ok := ast.Unparen(e).(*ast.Ident)
		return ok && (info.Defs[id] == obj || info.Uses[id] == obj)
	}
	ast.Inspect(f.Body, func(n ast.Node) bool {
		switch s := n.(type) {
		case *ast.AssignStmt:
			for i, l := range s.Lhs {
				if !isObj(l) {
					continue
				}
				if len(s.Lhs) == len(s.Rhs) && s.Tok != token.ADD_ASSIGN && (s.Tok == token.ASSIGN || s.Tok == token.DEFINE) {
					rhs = append(rhs, s.Rhs[i])
					stmts = append(stmts, s)
				} else {
					multi = true
					stmts = append(stmts, s)
				}
			}
		case *ast.ValueSpec:
			for i, nm := range s.Names {
				if info.Defs[nm] == obj && i < len(s.Values) && len(s.Names) == len(s.Values) {
					rhs = append(rhs, s.Values[i])
					stmts = append(stmts, s)
				}
			}
		case *ast.IncDecStmt:
			if isObj(s.X) {
				multi = true
			}
		case *ast.UnaryExpr:
			if s.Op == token.AND && isObj(s.X) {
				multi = true
			}
		case *ast.RangeStmt:
			if (s.Key != nil && isObj(s.Key)) || (s.Value != nil && isObj(s.Value)) {
				multi = true
			}
		}
		return true
	})
	return
}

// c20GapOnce resolves an identifier that denotes a once-defined local to its
// defining expression (repeatedly); other expressions are returned unchanged.
func c20GapOnce(f *an.Func, e ast.Expr) ast.Expr {
	info := f.Info()
	for i := 0; i < 8; i++ {
		e = ast.Unparen(e)
		id, ok := e.(*ast.Ident)
		if !ok {
			return e
		}
		v, ok := info.Uses[id].(*types.Var)
		if !ok || v.IsField() || v.Parent() == nil || v.Parent() == v.Pkg().Scope() {
			return e
		}
		rhs, _, multi := c20GapDefs(f, v)
		if multi || len(rhs) != 1 {
			return e
		}
		e = rhs[0]
	}
	return e
}

func c20GapIncDecNodes(g *an.Graph, info *types.Info, fld *types.Var, tok token.Token) []*an.Node {
	return g.StmtNodes(func(n *an.Node) bool {
		s, ok := n.Ast.(*ast.IncDecStmt)
		return ok && s.Tok == tok && an.FieldOf(info, s.X) == fld
	})
}

func c20GapIsCCall(call *ast.CallExpr, name string) bool {
	sel, ok := ast.Unparen(call.Fun).(*ast.SelectorExpr)
	if !ok || sel.Sel.Name != name {
		return false
	}
	id, ok := sel.X.(*ast.Ident)
	return ok && id.Name == "C"
}

// ---------------------------------------------------------------------------
// view-depth-export

func c20GapViewDepthExport(c *rep.Ctx, nestedView *types.Var) {
	f := c.Fn("contract.luaCheckView")
	if f == nil {
		return
	}
	g := f.Graph()
	info := f.Info()
	at := c20Atomizer(info, nil, nestedView)
	n := 0
	for _, rn := range g.Returns() {
		rs := rn.Ast.(*ast.ReturnStmt)
		if len(rs.Results) != 1 {
			c.Undecide("view-depth-export", "contract.luaCheckView", "return without a single result")
			continue
		}
		n++
		key := "contract.luaCheckView"
		if n > 1 {
			key += "#" + itoa(n)
		}
		e := c20GapStripConv(info, c20GapOnce(f, c20GapStripConv(info, rs.Results[0])))
		switch {
		case an.FieldOf(info, e) == nestedView:
			c.Check("view-depth-export", key, rs.Pos(), true, "the C SQL guard's only source returns the view depth itself")
		case func() bool { tv, ok := info.Types[e]; return ok && tv.Value != nil && tv.Value.Kind() == constant.Int }():
			tv := info.Types[e]
			if constant.Sign(tv.Value) > 0 {
				c.Check("view-depth-export", key, rs.Pos(), true, "constant positive answer (always refuses): restrictive, not a breach")
				break
			}
			ok, how := g.GuardedAt(rn, at, map[string]bool{"V": false})
			c.Check("view-depth-export", key, rs.Pos(), ok, "answering `not in a view` is only allowed where the depth is known to be zero: "+how)
		case readsField(info, e, nestedView):
			c.Undecide("view-depth-export", key, "luaCheckView derives its answer from nestedView in a form this rule does not recognise: "+an.ExprString(rs.Results[0]))
		default:
			c.Check("view-depth-export", key, rs.Pos(), false, "luaCheckView returns `"+an.ExprString(rs.Results[0])+"`, which is not the view depth: db.exec / pstmt:exec in a view function are refused by the C layer only on this value")
		}
	}
	if n == 0 {
		c.Undecide("view-depth-export", "contract.luaCheckView", "no return statement found")
	}
}

// ---------------------------------------------------------------------------
// view-start: the depth is a counter, raised on every entry of a view

func c20GapViewStart(c *rep.Ctx, nestedView *types.Var) {
	f := c.Fn("contract.luaViewStart")
	if f == nil {
		return
	}
	g := f.Graph()
	info := f.Info()
	incs := c20GapIncDecNodes(g, info, nestedView, token.INC)
	if len(incs) == 0 {
		c.Undecide("view-start", "contract.luaViewStart", "increment of nestedView not found (other idiom?)")
		return
	}
	gates := an.Set{}
	for _, n := range incs {
		gates[n] = true
	}
	// leaving because there is no context at all is not an entered view
	for _, n := range g.Nodes {
		if n.Kind != an.KTrue && n.Kind != an.KFalse {
			continue
		}
		cond, isExpr := n.Ast.(ast.Expr)
		if !isExpr {
			continue
		}
		be, ok := ast.Unparen(cond).(*ast.BinaryExpr)
		if !ok {
			continue
		}
		var other ast.Expr
		if tv, ok := info.Types[be.Y]; ok && tv.IsNil() {
			other = be.X
		} else if tv, ok := info.Types[be.X]; ok && tv.IsNil() {
			other = be.Y
		}
		if other == nil {
			continue
		}
		if t, ok := info.Types[other]; !ok || t.Type == nil || !strings.HasSuffix(t.Type.String(), "contract.vmContext") {
			continue
		}
		if (be.Op == token.EQL && n.Kind == an.KTrue) || (be.Op == token.NEQ && n.Kind == an.KFalse) {
			gates[n] = true
		}
	}
	ok := g.Dominated(g.Exit, gates)
	c.Check("view-start", "contract.luaViewStart", incs[0].Ast.Pos(), ok, "every entry of a view function raises the depth (all paths to the exit pass the increment): with a conditional increment the end of an inner view drops the depth to zero while the outer view is still running")
}

// ---------------------------------------------------------------------------
// call-view-covers-run, call-view-balanced

func c20GapCallView(c *rep.Ctx, nestedView, isView *types.Var) {
	f := c.Fn("contract.(*executor).call")
	if f == nil {
		return
	}
	g := f.Graph()
	info := f.Info()
	at := func(e ast.Expr) (string, bool, bool) {
		e = c20GapOnce(f, ast.Unparen(e))
		if an.FieldOf(info, e) == isView {
			return "W", false, true
		}
		return "", false, false
	}
	incs := c20GapIncDecNodes(g, info, nestedView, token.INC)
	if len(incs) == 0 {
		c.Undecide("call-view-covers-run", f.Name(), "increment of nestedView not found")
		return
	}
	gates := g.EdgesImplying(at, map[string]bool{"W": false})
	for _, n := range incs {
		gates[n] = true
	}
	nRun := 0
	for _, s := range g.Calls(nil) {
		if !c20GapIsCCall(s.Call, "vm_pcall") {
			continue
		}
		nRun++
		key := f.Name() + "|vm_pcall"
		if nRun > 1 {
			key += "#" + itoa(nRun)
		}
		c.Check("call-view-covers-run", key, s.Call.Pos(), g.Dominated(s.Node, gates), "the contract function runs only after the view depth was raised, or on an edge on which executor.isView is known false: a view function entered from Go (transaction, contract.call, fee delegation) otherwise runs with the depth unchanged and every host guard lets it write")
	}
	if nRun == 0 {
		c.Undecide("call-view-covers-run", f.Name(), "the call of C.vm_pcall was not found")
	}

	// balance: decrements (direct, or inside a deferred literal registered at a vertex)
	type dec struct {
		node *an.Node
		pos  token.Pos
		how  string
	}
	var decs []dec
	for _, n := range c20GapIncDecNodes(g, info, nestedView, token.DEC) {
		decs = append(decs, dec{n, n.Ast.Pos(), "direct"})
	}
	for _, n := range g.StmtNodes(func(n *an.Node) bool { _, ok := n.Ast.(*ast.DeferStmt); return ok }) {
		ds := n.Ast.(*ast.DeferStmt)
		cnt := 0
		ast.Inspect(ds.Call, func(x ast.Node) bool {
			if s, ok := x.(*ast.IncDecStmt); ok && s.Tok == token.DEC && an.FieldOf(info, s.X) == nestedView {
				cnt++
			}
			return true
		})
		for i := 0; i < cnt; i++ {
			decs = append(decs, dec{n, ds.Pos(), "deferred"})
		}
	}
	// decrements in literals that are not deferred at a vertex of this function are not understood
	total := 0
	ast.Inspect(f.Body, func(x ast.Node) bool {
		if s, ok := x.(*ast.IncDecStmt); ok && s.Tok == token.DEC && an.FieldOf(info, s.X) == nestedView {
			total++
		}
		return true
	})
	if total != len(decs) {
		c.Undecide("call-view-balanced", f.Name(), "a decrement of nestedView sits in a function literal that is not a deferred call of executor.call")
		return
	}
	incSet := an.Set{}
	for _, n := range incs {
		incSet[n] = true
	}
	ok := len(incs) == 1 && !g.InLoop(incs[0])
	why := ""
	if !ok {
		why = "more than one increment, or an increment in a loop"
	}
	for i, d := range decs {
		if !g.Dominated(d.node, incSet) {
			ok, why = false, "a decrement ("+d.how+") is reachable without the increment"
		}
		if g.InLoop(d.node) {
			ok, why = false, "a decrement sits in a loop"
		}
		for j, e := range decs {
			if i == j {
				continue
			}
			if d.node == e.node || g.Reachable(d.node, e.node) {
				ok, why = false, "two decrements lie on one path (one increment): the depth of an enclosing view is lowered"
			}
		}
	}
	pos := incs[0].Ast.Pos()
	c.Check("call-view-balanced", f.Name(), pos, ok, "no path through executor.call lowers the view depth more often than it raised it ("+itoa(len(incs))+" increment, "+itoa(len(decs))+" decrement sites) "+why)
}

// ---------------------------------------------------------------------------
// executor-view-flag

func c20GapExecutorViewFlag(c *rep.Ctx, isView, fname *types.Var) {
	f := c.Fn("contract.newExecutor")
	if f == nil {
		return
	}
	g := f.Graph()
	info := f.Info()
	fnT, _ := c.Prog.LookupObj("types", "Function").(*types.TypeName)
	if fnT == nil {
		c.Undecide("executor-view-flag", "types.Function", "ABI function type not found")
		return
	}
	viewFld := c.Prog.LookupField("types", "Function", "View")
	nameFld := c.Prog.LookupField("types", "Function", "Name")
	if viewFld == nil || nameFld == nil {
		c.Undecide("executor-view-flag", "types.Function.{View,Name}", "fields not found")
		return
	}
	type asg struct {
		node *an.Node
		rhs  ast.Expr
	}
	collect := func(fld *types.Var) []asg {
		var out []asg
		for _, n := range g.StmtNodes(func(n *an.Node) bool { _, ok := n.Ast.(*ast.AssignStmt); return ok }) {
			s := n.Ast.(*ast.AssignStmt)
			for i, l := range s.Lhs {
				if an.FieldOf(info, l) == fld && len(s.Lhs) == len(s.Rhs) {
					out = append(out, asg{n, s.Rhs[i]})
				}
			}
		}
		return out
	}
	names, views := collect(fname), collect(isView)
	if len(names) < 2 || len(views) < 2 {
		c.Undecide("executor-view-flag", f.Name(), "assignments of executor.fname / executor.isView not found (constructed differently?)")
		return
	}
	// base object of x.Field
	baseOf := func(e ast.Expr, fld *types.Var) types.Object {
		e = ast.Unparen(e)
		if an.FieldOf(info, e) != fld {
			return nil
		}
		return an.ObjOf(info, e.(*ast.SelectorExpr).X)
	}
	for i, nm := range names {
		key := f.Name() + "|fname#" + itoa(i+1)
		src := baseOf(nm.rhs, nameFld) // nil: constant name (constructor, check_delegation)
		ok := false
		how := "no assignment of executor.isView accompanies this assignment of the function name"
		for _, v := range views {
			if !(v.node == nm.node || g.Dominated(nm.node, an.SetOf(v.node)) || g.PostDominated(nm.node, an.SetOf(v.node))) {
				continue
			}
			vb := baseOf(v.rhs, viewFld)
			tv, isConst := info.Types[v.rhs]
			switch {
			case vb != nil && (src == nil || vb == src):
				ok, how = true, "isView is the View flag of the ABI entry"
			case vb != nil:
				how = "isView is taken from a different ABI entry than the name"
			case isConst && tv.Value != nil && tv.Value.Kind() == constant.Bool && constant.BoolVal(tv.Value):
				ok, how = true, "isView is the constant true"
			default:
				how = "isView is assigned `" + an.ExprString(v.rhs) + "`, not the ABI entry's View flag"
			}
			if ok {
				break
			}
		}
		c.Check("executor-view-flag", key, nm.node.Ast.Pos(), ok, "the executor's view flag comes from the ABI entry of the function it will run: "+how)
	}
	c.Floor("executor-view-flag", 3)
}

// ---------------------------------------------------------------------------
// event-count-guard

func c20GapEventCount(c *rep.Ctx, nestedView *types.Var) {
	p := c.Prog
	cnt := p.LookupField("contract", "vmContext", "eventCount")
	events := p.LookupField("contract", "vmContext", "events")
	isQuery := p.LookupField("contract", "vmContext", "isQuery")
	if cnt == nil || events == nil || isQuery == nil {
		c.Undecide("event-count-guard", "contract.vmContext.{eventCount,events,isQuery}", "fields not found")
		return
	}
	n := 0
	seen := map[string]int{}
	for _, w := range p.FieldWrites(map[*types.Var]bool{cnt: true}) {
		if w.How == "literal" {
			continue
		}
		if w.Fn == nil {
			c.Undecide("event-count-guard", "<package level>", "eventCount written outside a function")
			continue
		}
		n++
		name := w.Fn.TopDecl().Name()
		seen[name]++
		key := name
		if seen[name] > 1 {
			key += "#" + itoa(seen[name])
		}
		g := w.Fn.Graph()
		info := w.Fn.Info()
		node := g.NodeContaining(w.Pos)
		if node == nil {
			c.Undecide("event-count-guard", key, "cannot locate the write in the control-flow graph")
			continue
		}
		// recomputed from the (already truncated) list: undo, not an advance
		if as, ok := node.Ast.(*ast.AssignStmt); ok && as.Tok == token.ASSIGN && len(as.Rhs) == 1 {
			r := c20GapStripConv(info, as.Rhs[0])
			if call, ok := r.(*ast.CallExpr); ok && an.IsBuiltin(info, call, "len") && len(call.Args) == 1 && an.FieldOf(info, call.Args[0]) == events {
				c.CheckTrivial("event-count-guard", key+"|resync", w.Pos, true, "the counter is recomputed from the length of the event list (after a truncation)")
				continue
			}
		}
		ok, how := g.GuardedAt(node, c20Atomizer(info, isQuery, nestedView), map[string]bool{"Q": false, "V": false})
		c.Check("event-count-guard", key, w.Pos, ok, "the event counter is advanced only where `!isQuery && nestedView == 0` is known: it numbers every later event of the transaction (EventIdx in the receipt), so a view function that advances it changes what the enclosing transaction records: "+how)
	}
	if n < 3 {
		c.Undecide("event-count-guard", "contract.vmContext.eventCount", "fewer writes of the event counter than on the reference tree")
	}
}

// ---------------------------------------------------------------------------
// query-slot-start

func c20GapQuerySlotStart(c *rep.Ctx) {
	p := c.Prog
	pk := p.Pkg("contract")
	last := p.LookupObj("contract", "lastQueryIndex")
	csConst, _ := p.LookupObj("contract", "ChainService").(*types.Const)
	contexts := p.LookupObj("contract", "contexts")
	if pk == nil || last == nil || csConst == nil || contexts == nil {
		c.Undecide("query-slot-start", "contract.{lastQueryIndex,ChainService,contexts}", "anchors not found")
		return
	}
	info := pk.TypesInfo
	n := 0
	for _, file := range pk.Syntax {
		ast.Inspect(file, func(nd ast.Node) bool {
			switch s := nd.(type) {
			case *ast.AssignStmt:
				for i, l := range s.Lhs {
					if an.ObjOf(info, l) != last {
						continue
					}
					fn := p.EnclosingFunc(pk, s.Pos())
					where := "<package level>"
					if fn != nil {
						where = fn.TopDecl().Name()
					}
					n++
					key := where
					if len(s.Lhs) != len(s.Rhs) || (s.Tok != token.ASSIGN && s.Tok != token.DEFINE) {
						c.Undecide("query-slot-start", key, "lastQueryIndex is written in a form this rule does not recognise")
						continue
					}
					rhs := s.Rhs[i]
					if tv, ok := info.Types[rhs]; ok && tv.Value != nil {
						ok := constant.Compare(constant.ToInt(tv.Value), token.GEQ, constant.ToInt(csConst.Val()))
						c.Check("query-slot-start", key+"|const", s.Pos(), ok, "the remembered query slot starts at or above ChainService ("+tv.Value.ExactString()+" vs "+csConst.Val().ExactString()+"): the first query takes the next slot, and slots up to ChainService belong to block production / block verification, whose context has isQuery == false")
						continue
					}
					// non-constant: the slot that was just handed out (the index of contexts[...] = ctx in the same function)
					okSlot := false
					if fn != nil {
						ro := an.ObjOf(info, rhs)
						ast.Inspect(fn.TopDecl().Body, func(m ast.Node) bool {
							as, ok := m.(*ast.AssignStmt)
							if !ok || len(as.Lhs) != 1 {
								return true
							}
							if ix, ok := as.Lhs[0].(*ast.IndexExpr); ok && an.ObjOf(info, ix.X) == contexts && ro != nil && an.ObjOf(info, ix.Index) == ro {
								okSlot = true
							}
							return true
						})
					}
					c.Check("query-slot-start", key+"|slot", s.Pos(), okSlot, "lastQueryIndex is otherwise only set to the slot index just stored into contexts[] (bounded by rule query-slot)")
				}
			case *ast.IncDecStmt:
				if an.ObjOf(info, s.X) == last {
					n++
					c.Undecide("query-slot-start", "lastQueryIndex|incdec", "lastQueryIndex is incremented/decremented directly")
				}
			case *ast.UnaryExpr:
				if s.Op == token.AND && an.ObjOf(info, s.X) == last {
					n++
					c.Undecide("query-slot-start", "lastQueryIndex|addr", "address of lastQueryIndex taken")
				}
			}
			return true
		})
	}
	if n < 2 {
		c.Undecide("query-slot-start", "contract.lastQueryIndex", "expected the initialisation and the update in allocContextSlot")
	}
}

// ---------------------------------------------------------------------------
// slot-binding, readonly-slot

func c20GapSlotBinding(c *rep.Ctx) {
	p := c.Prog
	f := c.Fn("contract.allocContextSlot")
	contexts := p.LookupObj("contract", "contexts")
	service := p.LookupField("contract", "vmContext", "service")
	if f == nil || contexts == nil || service == nil {
		c.Undecide("slot-binding", "contract.{allocContextSlot,contexts,vmContext.service}", "anchors not found")
		return
	}
	g := f.Graph()
	info := f.Info()
	var ctxParam types.Object
	if f.Decl.Type.Params != nil && len(f.Decl.Type.Params.List) == 1 && len(f.Decl.Type.Params.List[0].Names) == 1 {
		ctxParam = info.Defs[f.Decl.Type.Params.List[0].Names[0]]
	}
	var stores, binds []*an.Node
	var storeIdx, bindIdx []types.Object
	for _, n := range g.StmtNodes(func(n *an.Node) bool { _, ok := n.Ast.(*ast.AssignStmt); return ok }) {
		as := n.Ast.(*ast.AssignStmt)
		if len(as.Lhs) != 1 || len(as.Rhs) != 1 {
			continue
		}
		if ix, ok := as.Lhs[0].(*ast.IndexExpr); ok && an.ObjOf(info, ix.X) == contexts {
			if an.ObjOf(info, as.Rhs[0]) == ctxParam && ctxParam != nil {
				stores = append(stores, n)
				storeIdx = append(storeIdx, an.ObjOf(info, ix.Index))
			}
		}
		if an.FieldOf(info, as.Lhs[0]) == service {
			binds = append(binds, n)
			bindIdx = append(bindIdx, an.ObjOf(info, c20GapStripConv(info, as.Rhs[0])))
		}
	}
	if len(stores) != 1 || len(binds) != 1 {
		c.Undecide("slot-binding", f.Name(), "expected exactly one `contexts[i] = ctx` and one `ctx.service = i`")
		return
	}
	ok := storeIdx[0] != nil && storeIdx[0] == bindIdx[0]
	// no reassignment of the index between the two, and every return passes both
	if ok {
		a, b := stores[0], binds[0]
		for _, m := range g.StmtNodes(func(m *an.Node) bool { return an.Assigns(info, m.Ast, storeIdx[0]) }) {
			if (g.Reachable(a, m) && g.Reachable(m, b)) || (g.Reachable(b, m) && g.Reachable(m, a)) {
				ok = false
			}
		}
		for _, r := range g.Returns() {
			if !g.Dominated(r, an.SetOf(a)) || !g.Dominated(r, an.SetOf(b)) {
				ok = false
			}
		}
	}
	c.Check("slot-binding", f.Name(), stores[0].Ast.Pos(), ok, "the slot in which the query context is stored is the slot number written to ctx.service (same variable, not reassigned in between, both before every return): the Lua state is bound to ctx.service, so any other number makes the query's host callbacks run on somebody else's context -- for 0/1 the block producer's or verifier's, with isQuery == false")

	for _, name := range []string{"contract.Query", "contract.CheckFeeDelegation"} {
		e := c.Fn(name)
		if e == nil {
			continue
		}
		eg := e.Graph()
		einfo := e.Info()
		execs := eg.CallsTo("contract.newExecutor")
		if len(execs) == 0 {
			c.Undecide("readonly-slot", name, "no call of newExecutor")
			continue
		}
		for i, x := range execs {
			key := name
			if i > 0 {
				key += "#" + itoa(i+1)
			}
			if len(x.Call.Args) < 3 {
				c.Undecide("readonly-slot", key, "unexpected newExecutor arguments")
				continue
			}
			ctxObj := an.ObjOf(einfo, x.Call.Args[2])
			gates := an.Set{}
			for _, a := range eg.CallsTo("contract.allocContextSlot") {
				if len(a.Call.Args) == 1 && ctxObj != nil && an.ObjOf(einfo, a.Call.Args[0]) == ctxObj {
					gates[a.Node] = true
				}
			}
			c.Check("readonly-slot", key, x.Call.Pos(), len(gates) > 0 && eg.Dominated(x.Node, gates), "the read-only executor is created only after allocContextSlot for the same context: without it ctx.service keeps its zero value (BlockFactory) and the query's Lua state is bound to the block producer's context")
		}
	}
}

// ---------------------------------------------------------------------------
// view-hooks-installed

func c20GapHooksInstalled(c *rep.Ctx) {
	p := c.Prog
	pk := p.Pkg("contract")
	if pk == nil {
		return
	}
	var all []*an.Func
	var add func(f *an.Func)
	add = func(f *an.Func) {
		if f.Body != nil {
			all = append(all, f)
		}
		for _, l := range f.Lits {
			add(l)
		}
	}
	for _, f := range p.Funcs() {
		if f.Pkg == pk && f.Parent == nil {
			add(f)
		}
	}
	n := 0
	for _, f := range all {
		g := f.Graph()
		gates := an.Set{}
		var first token.Pos
		for _, s := range g.Calls(nil) {
			if c20GapIsCCall(s.Call, "initViewFunction") {
				gates[s.Node] = true
				if first == token.NoPos {
					first = s.Call.Pos()
				}
			}
		}
		if len(gates) == 0 {
			continue
		}
		n++
		ok := true
		cnt := 0
		for _, s := range g.CallsTo("contract.newLState") {
			cnt++
			if !g.Dominated(s.Node, gates) {
				ok = false
			}
		}
		for _, m := range g.StmtNodes(func(m *an.Node) bool { _, isGo := m.Ast.(*ast.GoStmt); return isGo }) {
			cnt++
			if !g.Dominated(m, gates) {
				ok = false
			}
		}
		if cnt == 0 && !(f.Decl != nil && f.Decl.Recv == nil && f.Decl.Name.Name == "init") {
			c.Undecide("view-hooks-installed", f.TopDecl().Name(), "the hooks are installed in a function that creates no Lua state: its order relative to the state factory is not decided by this rule")
			continue
		}
		c.Check("view-hooks-installed", f.TopDecl().Name(), first, ok, "C.initViewFunction() (which stores the two view hooks into the LuaJIT fork) runs before the "+itoa(cnt)+" places of the same function that create Lua states or start the state pool")
	}
	if n == 0 {
		c.Check("view-hooks-installed", "contract", token.NoPos, false, "no function of package contract calls C.initViewFunction(): the LuaJIT fork's view hooks stay unset, so functions registered with abi.register_view run without raising the view depth")
	}
}

// ---------------------------------------------------------------------------
// readonly-closure

func c20GapReadOnlyClosure(c *rep.Ctx, cg *an.CallGraph) {
	p := c.Prog
	contractPkg := p.Pkg("contract")
	exports := map[*an.Func]bool{}
	for _, e := range c20Exports(c) {
		exports[e] = true
	}
	follow := func(e an.Edge) bool {
		return e.Callee != nil && e.Callee.Pkg == contractPkg && !exports[e.Callee.TopDecl()]
	}
	for _, name := range []string{"contract.Query", "contract.CheckFeeDelegation"} {
		f := c.Fn(name)
		if f == nil {
			continue
		}
		reach := cg.ReachableFrom([]*an.Func{f}, follow)
		var list []*an.Func
		for fn := range reach {
			if fn.Body != nil {
				list = append(list, fn)
			}
		}
		sort.Slice(list, func(i, j int) bool { return list[i].Name() < list[j].Name() })
		if len(list) < 8 {
			c.Undecide("readonly-closure", name, "fewer functions reachable from the read-only entry point than on the reference tree (call graph lost?)")
			continue
		}
		bad := 0
		for _, fn := range list {
			for _, s := range fn.Graph().Calls(nil) {
				if s.Fn == nil {
					continue
				}
				mn := an.FuncName(s.Fn)
				if _, isMut := c20Mutators[mn]; !isMut {
					continue
				}
				bad++
				path := cg.PathTo(f, map[*an.Func]bool{fn: true}, follow)
				c.Check("readonly-closure", name+"|"+fn.Name()+"|"+mn, s.Call.Pos(), false, "a function reachable from the read-only entry point calls a state mutator outside any host-callback guard ("+strings.Join(path, " -> ")+"): CheckFeeDelegation runs on the live block state of the transaction being executed, Query's state is discarded only by convention")
			}
		}
		c.Check("readonly-closure", name, f.Pos(), bad == 0, itoa(len(list))+" functions of package contract are reachable from the entry point without passing through C; direct calls of state mutators among them: "+itoa(bad))
	}
}

// ---------------------------------------------------------------------------
// sql-query-only, sql-readonly-handle

var c20GapQueryOnlyRe = regexp.MustCompile(`(?i)(^|[?&])_query_only=(1|yes|true|on)(&|$)`)

// functions / constructs that make an SQL handle writable or destroy SQL history
var c20GapWritableSql = map[string]string{
	"database/sql.(*Conn).BeginTx":                 "opens a read-write SQL transaction",
	"database/sql.(*DB).BeginTx":                   "opens a read-write SQL transaction",
	"database/sql.(*DB).Begin":                     "opens a read-write SQL transaction",
	"contract.(*litetree).beginTx":                 "restores the recovery point (branch_truncate) and opens the writable transaction",
	"contract.(*litetree).restoreRecoveryPoint":    "truncates the master branch to the state's recovery point",
	"contract.(*litetree).rollbackToRecoveryPoint": "pragma branch_truncate",
	"contract.beginTx":                             "writable transaction of block execution",
	"contract.conn":                                "shared read-write connection of block execution",
	"contract.openDB":                              "shared read-write connection of block execution",
}

func c20GapSqlReadOnly(c *rep.Ctx, cg *an.CallGraph) {
	p := c.Prog
	f := c.Fn("contract.beginReadOnly")
	if f == nil {
		return
	}
	contractPkg := p.Pkg("contract")
	follow := func(e an.Edge) bool { return e.Callee != nil && e.Callee.Pkg == contractPkg }
	reach := cg.ReachableFrom([]*an.Func{f}, follow)
	var list []*an.Func
	for fn := range reach {
		if fn.Body != nil {
			list = append(list, fn)
		}
	}
	sort.Slice(list, func(i, j int) bool { return list[i].Name() < list[j].Name() })
	if len(list) < 3 {
		c.Undecide("sql-readonly-handle", f.Name(), "closure of beginReadOnly smaller than on the reference tree")
		return
	}
	wtx, _ := p.LookupObj("contract", "writableSqlTx").(*types.TypeName)
	nOpen, bad := 0, 0
	for _, fn := range list {
		info := fn.Info()
		for _, s := range fn.Graph().Calls(nil) {
			if s.Fn == nil {
				continue
			}
			name := an.FuncName(s.Fn)
			if why, isW := c20GapWritableSql[name]; isW {
				bad++
				c.Check("sql-readonly-handle", f.Name()+"|"+fn.Name()+"|"+name, s.Call.Pos(), false, "the read-only SQL handle of a query reaches "+name+" ("+why+")")
			}
			if name == "database/sql.Open" && len(s.Call.Args) == 2 {
				nOpen++
				// constant string fragments of the data source argument (locals resolved once)
				var frags []string
				var scan func(e ast.Expr, depth int)
				scan = func(e ast.Expr, depth int) {
					ast.Inspect(e, func(x ast.Node) bool {
						ex, ok := x.(ast.Expr)
						if !ok {
							return true
						}
						if tv, ok := info.Types[ex]; ok && tv.Value != nil && tv.Value.Kind() == constant.String {
							frags = append(frags, constant.StringVal(tv.Value))
							return false
						}
						if id, ok := ex.(*ast.Ident); ok && depth < 4 {
							if r := c20GapOnce(fn, id); r != ast.Expr(id) {
								scan(r, depth+1)
							}
						}
						return true
					})
				}
				scan(s.Call.Args[1], 0)
				ok := false
				for _, fr := range frags {
					for _, part := range strings.FieldsFunc(fr, func(r rune) bool { return r == '?' || r == '&' }) {
						if c20GapQueryOnlyRe.MatchString(part) {
							ok = true
						}
					}
				}
				c.Check("sql-query-only", fn.Name()+"|sql.Open", s.Call.Pos(), ok, "the connection opened for a query carries `_query_only` with a true value: the C layer refuses db.exec / pstmt:exec only inside view functions (nestedView), so in a query (isQuery) SQLite's query-only mode is the only thing between contract code and INSERT/UPDATE/DELETE")
			}
		}
		if wtx != nil {
			ast.Inspect(fn.Body, func(x ast.Node) bool {
				cl, ok := x.(*ast.CompositeLit)
				if !ok {
					return true
				}
				if tv, ok := info.Types[cl]; ok && tv.Type != nil && types.Identical(tv.Type, wtx.Type()) {
					bad++
					c.Check("sql-readonly-handle", f.Name()+"|"+fn.Name()+"|writableSqlTx{}", cl.Pos(), false, "the read-only SQL path builds a writable transaction object")
				}
				return true
			})
		}
	}
	if nOpen == 0 {
		c.Undecide("sql-query-only", f.Name(), "no sql.Open in the closure of beginReadOnly (connection made differently?)")
	}
	c.Check("sql-readonly-handle", f.Name(), f.Pos(), bad == 0, itoa(len(list))+" functions reachable from beginReadOnly; places that open a read-write transaction, share the execution connection or truncate the branch: "+itoa(bad))
}

// ---------------------------------------------------------------------------
// query-state-flow

func c20GapQueryStateFlow(c *rep.Ctx) {
	f := c.Fn("chain.(*ChainWorker).Receive")
	if f == nil {
		return
	}
	g := f.Graph()
	info := f.Info()
	n := 0
	for _, s := range g.CallsTo("contract.Query", "contract.CheckFeeDelegation") {
		name := an.FuncName(s.Fn)
		var bsArg, ctrArg ast.Expr
		sig, _ := s.Fn.Type().(*types.Signature)
		for i := 0; sig != nil && i < sig.Params().Len() && i < len(s.Call.Args); i++ {
			switch sig.Params().At(i).Type().String() {
			case "*github.com/aergoio/aergo/v2/state.BlockState":
				bsArg = s.Call.Args[i]
			case "*github.com/aergoio/aergo/v2/state/statedb.ContractState":
				ctrArg = s.Call.Args[i]
			}
		}
		if bsArg == nil || ctrArg == nil {
			c.Undecide("query-state-flow", f.Name()+"|"+name, "block-state / contract-state parameters not found")
			continue
		}
		n++
		key := f.Name() + "|" + name
		// bs := state.NewBlockState(S)
		var view types.Object
		bsDef := c20GapOnce(f, bsArg)
		isLive := func(e ast.Expr) bool { return containsCallTo(info, e, "state.(*ChainStateDB).GetStateDB") }
		call, isCall := ast.Unparen(bsDef).(*ast.CallExpr)
		if !isCall || an.CalleeName(info, call) != "state.NewBlockState" || len(call.Args) < 1 {
			c.Undecide("query-state-flow", key+"|bs", "the block state handed to the read-only entry point is not built with state.NewBlockState: `"+an.ExprString(bsDef)+"`")
			continue
		}
		view = an.ObjOf(info, call.Args[0])
		if view == nil {
			if inner, ok := ast.Unparen(call.Args[0]).(*ast.CallExpr); ok && an.CalleeName(info, inner) == "state.(*ChainStateDB).OpenNewStateDB" {
				c.Check("query-state-flow", key+"|bs", s.Call.Pos(), true, "the block state is built directly over a freshly opened view")
			} else if isLive(call.Args[0]) {
				c.Check("query-state-flow", key+"|bs", s.Call.Pos(), false, "the block state handed to the read-only entry point is built over the chain's live StateDB (`"+an.ExprString(call.Args[0])+"`), not over a view opened for this request: whatever a read-only execution stages lands in the buffer the next block commit writes out")
			} else {
				c.Undecide("query-state-flow", key+"|bs", "state.NewBlockState over `"+an.ExprString(call.Args[0])+"`: not recognised")
			}
			continue
		}
		// every assignment of the view that can reach the call opens a new view; one of them dominates
		opens := an.Set{}
		okAll := true
		badRhs, notOpen := "", ""
		for _, nd := range g.StmtNodes(func(nd *an.Node) bool { return an.Assigns(info, nd.Ast, view) }) {
			if nd != s.Node && !g.Reachable(nd, s.Node) {
				continue
			}
			isOpen := false
			if as, ok := nd.Ast.(*ast.AssignStmt); ok && len(as.Lhs) == len(as.Rhs) {
				for i, l := range as.Lhs {
					if an.ObjOf(info, l) != view {
						continue
					}
					if call, ok := ast.Unparen(as.Rhs[i]).(*ast.CallExpr); ok && an.CalleeName(info, call) == "state.(*ChainStateDB).OpenNewStateDB" {
						isOpen = true
					} else {
						badRhs = an.ExprString(as.Rhs[i])
					}
				}
			} else if _, isDecl := nd.Ast.(*ast.DeclStmt); isDecl {
				continue // `var sdb *statedb.StateDB` (zero value; the dominance test below demands a real opening)
			} else if vs, isSpec := nd.Ast.(*ast.ValueSpec); isSpec && len(vs.Values) == 0 {
				continue // go/cfg keeps the value spec of a var declaration
			}
			if isOpen {
				opens[nd] = true
			} else {
				okAll = false
				notOpen += " " + c.Prog.Pos(nd.Ast.Pos())
			}
		}
		ok := okAll && len(opens) > 0 && g.Dominated(s.Node, opens)
		msg := "the block state is built over a view opened with OpenNewStateDB for this request on every path"
		if !ok {
			msg += " [" + itoa(len(opens)) + " opening assignment(s) reach the call; other writes: " + notOpen + "]"
		}
		if badRhs != "" {
			msg += " (assigned `" + badRhs + "`)"
		}
		c.Check("query-state-flow", key+"|bs", s.Call.Pos(), ok, msg+": on the live StateDB whatever a read-only execution stages lands in the buffer the next block commit writes out")
		// contract state opened over the same view
		ctrObj := an.ObjOf(info, ctrArg)
		okCtr, unknownCtr := false, false
		how := "definition of the contract state not found"
		if ctrObj != nil {
			_, stmts, _ := c20GapDefs(f, ctrObj)
			for _, st := range stmts {
				as, ok := st.(*ast.AssignStmt)
				if !ok || len(as.Rhs) != 1 {
					continue
				}
				call, ok := ast.Unparen(as.Rhs[0]).(*ast.CallExpr)
				if !ok {
					continue
				}
				nd := g.NodeOf(as)
				if nd == nil {
					nd = g.NodeContaining(as.Pos())
				}
				if nd == nil || !(g.Reachable(nd, s.Node)) {
					continue
				}
				cn := an.CalleeName(info, call)
				if cn != "state/statedb.OpenContractStateAccount" && cn != "state/statedb.OpenContractState" {
					how = "the contract state comes from " + cn
					continue
				}
				okCtr = true
				for _, a := range call.Args {
					if tv, ok := info.Types[a]; ok && tv.Type != nil && tv.Type.String() == "*github.com/aergoio/aergo/v2/state/statedb.StateDB" {
						if o := an.ObjOf(info, a); o != view {
							okCtr = false
							how = "the contract state is opened over `" + an.ExprString(a) + "`, not the request's view"
							if o == nil && !isLive(a) {
								unknownCtr = true
							}
						}
					}
				}
				if okCtr {
					how = "opened over the same view"
				}
			}
		}
		if unknownCtr {
			c.Undecide("query-state-flow", key+"|contract-state", how+" (expression not recognised)")
			continue
		}
		c.Check("query-state-flow", key+"|contract-state", s.Call.Pos(), okCtr, "the contract state handed to the read-only entry point is opened over the request's own state view: "+how)
	}
	if n < 2 {
		c.Undecide("query-state-flow", f.Name(), "expected the query handler and the fee-delegation handler")
	}
}

// ---------------------------------------------------------------------------
// C front end with the cgo export header reconstructed from the Go exports

// c20GapExportHeader writes what cgo would put into _cgo_export.h as far as
// the C modules need it: result structs (r0, r1, ...) and unprototyped
// declarations of the exported Go functions.
func c20GapExportHeader(c *rep.Ctx) string {
	var b strings.Builder
	b.WriteString("#include <stddef.h>\n")
	ctype := func(e ast.Expr) string {
		switch t := e.(type) {
		case *ast.StarExpr:
			if sel, ok := t.X.(*ast.SelectorExpr); ok && sel.Sel.Name == "char" {
				return "char *"
			}
			return "void *"
		case *ast.SelectorExpr:
			if id, ok := t.X.(*ast.Ident); ok && id.Name == "C" {
				switch t.Sel.Name {
				case "int":
					return "int"
				case "lua_Integer":
					return "long"
				}
				return "long long"
			}
			if t.Sel.Name == "Pointer" {
				return "void *"
			}
		case *ast.Ident:
			if t.Name == "bool" {
				return "_Bool"
			}
		}
		return "long long"
	}
	exps := c20Exports(c)
	sort.Slice(exps, func(i, j int) bool { return exps[i].Name() < exps[j].Name() })
	for _, f := range exps {
		name := f.Decl.Name.Name
		var res []string
		if f.Decl.Type.Results != nil {
			for _, fld := range f.Decl.Type.Results.List {
				k := len(fld.Names)
				if k == 0 {
					k = 1
				}
				for i := 0; i < k; i++ {
					res = append(res, ctype(fld.Type))
				}
			}
		}
		switch len(res) {
		case 0:
			b.WriteString("void " + name + "();\n")
		case 1:
			b.WriteString(res[0] + " " + name + "();\n")
		default:
			b.WriteString("struct " + name + "_return {")
			for i, t := range res {
				b.WriteString(" " + t + " r" + itoa(i) + ";")
			}
			b.WriteString(" };\nstruct " + name + "_return " + name + "();\n")
		}
	}
	return b.String()
}

func c20GapClang(c *rep.Ctx, file, exportHeader string) *cnode {
	clang, err := exec.LookPath("clang")
	if err != nil {
		if clang, err = exec.LookPath("clang-14"); err != nil {
			c.Undecide("cfront", file, "clang not found on PATH: the C rules cannot be evaluated")
			return nil
		}
	}
	dir := filepath.Join(an.RepoDir(), "contract")
	shim, err := os.MkdirTemp("", "c20gap-shim")
	if err != nil {
		c.Undecide("cfront", file, err.Error())
		return nil
	}
	defer os.RemoveAll(shim)
	for _, h := range []string{"luajit.h", "lj_obj.h", "lj_gc.h"} {
		os.WriteFile(filepath.Join(shim, h), nil, 0o644)
	}
	os.WriteFile(filepath.Join(shim, "_cgo_export.h"), []byte(exportHeader), 0o644)
	cmd := exec.Command(clang, "-fsyntax-only", "-w", "-Xclang", "-ast-dump=json", "-I/usr/include/lua5.1", "-I"+dir, "-I"+shim, file)
	cmd.Dir = dir
	var out, errb bytes.Buffer
	cmd.Stdout, cmd.Stderr = &out, &errb
	_ = cmd.Run()
	if out.Len() == 0 {
		c.Undecide("cfront", file, "clang produced no AST: "+firstLine(errb.String()))
		return nil
	}
	var root cnode
	if err := json.NewDecoder(&out).Decode(&root); err != nil {
		c.Undecide("cfront", file, "cannot decode clang AST: "+err.Error())
		return nil
	}
	return &root
}

func c20GapCStrip(n *cnode) *cnode {
	for n != nil && (n.Kind == "ParenExpr" || n.Kind == "ImplicitCastExpr" || n.Kind == "CStyleCastExpr") && len(n.Inner) >= 1 {
		n = n.Inner[len(n.Inner)-1]
	}
	return n
}

// c20GapCLvalue renders a variable or member chain (a, a.b, a->b); "" otherwise.
func c20GapCLvalue(n *cnode) string {
	n = c20GapCStrip(n)
	if n == nil {
		return ""
	}
	switch n.Kind {
	case "DeclRefExpr":
		if n.Ref != nil {
			return n.Ref.Name
		}
	case "MemberExpr":
		if len(n.Inner) == 1 {
			if b := c20GapCLvalue(n.Inner[0]); b != "" {
				return b + "." + n.Name
			}
		}
	}
	return ""
}

func c20GapCIntLit(n *cnode) (int64, bool) {
	n = c20GapCStrip(n)
	if n == nil || n.Kind != "IntegerLiteral" {
		return 0, false
	}
	s, ok := n.Value.(string)
	if !ok {
		return 0, false
	}
	var v int64
	for _, ch := range s {
		if ch < '0' || ch > '9' {
			return 0, false
		}
		v = v*10 + int64(ch-'0')
	}
	return v, true
}

// c20GapCCmp normalises a comparison `lv op k` / `k op lv` to (lv, op, k).
func c20GapCCmp(n *cnode) (lv *cnode, op string, k int64, ok bool) {
	n = c20GapCStrip(n)
	if n == nil || n.Kind != "BinaryOperator" || len(n.Inner) != 2 {
		return nil, "", 0, false
	}
	flip := map[string]string{">": "<", "<": ">", ">=": "<=", "<=": ">=", "==": "==", "!=": "!="}
	if _, isCmp := flip[n.Opcode]; !isCmp {
		return nil, "", 0, false
	}
	if v, isLit := c20GapCIntLit(n.Inner[1]); isLit {
		return c20GapCStrip(n.Inner[0]), n.Opcode, v, true
	}
	if v, isLit := c20GapCIntLit(n.Inner[0]); isLit {
		return c20GapCStrip(n.Inner[1]), flip[n.Opcode], v, true
	}
	return nil, "", 0, false
}

// c20GapCConjuncts splits a condition on &&.
func c20GapCConjuncts(n *cnode) []*cnode {
	n = c20GapCStrip(n)
	if n != nil && n.Kind == "BinaryOperator" && n.Opcode == "&&" && len(n.Inner) == 2 {
		return append(c20GapCConjuncts(n.Inner[0]), c20GapCConjuncts(n.Inner[1])...)
	}
	return []*cnode{n}
}

// c20GapCWalk visits every node with the stack of its ancestors.
func c20GapCWalk(n *cnode, stack []*cnode, f func(n *cnode, stack []*cnode)) {
	if n == nil {
		return
	}
	f(n, stack)
	stack = append(stack, n)
	for _, ch := range n.Inner {
		c20GapCWalk(ch, stack, f)
	}
}

var c20GapReadOnlyKeywords = map[string]string{
	"SELECT": "reads rows",
}
var c20GapReadOnlyPragmas = map[string]string{
	"PRAGMA":           "the pragma keyword itself",
	"TABLE_INFO":       "schema introspection, reads only",
	"INDEX_LIST":       "schema introspection, reads only",
	"INDEX_INFO":       "schema introspection, reads only",
	"FOREIGN_KEY_LIST": "schema introspection, reads only",
}

func c20GapCFront(c *rep.Ctx) {
	hdr := c20GapExportHeader(c)
	if strings.Count(hdr, "_return {") < 8 {
		c.Undecide("cfront", "_cgo_export.h", "fewer multi-result exports than on the reference tree: the reconstructed export header is incomplete")
		return
	}
	// ---- c-clear-guard
	nClear := 0
	for _, file := range []string{"vm.c", "contract_module.c"} {
		root := c20GapClang(c, file, hdr)
		if root == nil {
			return
		}
		for fname, body := range cFunctions(root) {
			idx := 0
			c20GapCWalk(body, nil, func(n *cnode, stack []*cnode) {
				if n.Kind != "CallExpr" || n.calleeName() != "luaClearRecovery" {
					return
				}
				nClear++
				idx++
				key := file + "|" + fname + "#" + itoa(idx)
				if len(n.Inner) < 5 {
					c.Undecide("c-clear-guard", key, "call of luaClearRecovery with an unexpected argument list")
					return
				}
				start := c20GapCLvalue(n.Inner[3])
				if start == "" {
					c.Undecide("c-clear-guard", key, "the start sequence argument is not a variable or member")
					return
				}
				ok := false
				for i := len(stack) - 1; i >= 0 && !ok; i-- {
					st := stack[i]
					child := n
					if i+1 < len(stack) {
						child = stack[i+1]
					}
					if st.Kind != "IfStmt" || len(st.Inner) < 2 || child != st.Inner[1] {
						continue // not an if, or we are in its condition / else branch
					}
					for _, cj := range c20GapCConjuncts(st.Inner[0]) {
						lv, op, k, isCmp := c20GapCCmp(cj)
						if !isCmp || c20GapCLvalue(lv) != start {
							continue
						}
						if (op == ">" && k >= 0) || (op == ">=" && k >= 1) || (op == "==" && k >= 1) {
							ok = true
						}
					}
				}
				c.Check("c-clear-guard", key, token.NoPos, ok, "luaClearRecovery("+start+") is called only where "+start+" is known positive: luaSetRecoveryPoint answers 0 in a query or view (nothing recorded), and clearing from sequence 0 walks the whole list of the enclosing transaction, reverting each point, from inside the read-only context")
			})
		}
	}
	if nClear < 4 {
		c.Undecide("c-clear-guard", "vm.c, contract_module.c", "fewer calls of luaClearRecovery than on the reference tree")
	}
	// ---- c-view-threshold
	nView := 0
	dir := filepath.Join(an.RepoDir(), "contract")
	files, _ := filepath.Glob(filepath.Join(dir, "*.c"))
	sort.Strings(files)
	for _, path := range files {
		src, err := os.ReadFile(path)
		if err != nil || !bytes.Contains(src, []byte("luaCheckView")) {
			continue // a translation unit that never spells the identifier cannot call it
		}
		file := filepath.Base(path)
		root := c20GapClang(c, file, hdr)
		if root == nil {
			return
		}
		for fname, body := range cFunctions(root) {
			idx := 0
			c20GapCWalk(body, nil, func(n *cnode, stack []*cnode) {
				if n.Kind != "CallExpr" || n.calleeName() != "luaCheckView" {
					return
				}
				nView++
				idx++
				key := file + "|" + fname
				if idx > 1 {
					key += "#" + itoa(idx)
				}
				// nearest ancestor that is not a cast / paren
				var par *cnode
				for i := len(stack) - 1; i >= 0; i-- {
					k := stack[i].Kind
					if k == "ParenExpr" || k == "ImplicitCastExpr" || k == "CStyleCastExpr" {
						continue
					}
					par = stack[i]
					break
				}
				if par == nil {
					c.Undecide("c-view-threshold", key, "use of luaCheckView not understood")
					return
				}
				switch par.Kind {
				case "BinaryOperator":
					lv, op, k, isCmp := c20GapCCmp(par)
					if !isCmp || c20GapCStrip(lv) != n {
						c.Undecide("c-view-threshold", key, "luaCheckView is used in an expression this rule does not recognise")
						return
					}
					// tests that split exactly at depth 0 | depth >= 1
					ok := (k == 0 && (op == ">" || op == "!=" || op == "==" || op == "<=")) || (k == 1 && (op == ">=" || op == "<"))
					c.Check("c-view-threshold", key, token.NoPos, ok, "the view depth is compared with zero (found `"+op+" "+itoa(int(k))+"`): any other threshold lets the first nesting level(s) of view functions execute SQL writes")
				case "IfStmt", "UnaryOperator", "WhileStmt", "ConditionalOperator":
					c.Check("c-view-threshold", key, token.NoPos, true, "the view depth is used as a truth value")
				default:
					c.Undecide("c-view-threshold", key, "luaCheckView's result flows into a "+par.Kind+": not recognised")
				}
			})
		}
	}
	if nView < 2 {
		c.Undecide("c-view-threshold", "contract/*.c", "fewer uses of luaCheckView than on the reference tree")
	}
	// ---- c-readonly-sql
	root := c20GapClang(c, "sqlcheck.c", hdr)
	if root == nil {
		return
	}
	fns := cFunctions(root)
	ro := fns["sqlcheck_is_readonly_sql"]
	pr := fns["sqlcheck_is_permitted_pragma"]
	if ro == nil || pr == nil {
		c.Undecide("c-readonly-sql", "sqlcheck.c", "sqlcheck_is_readonly_sql / sqlcheck_is_permitted_pragma not found")
		return
	}
	// closure of the read-only test inside the translation unit
	seen := map[string]bool{"sqlcheck_is_readonly_sql": true}
	work := []string{"sqlcheck_is_readonly_sql"}
	var ext []string
	for len(work) > 0 {
		cur := work[len(work)-1]
		work = work[:len(work)-1]
		fns[cur].walk(func(m *cnode) bool {
			if m.Kind == "CallExpr" {
				cn := m.calleeName()
				if cn != "" && !seen[cn] {
					seen[cn] = true
					if fns[cn] != nil {
						work = append(work, cn)
					} else {
						ext = append(ext, cn)
					}
				}
			}
			return true
		})
	}
	badCall := ""
	for _, w := range []string{"PermittedCmd", "sqlcheck_is_permitted_sql"} {
		if seen[w] {
			badCall = w
		}
	}
	c.Check("c-readonly-sql", "sqlcheck.c|sqlcheck_is_readonly_sql|no-write-table", token.NoPos, badCall == "", "the read-only test of db.query never consults the table of statements permitted to transactions (INSERT, UPDATE, DELETE, ...) "+badCall)
	lits := func(body *cnode) []string {
		var out []string
		body.walk(func(m *cnode) bool {
			if m.Kind == "StringLiteral" {
				if s, ok := m.Value.(string); ok {
					out = append(out, strings.Trim(s, `"`))
				}
			}
			return true
		})
		return out
	}
	nLit := 0
	for _, l := range lits(ro) {
		nLit++
		_, ok := c20GapReadOnlyKeywords[strings.ToUpper(l)]
		c.Check("c-readonly-sql", "sqlcheck.c|sqlcheck_is_readonly_sql|keyword|"+l, token.NoPos, ok, "statement keyword accepted as read-only is in the classified table; a new keyword must be read and classified (views and queries step whatever this test lets through)")
	}
	for _, l := range lits(pr) {
		nLit++
		_, ok := c20GapReadOnlyPragmas[strings.ToUpper(l)]
		c.Check("c-readonly-sql", "sqlcheck.c|sqlcheck_is_permitted_pragma|"+l, token.NoPos, ok, "pragma accepted by the read-only test is in the classified table of introspection pragmas; a new pragma must be read and classified (many pragmas write)")
	}
	if nLit < 5 {
		c.Undecide("c-readonly-sql", "sqlcheck.c", "fewer keyword literals than on the reference tree")
	}
}
