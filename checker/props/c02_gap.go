package props

import (
	"go/ast"
	"go/token"
	"go/types"
	"sort"
	"strings"

	"verif/checker/internal/an"
	"verif/checker/internal/rep"
)

// C02 gap rules (deterministic execution).  Added after a systematic review of
// the clauses that the first rules did not decide:
//
//   - the Go functions that the Lua VM calls back into (cgo `//export`) were not
//     part of the execution set, so neither the primitive scan nor the map-range
//     scan looked at them (exec-primitives, exec-map-range);
//   - the primitive list was a list of names; it is now a list of packages and
//     kinds (unseeded PRNG, OS entropy, wall clock, environment, reflection over
//     maps, unordered key collections);
//   - calls hidden in the right-hand side / condition / init of a statement in a
//     map-range body were not looked at (map-range-calls);
//   - every sort comparator reachable from execution compares element i with
//     element j (sort-comparator);
//   - the voting-power buckets are inserted into only through the ordered
//     insertion (bucket-order);
//   - goroutine results are placed by channel identity, not by completion order;
//     no select chooses between several channels (goroutine-result, select-choice);
//   - producer/validator agreement: block state preparation, the header info
//     handed to the executor, the executor runs last in a composite operation,
//     only successfully applied transactions are collected, the coinbase that is
//     paid is the coinbase that is written into / read from the header, the
//     block is assembled from the state that was executed (producer-*, ...);
//   - no floating-point arithmetic in execution (float-free);
//   - per-node configuration variables are read only through their accessor
//     (config-global).

func init() {
	extend("C02", c02GapRun)
}

func c02GapRun(c *rep.Ctx) {
	base := c02GapReach(c, false)
	rx := c02GapReach(c, true)
	exp := c02GapExportRoots(c)
	c.Note("gap rules: %d cgo-exported callbacks added as execution roots; %d functions/literals reachable (%d in the first set)", len(exp), len(rx), len(base))
	if len(exp) < 40 {
		c.Undecide("exec-primitives", "contract //export roots", "fewer cgo-exported callbacks than on the reference tree (51)")
	}
	if len(rx) < len(base)+80 {
		c.Undecide("exec-primitives", "callback reach", "the callbacks add implausibly few functions to the execution set")
	}
	var fl []*an.Func
	for f := range rx {
		if f.Body != nil {
			fl = append(fl, f)
		}
	}
	sort.Slice(fl, func(i, j int) bool { return fl[i].Pos() < fl[j].Pos() })
	c02GapPrimitives(c, fl, base)
	c02GapMapRanges(c, fl, base)
	c02GapSortComparators(c, fl)
	c02GapBucketOrder(c)
	c02GapConcurrency(c, fl)
	c02GapFloat(c, fl)
	c02GapConfigGlobals(c, fl)
	c02GapProducer(c)
	c02GapTxOrder(c)
	c02GapMerkleErrorRet(c)
	c02GapUnrolledEffects(c)
	c02GapHeaderRoundTrip(c)
}

// ---------------------------------------------------------------------------
// execution set including the VM callbacks

// c02GapExportRoots: functions of package contract that carry the cgo export
// directive for their own name.  The directive is not a comment for the
// compiler: it makes the function callable from the C side of the VM, which is
// the only way these functions are reached (no Go caller exists).
func c02GapExportRoots(c *rep.Ctx) []*an.Func {
	var out []*an.Func
	for _, f := range c.Prog.Funcs() {
		if f.Decl == nil || f.Decl.Doc == nil || an.Rel(f.Pkg.PkgPath) != "contract" {
			continue
		}
		for _, cm := range f.Decl.Doc.List {
			if cm.Text == "//export "+f.Decl.Name.Name {
				out = append(out, f)
			}
		}
	}
	return out
}

func c02GapReach(c *rep.Ctx, withCallbacks bool) map[*an.Func]bool {
	cg := c.Prog.BuildCallGraphCached()
	var roots []*an.Func
	for _, r := range c02Roots {
		if f := c.Prog.Func(r); f != nil {
			roots = append(roots, f)
		}
	}
	if withCallbacks {
		roots = append(roots, c02GapExportRoots(c)...)
		// the (pure) constructors of the header info and of the block: outside the
		// executor, but what they compute is what both sides execute with
		for _, r := range []string{"types.NewBlockHeaderInfo", "types.NewBlockHeaderInfoFromPrevBlock", "types.NewBlock", "types.MakeChainId", "types.DecodeChainIdVersion"} {
			if f := c.Prog.Func(r); f != nil {
				roots = append(roots, f)
			}
		}
	}
	return cg.ReachableFrom(roots, func(e an.Edge) bool {
		return e.Callee != nil && c02ExecPkgs[an.Rel(e.Callee.Pkg.PkgPath)] && !c01OffNodePkg(e.Callee)
	})
}

// ---------------------------------------------------------------------------
// exec-primitives

// c02GapPrimKind classifies a callee as a source of per-node / per-run values.
// Packages and kinds instead of a list of names: every package-level function
// of math/rand (except the constructors of an explicitly seeded generator),
// every function of math/rand/v2 and crypto/rand, the clock, the process
// environment, reflection over map keys, unordered key collections.
func c02GapPrimKind(fn *types.Func) string {
	if fn == nil || fn.Pkg() == nil {
		return ""
	}
	sig, _ := fn.Type().(*types.Signature)
	isMethod := sig != nil && sig.Recv() != nil
	name := fn.Name()
	full := an.FuncName(fn)
	switch fn.Pkg().Path() {
	case "math/rand":
		if !isMethod && name != "New" && name != "NewSource" && name != "NewZipf" {
			return "global PRNG"
		}
	case "math/rand/v2":
		if !isMethod && !strings.HasPrefix(name, "New") {
			return "global PRNG"
		}
	case "crypto/rand":
		return "OS randomness"
	case "time":
		switch name {
		case "Now", "Since", "Until", "After", "AfterFunc", "NewTimer", "NewTicker", "Tick":
			if !isMethod {
				return "wall clock"
			}
		}
	case "os":
		switch name {
		case "Getenv", "LookupEnv", "Environ", "ExpandEnv", "Hostname", "Getpid", "Getppid", "Getuid", "Geteuid", "Getgid", "Getegid", "Getwd", "Executable", "UserHomeDir", "UserCacheDir", "UserConfigDir", "Getpagesize":
			if !isMethod {
				return "environment"
			}
		}
	case "os/user":
		return "environment"
	case "context":
		switch name {
		case "WithTimeout", "WithDeadline", "WithTimeoutCause", "WithDeadlineCause":
			return "wall-clock deadline"
		}
	case "runtime":
		switch name {
		case "NumCPU", "NumGoroutine", "GOMAXPROCS", "NumCgoCall", "Caller", "Callers", "Stack", "Version", "ReadMemStats":
			return "host/scheduler"
		}
	case "runtime/debug":
		switch name {
		case "Stack", "ReadBuildInfo", "ReadGCStats":
			return "host/scheduler"
		}
	case "net":
		switch name {
		case "Interfaces", "InterfaceAddrs", "LookupHost", "LookupIP", "LookupAddr":
			return "environment"
		}
	case "reflect":
		switch full {
		case "reflect.(Value).MapKeys", "reflect.(Value).MapRange":
			return "unordered map keys"
		case "reflect.(Value).Pointer", "reflect.(Value).UnsafeAddr", "reflect.(Value).UnsafePointer":
			return "address value"
		}
	case "maps", "golang.org/x/exp/maps":
		switch name {
		case "Keys", "Values", "All":
			return "unordered map keys"
		}
	case "sync":
		if full == "sync.(*Map).Range" {
			return "unordered map keys"
		}
	}
	return ""
}

// c02GapSortedUse: the unordered collection produced by call is sorted before
// any other use: it is the operand of slices.Sorted, or it is collected into a
// local that is handed to a sort function first (same test as collect-then-sort).
func c02GapSortedUse(f *an.Func, call *ast.CallExpr) bool {
	info := f.Info()
	ok := false
	// innermost enclosing calls: slices.Sorted(maps.Keys(m)) / slices.Sorted(slices.Values(..))
	ast.Inspect(f.Body, func(n ast.Node) bool {
		outer, isCall := n.(*ast.CallExpr)
		if !isCall || outer == call {
			return true
		}
		switch an.CalleeName(info, outer) {
		case "slices.Sorted", "slices.SortedFunc", "slices.SortedStableFunc":
			for _, a := range outer.Args {
				if ast.Unparen(a) == call {
					ok = true
				}
			}
		}
		return true
	})
	return ok
}

// c02GapOnlyLogged: the value of call ends in logger chains only, also when it
// travels through locals that a nested literal (deferred closure) reads.
func c02GapOnlyLogged(f *an.Func, call *ast.CallExpr) bool {
	top := f.TopDecl()
	if top == nil || top.Body == nil {
		return false
	}
	info := f.Info()
	// statement enclosing a node, found by a walk with a stack
	enclosing := func(target ast.Node) ast.Stmt {
		var stack []ast.Node
		var found ast.Stmt
		ast.Inspect(top.Body, func(n ast.Node) bool {
			if found != nil {
				return false
			}
			if n == nil {
				stack = stack[:len(stack)-1]
				return true
			}
			stack = append(stack, n)
			if n == target {
				for i := len(stack) - 1; i >= 0; i-- {
					if st, ok := stack[i].(ast.Stmt); ok {
						switch st.(type) {
						case *ast.ExprStmt, *ast.AssignStmt, *ast.DeclStmt:
							found = st
						}
						if found != nil {
							break
						}
						if _, isBlock := st.(*ast.BlockStmt); isBlock {
							break
						}
					}
				}
				return false
			}
			return true
		})
		return found
	}
	var okNode func(n ast.Node, depth int) bool
	okNode = func(n ast.Node, depth int) bool {
		if depth > 3 {
			return false
		}
		switch st := enclosing(n).(type) {
		case *ast.ExprStmt:
			c, ok := st.X.(*ast.CallExpr)
			return ok && c02IsLogChain(info, c)
		case *ast.AssignStmt:
			for _, l := range st.Lhs {
				id, ok := ast.Unparen(l).(*ast.Ident)
				if !ok {
					return false
				}
				if id.Name == "_" {
					continue
				}
				o := info.Defs[id]
				if o == nil {
					o = info.Uses[id]
				}
				v, isVar := o.(*types.Var)
				if !isVar || v.Parent() == nil || v.Parent() == v.Pkg().Scope() || v.IsField() {
					return false
				}
				good := true
				ast.Inspect(top.Body, func(m ast.Node) bool {
					if u, ok := m.(*ast.Ident); ok && info.Uses[u] == o && u != id {
						if !okNode(u, depth+1) {
							good = false
						}
					}
					return good
				})
				if !good {
					return false
				}
			}
			return true
		}
		return false
	}
	return okNode(call, 0)
}

func c02GapPrimitives(c *rep.Ctx, fl []*an.Func, base map[*an.Func]bool) {
	type agg struct {
		n    int
		bad  []string
		pos  token.Pos
		nfun int
	}
	pk := map[string]*agg{}
	for _, f := range fl {
		rel := an.Rel(f.Pkg.PkgPath)
		a := pk[rel]
		if a == nil {
			a = &agg{}
			pk[rel] = a
		}
		a.nfun++
		info := f.Info()
		an.InspectShallow(f.Body, func(m ast.Node) bool {
			call, ok := m.(*ast.CallExpr)
			if !ok {
				return true
			}
			fn := an.Callee(info, call)
			kind := c02GapPrimKind(fn)
			if kind == "" {
				return true
			}
			name := an.FuncName(fn)
			if _, listed := c02Nondet[name]; listed && base[f] {
				return true // enumerated and triaged by nondet-call
			}
			a.n++
			if c02FlowsOnlyToLog(f, call) || c02GapOnlyLogged(f, call) {
				return true
			}
			if kind == "unordered map keys" && c02GapSortedUse(f, call) {
				return true
			}
			a.bad = append(a.bad, f.Name()+" calls "+name+" ("+kind+") at "+c.Prog.Pos(call.Pos()))
			if a.pos == token.NoPos {
				a.pos = call.Pos()
			}
			return true
		})
	}
	var rels []string
	for r := range pk {
		rels = append(rels, r)
	}
	sort.Strings(rels)
	for _, r := range rels {
		a := pk[r]
		msg := "no function of this package that block execution can reach (VM callbacks included) takes a value from the clock, an unseeded generator, the OS, the process environment, reflection over map keys or an unordered key collection, except into a logger"
		if len(a.bad) > 0 {
			msg += ": " + strings.Join(a.bad, "; ")
		}
		c.Check("exec-primitives", r, a.pos, len(a.bad) == 0, msg+" ["+itoa(a.nfun)+" functions scanned]")
	}
	c.Floor("exec-primitives", 10)
}

// ---------------------------------------------------------------------------
// exec-map-range (callbacks) and map-range-calls (all)

// c02GapRangeCallsOK: callees that a map-range body may call on objects that
// live outside the loop, per loop, with the reason.  Everything else that is
// called on or with an outer object re-opens the triage of that loop.
var c02GapRangeCallsOK = map[string]map[string]string{
	"pkg/trie.(*CacheDB).commit|range c.updatedNodes": {
		"pkg/trie.(*CacheDB).serializeBatch": "serialises the loop value into the argument of the keyed store write; reads nothing else",
	},
	"contract/system.(*vpr).apply|range updRows": {
		"contract/system.(*vprStore).write": "writes the bucket of the loop key under the key derived from the loop key",
	},
	"contract.(*executor).commitCalledContract|range ctx.callState#2": {
		"os.(*File).WriteString": "trace file (diagnostic, ctx.traceFile != nil)",
		"fmt.Sprintf":            "trace file text",
	},
}

// c02GapNeutralCallee: functions without an effect on their operands.
func c02GapNeutralCallee(fn *types.Func) bool {
	if fn == nil || fn.Pkg() == nil {
		return false
	}
	switch fn.Pkg().Path() {
	case "bytes", "strings", "strconv", "unicode", "unicode/utf8", "errors", "math/bits", "encoding/hex", "encoding/base64":
		sig, _ := fn.Type().(*types.Signature)
		return sig != nil && sig.Recv() == nil
	case "fmt":
		switch fn.Name() {
		case "Sprintf", "Sprint", "Sprintln", "Errorf":
			return true
		}
	}
	switch an.FuncName(fn) {
	case "internal/enc/base58.Encode", "internal/enc/base58.Decode", "internal/enc/hex.Encode", "internal/enc/hex.Decode",
		"types.ToAccountID", "types.ToHashID", "types.EncodeAddress", "types/dbkey.Trie", "internal/common.Hasher":
		return true
	}
	return false
}

// c02GapOuterOperand: e denotes (a path rooted at) a variable declared outside
// the loop whose type can be mutated through it (pointer, map, slice, channel,
// interface, function, or a struct that is addressed for a pointer method).
func c02GapOuterOperand(info *types.Info, rs *ast.RangeStmt, e ast.Expr, recv bool) (types.Object, bool) {
	root := an.RootObj(info, e)
	v, ok := root.(*types.Var)
	if !ok {
		return nil, false
	}
	if v.Pos() >= rs.Pos() && v.Pos() < rs.End() {
		return nil, false
	}
	tv, has := info.Types[e]
	if !has || tv.Type == nil {
		return nil, false
	}
	switch tv.Type.Underlying().(type) {
	case *types.Pointer, *types.Map, *types.Slice, *types.Chan, *types.Interface, *types.Signature:
		return v, true
	case *types.Struct:
		return v, recv
	}
	return nil, false
}

func c02GapMapRanges(c *rep.Ctx, fl []*an.Func, base map[*an.Func]bool) {
	perPkgBad := map[string][]string{}
	perPkgN := map[string]int{}
	perPkgPos := map[string]token.Pos{}
	seen := map[string]int{}
	nCalls := 0
	for _, f := range fl {
		info := f.Info()
		rel := an.Rel(f.Pkg.PkgPath)
		if !base[f] {
			if _, ok := perPkgN[rel]; !ok {
				perPkgN[rel] = 0
			}
		}
		an.InspectShallow(f.Body, func(m ast.Node) bool {
			rs, ok := m.(*ast.RangeStmt)
			if !ok {
				return true
			}
			tv, has := info.Types[rs.X]
			if !has || tv.Type == nil {
				return true
			}
			if _, isMap := tv.Type.Underlying().(*types.Map); !isMap {
				return true
			}
			shape, okShape := c02RangeShape(f, rs)
			key := f.TopDecl().Name() + "|range " + an.ExprString(rs.X)
			seen[key]++
			if seen[key] > 1 {
				key += "#" + itoa(seen[key])
			}
			if !base[f] {
				// not enumerated by map-range: decide it here
				perPkgN[rel]++
				if !okShape {
					perPkgBad[rel] = append(perPkgBad[rel], key+" at "+c.Prog.Pos(rs.Pos())+" ("+shape+")")
					if perPkgPos[rel] == token.NoPos {
						perPkgPos[rel] = rs.Pos()
					}
				}
			}
			if !okShape {
				// triaged by row: the row freezes the callees, not the control flow.  An exit
				// from the loop that is not an error exit makes the outcome depend on
				// which element is met first.
				if _, hasRow := c02MapRangeOK[key]; hasRow {
					why := c02GapEarlyExit(info, rs)
					c.Check("map-range-exit", key, rs.Pos(), why == "", "a triaged map iteration visits every element unless it fails: no break, goto or successful return inside the loop (the element met first is arbitrary): "+why)
				}
				return true // triaged by row (map-range) or reported above
			}
			// recognised shape: the shape test looked at statements only; look at every call
			nCalls++
			allowed := c02GapRangeCallsOK[key]
			var bad []string
			ast.Inspect(rs.Body, func(n ast.Node) bool {
				if _, isLit := n.(*ast.FuncLit); isLit {
					return false
				}
				call, isCall := n.(*ast.CallExpr)
				if !isCall {
					return true
				}
				if tvf, isConv := info.Types[call.Fun]; isConv && tvf.IsType() {
					return true
				}
				if id, isId := ast.Unparen(call.Fun).(*ast.Ident); isId {
					if _, isB := info.Uses[id].(*types.Builtin); isB {
						return true
					}
				}
				fn := an.Callee(info, call)
				if c02IsLogChain(info, call) || (fn != nil && fn.Pkg() != nil && (strings.Contains(fn.Pkg().Path(), "zerolog") || strings.Contains(fn.Pkg().Path(), "aergo-lib/log"))) {
					return false
				}
				if c02GapNeutralCallee(fn) {
					return true
				}
				name := an.CalleeName(info, call)
				if fn != nil && fn.Name() == "Set" && len(call.Args) == 2 && c02IsDbWriter(fn) && c02LoopDerived(info, rs, call.Args[0]) {
					return true // keyed store write (already part of the shape)
				}
				if name == "math/big.(*Int).Add" {
					return true // commutative accumulation (already part of the shape)
				}
				outer := ""
				if sel, isSel := ast.Unparen(call.Fun).(*ast.SelectorExpr); isSel {
					if _, isPkg := info.Uses[c02GapIdent(sel.X)].(*types.PkgName); !isPkg {
						if o, is := c02GapOuterOperand(info, rs, sel.X, true); is {
							outer = o.Name()
						}
					}
				}
				for _, a := range call.Args {
					if o, is := c02GapOuterOperand(info, rs, a, false); is && outer == "" {
						outer = o.Name()
					}
				}
				if outer == "" {
					return true // element-local: operates on the loop element only
				}
				if _, ok := allowed[name]; ok {
					return true
				}
				bad = append(bad, name+" on/with `"+outer+"`")
				return true
			})
			msg := "inside a map iteration with a recognised order-insensitive statement shape, every call (also in assignments, conditions and initialisers) operates on the loop element only, is free of effects, or is a triaged callee of this loop"
			if len(bad) > 0 {
				msg += ": calls that reach an object living outside the loop, in map order: " + strings.Join(bad, ", ")
			}
			c.Check("map-range-calls", key, rs.Pos(), len(bad) == 0, msg)
			return true
		})
	}
	var rels []string
	for r := range perPkgN {
		rels = append(rels, r)
	}
	sort.Strings(rels)
	for _, r := range rels {
		msg := "every map iteration in the functions that only the VM callbacks reach has an order-insensitive body (" + itoa(perPkgN[r]) + " iterations)"
		if len(perPkgBad[r]) > 0 {
			msg += ": " + strings.Join(perPkgBad[r], "; ")
		}
		c.Check("exec-map-range", r, perPkgPos[r], len(perPkgBad[r]) == 0, msg)
	}
	c.Floor("map-range-calls", 6)
	c.Floor("exec-map-range", 1)
}

// c02GapEarlyExit: a statement in the body of rs that leaves the loop early
// without reporting an error ("" if none).
func c02GapEarlyExit(info *types.Info, rs *ast.RangeStmt) string {
	why := ""
	var walk func(n ast.Node, inner int)
	walk = func(n ast.Node, inner int) {
		ast.Inspect(n, func(m ast.Node) bool {
			if m == nil || m == n {
				return true
			}
			switch x := m.(type) {
			case *ast.FuncLit:
				return false
			case *ast.ForStmt, *ast.RangeStmt, *ast.SwitchStmt, *ast.TypeSwitchStmt, *ast.SelectStmt:
				walk(x, inner+1)
				return false
			case *ast.BranchStmt:
				switch x.Tok {
				case token.BREAK:
					if x.Label == nil && inner == 0 {
						why = "break"
					} else if x.Label != nil {
						why = "labelled break"
					}
				case token.GOTO:
					why = "goto"
				}
			case *ast.ReturnStmt:
				okRet := len(x.Results) > 0
				if okRet {
					last := x.Results[len(x.Results)-1]
					tv, has := info.Types[last]
					if !has || tv.IsNil() || tv.Type == nil || !types.Implements(tv.Type, c02GapErrorIface()) && tv.Type.String() != "error" {
						okRet = false
					}
				}
				if !okRet {
					why = "return without an error"
				}
			}
			return true
		})
	}
	walk(rs.Body, 0)
	return why
}

func c02GapErrorIface() *types.Interface {
	return types.Universe.Lookup("error").Type().Underlying().(*types.Interface)
}

func c02GapIdent(e ast.Expr) *ast.Ident {
	if e == nil {
		return nil
	}
	id, _ := ast.Unparen(e).(*ast.Ident)
	return id
}

// ---------------------------------------------------------------------------
// sort-comparator

// c02GapParamDeps computes, for the locals of a comparator, which of the two
// compared positions each depends on (bit 1: first parameter, bit 2: second).
func c02GapParamDeps(f *an.Func, p0, p1 types.Object) map[types.Object]uint8 {
	info := f.Info()
	deps := map[types.Object]uint8{p0: 1, p1: 2}
	mask := func(e ast.Node) uint8 {
		var m uint8
		ast.Inspect(e, func(n ast.Node) bool {
			if id, ok := n.(*ast.Ident); ok {
				if o := info.Uses[id]; o != nil {
					m |= deps[o]
				}
			}
			return true
		})
		return m
	}
	for changed := true; changed; {
		changed = false
		ast.Inspect(f.Body, func(n ast.Node) bool {
			var lhs, rhs []ast.Expr
			switch s := n.(type) {
			case *ast.AssignStmt:
				lhs, rhs = s.Lhs, s.Rhs
			case *ast.ValueSpec:
				for _, nm := range s.Names {
					lhs = append(lhs, nm)
				}
				rhs = s.Values
			default:
				return true
			}
			for i, l := range lhs {
				id, ok := ast.Unparen(l).(*ast.Ident)
				if !ok {
					continue
				}
				o := info.Defs[id]
				if o == nil {
					o = info.Uses[id]
				}
				if o == nil || o == p0 || o == p1 {
					continue
				}
				var m uint8
				if len(rhs) == len(lhs) {
					m = mask(rhs[i])
				} else {
					for _, r := range rhs {
						m |= mask(r)
					}
				}
				if deps[o]|m != deps[o] {
					deps[o] |= m
					changed = true
				}
			}
			return true
		})
	}
	return deps
}

// c02GapComparator decides the two structural conditions of a comparator.
func c02GapComparator(f *an.Func) (ok bool, why string) {
	if f == nil || f.Type == nil || f.Type.Params == nil {
		return false, "comparator not resolved"
	}
	var ps []types.Object
	for i := 0; i < 2; i++ {
		if o := f.ParamObj(i); o != nil {
			ps = append(ps, o)
		}
	}
	if len(ps) != 2 {
		return false, "comparator does not have two parameters"
	}
	info := f.Info()
	deps := c02GapParamDeps(f, ps[0], ps[1])
	mask := func(e ast.Node) uint8 {
		var m uint8
		ast.Inspect(e, func(n ast.Node) bool {
			if id, ok := n.(*ast.Ident); ok {
				if o := info.Uses[id]; o != nil {
					m |= deps[o]
				}
			}
			return true
		})
		return m
	}
	var union uint8
	self := ""
	leaf := func(a, b ast.Expr, at ast.Node) {
		ma, mb := mask(a), mask(b)
		union |= ma | mb
		if ma == mb && (ma == 1 || ma == 2) {
			self = an.ExprString(at.(ast.Expr))
		}
	}
	ast.Inspect(f.Body, func(n ast.Node) bool {
		switch x := n.(type) {
		case *ast.BinaryExpr:
			switch x.Op {
			case token.EQL, token.NEQ, token.LSS, token.LEQ, token.GTR, token.GEQ:
				leaf(x.X, x.Y, x)
			}
		case *ast.CallExpr:
			fn := an.Callee(info, x)
			if fn == nil {
				return true
			}
			sig, _ := fn.Type().(*types.Signature)
			switch fn.Name() {
			case "Cmp", "Compare", "Equal", "Less", "Before", "After", "CmpAbs", "EqualFold":
				if sig != nil && sig.Recv() != nil && len(x.Args) == 1 {
					if sel, ok := ast.Unparen(x.Fun).(*ast.SelectorExpr); ok {
						leaf(sel.X, x.Args[0], x)
					}
				} else if sig != nil && sig.Recv() == nil && len(x.Args) == 2 {
					leaf(x.Args[0], x.Args[1], x)
				}
			}
		}
		return true
	})
	if self != "" {
		return false, "the comparison `" + self + "` has the same element on both sides: distinct elements are never ordered by it, so the sorted order is the input order"
	}
	if union != 3 {
		return false, "the comparator does not compare its first position with its second one (one of them is never consulted)"
	}
	return true, "every comparison puts one position against the other"
}

// c02GapLessOf resolves the comparator function of a sort call.
func c02GapLessOf(c *rep.Ctx, f *an.Func, call *ast.CallExpr, name string) (*an.Func, string) {
	info := f.Info()
	lit := func(e ast.Expr) *an.Func {
		e = ast.Unparen(e)
		if l, ok := e.(*ast.FuncLit); ok {
			return c.Prog.LitFunc(l)
		}
		if o := an.ObjOf(info, e); o != nil {
			if rhs, _ := f.Graph().SingleDef(o); rhs != nil {
				if l, ok := ast.Unparen(rhs).(*ast.FuncLit); ok {
					return c.Prog.LitFunc(l)
				}
			}
			if fo, ok := o.(*types.Func); ok {
				return c.Prog.FuncOf(fo)
			}
		}
		return nil
	}
	switch name {
	case "sort.Slice", "sort.SliceStable", "slices.SortFunc", "slices.SortStableFunc":
		if len(call.Args) == 2 {
			if lf := lit(call.Args[1]); lf != nil {
				return lf, ""
			}
		}
		return nil, "comparator is not a function literal, a once-defined local or a declared function"
	case "sort.Sort", "sort.Stable":
		if len(call.Args) != 1 {
			return nil, "unexpected arity"
		}
		e := ast.Unparen(call.Args[0])
		for {
			inner, ok := e.(*ast.CallExpr)
			if !ok || an.CalleeName(info, inner) != "sort.Reverse" || len(inner.Args) != 1 {
				break
			}
			e = ast.Unparen(inner.Args[0])
		}
		tv, has := info.Types[e]
		if !has || tv.Type == nil {
			return nil, "operand type unknown"
		}
		obj, _, _ := types.LookupFieldOrMethod(tv.Type, true, f.Pkg.Types, "Less")
		m, _ := obj.(*types.Func)
		if m == nil {
			return nil, "operand has no Less method"
		}
		if m.Pkg() != nil && m.Pkg().Path() == "sort" {
			return nil, "std" // sort.StringSlice etc.
		}
		if lf := c.Prog.FuncOf(m); lf != nil {
			return lf, ""
		}
		return nil, "Less method outside the module"
	}
	return nil, "std"
}

func c02GapSortComparators(c *rep.Ctx, fl []*an.Func) {
	seen := map[string]int{}
	for _, f := range fl {
		info := f.Info()
		an.InspectShallow(f.Body, func(m ast.Node) bool {
			call, ok := m.(*ast.CallExpr)
			if !ok {
				return true
			}
			name := an.CalleeName(info, call)
			switch name {
			case "sort.Slice", "sort.SliceStable", "sort.Sort", "sort.Stable", "slices.SortFunc", "slices.SortStableFunc":
			default:
				return true
			}
			key := f.TopDecl().Name() + "|" + name
			seen[key]++
			if seen[key] > 1 {
				key += "#" + itoa(seen[key])
			}
			lf, why := c02GapLessOf(c, f, call, name)
			if lf == nil {
				if why != "std" {
					c.Undecide("sort-comparator", key, why)
				}
				return true
			}
			ok2, msg := c02GapComparator(lf)
			c.Check("sort-comparator", key, call.Pos(), ok2, "a sort reachable from block execution orders by a comparator that compares element i with element j ("+lf.Name()+"): "+msg)
			return true
		})
	}
	c.Floor("sort-comparator", 2)
}

// ---------------------------------------------------------------------------
// bucket-order

var c02GapListInsert = map[string]bool{
	"PushBack": true, "PushFront": true, "InsertBefore": true, "InsertAfter": true, "PushBackList": true, "PushFrontList": true,
	"MoveBefore": true, "MoveAfter": true, "MoveToBack": true, "MoveToFront": true,
}

// c02GapListInsertOK: the functions of contract/system that may place an
// element into a list, and why the position does not depend on call order.
var c02GapListInsertOK = map[string]string{
	"contract/system.orderedListAdd":      "inserts before the first element matched by the ordering predicate, else at the back",
	"contract/system.orderedListMove":     "moves before the first element matched by the ordering predicate, else to the back",
	"contract/system.(*vprStore).addTail": "rebuilds a bucket from its stored (already ordered) image, element by element",
}

func c02GapBucketOrder(c *rep.Ctx) {
	p := c.Prog
	sys := p.Pkg("contract/system")
	if sys == nil {
		c.Undecide("bucket-order", "contract/system", "package not loaded")
		return
	}
	seen := map[string]int{}
	for _, f := range p.Funcs() {
		if f.Body == nil || f.Pkg != sys {
			continue
		}
		info := f.Info()
		an.InspectShallow(f.Body, func(n ast.Node) bool {
			call, ok := n.(*ast.CallExpr)
			if !ok {
				return true
			}
			fn := an.Callee(info, call)
			if fn == nil || fn.Pkg() == nil || fn.Pkg().Path() != "container/list" || !c02GapListInsert[fn.Name()] {
				return true
			}
			top := f.TopDecl().Name()
			key := top + "|" + fn.Name()
			seen[key]++
			if seen[key] > 1 {
				key += "#" + itoa(seen[key])
			}
			reason, ok2 := c02GapListInsertOK[top]
			c.Check("bucket-order", "site|"+key, call.Pos(), ok2, "elements enter a voting-power bucket (a list that is serialised front to back into the system contract) only through the ordered insertion, never at a position that depends on the order of the calls: "+reason)
			return true
		})
	}
	// the ordered insertion inserts before the element found by the predicate search
	if f := c.Fn("contract/system.orderedListAdd"); f != nil {
		g := f.Graph()
		info := f.Info()
		pred := f.ParamObj(2)
		srch := g.CallsTo("contract/system.search")
		ins := g.CallsTo("container/list.(*List).InsertBefore")
		ok := len(srch) == 1 && len(ins) == 1 && pred != nil && argIs(info, srch[0].Call, 1, pred)
		if ok {
			res := g.ResultVarAt(srch[0], 0)
			ok = res != nil && argIs(info, ins[0].Call, 1, res)
		}
		c.Check("bucket-order", "contract/system.orderedListAdd|before-match", posOf(ins), ok, "orderedListAdd searches with the predicate it was given and inserts immediately before the element found")
	}
	// vprStore.update: every normal return has either removed a zero-power voter or inserted through orderedListAdd with the store comparator
	if f := c.Fn("contract/system.(*vprStore).update"); f != nil {
		g := f.Graph()
		info := f.Info()
		cmpF := p.LookupField("contract/system", "vprStore", "cmp")
		add := g.CallsTo("contract/system.orderedListAdd")
		zero := g.CallsTo("contract/system.(*votingPower).isZero")
		ok := len(add) == 1 && cmpF != nil
		why := ""
		if !ok {
			why = "no single call of orderedListAdd"
		}
		if ok {
			// predicate argument consults b.cmp
			var pl *ast.FuncLit
			if len(add[0].Call.Args) == 3 {
				a := ast.Unparen(add[0].Call.Args[2])
				if l, isL := a.(*ast.FuncLit); isL {
					pl = l
				} else if o := an.ObjOf(info, a); o != nil {
					if rhs, _ := g.SingleDef(o); rhs != nil {
						pl, _ = ast.Unparen(rhs).(*ast.FuncLit)
					}
				}
			}
			usesCmp := false
			if pl != nil {
				ast.Inspect(pl.Body, func(n ast.Node) bool {
					if call, isC := n.(*ast.CallExpr); isC && an.CalleeVar(info, call) == cmpF {
						usesCmp = true
					}
					return true
				})
			}
			if !usesCmp {
				ok, why = false, "the ordering predicate does not consult the store comparator"
			}
		}
		if ok {
			gates := an.SetOf(add[0].Node)
			for _, z := range zero {
				gates = gates.Union(g.BoolEdges(z, true))
			}
			for _, r := range g.Returns() {
				if !g.Dominated(r, gates) {
					ok, why = false, "a return is reachable without the ordered insertion (and without the zero-power exit)"
				}
			}
			if len(g.Returns()) == 0 {
				ok, why = false, "no return found"
			}
		}
		c.Check("bucket-order", "contract/system.(*vprStore).update|ordered-insert", posOf(add), ok, "a voter with non-zero power is put into its bucket by orderedListAdd with a predicate built on the store comparator (account id), on every path: "+why)
	}
	// addTail is the loader's tool only
	if f := c.Fn("contract/system.(*vprStore).addTail"); f != nil {
		cg := p.BuildCallGraphCached()
		ok := true
		var who []string
		for _, cl := range cg.Callers(f) {
			if c01OffNodePkg(cl) {
				continue
			}
			who = append(who, cl.TopDecl().Name())
			if cl.TopDecl().Name() != "contract/system.loadVpr" {
				ok = false
			}
		}
		c.Check("bucket-order", "contract/system.(*vprStore).addTail|callers", f.Pos(), ok && len(who) > 0, "appending to a bucket without ordering is used only while loading the stored buckets: called from "+strings.Join(who, ", "))
	}
	c.Floor("bucket-order", 6)
}

// ---------------------------------------------------------------------------
// goroutine-result / select-choice / chan-range

// triaged exceptions: construct key -> reason
var c02GapConcurrencyOK = map[string]string{}

func c02GapConcurrency(c *rep.Ctx, fl []*an.Func) {
	nGo := 0
	for _, f := range fl {
		info := f.Info()
		var gos []*ast.GoStmt
		var sels []*ast.SelectStmt
		var chranges []*ast.RangeStmt
		recvd := map[types.Object]bool{}
		an.InspectShallow(f.Body, func(n ast.Node) bool {
			switch x := n.(type) {
			case *ast.GoStmt:
				gos = append(gos, x)
			case *ast.SelectStmt:
				sels = append(sels, x)
			case *ast.RangeStmt:
				if tv, ok := info.Types[x.X]; ok && tv.Type != nil {
					if _, isCh := tv.Type.Underlying().(*types.Chan); isCh {
						chranges = append(chranges, x)
						if o := an.ObjOf(info, x.X); o != nil {
							recvd[o] = true
						}
					}
				}
			case *ast.UnaryExpr:
				if x.Op == token.ARROW {
					if o := an.ObjOf(info, x.X); o != nil {
						recvd[o] = true
					}
				}
			}
			return true
		})
		// channels handed to each goroutine
		chansOf := func(gs *ast.GoStmt) []types.Object {
			var out []types.Object
			add := func(e ast.Node) {
				ast.Inspect(e, func(n ast.Node) bool {
					id, ok := n.(*ast.Ident)
					if !ok {
						return true
					}
					v, ok := info.Uses[id].(*types.Var)
					if !ok || v.Type() == nil {
						return true
					}
					if _, isCh := v.Type().Underlying().(*types.Chan); isCh {
						out = append(out, v)
					}
					return true
				})
			}
			for _, a := range gs.Call.Args {
				add(a)
			}
			if l, ok := ast.Unparen(gs.Call.Fun).(*ast.FuncLit); ok {
				add(l.Body)
			}
			return out
		}
		users := map[types.Object]int{}
		for _, gs := range gos {
			seenHere := map[types.Object]bool{}
			for _, o := range chansOf(gs) {
				if !seenHere[o] {
					seenHere[o] = true
					users[o]++
				}
			}
		}
		g := f.Graph()
		for i, gs := range gos {
			nGo++
			key := f.TopDecl().Name() + "|go " + an.ExprString(gs.Call.Fun)
			if i > 0 {
				key += "#" + itoa(i+1)
			}
			bad := ""
			inLoop := false
			if n := g.NodeContaining(gs.Pos()); n != nil {
				inLoop = g.InLoop(n)
			}
			for _, o := range chansOf(gs) {
				if !recvd[o] {
					continue
				}
				if users[o] > 1 {
					bad = "channel `" + o.Name() + "` is handed to " + itoa(users[o]) + " goroutines and read here: the values arrive in completion order"
				} else if inLoop {
					bad = "channel `" + o.Name() + "` is handed to goroutines started in a loop and read here: the values arrive in completion order"
				}
			}
			_, triaged := c02GapConcurrencyOK["goroutine-result|"+key]
			c.Check("goroutine-result", key, gs.Pos(), bad == "" || triaged, "a goroutine started during block execution reports on a channel of its own, so its result is placed by identity and not by completion order: "+bad)
		}
		for i, s := range sels {
			key := f.TopDecl().Name()
			if i > 0 {
				key += "#" + itoa(i+1)
			}
			n := 0
			for _, cl := range s.Body.List {
				if cc, ok := cl.(*ast.CommClause); ok && cc.Comm != nil {
					n++
				}
			}
			_, triaged := c02GapConcurrencyOK["select-choice|"+key]
			c.Check("select-choice", key, s.Pos(), n <= 1 || triaged, "a select reachable from block execution waits on at most one channel (plus default): with several ready channels the runtime chooses at random ("+itoa(n)+" communication cases)")
		}
		for i, r := range chranges {
			key := f.TopDecl().Name()
			if i > 0 {
				key += "#" + itoa(i+1)
			}
			_, triaged := c02GapConcurrencyOK["chan-range|"+key]
			c.Check("chan-range", key, r.Pos(), triaged, "ranging over a channel consumes values in the order the senders happened to run")
		}
	}
	if nGo < 2 {
		c.Undecide("goroutine-result", "pkg/trie.(*Trie).updateParallel", "the parallel subtree update was not found in the execution set")
	}
	c.Floor("select-choice", 2)
}

// ---------------------------------------------------------------------------
// float-free

// triaged floating-point sites: enclosing function -> reason
var c02GapFloatOK = map[string]string{
	"contract.pushValue": "the float64 arm is dead: every argument list is decoded by getCallInfo with UseNumber, so numbers arrive as json.Number (exact Int64, else Float64 pushed unchanged); should a decoder without UseNumber ever feed pushValue, `arg == float64(int64(arg))` is CPU-dependent for |arg| >= 2^63",
}

func c02GapFloat(c *rep.Ctx, fl []*an.Func) {
	isFloat := func(t types.Type) bool {
		if t == nil {
			return false
		}
		b, ok := t.Underlying().(*types.Basic)
		return ok && b.Info()&(types.IsFloat|types.IsComplex) != 0
	}
	isInt := func(t types.Type) bool {
		if t == nil {
			return false
		}
		b, ok := t.Underlying().(*types.Basic)
		return ok && b.Info()&types.IsInteger != 0
	}
	bad := map[string][]string{}
	pos := map[string]token.Pos{}
	nfun := map[string]int{}
	for _, f := range fl {
		rel := an.Rel(f.Pkg.PkgPath)
		nfun[rel]++
		if _, ok := c02GapFloatOK[f.TopDecl().Name()]; ok {
			continue
		}
		info := f.Info()
		report := func(n ast.Node, what string) {
			bad[rel] = append(bad[rel], f.Name()+": "+what+" at "+c.Prog.Pos(n.Pos()))
			if pos[rel] == token.NoPos {
				pos[rel] = n.Pos()
			}
		}
		an.InspectShallow(f.Body, func(n ast.Node) bool {
			switch x := n.(type) {
			case *ast.BinaryExpr:
				tv, ok := info.Types[x]
				if !ok || tv.Value != nil {
					return true // constant expression: evaluated exactly by the compiler
				}
				switch x.Op {
				case token.ADD, token.SUB, token.MUL, token.QUO:
					if isFloat(tv.Type) {
						report(x, "floating-point arithmetic `"+an.ExprString(x)+"`")
					}
				}
			case *ast.AssignStmt:
				switch x.Tok {
				case token.ADD_ASSIGN, token.SUB_ASSIGN, token.MUL_ASSIGN, token.QUO_ASSIGN:
					if tv, ok := info.Types[x.Lhs[0]]; ok && isFloat(tv.Type) {
						report(x, "floating-point arithmetic on `"+an.ExprString(x.Lhs[0])+"`")
					}
				}
			case *ast.CallExpr:
				if tvf, ok := info.Types[x.Fun]; ok && tvf.IsType() && len(x.Args) == 1 {
					// conversion float -> integer: the result for out-of-range values differs between CPUs
					if at, ok := info.Types[x.Args[0]]; ok && at.Value == nil && isFloat(at.Type) && isInt(tvf.Type) {
						report(x, "conversion of a floating-point value to an integer `"+an.ExprString(x)+"`")
					}
					return true
				}
				if fn := an.Callee(info, x); fn != nil && fn.Pkg() != nil && fn.Pkg().Path() == "math" {
					if sig, _ := fn.Type().(*types.Signature); sig != nil && sig.Results().Len() > 0 && isFloat(sig.Results().At(0).Type()) {
						report(x, "math."+fn.Name())
					}
				}
			}
			return true
		})
	}
	var rels []string
	for r := range nfun {
		rels = append(rels, r)
	}
	sort.Strings(rels)
	for _, r := range rels {
		msg := "the functions of this package that block execution can reach do no floating-point arithmetic (fused multiply-add and out-of-range conversions give different results on different CPUs); " + itoa(nfun[r]) + " functions scanned"
		if len(bad[r]) > 0 {
			msg += ": " + strings.Join(bad[r], "; ")
		}
		c.Check("float-free", r, pos[r], len(bad[r]) == 0, msg)
	}
	c.Floor("float-free", 10)
}

// ---------------------------------------------------------------------------
// config-global

// c02GapGlobalReaders: package-level variables that are assigned at run time by
// something other than a package initialiser (start-up configuration, service
// wiring, process state) and are read by block execution.  "*" = process state
// that is read all over the package (not a configuration value); otherwise the
// accessor functions through which the value may be read.  A read anywhere else
// is a per-node value entering execution on a new path and must be triaged.
var c02GapGlobalReaders = map[string][]string{
	"chain.CoinbaseAccount":           {"consensus/chain.(*BlockGenerator).GatherTXs", "consensus/chain.(*BlockGenerator).GenerateBlock"}, // producer only: written into the header, the validator reads the header
	"chain.SendBlockReward":           {"chain.(*blockExecutor).execute", "consensus/chain.(*BlockGenerator).GatherTXs"},                  // consensus wiring (dpos decorates it), same on every node of a chain
	"chain.pubNet":                    {"chain.IsPublic"},
	"contract.PubNet":                 {"contract.isPublic"},
	"contract.TraceBlockNo":           {"contract.NewVmContext"}, // diagnostic trace file
	"contract.logInternalOperations":  {"contract.doNotLog"},     // internal-operation log, stored outside the receipts
	"contract.maxSQLDBSize":           {"contract.dataSrc"},
	"contract.maxContext":             {"contract.(*executor).vmLoadCode", "contract.allocContextSlot", "contract.luaCheckTimeout"},
	"contract.lastQueryIndex":         {"contract.allocContextSlot"},
	"contract.currentForkVersion":     {"contract.newExecutor", "contract.resolveFunction", "contract.sendBalance"}, // set from the block header at the start of every execution
	"contract.multicall_compiled":     {"contract.getMultiCallCode"},
	"contract.nextOpId":               {"contract.logOperation"},
	"contract.handleIndex":            {"contract.lookupHandle", "contract.newHandle"},
	"contract.contexts":               {"*"},
	"contract/system.systemParams":    {"contract/system.GetParam", "contract/system.updateParam"},
	"contract/system.votingCatalog":   {"contract/system.GetVotingCatalog"},
	"contract/system.votingPowerRank": {"contract/system.(*VoteResult).Sync", "contract/system.(*vprCmd).addVpr", "contract/system.(*vprCmd).subVpr", "contract/system.PickVotingRewardWinner"},
	"fee.zeroFee":                     {"fee.IsZeroFee"},
	"types.MaxAER":                    {"contract/system.validateById", "types.(*transaction).Validate"},
	"types.cmdToOp":                   {"types.GetOpSysTx"},
	"types.govValidators":             {"types.validate"},
	"blacklist.globalBlacklist":       {"blacklist.Check"},
}

func c02GapConfigGlobals(c *rep.Ctx, fl []*an.Func) {
	// variables assigned inside a function body that is not a package initialiser
	mutable := map[*types.Var]bool{}
	for _, f := range c.Prog.Funcs() {
		if f.Body == nil || c01OffNodePkg(f) {
			continue
		}
		if f.Decl != nil && f.Decl.Recv == nil && f.Decl.Name.Name == "init" {
			continue
		}
		if f.Parent != nil && f.TopDecl() != nil && f.TopDecl().Decl != nil && f.TopDecl().Decl.Recv == nil && f.TopDecl().Decl.Name.Name == "init" {
			continue
		}
		info := f.Info()
		mark := func(e ast.Expr) {
			e = ast.Unparen(e)
			var id *ast.Ident
			switch x := e.(type) {
			case *ast.Ident:
				id = x
			case *ast.SelectorExpr:
				if _, isPkg := info.Uses[c02GapIdent(x.X)].(*types.PkgName); isPkg {
					id = x.Sel
				}
			}
			if id == nil {
				return
			}
			if v, ok := info.Uses[id].(*types.Var); ok && v.Pkg() != nil && v.Parent() == v.Pkg().Scope() {
				mutable[v] = true
			}
		}
		an.InspectShallow(f.Body, func(n ast.Node) bool {
			switch s := n.(type) {
			case *ast.AssignStmt:
				for _, l := range s.Lhs {
					mark(l)
				}
			case *ast.IncDecStmt:
				mark(s.X)
			}
			return true
		})
	}
	type pair struct{ v, r string }
	seen := map[pair]token.Pos{}
	for _, f := range fl {
		info := f.Info()
		an.InspectShallow(f.Body, func(n ast.Node) bool {
			id, ok := n.(*ast.Ident)
			if !ok {
				return true
			}
			v, ok := info.Uses[id].(*types.Var)
			if !ok || !mutable[v] {
				return true
			}
			if c02GapSyncOrLog(v.Type()) {
				return true
			}
			pr := pair{an.Rel(v.Pkg().Path()) + "." + v.Name(), f.TopDecl().Name()}
			if _, dup := seen[pr]; !dup {
				seen[pr] = id.Pos()
			}
			return true
		})
	}
	var prs []pair
	for pr := range seen {
		prs = append(prs, pr)
	}
	sort.Slice(prs, func(i, j int) bool {
		if prs[i].v != prs[j].v {
			return prs[i].v < prs[j].v
		}
		return prs[i].r < prs[j].r
	})
	for _, pr := range prs {
		allowed, known := c02GapGlobalReaders[pr.v]
		ok := false
		for _, a := range allowed {
			if a == "*" || a == pr.r {
				ok = true
			}
		}
		if known && len(allowed) == 1 && allowed[0] == "*" {
			continue // process state, one instance below
		}
		msg := "a package-level variable that is set at run time (node configuration, service wiring, process state) is read by block execution only in its triaged accessors"
		if !known {
			msg += ": `" + pr.v + "` is not triaged at all"
		} else if !ok {
			msg += ": `" + pr.v + "` is triaged for " + strings.Join(allowed, ", ") + " only"
		}
		c.Check("config-global", pr.v+"|"+pr.r, seen[pr], ok, msg)
	}
	for v, allowed := range c02GapGlobalReaders {
		if len(allowed) == 1 && allowed[0] == "*" {
			c.CheckTrivial("config-global", v+"|*", token.NoPos, true, "process state read throughout its package (triaged)")
		}
	}
	c.Floor("config-global", 25)
}

// c02GapSyncOrLog: mutexes, channels used as locks and loggers carry no value into execution.
func c02GapSyncOrLog(t types.Type) bool {
	s := t.String()
	return strings.HasPrefix(s, "sync.") || strings.Contains(s, "aergo-lib/log.Logger") || strings.Contains(s, "zerolog")
}

// ---------------------------------------------------------------------------
// producer / validator agreement

// c02GapResolve follows once-defined locals to their defining expression.
func c02GapResolve(f *an.Func, e ast.Expr) ast.Expr {
	info := f.Info()
	for i := 0; i < 4; i++ {
		e = ast.Unparen(e)
		id, ok := e.(*ast.Ident)
		if !ok {
			return e
		}
		o := info.Uses[id]
		if o == nil {
			return e
		}
		rhs, idx := f.Graph().SingleDef(o)
		if rhs == nil || idx != 0 {
			return e
		}
		e = rhs
	}
	return e
}

// c02GapExecFactories: module functions that build a transaction operation
// around chain.NewTxExecutor; value = index of the parameter that becomes the
// executor's header info (argument 3 of NewTxExecutor).
func c02GapExecFactories(c *rep.Ctx) map[*types.Func]int {
	out := map[*types.Func]int{}
	for _, cs := range c.Prog.CallSitesOf(map[string]bool{"chain.NewTxExecutor": true}) {
		if cs.Fn == nil || c01OffNodePkg(cs.Fn) {
			continue
		}
		top := cs.Fn.TopDecl()
		if top == nil || top.Obj == nil || len(cs.Call.Args) < 4 {
			continue
		}
		info := top.Info()
		o := an.ObjOf(info, cs.Call.Args[3])
		idx := -1
		for i := 0; ; i++ {
			p := top.ParamObj(i)
			if p == nil {
				break
			}
			if p == o {
				idx = i
			}
		}
		out[top.Obj] = idx
	}
	return out
}

func c02GapProducer(c *rep.Ctx) {
	p := c.Prog
	fact := c02GapExecFactories(c)
	txOpField := p.LookupField("consensus/chain", "BlockGenerator", "txOp")
	bStateField := p.LookupField("consensus/chain", "BlockGenerator", "bState")
	biField := p.LookupField("consensus/chain", "BlockGenerator", "bi")
	if txOpField == nil || bStateField == nil || biField == nil {
		c.Undecide("producer-state", "consensus/chain.BlockGenerator", "fields txOp/bState/bi not found")
		return
	}
	// carrier: an expression that contains the transaction executor
	var carrier func(f *an.Func, e ast.Expr, depth int) (*ast.CallExpr, bool)
	carrier = func(f *an.Func, e ast.Expr, depth int) (*ast.CallExpr, bool) {
		if depth > 4 {
			return nil, false
		}
		info := f.Info()
		e = c02GapResolve(f, e)
		if fld := an.FieldOf(info, e); fld != nil && fld == txOpField {
			return nil, true
		}
		call, ok := e.(*ast.CallExpr)
		if !ok {
			return nil, false
		}
		fn := an.Callee(info, call)
		if fn == nil {
			return nil, false
		}
		if _, isF := fact[fn]; isF {
			return call, true
		}
		switch an.FuncName(fn) {
		case "chain.NewTxExecutor":
			return call, true
		case "consensus/chain.NewCompTxOp":
			for _, a := range c02GapOperands(f, call) {
				if cc, is := carrier(f, a, depth+1); is {
					return cc, true
				}
			}
		}
		return nil, false
	}

	// ---- producer-state: every block generator gets a block state prepared like the validator's
	gens := p.CallSitesOf(map[string]bool{"consensus/chain.NewBlockGenerator": true})
	nGen := 0
	for _, cs := range gens {
		if cs.Fn == nil || c01OffNodePkg(cs.Fn) || len(cs.Call.Args) != 6 {
			continue
		}
		nGen++
		f := cs.Fn
		info := f.Info()
		g := f.Graph()
		where := f.TopDecl().Name()
		biObj := an.ObjOf(info, cs.Call.Args[2])
		bsObj := an.ObjOf(info, cs.Call.Args[3])
		callNode := g.NodeContaining(cs.Call.Pos())
		if biObj == nil || bsObj == nil || callNode == nil {
			c.Undecide("producer-state", where, "header info / block state arguments of NewBlockGenerator are not plain variables")
			continue
		}
		bsDef := c02GapCallDef(f, bsObj)
		biDef := c02GapCallDef(f, biObj)
		// executor receives the same header info
		okBi, whyBi := false, "no executor found in the operation handed to the generator"
		if ec, is := carrier(f, cs.Call.Args[4], 0); is && ec != nil {
			fn := an.Callee(info, ec)
			idx := 3
			if k, isF := fact[fn]; isF {
				idx = k
			}
			// the call may sit in another function only if it is this one
			if idx >= 0 && idx < len(ec.Args) && an.ObjOf(info, ec.Args[idx]) == biObj {
				okBi, whyBi = true, ""
			} else {
				whyBi = "the executor is built with a different header info than the block"
			}
		}
		c.Check("producer-state", where+"|executor-bi", cs.Call.Pos(), okBi, "the header info (number, timestamp, previous hash, chain id, fork version) the producer's executor runs with is the one the block header is built from; the validator derives both from the header: "+whyBi)
		c.Check("producer-state", where+"|generator-op", cs.Call.Pos(), func() bool { _, is := carrier(f, cs.Call.Args[4], 0); return is }(), "the operation handed to the block generator contains the shared transaction executor (its position inside a composite is decided by executor-last)")
		// gas price
		okGas := false
		for _, s := range g.CallsTo("state.(*BlockState).SetGasPrice") {
			if recvObj(info, s.Call) == bsObj && len(s.Call.Args) == 1 && containsCallTo(info, c02GapResolve(f, s.Call.Args[0]), "contract/system.GetGasPrice") && g.Dominated(callNode, an.SetOf(s.Node)) {
				okGas = true
			}
		}
		if bsDef != nil {
			ast.Inspect(bsDef, func(n ast.Node) bool {
				if call, is := n.(*ast.CallExpr); is && an.CalleeName(info, call) == "state.SetGasPrice" && len(call.Args) == 1 && containsCallTo(info, call.Args[0], "contract/system.GetGasPrice") {
					okGas = true
				}
				return true
			})
		}
		c.Check("producer-state", where+"|gas-price", cs.Call.Pos(), okGas, "before generating, the producer's block state gets the gas price of the system contract (system.GetGasPrice), as the validator's does in newBlockExecutor")
		// receipts hardfork / block number
		okHf := false
		noF := p.LookupField("types", "BlockHeaderInfo", "No")
		for _, s := range g.CallsTo("types.(*Receipts).SetHardFork") {
			sel, is := ast.Unparen(s.Call.Fun).(*ast.SelectorExpr)
			if !is || len(s.Call.Args) != 2 {
				continue
			}
			rc, is := ast.Unparen(sel.X).(*ast.CallExpr)
			if !is || an.CalleeName(info, rc) != "state.(*BlockState).Receipts" || recvObj(info, rc) != bsObj {
				continue
			}
			a := c02GapResolve(f, s.Call.Args[1])
			if noF != nil && an.FieldOf(info, a) == noF {
				if as, is := a.(*ast.SelectorExpr); is && an.ObjOf(info, as.X) == biObj && g.Dominated(callNode, an.SetOf(s.Node)) {
					okHf = true
				}
			}
		}
		c.Check("producer-state", where+"|receipts-fork", cs.Call.Pos(), okHf, "before generating, the receipts of the producer's block state are told the hardfork configuration and the number of the block being built (it selects the receipt encoding under the receipts root)")
		// parent: state root, previous hash and header info come from the same parent block
		okPar, whyPar := false, "definitions of the block state / header info not found"
		if bsc, is := ast.Unparen(bsDef).(*ast.CallExpr); is && bsDef != nil && biDef != nil {
			if bic, is := ast.Unparen(biDef).(*ast.CallExpr); is && an.CalleeName(info, bic) == "types.NewBlockHeaderInfoFromPrevBlock" && len(bic.Args) == 3 {
				parent := ast.Unparen(bic.Args[0])
				fromParent := func(e ast.Expr, methods ...string) bool {
					found := false
					e = c02GapResolve(f, e)
					ast.Inspect(e, func(n ast.Node) bool {
						call, is := n.(*ast.CallExpr)
						if !is {
							return true
						}
						nm := an.CalleeName(info, call)
						for _, m := range methods {
							if nm == m {
								if sel, is := ast.Unparen(call.Fun).(*ast.SelectorExpr); is {
									x := ast.Unparen(sel.X)
									// P.BlockHash() or P.GetHeader().GetBlocksRootHash()
									if inner, is := x.(*ast.CallExpr); is && an.CalleeName(info, inner) == "types.(*Block).GetHeader" {
										if isel, is := ast.Unparen(inner.Fun).(*ast.SelectorExpr); is {
											x = ast.Unparen(isel.X)
										}
									}
									if an.SameExpr(info, x, parent) {
										found = true
									}
								}
							}
						}
						return true
					})
					return found
				}
				okRoot, okPrev := false, false
				if len(bsc.Args) >= 1 {
					okRoot = fromParent(bsc.Args[0], "types.(*BlockHeader).GetBlocksRootHash")
				}
				for _, a := range bsc.Args[1:] {
					if oc, is := ast.Unparen(a).(*ast.CallExpr); is && an.CalleeName(info, oc) == "state.SetPrevBlockHash" && len(oc.Args) == 1 {
						okPrev = fromParent(oc.Args[0], "types.(*Block).BlockHash", "types.(*Block).GetHash")
					}
				}
				okPar = okRoot && okPrev
				whyPar = ""
				if !okRoot {
					whyPar = "the state root the block state opens is not the parent's BlocksRootHash; "
				}
				if !okPrev {
					whyPar += "the previous-block hash of the block state (seed of the voting reward and of contract randomness) is not the hash of the parent the header info is built from"
				}
			} else {
				whyPar = "header info is not built by NewBlockHeaderInfoFromPrevBlock"
			}
		}
		c.Check("producer-state", where+"|parent", cs.Call.Pos(), okPar, "state root, previous-block hash and header info of a produced block all come from the same parent block: "+whyPar)
	}
	if nGen < 3 {
		c.Undecide("producer-state", "consensus/chain.NewBlockGenerator", "fewer block generator constructions than on the reference tree (dpos, raftv2, sbp)")
	}

	// ---- validator side of the same preparation
	if f := c.Fn("chain.newBlockExecutor"); f != nil {
		info := f.Info()
		g := f.Graph()
		block := f.ParamObj(2)
		bs := f.ParamObj(1)
		okGas, okHf, okBi := false, false, false
		rets := g.NilReturns()
		dominatesRets := func(n *an.Node) bool {
			if len(rets) == 0 {
				return false
			}
			for _, r := range rets {
				if !g.Dominated(r, an.SetOf(n)) {
					return false
				}
			}
			return true
		}
		for _, s := range g.CallsTo("state.(*BlockState).SetGasPrice") {
			if recvObj(info, s.Call) == bs && len(s.Call.Args) == 1 && containsCallTo(info, s.Call.Args[0], "contract/system.GetGasPrice") && dominatesRets(s.Node) {
				okGas = true
			}
		}
		for _, s := range g.CallsTo("types.(*Receipts).SetHardFork") {
			if len(s.Call.Args) == 2 && containsCallTo(info, s.Call.Args[1], "types.(*Block).BlockNo") && mentions(info, s.Call.Args[1], block) && mentions(info, s.Call.Fun, bs) && dominatesRets(s.Node) {
				okHf = true
			}
		}
		for _, s := range g.CallsTo("chain.NewTxExecutor") {
			if len(s.Call.Args) >= 4 {
				d := c02GapResolve(f, s.Call.Args[3])
				if o := an.ObjOf(info, s.Call.Args[3]); o != nil {
					// assigned (not defined) local: look at its assignments
					for _, n := range g.StmtNodes(func(n *an.Node) bool { return an.Assigns(info, n.Ast, o) }) {
						if as, is := n.Ast.(*ast.AssignStmt); is && len(as.Rhs) == 1 {
							d = as.Rhs[0]
						}
					}
				}
				if dc, is := ast.Unparen(d).(*ast.CallExpr); is && an.CalleeName(info, dc) == "types.NewBlockHeaderInfo" && argIs(info, dc, 0, block) {
					okBi = true
				}
			}
		}
		// the validator's executor must not be able to give up: no deadline, chain-service mode
		okCtx, okMode := false, false
		modeConst := p.LookupObj("contract", "ChainService")
		for _, s := range g.CallsTo("chain.NewTxExecutor") {
			if len(s.Call.Args) != 5 {
				continue
			}
			seenBg, seenDl := false, false
			var scan func(e ast.Expr, depth int)
			scan = func(e ast.Expr, depth int) {
				if depth > 4 {
					return
				}
				ast.Inspect(e, func(n ast.Node) bool {
					switch x := n.(type) {
					case *ast.CallExpr:
						switch an.CalleeName(info, x) {
						case "context.Background", "context.TODO":
							seenBg = true
						case "context.WithTimeout", "context.WithDeadline", "context.WithTimeoutCause", "context.WithDeadlineCause":
							seenDl = true
						}
					case *ast.Ident:
						if o := info.Uses[x]; o != nil {
							if rhs, _ := g.SingleDef(o); rhs != nil && rhs != e {
								scan(rhs, depth+1)
							}
						}
					}
					return true
				})
			}
			scan(s.Call.Args[0], 0)
			okCtx = seenBg && !seenDl
			if id := c02GapIdent(s.Call.Args[4]); id != nil && modeConst != nil && info.Uses[id] == modeConst {
				okMode = true
			} else if sel, is := ast.Unparen(s.Call.Args[4]).(*ast.SelectorExpr); is && modeConst != nil && info.Uses[sel.Sel] == modeConst {
				okMode = true
			}
		}
		c.Check("validator-no-deadline", "chain.newBlockExecutor|context", f.Pos(), okCtx, "the validator executes a block under a context without deadline: whether a block is accepted must not depend on how fast this node is")
		c.Check("validator-no-deadline", "chain.newBlockExecutor|mode", f.Pos(), okMode, "the validator's executor runs in chain-service mode (the VM polls the block-production timeout only in block-factory mode)")
		c.Check("producer-state", "chain.newBlockExecutor|gas-price", f.Pos(), okGas, "the validator's block state gets the gas price of the system contract before execution")
		c.Check("producer-state", "chain.newBlockExecutor|receipts-fork", f.Pos(), okHf, "the validator's receipts are told the hardfork configuration and the number of the block being executed")
		c.Check("producer-state", "chain.newBlockExecutor|executor-bi", f.Pos(), okBi, "the validator's executor runs with the header info of the block being executed (types.NewBlockHeaderInfo(block))")
	}

	// ---- gather-append: only transactions whose operation succeeded are collected
	if f := c.Fn("consensus/chain.(*BlockGenerator).GatherTXs"); f != nil {
		info := f.Info()
		g := f.Graph()
		ap := g.CallsTo("consensus/chain.(TxOp).Apply")
		var res types.Object
		for _, r := range g.Returns() {
			if rs, is := r.Ast.(*ast.ReturnStmt); is && len(rs.Results) == 2 {
				if tv, has := info.Types[rs.Results[1]]; has && tv.IsNil() {
					if o := an.ObjOf(info, rs.Results[0]); o != nil {
						res = o
					}
				}
			}
		}
		ok, why := len(ap) == 1 && res != nil, "Apply site or result slice not found"
		if ok {
			nilEdges := g.ErrNilEdges(ap[0])
			why = ""
			nApp := 0
			for _, n := range g.StmtNodes(func(n *an.Node) bool { return an.Assigns(info, n.Ast, res) }) {
				as, is := n.Ast.(*ast.AssignStmt)
				if !is || len(as.Rhs) != 1 {
					continue
				}
				call, is := ast.Unparen(as.Rhs[0]).(*ast.CallExpr)
				if !is || !an.IsBuiltin(info, call, "append") {
					continue
				}
				nApp++
				if len(nilEdges) == 0 || !g.Dominated(n, nilEdges) {
					ok, why = false, "a transaction is appended to the block's list on a path where its operation did not return nil"
				}
			}
			if nApp == 0 {
				ok, why = false, "no append to the returned list found"
			}
		}
		c.Check("gather-append", "consensus/chain.(*BlockGenerator).GatherTXs", posOf(ap), ok, "the producer puts a transaction into the block only on the path where applying it returned nil (a failed transaction was rolled back by the executor and must not be in the block the validators re-execute): "+why)

		// the block state the producer executes on, rewards, saves and updates is the generator's
		okBs := true
		isBs := func(e ast.Expr) bool {
			return an.FieldOf(info, c02GapResolve(f, e)) == bStateField
		}
		if len(ap) == 1 && len(ap[0].Call.Args) == 2 && !isBs(ap[0].Call.Args[0]) {
			okBs = false
		}
		rw := funcValueCalls(f, p.LookupObjVar("chain", "SendBlockReward"))
		for _, s := range rw {
			if len(s.Call.Args) != 2 || !isBs(s.Call.Args[0]) {
				okBs = false
			}
		}
		for _, s := range sitesOf(f, "contract.SaveRecoveryPoint") {
			if len(s.Call.Args) != 1 || !isBs(s.Call.Args[0]) {
				okBs = false
			}
		}
		upd := sitesOf(f, "state/statedb.(*StateDB).Update", "state.(*BlockState).Update")
		for _, s := range upd {
			if sel, is := ast.Unparen(s.Call.Fun).(*ast.SelectorExpr); !is || !isBs(sel.X) {
				okBs = false
			}
		}
		c.Check("block-from-state", "consensus/chain.(*BlockGenerator).GatherTXs|one-state", posOf(rw), okBs && len(rw) == 1 && len(upd) == 1, "transactions, block reward, recovery points and the trie update of a produced block all act on the generator's block state")

		// coinbase: paid account == header account
		var cbProd types.Object
		if len(rw) == 1 && len(rw[0].Call.Args) == 2 {
			cbProd = c02GapGlobalOf(info, c02GapResolve(f, rw[0].Call.Args[1]))
		}
		if gb := c.Fn("consensus/chain.(*BlockGenerator).GenerateBlock"); gb != nil {
			ginfo := gb.Info()
			nb := gb.Graph().CallsTo("types.NewBlock")
			okCb, okSrc := false, false
			if len(nb) == 1 && len(nb[0].Call.Args) == 6 {
				a := nb[0].Call.Args
				okCb = cbProd != nil && c02GapGlobalOf(ginfo, c02GapResolve(gb, a[4])) == cbProd
				recvIsBs := func(e ast.Expr, method string) bool {
					call, is := ast.Unparen(e).(*ast.CallExpr)
					if !is {
						return false
					}
					fn := an.Callee(ginfo, call)
					if fn == nil || fn.Name() != method {
						return false
					}
					sel, is := ast.Unparen(call.Fun).(*ast.SelectorExpr)
					return is && an.FieldOf(ginfo, c02GapResolve(gb, sel.X)) == bStateField
				}
				okSrc = an.FieldOf(ginfo, c02GapResolve(gb, a[0])) == biField && recvIsBs(a[1], "GetRoot") && recvIsBs(a[2], "Receipts") && recvIsBs(a[5], "Consensus")
				// the transactions are the ones GatherTXs returned, in order
				gt := gb.Graph().CallsTo("consensus/chain.(*BlockGenerator).GatherTXs")
				if len(gt) != 1 {
					okSrc = false
				}
			}
			c.Check("coinbase-agreement", "producer", posOf(nb), okCb, "the account the producer pays the block reward to (GatherTXs) is the account it writes into the header (GenerateBlock); the validator pays the header's account")
			c.Check("block-from-state", "consensus/chain.(*BlockGenerator).GenerateBlock|header", posOf(nb), okSrc, "the header of a produced block takes number/time/parent from the generator's header info and state root, receipts root and consensus field from the generator's block state after GatherTXs")
		}
	}
	// validator: pays the coinbase recorded in the header
	if f := c.Fn("chain.(*blockExecutor).execute"); f != nil {
		info := f.Info()
		cbField := p.LookupField("chain", "blockExecutor", "coinbaseAccount")
		rw := funcValueCalls(f, p.LookupObjVar("chain", "SendBlockReward"))
		ok := cbField != nil && len(rw) == 1 && len(rw[0].Call.Args) == 2 && an.FieldOf(info, ast.Unparen(rw[0].Call.Args[1])) == cbField
		if ok {
			// every write of the field takes the header's coinbase
			n := 0
			for _, w := range p.FieldWrites(map[*types.Var]bool{cbField: true}) {
				if w.Fn == nil || c01OffNodePkg(w.Fn) {
					continue
				}
				n++
				good := false
				ast.Inspect(w.Fn.Body, func(nd ast.Node) bool {
					kv, is := nd.(*ast.KeyValueExpr)
					if !is {
						return true
					}
					if id := c02GapIdent(kv.Key); id != nil && w.Fn.Info().Uses[id] == cbField {
						good = containsCallTo(w.Fn.Info(), kv.Value, "types.(*BlockHeader).GetCoinbaseAccount")
					}
					return true
				})
				if !good || w.How != "literal" {
					ok = false
				}
			}
			if n == 0 {
				ok = false
			}
		}
		c.Check("coinbase-agreement", "validator", posOf(rw), ok, "the validator pays the block reward to the coinbase account recorded in the header of the block it executes (never to a locally configured one)")
	}
	c.Floor("producer-state", 15)
}

// c02GapOperands: the operand list of a variadic call; `f(xs...)` with xs a
// once-defined slice literal is flattened to its elements.
func c02GapOperands(f *an.Func, call *ast.CallExpr) []ast.Expr {
	if call.Ellipsis != token.NoPos && len(call.Args) == 1 {
		if lit, ok := c02GapResolve(f, call.Args[0]).(*ast.CompositeLit); ok {
			return lit.Elts
		}
	}
	return call.Args
}

// c02GapGlobalOf: the package-level variable an expression denotes (x or pkg.x).
func c02GapGlobalOf(info *types.Info, e ast.Expr) types.Object {
	e = ast.Unparen(e)
	var id *ast.Ident
	switch x := e.(type) {
	case *ast.Ident:
		id = x
	case *ast.SelectorExpr:
		id = x.Sel
	}
	if id == nil {
		return nil
	}
	if v, ok := info.Uses[id].(*types.Var); ok && v.Pkg() != nil && v.Parent() == v.Pkg().Scope() {
		return v
	}
	return nil
}

// c02GapCallDef: the single call expression assigned to obj in f (definition or
// plain assignment; a named result that a recover handler resets to nil is
// still "defined" by its one constructor call).
func c02GapCallDef(f *an.Func, obj types.Object) ast.Expr {
	g := f.Graph()
	if rhs, idx := g.SingleDef(obj); rhs != nil && idx == 0 {
		return rhs
	}
	info := f.Info()
	var found ast.Expr
	n := 0
	for _, nd := range g.StmtNodes(func(nd *an.Node) bool { return an.Assigns(info, nd.Ast, obj) }) {
		as, ok := nd.Ast.(*ast.AssignStmt)
		if !ok || len(as.Lhs) != len(as.Rhs) {
			return nil
		}
		for i, l := range as.Lhs {
			if an.ObjOf(info, l) != obj {
				continue
			}
			if _, isCall := ast.Unparen(as.Rhs[i]).(*ast.CallExpr); isCall {
				found = as.Rhs[i]
				n++
			} else if tv, has := info.Types[as.Rhs[i]]; !has || !tv.IsNil() {
				return nil
			}
		}
	}
	if n != 1 {
		return nil
	}
	return found
}

// ---------------------------------------------------------------------------
// tx-order: the body of a produced block lists the collected transactions in
// the order they were executed

func c02GapTxOrder(c *rep.Ctx) {
	f := c.Fn("consensus/chain.(*BlockGenerator).GenerateBlock")
	if f == nil {
		return
	}
	info := f.Info()
	g := f.Graph()
	gt := g.CallsTo("consensus/chain.(*BlockGenerator).GatherTXs")
	nb := g.CallsTo("types.NewBlock")
	if len(gt) != 1 || len(nb) != 1 || len(nb[0].Call.Args) != 6 {
		c.Undecide("tx-order", f.Name(), "GatherTXs / NewBlock call not found")
		return
	}
	src := g.ResultVarAt(gt[0], 0)
	dst := an.ObjOf(info, nb[0].Call.Args[3])
	if src == nil || dst == nil {
		c.Undecide("tx-order", f.Name(), "collected list or body list is not a plain variable")
		return
	}
	ok, why := false, "the body list is not filled from the collected list"
	nWrites := 0
	ast.Inspect(f.Body, func(n ast.Node) bool {
		rs, is := n.(*ast.RangeStmt)
		if !is || an.ObjOf(info, rs.X) != src {
			return true
		}
		keyObj := an.ObjOf(info, rs.Key)
		var valObj types.Object
		if rs.Value != nil {
			valObj = an.ObjOf(info, rs.Value)
		}
		ast.Inspect(rs.Body, func(m ast.Node) bool {
			as, is := m.(*ast.AssignStmt)
			if !is || len(as.Lhs) != 1 || len(as.Rhs) != 1 {
				return true
			}
			l := ast.Unparen(as.Lhs[0])
			if ix, is := l.(*ast.IndexExpr); is && an.ObjOf(info, ix.X) == dst {
				nWrites++
				// txs[i] = f(x) / f(collected[i]) with i the range key
				if keyObj != nil && an.ObjOf(info, ix.Index) == keyObj && ((valObj != nil && mentions(info, as.Rhs[0], valObj)) || (mentions(info, as.Rhs[0], src) && mentions(info, as.Rhs[0], keyObj))) {
					ok, why = true, ""
				} else {
					why = "element `" + an.ExprString(l) + "` is not the position of the collected transaction it is filled from"
				}
				return true
			}
			if an.ObjOf(info, l) == dst {
				nWrites++
				if call, is := ast.Unparen(as.Rhs[0]).(*ast.CallExpr); is && an.IsBuiltin(info, call, "append") && len(call.Args) == 2 && an.ObjOf(info, call.Args[0]) == dst && valObj != nil && mentions(info, call.Args[1], valObj) {
					ok, why = true, ""
				} else {
					why = "the body list is rebuilt in the loop by something other than appending the current transaction"
				}
			}
			return true
		})
		return true
	})
	if nWrites != 1 {
		ok = false
		if nWrites > 1 {
			why = "the body list is written at several places in the loop"
		}
	}
	c.Check("tx-order", f.Name(), posOf(nb), ok, "the transactions in the body of a produced block are the collected ones in execution order (the validator executes the body front to back): "+why)
}

// ---------------------------------------------------------------------------
// merkle-error-ret: the return text of a failed transaction is not under the
// receipts root

func c02GapMerkleErrorRet(c *rep.Ctx) {
	p := c.Prog
	retF := p.LookupField("types", "Receipt", "Ret")
	statusF := p.LookupField("types", "Receipt", "Status")
	errConst := p.LookupObj("types", "errorStatus")
	if retF == nil || statusF == nil || errConst == nil {
		c.Undecide("merkle-error-ret", "types.Receipt", "Ret/Status field or errorStatus constant not found")
		return
	}
	n := 0
	seen := map[*an.Func]bool{}
	for _, top := range []string{"types.(*Receipt).MarshalMerkleBinary", "types.(*Receipt).MarshalMerkleBinaryV2"} {
		f := c.Fn(top)
		if f == nil {
			continue
		}
		info := f.Info()
		direct := false
		an.InspectShallow(f.Body, func(nd ast.Node) bool {
			if e, is := nd.(ast.Expr); is && an.FieldOf(info, e) == retF {
				direct = true
			}
			return true
		})
		c.Check("merkle-error-ret", top+"|direct", f.Pos(), !direct, "the merkle encoding of a receipt reads the return text only through the body encoder that knows the status")
		for _, s := range f.Graph().Calls(func(fn *types.Func, call *ast.CallExpr) bool { return fn != nil }) {
			cf := p.FuncOf(s.Fn)
			if cf == nil || cf.Body == nil || seen[cf] || an.Rel(cf.Pkg.PkgPath) != "types" {
				continue
			}
			// which bool parameter receives the constant true?
			var flag types.Object
			for i, a := range s.Call.Args {
				if tv, has := info.Types[a]; has && tv.Value != nil && tv.Value.String() == "true" {
					flag = cf.ParamObj(i)
				}
			}
			cinfo := cf.Info()
			reads := cf.Graph().StmtNodes(func(nd *an.Node) bool { return readsField(cinfo, nd.Ast, retF) })
			if len(reads) == 0 {
				continue
			}
			seen[cf] = true
			n++
			ok := flag != nil
			if ok {
				cg := cf.Graph()
				at := func(e ast.Expr) (string, bool, bool) {
					e = ast.Unparen(e)
					if id, is := e.(*ast.Ident); is && cinfo.Uses[id] == flag {
						return "merkle", false, true
					}
					if b, is := e.(*ast.BinaryExpr); is && (b.Op == token.EQL || b.Op == token.NEQ) {
						isErr := func(x ast.Expr) bool {
							x = ast.Unparen(x)
							if id, is := x.(*ast.Ident); is && cinfo.Uses[id] == errConst {
								return true
							}
							if tv, has := cinfo.Types[x]; has && tv.Value != nil && tv.Value.ExactString() == "\"ERROR\"" {
								return true
							}
							return false
						}
						if isErr(b.X) || isErr(b.Y) {
							return "err", b.Op == token.NEQ, true
						}
					}
					return "", false, false
				}
				refute := cg.EdgesRefuting(at, []map[string]bool{{"merkle": true, "err": true}})
				// three-valued evaluation in the state merkle && error, once-defined local booleans resolved
				var eval func(e ast.Expr, depth int) int
				eval = func(e ast.Expr, depth int) int {
					e = ast.Unparen(e)
					if depth > 4 {
						return -1
					}
					if name, neg, is := at(e); is && (name == "merkle" || name == "err") {
						if neg {
							return 0
						}
						return 1
					}
					switch x := e.(type) {
					case *ast.UnaryExpr:
						if x.Op == token.NOT {
							if v := eval(x.X, depth); v >= 0 {
								return 1 - v
							}
						}
					case *ast.BinaryExpr:
						l, r := eval(x.X, depth), eval(x.Y, depth)
						switch x.Op {
						case token.LAND:
							if l == 0 || r == 0 {
								return 0
							}
							if l == 1 && r == 1 {
								return 1
							}
						case token.LOR:
							if l == 1 || r == 1 {
								return 1
							}
							if l == 0 && r == 0 {
								return 0
							}
						}
					case *ast.Ident:
						if o := cinfo.Uses[x]; o != nil {
							if rhs, idx := cg.SingleDef(o); rhs != nil && idx == 0 {
								return eval(rhs, depth+1)
							}
						}
					}
					return -1
				}
				for _, r := range reads {
					if cg.Dominated(r, refute) {
						continue
					}
					excluded := false
					for _, fct := range cg.FactsAt(r) {
						if v := eval(fct.Cond, 0); v >= 0 && (v == 1) != fct.Val {
							excluded = true
						}
					}
					if !excluded {
						ok = false
					}
				}
			}
			c.Check("merkle-error-ret", cf.Name(), cf.Pos(), ok, "when a receipt is encoded for the receipts root, the return text of a transaction with status ERROR is left out (it is free-form error text: VM, SQL and Go error strings, which may carry node-local detail, must not decide the root)")
		}
	}
	if n < 2 {
		c.Undecide("merkle-error-ret", "types.(*Receipt).marshalBody*", "fewer body encoders reading the return text than on the reference tree (2)")
	}
}

// ---------------------------------------------------------------------------
// unrolled-effects: what a block-state rollback does not undo happens only
// where the transaction can no longer fail

// The executor rolls a failed transaction back with BlockState.Rollback, which
// restores the account buffer and the storage cache.  The fee total
// (BpReward), the receipt list and the internal-operation log are plain fields:
// if they are touched and the transaction then fails, the producer (which skips
// the transaction) pays / records something the validators never see.
func c02GapUnrolledEffects(c *rep.Ctx) {
	p := c.Prog
	f := c.Fn("chain.executeTx")
	if f == nil {
		return
	}
	info := f.Info()
	g := f.Graph()
	rewardF := p.LookupField("state", "BlockState", "BpReward")
	if rewardF == nil {
		c.Undecide("unrolled-effects", "state.BlockState.BpReward", "field not found")
		return
	}
	receipt := g.CallsTo("state.(*BlockState).AddReceipt")
	// returns that hand back AddReceipt's own result
	final := an.Set{}
	for _, r := range g.Returns() {
		if rs, ok := r.Ast.(*ast.ReturnStmt); ok {
			for _, e := range rs.Results {
				if containsCallTo(info, e, "state.(*BlockState).AddReceipt") {
					final[r] = true
				}
			}
		}
	}
	type eff struct {
		key  string
		node *an.Node
		pos  token.Pos
	}
	var effs []eff
	for _, nd := range g.StmtNodes(func(nd *an.Node) bool { return true }) {
		for _, call := range an.CallsIn(nd.Ast) {
			sel, ok := ast.Unparen(call.Fun).(*ast.SelectorExpr)
			if !ok {
				continue
			}
			fn := an.Callee(info, call)
			if fn == nil {
				continue
			}
			rx := c02GapResolve(f, sel.X)
			if u, isU := rx.(*ast.UnaryExpr); isU && u.Op == token.AND {
				rx = ast.Unparen(u.X)
			}
			if an.FieldOf(info, rx) == rewardF && fn.Pkg() != nil && fn.Pkg().Path() == "math/big" {
				switch fn.Name() {
				case "Cmp", "Sign", "String", "Bytes", "Uint64", "Int64", "IsUint64", "IsInt64", "BitLen", "Text", "CmpAbs":
				default:
					effs = append(effs, eff{"BpReward." + fn.Name(), nd, call.Pos()})
				}
			}
			switch an.FuncName(fn) {
			case "state.(*BlockState).AddInternalOps":
				effs = append(effs, eff{"AddInternalOps", nd, call.Pos()})
			case "state.(*BlockState).SetConsensus":
				effs = append(effs, eff{"SetConsensus", nd, call.Pos()})
			}
		}
	}
	for _, w := range p.FieldWrites(map[*types.Var]bool{rewardF: true}) {
		if w.Fn == f && w.How != "addr" {
			if nd := g.NodeContaining(w.Pos); nd != nil {
				effs = append(effs, eff{"BpReward " + w.How, nd, w.Pos})
			}
		}
	}
	if len(effs) == 0 || len(receipt) != 1 {
		c.Undecide("unrolled-effects", f.Name(), "fee total update or receipt site not found")
		return
	}
	errRets := g.ErrReturns()
	seen := map[string]int{}
	for _, e := range effs {
		ok := true
		for _, r := range errRets {
			if final[r] {
				continue
			}
			if g.Reachable(e.node, r) {
				ok = false
			}
		}
		key := e.key
		seen[key]++
		if seen[key] > 1 {
			key += "#" + itoa(seen[key])
		}
		c.Check("unrolled-effects", f.Name()+"|"+key, e.pos, ok, "an effect on the block state that Rollback does not undo (fee total, internal-operation log, consensus field) is made only where the transaction cannot fail any more (the only error that may follow is the receipt's own): a producer skips a failed transaction, a validator never sees it")
	}
	c.Floor("unrolled-effects", 2)
}

// ---------------------------------------------------------------------------
// header-info-roundtrip: what the producer's executor saw is what the header says

// The producer executes with a BlockHeaderInfo and then writes its fields into
// the header (types.NewBlock); the validator reads the header back into a
// BlockHeaderInfo (types.NewBlockHeaderInfo).  Field by field the reader must
// take the header field the writer filled from the same info field.
var c02GapHeaderPairs = [][2]string{
	{"No", "BlockNo"}, {"Ts", "Timestamp"}, {"PrevBlockHash", "PrevBlockHash"}, {"ChainId", "ChainID"},
}

func c02GapHeaderRoundTrip(c *rep.Ctx) {
	p := c.Prog
	nb := c.Fn("types.NewBlock")
	rd := c.Fn("types.NewBlockHeaderInfo")
	biS := p.LookupStruct("types", "BlockHeaderInfo")
	if nb == nil || rd == nil || biS == nil {
		return
	}
	// writer: header literal keyed fields
	winfo := nb.Info()
	biParam := nb.ParamObj(0)
	written := map[string]string{} // header field -> info field
	ast.Inspect(nb.Body, func(n ast.Node) bool {
		kv, ok := n.(*ast.KeyValueExpr)
		if !ok {
			return true
		}
		k := c02GapIdent(kv.Key)
		sel, isSel := ast.Unparen(kv.Value).(*ast.SelectorExpr)
		if k == nil || !isSel || an.ObjOf(winfo, sel.X) != biParam {
			return true
		}
		if fld := an.FieldOf(winfo, sel); fld != nil {
			written[k.Name] = fld.Name()
		}
		return true
	})
	// reader: BlockHeaderInfo literal (positional or keyed); header getters, through once-defined locals
	rinfo := rd.Info()
	var lit *ast.CompositeLit
	ast.Inspect(rd.Body, func(n ast.Node) bool {
		if cl, ok := n.(*ast.CompositeLit); ok {
			if tv, has := rinfo.Types[cl]; has && tv.Type != nil {
				if st, is := tv.Type.Underlying().(*types.Struct); is && st == biS {
					lit = cl
				}
			}
		}
		return true
	})
	if lit == nil {
		c.Undecide("header-info-roundtrip", rd.Name(), "BlockHeaderInfo literal not found")
		return
	}
	readOf := map[string]ast.Expr{}
	for i, e := range lit.Elts {
		if kv, ok := e.(*ast.KeyValueExpr); ok {
			if k := c02GapIdent(kv.Key); k != nil {
				readOf[k.Name] = kv.Value
			}
		} else if i < biS.NumFields() {
			readOf[biS.Field(i).Name()] = e
		}
	}
	getterOf := func(hdr string) []string {
		names := []string{"types.(*BlockHeader).Get" + hdr}
		if hdr == "BlockNo" {
			names = append(names, "types.(*Block).BlockNo")
		}
		return names
	}
	for _, pr := range c02GapHeaderPairs {
		infoF, hdrF := pr[0], pr[1]
		okW := written[hdrF] == infoF
		okR := false
		if e := readOf[infoF]; e != nil {
			e = c02GapResolve(rd, e)
			okR = containsCallTo(rinfo, e, getterOf(hdrF)...)
			if hf := p.LookupField("types", "BlockHeader", hdrF); hf != nil && readsField(rinfo, e, hf) {
				okR = true
			}
		}
		c.Check("header-info-roundtrip", infoF+"~"+hdrF, rd.Pos(), okW && okR, "the producer writes header field "+hdrF+" from the executor's "+infoF+" and the validator reads "+infoF+" back from "+hdrF)
	}
	c.Floor("header-info-roundtrip", 4)
}
