package props

import (
	"go/ast"
	"go/token"
	"go/types"
	"strings"

	"verif/checker/internal/an"
	"verif/checker/internal/rep"
)

// C08 gap rules (gap review).  Each rule is a structural necessary condition
// of "the irreversible block is monotone, on-chain and never undone" that the
// first rules did not decide; every one was found by applying a realistic
// breaking patch that the check did not report (seeded/_mut/C08).
//
//	reorg-veto       the consensus veto in ChainService.reorg is asked with exactly the
//	                 fork point's number and precedes every step that moves state
//	lib-accessor     the number compared by the block gate / reported as LIB is the LIB field
//	calclib-field    calcLIB sorts by and returns the *confirmed* block (Plib), not the confirming one
//	prelib-record    getPreLIB proposes only an element whose confirmation counter is zero,
//	                 attributed to the producer of the newest block
//	confirms-left    counter initialised with the threshold; closed writer set
//	last-produced    the producer's last block number is recorded, restored and advanced
//	                 (it bounds Confirms: one confirmation per producer and block)
//	proposal-removal proposals are dropped only for producers outside a non-empty new set
//	                 (or by the operator's reset)
//	proposal-floor   a proposal is never overwritten by the genesis placeholder
//	boot-reset       the boot-time LIB reset happens only on operator request
//	restore          the decoded status reaches the running Status; decode failures do not
//	                 yield an empty status; the rebuild covers the best block
//	rollback-target  the status is rolled back to the block handed to Update
//	dispatch         *DPoS answers NeedReorganization / Update / Save with Status' methods
//	status-update    a block extends the list only if its parent is the recorded best block (hash);
//	                 every update records the new best block and refreshes the threshold
//	range-source     an entry's confirmation range is the header's Confirms value, unmodified
//	lib-monotone     the LIB write is guarded by "not lower"        (reports a genuine defect today)
//	threshold-unit   newLibStatus / setConfirmsRequired receive a producer COUNT, never a value
//	                 that already is a threshold                    (reports a genuine defect today)
//
// Reviewer-side demonstrations of the two defects: seeded/_mut/C08/defect-demo-tests.diff.
func init() {
	extend("C08", c08GapReorgVeto)
	extend("C07", c08GapReorgVeto) // the fork-point argument is also C07's "veto(fork point)" step
	extend("C08", c08GapLibAccessor)
	extend("C08", c08GapCalcLibField)
	extend("C08", c08GapPreLibRecord)
	extend("C08", c08GapConfirmsLeft)
	extend("C08", c08GapLastProduced)
	extend("C08", c08GapProposalRemoval)
	extend("C08", c08GapProposalFloor)
	extend("C08", c08GapBootReset)
	extend("C08", c08GapRestore)
	extend("C08", c08GapRollbackTarget)
}

const c08GapDpos = "consensus/impl/dpos"

// ---------------------------------------------------------------------------
// helpers

// c08GapResolve follows once-defined locals (x := e, var x = e) to their
// defining expression; tuple results and parameters stay as they are.
func c08GapResolve(g *an.Graph, info *types.Info, e ast.Expr) ast.Expr {
	for depth := 0; depth < 6; depth++ {
		e = ast.Unparen(e)
		id, ok := e.(*ast.Ident)
		if !ok {
			return e
		}
		o, isVar := info.Uses[id].(*types.Var)
		if !isVar || o.IsField() {
			return e
		}
		rhs, idx := g.SingleDef(o)
		if rhs == nil || idx != 0 {
			return e
		}
		if tv, has := info.Types[rhs]; has {
			if _, tuple := tv.Type.(*types.Tuple); tuple {
				return e
			}
		}
		e = rhs
	}
	return e
}

// c08GapBlockOfNo: e reads the number of a *types.Block ( b.BlockNo(),
// b.GetHeader().GetBlockNo(), b.GetHeader().BlockNo, b.Header.BlockNo ):
// returns the block expression b.
func c08GapBlockOfNo(info *types.Info, e ast.Expr) ast.Expr {
	e = ast.Unparen(e)
	header := func(h ast.Expr) ast.Expr {
		h = ast.Unparen(h)
		if call, ok := h.(*ast.CallExpr); ok && an.CalleeName(info, call) == "types.(*Block).GetHeader" {
			if sel, ok := ast.Unparen(call.Fun).(*ast.SelectorExpr); ok {
				return sel.X
			}
		}
		if f := an.FieldOf(info, h); f != nil && f.Name() == "Header" {
			return h.(*ast.SelectorExpr).X
		}
		return nil
	}
	switch x := e.(type) {
	case *ast.CallExpr:
		sel, ok := ast.Unparen(x.Fun).(*ast.SelectorExpr)
		if !ok {
			return nil
		}
		switch an.CalleeName(info, x) {
		case "types.(*Block).BlockNo":
			return sel.X
		case "types.(*BlockHeader).GetBlockNo":
			return header(sel.X)
		}
	case *ast.SelectorExpr:
		if f := an.FieldOf(info, x); f != nil && f.Name() == "BlockNo" && f.Pkg() != nil && strings.HasSuffix(f.Pkg().Path(), "/types") {
			return header(x.X)
		}
	}
	return nil
}

// c08GapLin is linOf with semantic atoms: once-defined locals are resolved and
// atom(e) may name an operand; anything else is an operand named by its text.
func c08GapLin(g *an.Graph, info *types.Info, e ast.Expr, atom func(e ast.Expr) string) (linForm, bool) {
	e = ast.Unparen(e)
	if tv, ok := info.Types[e]; ok && tv.Value != nil {
		return linOf(info, e)
	}
	if a := atom(e); a != "" {
		return linForm{a: 1}, true
	}
	switch x := e.(type) {
	case *ast.BinaryExpr:
		if x.Op == token.ADD || x.Op == token.SUB {
			a, ok1 := c08GapLin(g, info, x.X, atom)
			b, ok2 := c08GapLin(g, info, x.Y, atom)
			if !ok1 || !ok2 {
				return nil, false
			}
			k := int64(1)
			if x.Op == token.SUB {
				k = -1
			}
			return a.add(b, k), true
		}
		return nil, false
	case *ast.CallExpr:
		if tv, ok := info.Types[x.Fun]; ok && tv.IsType() && len(x.Args) == 1 {
			return c08GapLin(g, info, x.Args[0], atom)
		}
	case *ast.Ident:
		if r := c08GapResolve(g, info, x); r != ast.Expr(x) {
			return c08GapLin(g, info, r, atom)
		}
	}
	return linForm{"?" + an.ExprString(e): 1}, true
}

func c08GapIsOnly(lf linForm, term string) bool {
	return len(lf) == 1 && lf[term] == 1
}

// c08GapPosAtom recognises "x compared with an integer constant" where x
// satisfies isX and returns the truth of "x > 0" encoded as an atom:
// x > 0, x >= 1, x != 0, 0 < x, 1 <= x  -> (name, not negated);
// x == 0, x <= 0, x < 1, ...            -> (name, negated).   Unsigned x assumed.
func c08GapPosAtom(g *an.Graph, name string, isX func(e ast.Expr) bool) an.Atomizer {
	info := g.Fn.Info()
	return func(e ast.Expr) (string, bool, bool) {
		// a once-defined boolean local stands for its definition
		e = c08GapResolve(g, info, e)
		be, ok := ast.Unparen(e).(*ast.BinaryExpr)
		if !ok {
			return "", false, false
		}
		x, y, op := be.X, be.Y, be.Op
		konst := func(v ast.Expr) (string, bool) {
			tv, has := info.Types[v]
			if !has || tv.Value == nil {
				return "", false
			}
			return tv.Value.ExactString(), true
		}
		if _, isK := konst(x); isK {
			x, y = y, x
			switch op {
			case token.LSS:
				op = token.GTR
			case token.LEQ:
				op = token.GEQ
			case token.GTR:
				op = token.LSS
			case token.GEQ:
				op = token.LEQ
			}
		}
		k, isK := konst(y)
		if !isK || !isX(ast.Unparen(x)) {
			return "", false, false
		}
		switch {
		case k == "0" && (op == token.GTR || op == token.NEQ), k == "1" && op == token.GEQ:
			return name, false, true
		case k == "0" && (op == token.EQL || op == token.LEQ), k == "1" && op == token.LSS:
			return name, true, true
		}
		return "", false, false
	}
}

// c08GapIdentAtom: the identifier of obj is atom `name`.
func c08GapIdentAtom(info *types.Info, obj types.Object, name string) an.Atomizer {
	return func(e ast.Expr) (string, bool, bool) {
		if id, ok := ast.Unparen(e).(*ast.Ident); ok && obj != nil && info.Uses[id] == obj {
			return name, false, true
		}
		return "", false, false
	}
}

type c08GapDef struct {
	rhs  ast.Expr // nil: not a plain definition (op-assign, ++, tuple)
	node *an.Node
}

// c08GapDefs lists every definition of obj in the function.
func c08GapDefs(g *an.Graph, info *types.Info, obj types.Object) []c08GapDef {
	var out []c08GapDef
	for _, n := range g.Nodes {
		if n.Kind != an.KStmt {
			continue
		}
		switch s := n.Ast.(type) {
		case *ast.AssignStmt:
			for i, l := range s.Lhs {
				id, ok := ast.Unparen(l).(*ast.Ident)
				if !ok || (info.Defs[id] != obj && info.Uses[id] != obj) {
					continue
				}
				if len(s.Lhs) == len(s.Rhs) && (s.Tok == token.ASSIGN || s.Tok == token.DEFINE) {
					out = append(out, c08GapDef{s.Rhs[i], n})
				} else {
					out = append(out, c08GapDef{nil, n})
				}
			}
		case *ast.ValueSpec:
			for i, nm := range s.Names {
				if info.Defs[nm] == obj && i < len(s.Values) && len(s.Values) == len(s.Names) {
					out = append(out, c08GapDef{s.Values[i], n})
				}
			}
		case *ast.IncDecStmt:
			if an.ObjOf(info, s.X) == obj {
				out = append(out, c08GapDef{nil, n})
			}
		}
	}
	return out
}

func c08GapIsZeroLit(info *types.Info, e ast.Expr) bool {
	tv, ok := info.Types[e]
	if !ok {
		return false
	}
	if tv.IsNil() {
		return true
	}
	if tv.Value != nil {
		s := tv.Value.ExactString()
		return s == "0" || s == `""` || s == "false"
	}
	return false
}

// c08GapDerivesFromBack: the expression (once-defined locals resolved) is
// computed from  <confirms list>.Back()  and from no other list position.
func c08GapDerivesFromBack(g *an.Graph, info *types.Info, e ast.Expr, confirms *types.Var) bool {
	back, other := false, false
	seen := map[types.Object]bool{}
	var walk func(e ast.Node, depth int)
	walk = func(e ast.Node, depth int) {
		if e == nil || depth > 8 {
			return
		}
		ast.Inspect(e, func(n ast.Node) bool {
			switch x := n.(type) {
			case *ast.CallExpr:
				switch an.CalleeName(info, x) {
				case "container/list.(*List).Back":
					if sel, ok := ast.Unparen(x.Fun).(*ast.SelectorExpr); ok && an.FieldOf(info, sel.X) == confirms && confirms != nil {
						back = true
					} else {
						other = true
					}
				case "container/list.(*List).Front", "container/list.(*Element).Prev", "container/list.(*Element).Next":
					other = true
				}
			case *ast.Ident:
				o, isVar := info.Uses[x].(*types.Var)
				if !isVar || o.IsField() || seen[o] {
					return true
				}
				seen[o] = true
				if rhs, _ := g.SingleDef(o); rhs != nil {
					walk(rhs, depth+1)
				} else if o.Parent() != nil && o.Pkg() != nil && o.Parent() != o.Pkg().Scope() && c08GapParamIndex(g.Fn, o) < 0 && !c08GapIsRecv(g.Fn, o) {
					other = true // a reassigned local (e.g. the loop cursor)
				}
			}
			return true
		})
	}
	walk(e, 0)
	return back && !other
}

// c08GapParamIndex: index of o among the (flattened) parameters of f, -1 if none.
func c08GapParamIndex(f *an.Func, o types.Object) int {
	if o == nil {
		return -1
	}
	for i := 0; i < 16; i++ {
		po := f.ParamObj(i)
		if po == nil {
			break
		}
		if po == o {
			return i
		}
	}
	return -1
}

func c08GapIsRecv(f *an.Func, o types.Object) bool {
	if f.Decl == nil || f.Decl.Recv == nil {
		return false
	}
	for _, fl := range f.Decl.Recv.List {
		for _, nm := range fl.Names {
			if f.Info().Defs[nm] == o {
				return true
			}
		}
	}
	return false
}

// c08GapReturnsField: every return of fn yields a value satisfying pred, or the
// result of a module function for which the same holds (accessor chains).
func c08GapReturnsField(p *an.Prog, fn *an.Func, pred func(info *types.Info, e ast.Expr) bool, depth int) bool {
	if fn == nil || fn.Body == nil || depth > 4 {
		return false
	}
	g := fn.Graph()
	info := fn.Info()
	rets := g.Returns()
	if len(rets) == 0 {
		return false
	}
	for _, r := range rets {
		rs, ok := r.Ast.(*ast.ReturnStmt)
		if !ok || len(rs.Results) != 1 {
			return false
		}
		e := c08GapResolve(g, info, rs.Results[0])
		if pred(info, e) {
			continue
		}
		call, isCall := e.(*ast.CallExpr)
		if !isCall {
			return false
		}
		callee := an.Callee(info, call)
		if callee == nil || !c08GapReturnsField(p, p.FuncOf(callee), pred, depth+1) {
			return false
		}
	}
	return true
}

func c08GapSiteOf(g *an.Graph, call *ast.CallExpr) (an.Site, bool) {
	for _, s := range g.Calls(nil) {
		if s.Call == call {
			return s, true
		}
	}
	return an.Site{}, false
}

func c08GapKeyed(lit *ast.CompositeLit, key string) ast.Expr {
	for _, el := range lit.Elts {
		if kv, ok := el.(*ast.KeyValueExpr); ok {
			if id, ok := kv.Key.(*ast.Ident); ok && id.Name == key {
				return kv.Value
			}
		}
	}
	return nil
}

func c08GapIsNamed(t types.Type, pkgRel, name string) bool {
	if p, ok := t.(*types.Pointer); ok {
		t = p.Elem()
	}
	n, ok := t.(*types.Named)
	return ok && n.Obj().Name() == name && n.Obj().Pkg() != nil && an.Rel(n.Obj().Pkg().Path()) == pkgRel
}

// ---------------------------------------------------------------------------
// reorg-veto

func c08GapReorgVeto(c *rep.Ctx) {
	p := c.Prog
	const veto = "consensus.(ChainConsensus).NeedReorganization"
	brStart := p.LookupField("chain", "reorganizer", "brStartBlock")
	if brStart == nil {
		c.Undecide("reorg-veto", "chain.reorganizer.brStartBlock", "field not found")
		return
	}
	sites := p.CallSitesOf(map[string]bool{veto: true})
	n := 0
	for _, cs := range sites {
		if cs.Fn == nil || len(cs.Call.Args) != 1 {
			continue
		}
		n++
		f := cs.Fn
		g := f.Graph()
		info := f.Info()
		atom := func(e ast.Expr) string {
			if b := c08GapBlockOfNo(info, e); b != nil {
				if an.FieldOf(info, c08GapResolve(g, info, b)) == brStart {
					return "forkpoint.no"
				}
			}
			return ""
		}
		lf, ok := c08GapLin(g, info, cs.Call.Args[0], atom)
		c.Check("reorg-veto", f.Name()+"|argument", cs.Call.Pos(), ok && c08GapIsOnly(lf, "forkpoint.no"),
			"the consensus veto is asked with exactly the number of the fork point (reorganizer.brStartBlock), the block both branches share: the LIB rule `root >= LIB` is stated for that number; any other block of either branch, or an offset, accepts a fork below the irreversible block or refuses a legal one (argument = "+lf.String()+")")
		// nothing that moves the state root, the consensus status or the chain mapping runs before the veto passed
		site, found := c08GapSiteOf(g, cs.Call)
		if !found {
			c.Undecide("reorg-veto", f.Name()+"|order", "veto call is not a vertex of the function's graph")
			continue
		}
		passed := g.BoolEdges(site, true)
		cg := p.BuildCallGraphCached()
		seeds := map[*an.Func]bool{}
		for _, s := range []string{"consensus/impl/dpos.(*Status).Update", "state.(*ChainStateDB).SetRoot", "chain.(*ChainDB).swapChainMapping"} {
			if sf := c.Fn(s); sf != nil {
				seeds[sf] = true
			}
		}
		movers := cg.MayReach(seeds, nil)
		targets := 0
		for _, s := range g.Calls(nil) {
			var callees []*an.Func
			if s.Fn != nil {
				if cf := p.FuncOf(s.Fn); cf != nil {
					callees = append(callees, cf)
				}
			} else if v := an.CalleeVar(info, s.Call); v != nil {
				callees = cg.FuncValues(v)
			}
			moves := false
			for _, cf := range callees {
				if movers[cf] {
					moves = true
				}
			}
			if !moves || s.Call == cs.Call {
				continue
			}
			targets++
			name := "<func value>"
			if s.Fn != nil {
				name = shortName(an.FuncName(s.Fn))
			} else if v := an.CalleeVar(info, s.Call); v != nil {
				name = v.Name()
			}
			c.Check("reorg-veto", f.Name()+"|veto < "+name, s.Call.Pos(), len(passed) > 0 && g.Dominated(s.Node, passed),
				"a step that can move the state root, the consensus status or the height mapping runs only after the consensus allowed the reorganisation")
		}
		if targets < 3 {
			c.Undecide("reorg-veto", f.Name()+"|order", "fewer than 3 state-moving steps found after the veto (rollback, rollforward, swapChain expected)")
		}
	}
	if n == 0 {
		c.Undecide("reorg-veto", veto, "no call of the consensus veto found")
	}
	c.Floor("reorg-veto", 4)
}

// ---------------------------------------------------------------------------
// lib-accessor

func c08GapLibAccessor(c *rep.Ctx) {
	p := c.Prog
	libF := p.LookupField(c08GapDpos, "libStatus", "Lib")
	noF := p.LookupField(c08GapDpos, "blockInfo", "BlockNo")
	lpbF := p.LookupField(c08GapDpos, "libStatus", "LpbNo")
	if libF == nil || noF == nil || lpbF == nil {
		c.Undecide("lib-accessor", "dpos.libStatus", "fields Lib / LpbNo / blockInfo.BlockNo not found")
		return
	}
	isLibNo := func(info *types.Info, e ast.Expr) bool {
		sel, ok := ast.Unparen(e).(*ast.SelectorExpr)
		return ok && an.FieldOf(info, sel) == noF && an.FieldOf(info, sel.X) == libF
	}
	isLib := func(info *types.Info, e ast.Expr) bool { return an.FieldOf(info, e) == libF }
	isLpb := func(info *types.Info, e ast.Expr) bool { return an.FieldOf(info, e) == lpbF }
	rows := []struct {
		fn   string
		pred func(*types.Info, ast.Expr) bool
		why  string
	}{
		{"consensus/impl/dpos.(*Status).libNo", isLibNo, "the number the block gate compares with (VerifyTimestamp) is libStatus.Lib.BlockNo"},
		{"consensus/impl/dpos.(*Status).lib", isLib, "the LIB reported in the consensus info is libStatus.Lib"},
		{"consensus/impl/dpos.(*bootLoader).lpbNo", isLpb, "the block factory starts from the restored number of this producer's last block (libStatus.LpbNo)"},
	}
	for _, r := range rows {
		f := c.Fn(r.fn)
		if f == nil {
			continue
		}
		c.Check("lib-accessor", r.fn, f.Pos(), c08GapReturnsField(p, f, r.pred, 0), r.why+" on every return (accessor chain followed)")
	}
}

// ---------------------------------------------------------------------------
// calclib-field

func c08GapCalcLibField(c *rep.Ctx) {
	f := c.Fn("consensus/impl/dpos.(*libStatus).calcLIB")
	if f == nil {
		return
	}
	p := c.Prog
	g := f.Graph()
	info := f.Info()
	plibF := p.LookupField(c08GapDpos, "plInfo", "Plib")
	byF := p.LookupField(c08GapDpos, "plInfo", "PlibBy")
	if plibF == nil || byF == nil {
		c.Undecide("calclib-field", "dpos.plInfo", "fields Plib / PlibBy not found")
		return
	}
	sorts := g.CallsTo("sort.Slice", "sort.SliceStable")
	okSort := len(sorts) == 1
	var sorted types.Object
	if okSort {
		sorted = an.ObjOf(info, sorts[0].Call.Args[0])
		lit, isLit := ast.Unparen(sorts[0].Call.Args[1]).(*ast.FuncLit)
		okSort = isLit
		if isLit {
			lf := p.LitFunc(lit)
			rets := lf.Graph().Returns()
			okSort = len(rets) > 0
			for _, r := range rets {
				rs := r.Ast.(*ast.ReturnStmt)
				okSort = okSort && len(rs.Results) == 1 && readsField(info, rs.Results[0], plibF) && !readsField(info, rs.Results[0], byF)
			}
		}
	}
	c.Check("calclib-field", "consensus/impl/dpos.(*libStatus).calcLIB|sort-key", posOf(sorts), okSort, "the proposals are ordered by the number of the confirmed block (Plib), not of the block that confirmed it")
	okRet, nRet := true, 0
	var pos token.Pos
	for _, r := range g.Returns() {
		rs := r.Ast.(*ast.ReturnStmt)
		if len(rs.Results) != 1 {
			okRet = false
			continue
		}
		if tv, has := info.Types[rs.Results[0]]; has && tv.IsNil() {
			continue
		}
		nRet++
		pos = rs.Pos()
		e := c08GapResolve(g, info, rs.Results[0])
		sel, isSel := e.(*ast.SelectorExpr)
		if !isSel || an.FieldOf(info, sel) != plibF {
			okRet = false
			continue
		}
		ix, isIx := c08GapResolve(g, info, sel.X).(*ast.IndexExpr)
		if !isIx || sorted == nil || an.ObjOf(info, ix.X) != sorted {
			okRet = false
		}
	}
	c.Check("calclib-field", "consensus/impl/dpos.(*libStatus).calcLIB|result", pos, okRet && nRet > 0, "the LIB is the confirmed block (Plib) of the chosen element of the sorted proposals; the confirming block (PlibBy) has itself no quorum yet")
}

// ---------------------------------------------------------------------------
// prelib-record

func c08GapPreLibRecord(c *rep.Ctx) {
	const fn = "consensus/impl/dpos.(*libStatus).getPreLIB"
	f := c.Fn(fn)
	if f == nil {
		return
	}
	p := c.Prog
	g := f.Graph()
	info := f.Info()
	leftF := p.LookupField(c08GapDpos, "confirmInfo", "confirmsLeft")
	bpidF := p.LookupField(c08GapDpos, "confirmInfo", "bpid")
	embF := p.LookupField(c08GapDpos, "confirmInfo", "blockInfo")
	confirmsF := p.LookupField(c08GapDpos, "libStatus", "confirms")
	if leftF == nil || bpidF == nil || embF == nil || confirmsF == nil {
		c.Undecide("prelib-record", fn, "fields of confirmInfo / libStatus not found")
		return
	}
	var lits []*ast.CompositeLit
	an.InspectShallow(f.Body, func(n ast.Node) bool {
		if l, ok := n.(*ast.CompositeLit); ok {
			if tv, has := info.Types[l]; has && c08GapIsNamed(tv.Type, c08GapDpos, "plInfo") {
				lits = append(lits, l)
			}
		}
		return true
	})
	if len(lits) == 0 {
		c.Undecide("prelib-record", fn, "no plInfo literal found")
		return
	}
	// values an expression may take: itself, or every definition when it is a local
	values := func(e ast.Expr) (out []c08GapDef, ok bool) {
		e = ast.Unparen(e)
		id, isId := e.(*ast.Ident)
		if !isId {
			return []c08GapDef{{e, g.NodeContaining(e.Pos())}}, true
		}
		o, isVar := info.Uses[id].(*types.Var)
		if !isVar || o.IsField() {
			return nil, false
		}
		ds := c08GapDefs(g, info, o)
		for _, d := range ds {
			if d.rhs == nil {
				return nil, false
			}
			if c08GapIsZeroLit(info, d.rhs) {
				continue
			}
			out = append(out, d)
		}
		return out, true
	}
	for _, lit := range lits {
		plib, plibBy := c08GapKeyed(lit, "Plib"), c08GapKeyed(lit, "PlibBy")
		if plib == nil || plibBy == nil {
			c.Undecide("prelib-record", fn, "plInfo literal without keyed Plib / PlibBy")
			continue
		}
		// Plib: block info of an element whose counter is zero at that point
		vals, ok := values(plib)
		ok = ok && len(vals) > 0
		for _, d := range vals {
			r := ast.Unparen(d.rhs)
			var elem types.Object
			switch x := r.(type) {
			case *ast.CallExpr:
				if an.CalleeName(info, x) == "consensus/impl/dpos.(*confirmInfo).bInfo" {
					elem = recvObj(info, x)
				}
			case *ast.SelectorExpr:
				if an.FieldOf(info, x) == embF {
					elem = an.ObjOf(info, x.X)
				}
			}
			if elem == nil || d.node == nil {
				ok = false
				continue
			}
			zero := c08GapPosAtom(g, "left", func(e ast.Expr) bool {
				sel, isSel := e.(*ast.SelectorExpr)
				return isSel && an.FieldOf(info, sel) == leftF && an.ObjOf(info, sel.X) == elem
			})
			guarded, _ := g.GuardedAt(d.node, zero, map[string]bool{"left": false})
			ok = ok && guarded
		}
		c.Check("prelib-record", fn+"|Plib", lit.Pos(), ok, "the block proposed as pre-LIB is one whose confirmation counter has reached zero (tested on the same element, any spelling of `== 0`): with a weaker test a block is proposed with fewer than 2n/3+1 confirming producers")
		// PlibBy: the newest element
		vals, ok = values(plibBy)
		ok = ok && len(vals) > 0
		for _, d := range vals {
			ok = ok && c08GapDerivesFromBack(g, info, d.rhs, confirmsF)
		}
		c.Check("prelib-record", fn+"|PlibBy", lit.Pos(), ok, "the confirming block recorded with a proposal is the newest element of the confirmation list")
	}
	// bpID: producer of the newest block
	var resObj types.Object
	if f.Type.Results != nil && len(f.Type.Results.List) > 0 && len(f.Type.Results.List[0].Names) > 0 {
		resObj = info.Defs[f.Type.Results.List[0].Names[0]]
	}
	var vals []ast.Expr
	ok := true
	for _, r := range g.Returns() {
		rs := r.Ast.(*ast.ReturnStmt)
		if len(rs.Results) >= 1 {
			vals = append(vals, rs.Results[0])
		} else if resObj == nil {
			ok = false
		}
	}
	if resObj != nil {
		for _, d := range c08GapDefs(g, info, resObj) {
			if d.rhs == nil {
				ok = false
				continue
			}
			vals = append(vals, d.rhs)
		}
	}
	n := 0
	for _, v := range vals {
		if c08GapIsZeroLit(info, v) || (resObj != nil && an.ObjOf(info, v) == resObj) {
			continue
		}
		n++
		e := c08GapResolve(g, info, v)
		sel, isSel := e.(*ast.SelectorExpr)
		ok = ok && isSel && an.FieldOf(info, sel) == bpidF && c08GapDerivesFromBack(g, info, sel.X, confirmsF)
	}
	c.Check("prelib-record", fn+"|producer", f.Pos(), ok && n > 0, "a proposal is filed under the producer of the newest block (the element at the back of the confirmation list): filed under another id, one producer's blocks move several entries of the proposal map and the 2/3 position of calcLIB no longer counts distinct producers")
}

// ---------------------------------------------------------------------------
// confirms-left

func c08GapConfirmsLeft(c *rep.Ctx) {
	p := c.Prog
	leftF := p.LookupField(c08GapDpos, "confirmInfo", "confirmsLeft")
	reqF := p.LookupField(c08GapDpos, "libStatus", "confirmsRequired")
	if leftF == nil || reqF == nil {
		c.Undecide("confirms-left", "dpos.confirmInfo.confirmsLeft", "field not found")
		return
	}
	const ctor = "consensus/impl/dpos.newConfirmInfo"
	paramIdx := -1
	for _, w := range p.FieldWrites(map[*types.Var]bool{leftF: true}) {
		fn := "<package level>"
		if w.Fn != nil {
			fn = w.Fn.TopDecl().Name()
		}
		ok := false
		msg := "the confirmation counter is written only by its constructor (threshold) and by the decrement in getPreLIB"
		switch {
		case fn == ctor && w.How == "literal":
			g := w.Fn.Graph()
			info := w.Fn.Info()
			var val ast.Expr
			ast.Inspect(w.Fn.Body, func(n ast.Node) bool {
				if kv, isKV := n.(*ast.KeyValueExpr); isKV {
					if id, isId := kv.Key.(*ast.Ident); isId && info.Uses[id] == leftF {
						val = kv.Value
					}
				}
				return true
			})
			if val != nil {
				lf, okL := c08GapLin(g, info, val, func(e ast.Expr) string {
					if o := an.ObjOf(info, e); o != nil {
						if i := c08GapParamIndex(w.Fn, o); i >= 0 {
							paramIdx = i
							return "param"
						}
					}
					return ""
				})
				ok = okL && c08GapIsOnly(lf, "param")
				msg = "a new confirmation entry starts with exactly the required number of confirmations handed to the constructor (" + lf.String() + ")"
			}
		case fn == "consensus/impl/dpos.(*libStatus).getPreLIB" && w.How == "incdec":
			ok = true
			ast.Inspect(w.Fn.Body, func(n ast.Node) bool {
				if s, isS := n.(*ast.IncDecStmt); isS && s.Pos() <= w.Pos && w.Pos <= s.End() && s.Tok != token.DEC {
					ok = false
				}
				return true
			})
			msg = "the counter only counts down, one per confirming block"
		}
		c.Check("confirms-left", fn+"|"+w.How, w.Pos, ok, msg)
	}
	// every construction site hands over the current threshold
	for _, s := range p.CallSitesOf(map[string]bool{ctor: true}) {
		if s.Fn == nil {
			continue
		}
		ok := paramIdx >= 0 && paramIdx < len(s.Call.Args)
		if ok {
			lf, okL := c08GapLin(s.Fn.Graph(), s.Fn.Info(), s.Call.Args[paramIdx], func(e ast.Expr) string {
				if an.FieldOf(s.Fn.Info(), e) == reqF {
					return "required"
				}
				return ""
			})
			ok = okL && c08GapIsOnly(lf, "required")
		}
		c.Check("confirms-left", s.Fn.TopDecl().Name()+"|newConfirmInfo(threshold)", s.Call.Pos(), ok, "the threshold handed to a new confirmation entry is libStatus.confirmsRequired (2n/3+1), unmodified")
	}
	c.Floor("confirms-left", 3)
}

// ---------------------------------------------------------------------------
// last-produced

func c08GapLastProduced(c *rep.Ctx) {
	p := c.Prog
	lpbF := p.LookupField(c08GapDpos, "libStatus", "LpbNo")
	selfF := p.LookupField(c08GapDpos, "libStatus", "bpid")
	noF := p.LookupField(c08GapDpos, "blockInfo", "BlockNo")
	if lpbF == nil || selfF == nil || noF == nil {
		c.Undecide("last-produced", "dpos.libStatus.LpbNo", "field not found")
		return
	}
	// (a) recorded when a block of this node's producer is added
	const add = "consensus/impl/dpos.(*libStatus).addConfirmInfo"
	nw := 0
	for _, w := range p.FieldWrites(map[*types.Var]bool{lpbF: true}) {
		fn := "<package level>"
		if w.Fn != nil {
			fn = w.Fn.TopDecl().Name()
		}
		if fn != add || w.How != "assign" {
			c.Check("last-produced", fn+"|LpbNo:"+w.How, w.Pos, false, "the number of the producer's last block is written only where a block is added to the confirmation list")
			continue
		}
		nw++
		f := w.Fn
		g := f.Graph()
		info := f.Info()
		node := g.NodeContaining(w.Pos)
		as, _ := node.Ast.(*ast.AssignStmt)
		blk := f.ParamObj(0)
		ok := as != nil && len(as.Lhs) == 1 && len(as.Rhs) == 1 && as.Tok == token.ASSIGN
		if ok {
			lf, okL := c08GapLin(g, info, as.Rhs[0], func(e ast.Expr) string {
				if b := c08GapBlockOfNo(info, e); b != nil && an.ObjOf(info, b) == blk && blk != nil {
					return "added.no"
				}
				if sel, isSel := e.(*ast.SelectorExpr); isSel && an.FieldOf(info, sel) == noF {
					// bi.BlockNo / ci.BlockNo where the info was built from the added block
					built := false
					ast.Inspect(c08GapResolve(g, info, sel.X), func(n ast.Node) bool {
						if call, isCall := n.(*ast.CallExpr); isCall {
							nm := an.CalleeName(info, call)
							if (nm == "consensus/impl/dpos.newConfirmInfo" || nm == "consensus/impl/dpos.newBlockInfo") && argIs(info, call, 0, blk) {
								built = true
							}
						}
						if id, isId := n.(*ast.Ident); isId {
							if o, isVar := info.Uses[id].(*types.Var); isVar && !o.IsField() {
								if rhs, _ := g.SingleDef(o); rhs != nil {
									for _, call := range an.CallsIn(rhs) {
										nm := an.CalleeName(info, call)
										if (nm == "consensus/impl/dpos.newConfirmInfo" || nm == "consensus/impl/dpos.newBlockInfo") && argIs(info, call, 0, blk) {
											built = true
										}
									}
								}
							}
						}
						return true
					})
					if built {
						return "added.no"
					}
				}
				return ""
			})
			ok = okL && c08GapIsOnly(lf, "added.no")
		}
		// on the "own block" edge the write is not skipped
		own := an.Set{}
		for _, n := range g.Nodes {
			if n.Kind != an.KTrue && n.Kind != an.KFalse {
				continue
			}
			be, isB := n.Ast.(*ast.BinaryExpr)
			if !isB || (be.Op != token.EQL && be.Op != token.NEQ) {
				continue
			}
			if an.FieldOf(info, be.X) != selfF && an.FieldOf(info, be.Y) != selfF {
				continue
			}
			if (be.Op == token.EQL) == (n.Kind == an.KTrue) {
				own[n] = true
			}
		}
		if len(own) == 0 {
			c.Undecide("last-produced", add+"|own-block", "no comparison with the node's own producer id found")
		}
		for e := range own {
			ok = ok && g.PostDominated(e, an.SetOf(node))
		}
		c.Check("last-produced", add+"|LpbNo", w.Pos, ok, "when a block of this node's own producer is added, its number is recorded as the last produced block: after a restart the first block's Confirms is computed from it, and a stale (lower) value makes that block confirm again what the producer already confirmed")
	}
	if nw == 0 {
		c.Check("last-produced", add+"|LpbNo", token.NoPos, false, "addConfirmInfo records the number of the producer's last block")
	}
	// (b) the block factory: Confirms = number - lastProduced; lastProduced advances with every connected block
	const gen = "consensus/impl/dpos.(*BlockFactory).generateBlock"
	gf := c.Fn(gen)
	if gf == nil {
		return
	}
	lpbIdx := -1
	{
		g := gf.Graph()
		info := gf.Info()
		sets := g.CallsTo("types.(*Block).SetConfirms")
		for _, s := range sets {
			recv := recvObj(info, s.Call)
			lf, okL := c08GapLin(g, info, s.Call.Args[0], func(e ast.Expr) string {
				if b := c08GapBlockOfNo(info, e); b != nil && recv != nil && an.ObjOf(info, b) == recv {
					return "no"
				}
				if o := an.ObjOf(info, e); o != nil {
					if i := c08GapParamIndex(gf, o); i >= 0 && g.SingleDefOrParam(o) {
						lpbIdx = i
						return "lastProduced"
					}
				}
				return ""
			})
			ok := okL && len(lf) == 2 && lf["no"] == 1 && lf["lastProduced"] == -1
			c.Check("last-produced", gen+"|Confirms", s.Call.Pos(), ok, "a produced block announces Confirms = its own number minus the caller-supplied number of the producer's previous block ("+lf.String()+")")
		}
		if len(sets) == 0 {
			c.Undecide("last-produced", gen+"|Confirms", "SetConfirms not called in generateBlock")
		}
	}
	nSites := 0
	for _, cs := range p.CallSitesOf(map[string]bool{gen: true}) {
		if cs.Fn == nil || lpbIdx < 0 || lpbIdx >= len(cs.Call.Args) {
			continue
		}
		nSites++
		f := cs.Fn
		g := f.Graph()
		info := f.Info()
		key := f.Name() + "|lastProduced"
		site, found := c08GapSiteOf(g, cs.Call)
		v, isVar := an.ObjOf(info, cs.Call.Args[lpbIdx]).(*types.Var)
		if !found || !isVar || v.IsField() || c08GapParamIndex(f, v) >= 0 {
			c.Check("last-produced", key, cs.Call.Pos(), false, "generateBlock receives the worker's running record of the last produced block number (a local that is advanced after every connected block), not a value read once at boot")
			continue
		}
		blk := g.ResultVarAt(site, 0)
		ok := blk != nil
		adv := an.Set{}
		for _, d := range c08GapDefs(g, info, v) {
			if d.rhs == nil {
				ok = false
				continue
			}
			if b := c08GapBlockOfNo(info, ast.Unparen(d.rhs)); b != nil && an.ObjOf(info, b) == blk {
				adv[d.node] = true
				continue
			}
			// initial value: restored LpbNo through the accessor chain
			call, isCall := ast.Unparen(d.rhs).(*ast.CallExpr)
			init := false
			if isCall {
				if callee := an.Callee(info, call); callee != nil {
					init = c08GapReturnsField(p, p.FuncOf(callee), func(i *types.Info, e ast.Expr) bool { return an.FieldOf(i, e) == lpbF }, 0)
				}
			}
			ok = ok && init
		}
		conn := g.CallsTo("consensus/chain.ConnectBlock")
		ok = ok && len(conn) > 0 && len(adv) > 0
		for _, s := range conn {
			ok = ok && argIs(info, s.Call, 1, blk)
			succ := g.ErrNilEdges(s)
			ok = ok && len(succ) > 0
			for e := range succ {
				// no way back to the next generateBlock without advancing
				if g.Reach([]*an.Node{e}, adv)[site.Node] {
					ok = false
				}
			}
		}
		c.Check("last-produced", key, cs.Call.Pos(), ok, "the number handed to generateBlock starts at the restored LpbNo and is set to the number of every block this producer connected before the next block is generated: otherwise Confirms grows past the producer's previous block and the same producer confirms a block twice (finality with fewer than 2n/3+1 distinct producers)")
	}
	if nSites == 0 {
		c.Undecide("last-produced", gen, "no call site of generateBlock found")
	}
	c.Floor("last-produced", 3)
}

// ---------------------------------------------------------------------------
// proposal-removal

func c08GapProposalRemoval(c *rep.Ctx) {
	p := c.Prog
	n := 0
	for _, f := range p.Funcs() {
		if f.Body == nil || an.Rel(f.Pkg.PkgPath) != c08GapDpos {
			continue
		}
		info := f.Info()
		g := f.Graph()
		for _, s := range g.Calls(func(_ *types.Func, call *ast.CallExpr) bool { return an.IsBuiltin(info, call, "delete") }) {
			if len(s.Call.Args) != 2 {
				continue
			}
			tv, has := info.Types[s.Call.Args[0]]
			if !has || !c08GapIsNamed(tv.Type, c08GapDpos, "proposed") {
				continue
			}
			n++
			top := f.TopDecl().Name()
			key := top + "|delete"
			switch top {
			case "consensus/impl/dpos.(proposed).gc":
				list := f.ParamObj(0)
				nonEmpty := c08GapPosAtom(g, "some", func(e ast.Expr) bool {
					call, ok := e.(*ast.CallExpr)
					return ok && an.IsBuiltin(info, call, "len") && an.ObjOf(info, call.Args[0]) == list && list != nil
				})
				ok1, _ := g.GuardedAt(s.Node, nonEmpty, map[string]bool{"some": true})
				// membership: `_, in := filter[k]` with the deleted key; the filter holds exactly the listed ids
				ok2 := false
				keyObj := an.ObjOf(info, s.Call.Args[1])
				for _, nd := range g.Nodes {
					as, isAs := nd.Ast.(*ast.AssignStmt)
					if nd.Kind != an.KStmt || !isAs || len(as.Lhs) != 2 || len(as.Rhs) != 1 {
						continue
					}
					ix, isIx := ast.Unparen(as.Rhs[0]).(*ast.IndexExpr)
					if !isIx || keyObj == nil || an.ObjOf(info, ix.Index) != keyObj {
						continue
					}
					in := an.ObjOf(info, as.Lhs[1])
					filter := an.ObjOf(info, ix.X)
					if in == nil || filter == nil || !c08GapFilterOf(f, filter, list) {
						continue
					}
					if okG, _ := g.GuardedAt(s.Node, c08GapIdentAtom(info, in, "listed"), map[string]bool{"listed": false}); okG {
						ok2 = true
					}
				}
				c.Check("proposal-removal", key+"|non-empty-set", s.Call.Pos(), ok1, "proposals are garbage-collected only against a non-empty producer list: an empty list (the result of most status updates) would drop every proposal, and the next LIB would be decided by a single producer's entry")
				c.Check("proposal-removal", key+"|not-listed", s.Call.Pos(), ok2, "only the proposal of a producer that is absent from the new producer list is dropped (membership looked up with the deleted key in a set filled from that list)")
			case "consensus/impl/dpos.(*bootLoader).load":
				rh := f.ParamObj(0)
				pos := c08GapPosAtom(g, "reset", func(e ast.Expr) bool { return an.ObjOf(info, e) == rh && rh != nil })
				ok, _ := g.GuardedAt(s.Node, pos, map[string]bool{"reset": true})
				c.Check("proposal-removal", key+"|operator-reset", s.Call.Pos(), ok, "at boot a proposal is dropped only under the operator's ForceResetHeight (> 0)")
			default:
				c.Check("proposal-removal", key, s.Call.Pos(), false, "proposals are removed only by proposed.gc (producer left the set) and by the boot-time operator reset")
			}
		}
	}
	c.Floor("proposal-removal", 3)
	_ = n
}

// c08GapFilterOf: filter is a map made in f and filled only with the elements of list.
func c08GapFilterOf(f *an.Func, filter, list types.Object) bool {
	info := f.Info()
	filled, foreign := false, false
	ast.Inspect(f.Body, func(n ast.Node) bool {
		switch s := n.(type) {
		case *ast.RangeStmt:
			if an.ObjOf(info, s.X) != list || s.Value == nil {
				return true
			}
			val := an.ObjOf(info, s.Value)
			ast.Inspect(s.Body, func(m ast.Node) bool {
				if as, ok := m.(*ast.AssignStmt); ok {
					for _, l := range as.Lhs {
						if ix, ok := ast.Unparen(l).(*ast.IndexExpr); ok && an.ObjOf(info, ix.X) == filter && an.ObjOf(info, ix.Index) == val && val != nil {
							filled = true
						}
					}
				}
				return true
			})
		case *ast.AssignStmt:
			for _, l := range s.Lhs {
				if ix, ok := ast.Unparen(l).(*ast.IndexExpr); ok && an.ObjOf(info, ix.X) == filter {
					// counted above when inside the range over list; anything else is foreign
					inRange := false
					ast.Inspect(f.Body, func(m ast.Node) bool {
						if r, ok := m.(*ast.RangeStmt); ok && an.ObjOf(info, r.X) == list && r.Body.Pos() <= s.Pos() && s.End() <= r.Body.End() {
							inRange = true
						}
						return true
					})
					if !inRange {
						foreign = true
					}
				}
			}
		}
		return true
	})
	return filled && !foreign
}

// ---------------------------------------------------------------------------
// proposal-floor

func c08GapProposalFloor(c *rep.Ctx) {
	p := c.Prog
	prpsdF := p.LookupField(c08GapDpos, "libStatus", "Prpsd")
	plibF := p.LookupField(c08GapDpos, "plInfo", "Plib")
	noF := p.LookupField(c08GapDpos, "blockInfo", "BlockNo")
	genF := p.LookupField(c08GapDpos, "libStatus", "genesisInfo")
	if prpsdF == nil || plibF == nil || noF == nil || genF == nil {
		c.Undecide("proposal-floor", "dpos.libStatus.Prpsd", "fields not found")
		return
	}
	// (a) direct element writes of the proposal map outside proposed.set
	for _, w := range p.FieldWrites(map[*types.Var]bool{prpsdF: true}) {
		if w.Fn == nil {
			continue
		}
		fn := w.Fn.TopDecl().Name()
		if w.How == "literal" && fn == "consensus/impl/dpos.newLibStatus" {
			continue
		}
		g := w.Fn.Graph()
		info := w.Fn.Info()
		node := g.NodeContaining(w.Pos)
		ok := false
		if as, isAs := node.Ast.(*ast.AssignStmt); isAs && len(as.Lhs) == 1 && len(as.Rhs) == 1 {
			if _, isIx := ast.Unparen(as.Lhs[0]).(*ast.IndexExpr); isIx {
				val := an.ObjOf(info, as.Rhs[0])
				real := c08GapPosAtom(g, "real", func(e ast.Expr) bool {
					sel, isSel := e.(*ast.SelectorExpr)
					if !isSel || an.FieldOf(info, sel) != noF {
						return false
					}
					in, isIn := ast.Unparen(sel.X).(*ast.SelectorExpr)
					return isIn && an.FieldOf(info, in) == plibF && an.ObjOf(info, in.X) == val && val != nil
				})
				ok, _ = g.GuardedAt(node, real, map[string]bool{"real": true})
			}
		}
		c.Check("proposal-floor", fn+"|Prpsd:"+w.How, w.Pos, ok, "a stored proposal is replaced by a recomputed one only when the recomputed one names a real block (Plib.BlockNo > 0): a genesis placeholder would pull that producer's entry to 0 and with it the 2/3 position, i.e. the next LIB could be lower than the reported one")
	}
	// (b) the genesis placeholder is filed only for a producer without an entry
	n := 0
	for _, s := range p.CallSitesOf(map[string]bool{"consensus/impl/dpos.(*libStatus).updatePreLIB": true, "consensus/impl/dpos.(proposed).set": true}) {
		if s.Fn == nil || len(s.Call.Args) != 2 {
			continue
		}
		f := s.Fn
		info := f.Info()
		g := f.Graph()
		placeholder := false
		ast.Inspect(c08GapResolve(g, info, s.Call.Args[1]), func(n ast.Node) bool {
			if lit, ok := n.(*ast.CompositeLit); ok {
				if v := c08GapKeyed(lit, "Plib"); v != nil && an.FieldOf(info, c08GapResolve(g, info, v)) == genF {
					placeholder = true
				}
			}
			return true
		})
		if !placeholder {
			continue
		}
		n++
		site, found := c08GapSiteOf(g, s.Call)
		ok := false
		if found {
			keyTxt := an.ExprString(ast.Unparen(s.Call.Args[0]))
			for _, nd := range g.Nodes {
				as, isAs := nd.Ast.(*ast.AssignStmt)
				if nd.Kind != an.KStmt || !isAs || len(as.Lhs) != 2 || len(as.Rhs) != 1 {
					continue
				}
				ix, isIx := ast.Unparen(as.Rhs[0]).(*ast.IndexExpr)
				if !isIx || an.FieldOf(info, ix.X) != prpsdF || an.ExprString(ast.Unparen(ix.Index)) != keyTxt {
					continue
				}
				has := an.ObjOf(info, as.Lhs[1])
				if has == nil {
					continue
				}
				if okG, _ := g.GuardedAt(site.Node, c08GapIdentAtom(info, has, "has"), map[string]bool{"has": false}); okG {
					ok = true
				}
			}
		}
		c.Check("proposal-floor", f.TopDecl().Name()+"|genesis-placeholder", s.Call.Pos(), ok, "the genesis placeholder is filed only for a producer that has no proposal yet (looked up under the same key): resetting an existing proposal lowers the 2/3 position of calcLIB")
	}
	if n == 0 {
		c.Undecide("proposal-floor", "consensus/impl/dpos.(*libStatus).addConfirmInfo|genesis-placeholder", "placeholder site not found")
	}
	c.Floor("proposal-floor", 2)
}

// ---------------------------------------------------------------------------
// boot-reset

func c08GapBootReset(c *rep.Ctx) {
	const fn = "consensus/impl/dpos.(*bootLoader).load"
	f := c.Fn(fn)
	if f == nil {
		return
	}
	p := c.Prog
	libF := p.LookupField(c08GapDpos, "libStatus", "Lib")
	g := f.Graph()
	info := f.Info()
	rh := f.ParamObj(0)
	pos := c08GapPosAtom(g, "reset", func(e ast.Expr) bool { return an.ObjOf(info, e) == rh && rh != nil })
	n := 0
	for _, w := range p.FieldWrites(map[*types.Var]bool{libF: true}) {
		if w.Fn == nil || w.Fn.TopDecl() != f {
			continue
		}
		n++
		ok, how := g.GuardedAt(g.NodeContaining(w.Pos), pos, map[string]bool{"reset": true})
		c.Check("boot-reset", fn+"|Lib:"+w.How, w.Pos, ok, "the stored LIB is discarded at boot only when the operator set ForceResetHeight (> 0): "+how+"; with the default 0 an unguarded `Lib.BlockNo > resetHeight` resets every non-genesis LIB on every restart and the node then accepts forks below what it reported irreversible")
	}
	for _, s := range g.CallsTo("consensus/impl/dpos.reset") {
		n++
		ok, _ := g.GuardedAt(s.Node, pos, map[string]bool{"reset": true})
		c.Check("boot-reset", fn+"|delete-stored-status", s.Call.Pos(), ok, "the stored status is deleted from the DB only under the operator's reset")
	}
	if n == 0 {
		c.Undecide("boot-reset", fn, "no reset of the LIB found in the boot loader")
	}
}

// ---------------------------------------------------------------------------
// restore

func c08GapRestore(c *rep.Ctx) {
	p := c.Prog
	lsF := p.LookupField(c08GapDpos, "bootLoader", "ls")
	stF := p.LookupField(c08GapDpos, "Status", "libState")
	doneF := p.LookupField(c08GapDpos, "Status", "done")
	if lsF == nil || stF == nil || doneF == nil {
		c.Undecide("restore", "dpos.bootLoader.ls", "fields not found")
		return
	}
	// (a) the boot loader keeps the status it loaded
	if f := c.Fn("consensus/impl/dpos.(*bootLoader).load"); f != nil {
		g := f.Graph()
		info := f.Info()
		sites := g.CallsTo("consensus/impl/dpos.(*bootLoader).loadLibStatus")
		ok := len(sites) == 1
		if ok {
			v := g.ResultVarAt(sites[0], 0)
			keep := an.Set{}
			for _, w := range p.FieldWrites(map[*types.Var]bool{lsF: true}) {
				if w.Fn != f {
					continue
				}
				n := g.NodeContaining(w.Pos)
				if as, isAs := n.Ast.(*ast.AssignStmt); isAs && len(as.Rhs) == 1 && v != nil && an.ObjOf(info, as.Rhs[0]) == v {
					keep[n] = true
				}
			}
			loaded := g.EdgesImplying(an.NilAtom(info, v), map[string]bool{"nil": false})
			ok = v != nil && len(keep) > 0 && len(loaded) > 0
			for e := range loaded {
				ok = ok && g.PostDominated(e, keep)
			}
		}
		c.Check("restore", "consensus/impl/dpos.(*bootLoader).load|keeps-loaded", posOf(sites), ok, "whenever a stored status was loaded (non-nil), the boot loader keeps it (bootLoader.ls): otherwise the node restarts with an empty LIB and accepts forks below the LIB it reported before the restart")
	}
	// (b) the running Status takes it over
	if f := c.Fn("consensus/impl/dpos.(*Status).load"); f != nil {
		g := f.Graph()
		info := f.Info()
		gates := an.Set{}
		for _, w := range p.FieldWrites(map[*types.Var]bool{stF: true}) {
			if w.Fn != f {
				continue
			}
			n := g.NodeContaining(w.Pos)
			if as, isAs := n.Ast.(*ast.AssignStmt); isAs && len(as.Rhs) == 1 && an.FieldOf(info, as.Rhs[0]) == lsF {
				gates[n] = true
			}
		}
		taken := len(gates) > 0
		// already done, or nothing loaded
		for n := range g.EdgesImplying(an.FieldAtom(info, doneF, "done"), map[string]bool{"done": true}) {
			gates[n] = true
		}
		nilLs := func(e ast.Expr) (string, bool, bool) {
			be, ok := e.(*ast.BinaryExpr)
			if !ok || (be.Op != token.EQL && be.Op != token.NEQ) {
				return "", false, false
			}
			for _, pr := range [][2]ast.Expr{{be.X, be.Y}, {be.Y, be.X}} {
				if tv, has := info.Types[pr[1]]; has && tv.IsNil() && an.FieldOf(info, c08GapResolve(g, info, pr[0])) == lsF {
					return "nols", be.Op == token.NEQ, true
				}
			}
			return "", false, false
		}
		for n := range g.EdgesImplying(nilLs, map[string]bool{"nols": true}) {
			gates[n] = true
		}
		c.Check("restore", "consensus/impl/dpos.(*Status).load|takes-over", f.Pos(), taken && g.Dominated(g.Exit, gates), "the first status update installs the boot loader's restored status as the running one on every path (unless already done or nothing was loaded)")
	}
	// (c) a failed decode never yields an (empty) status
	if f := c.Fn("consensus/impl/dpos.(*bootLoader).decodeStatus"); f != nil {
		g := f.Graph()
		info := f.Info()
		dec := g.CallsTo("internal/enc/gob.Decode")
		ok := len(dec) == 1
		if ok {
			succ := g.ErrNilEdges(dec[0])
			ok = len(succ) > 0
			n := 0
			for _, r := range g.Returns() {
				rs := r.Ast.(*ast.ReturnStmt)
				if len(rs.Results) != 1 {
					ok = false
					continue
				}
				if tv, has := info.Types[rs.Results[0]]; has && tv.IsNil() {
					n++
					ok = ok && g.Dominated(r, succ)
					continue
				}
				// returning the decoder's error itself is as good
			}
			ok = ok && n > 0
		}
		c.Check("restore", "consensus/impl/dpos.(*bootLoader).decodeStatus|decode-ok", posOf(dec), ok, "success is reported only when the stored status was decoded: a swallowed decode error would hand a half-filled status with an empty LIB to the running node")
	}
	// (d) the rebuild from blocks includes the end block and feeds every block before recomputing
	if f := c.Fn("consensus/impl/dpos.loadPlibStatus"); f != nil {
		g := f.Graph()
		info := f.Info()
		end := f.ParamObj(1)
		adds := g.CallsTo("consensus/impl/dpos.(*libStatus).addConfirmInfo")
		upds := g.CallsTo("consensus/impl/dpos.(*libStatus).update")
		ok := len(adds) == 1 && len(upds) == 1 && end != nil
		var pos token.Pos
		if ok {
			var cursor types.Object
			for _, n := range g.Nodes {
				if s, isS := n.Ast.(*ast.IncDecStmt); isS && n.Kind == an.KStmt && s.Tok == token.INC {
					cursor = an.ObjOf(info, s.X)
				}
			}
			roleI := func(e ast.Expr) bool { return cursor != nil && an.ObjOf(info, e) == cursor }
			roleEnd := func(e ast.Expr) bool { return an.ObjOf(info, e) == end }
			var loopCmps []an.OrdCmp
			cmps, und := g.OrdCmps(roleI, roleEnd, 0)
			for _, cm := range cmps {
				if g.InLoop(cm.Node) {
					loopCmps = append(loopCmps, cm)
				}
			}
			ok = len(loopCmps) == 1 && len(und) == 0
			if ok {
				pos = loopCmps[0].Expr.Pos()
				for _, sign := range []int{-1, 0} {
					e := g.EdgeFor(loopCmps[0], sign)
					ok = ok && e != nil && g.Reach([]*an.Node{e}, nil)[adds[0].Node] && g.DominatedFrom(e, upds[0].Node, nodesOf(adds))
				}
				e := g.EdgeFor(loopCmps[0], +1)
				ok = ok && e != nil && !g.Reach([]*an.Node{e}, nil)[adds[0].Node]
				// the block fed is the one read for the cursor
				get := g.CallsTo("consensus.(ChainDB).GetBlockByNo")
				ok = ok && len(get) == 1 && argIs(info, get[0].Call, 0, cursor) && argIs(info, adds[0].Call, 0, g.ResultVarAt(get[0], 0))
			}
		}
		c.Check("restore", "consensus/impl/dpos.loadPlibStatus|covers-end", pos, ok, "the status is rebuilt from every stored block up to and including the end block (the best block / the rollback target), each added before the proposals are recomputed: the restored status equals the one recomputed from the blocks")
	}
	// (e) load() rebuilds up to the number it was given
	if f := c.Fn("consensus/impl/dpos.(*libStatus).load"); f != nil {
		g := f.Graph()
		info := f.Info()
		end := f.ParamObj(0)
		s := g.CallsTo("consensus/impl/dpos.loadPlibStatus")
		ok := len(s) == 1 && len(s[0].Call.Args) == 3 && argIs(info, s[0].Call, 1, end)
		if ok {
			beg := c08GapResolve(g, info, s[0].Call.Args[0])
			call, isCall := beg.(*ast.CallExpr)
			ok = isCall && an.CalleeName(info, call) == "consensus/impl/dpos.(*libStatus).begRecoBlockNo" && argIs(info, call, 0, end)
		}
		c.Check("restore", "consensus/impl/dpos.(*libStatus).load|range", posOf(s), ok, "the rebuild runs from the recovery start computed for the requested end block up to that end block")
	}
}

// ---------------------------------------------------------------------------
// rollback-target

func c08GapRollbackTarget(c *rep.Ctx) {
	if f := c.Fn("consensus/impl/dpos.(*libStatus).rollbackStatusTo"); f != nil {
		g := f.Graph()
		info := f.Info()
		blk := f.ParamObj(0)
		s := g.CallsTo("consensus/impl/dpos.(*libStatus).load")
		ok := len(s) == 1 && len(s[0].Call.Args) == 1
		form := ""
		if ok {
			lf, okL := c08GapLin(g, info, s[0].Call.Args[0], func(e ast.Expr) string {
				if b := c08GapBlockOfNo(info, e); b != nil && an.ObjOf(info, b) == blk && blk != nil {
					return "target.no"
				}
				return ""
			})
			form = lf.String()
			ok = okL && c08GapIsOnly(lf, "target.no") && g.Dominated(g.Exit, nodesOf(s))
		}
		c.Check("rollback-target", "consensus/impl/dpos.(*libStatus).rollbackStatusTo|load(target)", posOf(s), ok, "a reorganisation rebuilds the confirmation status exactly up to the block it rolls back to ("+form+"): entries of the abandoned branch above it must not survive and be confirmed by blocks of the new branch")
	}
	if f := c.Fn("consensus/impl/dpos.(*Status).Update"); f != nil {
		g := f.Graph()
		info := f.Info()
		blk := f.ParamObj(0)
		for _, name := range []string{"consensus/impl/dpos.(*libStatus).rollbackStatusTo", "consensus/impl/dpos.(*libStatus).addConfirmInfo"} {
			s := g.CallsTo(name)
			ok := len(s) == 1 && argIs(info, s[0].Call, 0, blk)
			c.Check("rollback-target", "consensus/impl/dpos.(*Status).Update|"+shortName(name), posOf(s), ok, "the block handed to the status update is the one that is added to / rolled back to in the confirmation status")
		}
	}
}

// ---------------------------------------------------------------------------
// second group: lib-monotone, dispatch, status-update (extends-best, best-recorded), range-source

func init() {
	extend("C08", func(c *rep.Ctx) {
		// instance counts confirmed by hand on the reference tree
		for rule, n := range map[string]int{"lib-accessor": 3, "calclib-field": 2, "prelib-record": 3, "boot-reset": 2, "restore": 5, "rollback-target": 3, "dispatch": 3, "status-update": 3, "range-source": 1, "lib-monotone": 1} {
			c.Floor(rule, n)
		}
	})
	extend("C08", c08GapLibMonotone)
	extend("C08", c08GapDispatch)
	extend("C08", c08GapStatusUpdate)
	extend("C08", c08GapRangeSource)
}

// c08GapLibMonotone: the run-time write of the LIB never lowers it.  calcLIB
// takes position (len-1)/3 of the proposals that are present; proposed.gc
// removes the entries of producers that left the set, so the position can move
// to a lower proposal (see the report: producers A..D, LIB 5, C ousted, next
// block by A -> LIB 4).  Without a guard "new number >= current number" at the
// write (or at its only call) the reported LIB can decrease.
func c08GapLibMonotone(c *rep.Ctx) {
	p := c.Prog
	libF := p.LookupField(c08GapDpos, "libStatus", "Lib")
	noF := p.LookupField(c08GapDpos, "blockInfo", "BlockNo")
	if libF == nil || noF == nil {
		c.Undecide("lib-monotone", "dpos.libStatus.Lib", "field not found")
		return
	}
	const upd = "consensus/impl/dpos.(*Status).updateLIB"
	// guardedNotLower: node is reached only when  <newObj>.BlockNo  is not lower than  Lib.BlockNo
	guardedNotLower := func(f *an.Func, node *an.Node, newObj types.Object) bool {
		if node == nil || newObj == nil {
			return false
		}
		g := f.Graph()
		info := f.Info()
		isNew := func(e ast.Expr) bool {
			sel, ok := c08GapResolve(g, info, e).(*ast.SelectorExpr)
			return ok && an.FieldOf(info, sel) == noF && an.ObjOf(info, sel.X) == newObj
		}
		isCur := func(e ast.Expr) bool {
			r := c08GapResolve(g, info, e)
			if sel, ok := r.(*ast.SelectorExpr); ok && an.FieldOf(info, sel) == noF && an.FieldOf(info, c08GapResolve(g, info, sel.X)) == libF {
				return true
			}
			if call, ok := r.(*ast.CallExpr); ok {
				if callee := an.Callee(info, call); callee != nil {
					return c08GapReturnsField(p, p.FuncOf(callee), func(i *types.Info, x ast.Expr) bool {
						s, ok := ast.Unparen(x).(*ast.SelectorExpr)
						return ok && an.FieldOf(i, s) == noF && an.FieldOf(i, s.X) == libF
					}, 0)
				}
			}
			return false
		}
		isLibPtr := func(e ast.Expr) bool {
			return an.FieldOf(info, c08GapResolve(g, info, e)) == libF
		}
		at := func(e ast.Expr) (string, bool, bool) {
			be, ok := ast.Unparen(e).(*ast.BinaryExpr)
			if !ok {
				return "", false, false
			}
			x, y, op := be.X, be.Y, be.Op
			// "a current LIB exists": Lib != nil
			if op == token.NEQ || op == token.EQL {
				if tv, has := info.Types[y]; has && tv.IsNil() && isLibPtr(x) {
					return "haslib", op == token.EQL, true
				}
				if tv, has := info.Types[x]; has && tv.IsNil() && isLibPtr(y) {
					return "haslib", op == token.EQL, true
				}
			}
			if isCur(x) && isNew(y) {
				x, y = y, x
				switch op {
				case token.LSS:
					op = token.GTR
				case token.LEQ:
					op = token.GEQ
				case token.GTR:
					op = token.LSS
				case token.GEQ:
					op = token.LEQ
				}
			}
			if !isNew(x) || !isCur(y) {
				return "", false, false
			}
			switch op {
			case token.LSS: // new < cur
				return "lower", false, true
			case token.GEQ:
				return "lower", true, true
			case token.GTR: // new > cur
				return "higher", false, true
			case token.LEQ:
				return "higher", true, true
			}
			return "", false, false
		}
		if ok, _ := g.GuardedAt(node, at, map[string]bool{"lower": false}); ok {
			return true
		}
		if ok, _ := g.GuardedAt(node, at, map[string]bool{"higher": true}); ok {
			return true
		}
		// `Lib != nil && new < Lib.BlockNo` refused: without a current LIB there is nothing to be lower than
		return g.GuardedAtAssuming(node, at, map[string]bool{"lower": false}, func(atoms []string) [][]string {
			for _, a := range atoms {
				if a == "haslib" {
					return [][]string{{"haslib"}}
				}
			}
			return nil
		})
	}
	n := 0
	for _, w := range p.FieldWrites(map[*types.Var]bool{libF: true}) {
		if w.Fn == nil || w.Fn.TopDecl().Name() != upd {
			continue
		}
		n++
		f := w.Fn
		ok := guardedNotLower(f, f.Graph().NodeContaining(w.Pos), f.ParamObj(0))
		if !ok {
			// or every call hands over a value that was compared at the call site
			sites := p.CallSitesOf(map[string]bool{upd: true})
			ok = len(sites) > 0
			for _, s := range sites {
				if s.Fn == nil || len(s.Call.Args) != 1 {
					ok = false
					continue
				}
				cg := s.Fn.Graph()
				site, found := c08GapSiteOf(cg, s.Call)
				ok = ok && found && guardedNotLower(s.Fn, site.Node, an.ObjOf(s.Fn.Info(), s.Call.Args[0]))
			}
		}
		c.Check("lib-monotone", upd+"|not-lower", w.Pos, ok, "the LIB is replaced only by a block whose number is not lower than the current LIB's (tested at the write or at its call): calcLIB takes position (len-1)/3 of the proposals present, and after proposed.gc dropped the entry of a producer that left the set that position can name a lower block")
	}
	if n == 0 {
		c.Undecide("lib-monotone", upd, "run-time write of the LIB not found")
	}
}

// c08GapDispatch: the consensus object handed to the chain service (*DPoS)
// answers the finality calls with Status' methods (embedded *Status, not shadowed).
func c08GapDispatch(c *rep.Ctx) {
	pk := c.Prog.Pkg(c08GapDpos)
	if pk == nil || pk.Types == nil {
		c.Undecide("dispatch", c08GapDpos, "package not loaded")
		return
	}
	tn, _ := pk.Types.Scope().Lookup("DPoS").(*types.TypeName)
	if tn == nil {
		c.Undecide("dispatch", "dpos.DPoS", "type not found")
		return
	}
	ms := types.NewMethodSet(types.NewPointer(tn.Type()))
	for _, m := range []string{"NeedReorganization", "Update", "Save"} {
		sel := ms.Lookup(pk.Types, m)
		got := ""
		var pos token.Pos
		if sel != nil {
			if fn, ok := sel.Obj().(*types.Func); ok {
				got = an.FuncName(fn)
				pos = fn.Pos()
			}
		}
		c.Check("dispatch", "consensus/impl/dpos.(*DPoS)."+m, pos, got == "consensus/impl/dpos.(*Status)."+m, "the DPoS consensus object answers "+m+" with the finality status' method (resolved: "+got+"); a method of the same name on DPoS would shadow it")
	}
}

// c08GapStatusUpdate: a block extends the recorded confirmation status only
// when its parent IS the recorded best block (by hash), and every update
// records the block as the new best.
func c08GapStatusUpdate(c *rep.Ctx) {
	const fn = "consensus/impl/dpos.(*Status).Update"
	f := c.Fn(fn)
	if f == nil {
		return
	}
	p := c.Prog
	g := f.Graph()
	info := f.Info()
	bestF := p.LookupField(c08GapDpos, "Status", "bestBlock")
	blk := f.ParamObj(0)
	if bestF == nil || blk == nil {
		c.Undecide("status-update", fn, "field Status.bestBlock / block parameter not found")
		return
	}
	// identity of a block / of a block's parent, any of the hash spellings
	idOf := func(e ast.Expr, parent bool) ast.Expr {
		call, ok := c08GapResolve(g, info, e).(*ast.CallExpr)
		if !ok {
			return nil
		}
		sel, ok := ast.Unparen(call.Fun).(*ast.SelectorExpr)
		if !ok {
			return nil
		}
		switch an.CalleeName(info, call) {
		case "types.(*Block).ID", "types.(*Block).BlockHash", "types.(*Block).GetHash", "types.(*Block).BlockID":
			if !parent {
				return sel.X
			}
		case "types.(*Block).PrevID", "types.(*Block).PrevBlockID":
			if parent {
				return sel.X
			}
		case "types.(*BlockHeader).GetPrevBlockHash":
			if parent {
				if h, ok := ast.Unparen(sel.X).(*ast.CallExpr); ok && an.CalleeName(info, h) == "types.(*Block).GetHeader" {
					return ast.Unparen(h.Fun).(*ast.SelectorExpr).X
				}
			}
		}
		return nil
	}
	pair := func(a, b ast.Expr) bool {
		for _, pr := range [][2]ast.Expr{{a, b}, {b, a}} {
			x, y := idOf(pr[0], false), idOf(pr[1], true)
			if x != nil && y != nil && an.FieldOf(info, c08GapResolve(g, info, x)) == bestF && an.ObjOf(info, y) == blk {
				return true
			}
		}
		return false
	}
	at := func(e ast.Expr) (string, bool, bool) {
		switch x := ast.Unparen(e).(type) {
		case *ast.BinaryExpr:
			if (x.Op == token.EQL || x.Op == token.NEQ) && pair(x.X, x.Y) {
				return "extends", x.Op == token.NEQ, true
			}
		case *ast.CallExpr:
			if an.CalleeName(info, x) == "bytes.Equal" && len(x.Args) == 2 && pair(x.Args[0], x.Args[1]) {
				return "extends", false, true
			}
		}
		return "", false, false
	}
	adds := g.CallsTo("consensus/impl/dpos.(*libStatus).addConfirmInfo")
	for _, s := range adds {
		ok, how := g.GuardedAt(s.Node, at, map[string]bool{"extends": true})
		c.Check("status-update", fn+"|extends-best", s.Call.Pos(), ok, "a block is appended to the confirmation list only when its parent hash is the hash of the recorded best block ("+how+"); any other block (rollback target, restored best after a failed roll-forward) rebuilds the list from the stored blocks")
	}
	if len(adds) == 0 {
		c.Undecide("status-update", fn+"|extends-best", "addConfirmInfo not called")
	}
	rec := an.Set{}
	for _, w := range p.FieldWrites(map[*types.Var]bool{bestF: true}) {
		if w.Fn != f {
			continue
		}
		n := g.NodeContaining(w.Pos)
		if as, ok := n.Ast.(*ast.AssignStmt); ok && len(as.Rhs) == 1 && an.ObjOf(info, as.Rhs[0]) == blk {
			rec[n] = true
		}
	}
	c.Check("status-update", fn+"|best-recorded", f.Pos(), len(rec) > 0 && g.Dominated(g.Exit, rec), "every status update (connected block or rollback) records the block as the new best: the next update is classified against it")
	thr := g.CallsTo("consensus/impl/dpos.(*libStatus).setConfirmsRequired")
	c.Check("status-update", fn+"|threshold-refreshed", posOf(thr), len(thr) > 0 && g.Dominated(g.Exit, nodesOf(thr)), "every status update (connected block or rollback) re-derives the confirmation threshold from the current producer set")
}

// c08GapRangeSource: the confirmation range of an entry is the header's Confirms value, unmodified.
func c08GapRangeSource(c *rep.Ctx) {
	p := c.Prog
	rangeF := p.LookupField(c08GapDpos, "blockInfo", "ConfirmRange")
	if rangeF == nil {
		c.Undecide("range-source", "dpos.blockInfo.ConfirmRange", "field not found")
		return
	}
	n := 0
	for _, w := range p.FieldWrites(map[*types.Var]bool{rangeF: true}) {
		if w.Fn == nil {
			continue
		}
		f := w.Fn
		g := f.Graph()
		info := f.Info()
		var val ast.Expr
		if w.How == "literal" {
			ast.Inspect(f.Body, func(m ast.Node) bool {
				if kv, ok := m.(*ast.KeyValueExpr); ok {
					if id, ok := kv.Key.(*ast.Ident); ok && info.Uses[id] == rangeF {
						val = kv.Value
					}
				}
				return true
			})
		} else if as, ok := g.NodeContaining(w.Pos).Ast.(*ast.AssignStmt); ok && len(as.Rhs) == 1 && as.Tok == token.ASSIGN {
			val = as.Rhs[0]
		}
		n++
		ok := val != nil
		form := ""
		if ok {
			lf, okL := c08GapLin(g, info, val, func(e ast.Expr) string {
				call, isCall := e.(*ast.CallExpr)
				if !isCall {
					return ""
				}
				sel, isSel := ast.Unparen(call.Fun).(*ast.SelectorExpr)
				if !isSel {
					return ""
				}
				var b ast.Expr
				switch an.CalleeName(info, call) {
				case "types.(*Block).Confirms":
					b = sel.X
				case "types.(*BlockHeader).GetConfirms":
					if h, ok := ast.Unparen(sel.X).(*ast.CallExpr); ok && an.CalleeName(info, h) == "types.(*Block).GetHeader" {
						b = ast.Unparen(h.Fun).(*ast.SelectorExpr).X
					}
				}
				if b != nil && c08GapParamIndex(f, an.ObjOf(info, b)) >= 0 {
					return "header.confirms"
				}
				return ""
			})
			form = lf.String()
			ok = okL && c08GapIsOnly(lf, "header.confirms")
		}
		c.Check("range-source", f.TopDecl().Name()+"|ConfirmRange:"+w.How, w.Pos, ok, "the range of blocks an entry confirms is the Confirms value of the block's header, unmodified ("+form+"): one more and the producer's previous block is confirmed twice")
	}
	if n == 0 {
		c.Undecide("range-source", "dpos.blockInfo.ConfirmRange", "no write found")
	}
}

// ---------------------------------------------------------------------------
// threshold-unit: a producer COUNT goes in where the threshold 2n/3+1 is derived
//
// newLibStatus(bpCount) / setConfirmsRequired(bpCount) apply n -> 2n/3+1.  Handing
// them a value that already is a threshold applies the formula twice (23 -> 16 ->
// 11 -> 8): entries then need fewer than 2n/3+1 confirmations.  The obligation
// "is a producer count" is pushed from the two functions through parameters and
// struct fields to the expressions that originate the value.
func init() { extend("C08", c08GapThresholdUnit) }

func c08GapThresholdUnit(c *rep.Ctx) {
	p := c.Prog
	reqF := p.LookupField(c08GapDpos, "libStatus", "confirmsRequired")
	if reqF == nil {
		c.Undecide("threshold-unit", "dpos.libStatus.confirmsRequired", "field not found")
		return
	}
	type oblig struct {
		fn  string
		idx int
	}
	counts := map[string]bool{
		"consensus/impl/dpos/bp.(ClusterMember).Size": true,
		"consensus/impl/dpos/bp.(*Snapshots).Size":    true,
		"consensus/impl/dpos/bp.(*Cluster).Size":      true,
	}
	seenO := map[oblig]bool{}
	seenF := map[*types.Var]bool{}
	work := []oblig{{"consensus/impl/dpos.newLibStatus", 0}, {"consensus/impl/dpos.(*libStatus).setConfirmsRequired", 0}}
	leaves := 0
	var classify func(f *an.Func, e ast.Expr, where string, pos token.Pos)
	classify = func(f *an.Func, e ast.Expr, where string, pos token.Pos) {
		g := f.Graph()
		info := f.Info()
		e = c08GapResolve(g, info, e)
		for {
			call, ok := e.(*ast.CallExpr)
			if ok && len(call.Args) == 1 {
				if tv, has := info.Types[call.Fun]; has && tv.IsType() {
					e = c08GapResolve(g, info, call.Args[0])
					continue
				}
			}
			break
		}
		if o := an.ObjOf(info, e); o != nil {
			if _, isId := e.(*ast.Ident); isId {
				if i := c08GapParamIndex(f, o); i >= 0 && f.Obj != nil {
					ob := oblig{an.FuncName(f.Obj), i}
					if !seenO[ob] {
						seenO[ob] = true
						work = append(work, ob)
					}
					return
				}
			}
		}
		if fld := an.FieldOf(info, e); fld != nil {
			if fld == reqF {
				leaves++
				c.Check("threshold-unit", where, pos, false, "a value that already is a confirmation threshold (libStatus.confirmsRequired) is handed on as a producer count: the formula 2n/3+1 is applied again and confirmation entries are created with fewer than 2n/3+1 required confirmations")
				return
			}
			if !seenF[fld] {
				seenF[fld] = true
				for _, w := range p.FieldWrites(map[*types.Var]bool{fld: true}) {
					if w.Fn == nil {
						continue
					}
					wi := w.Fn.Info()
					var val ast.Expr
					if w.How == "literal" {
						ast.Inspect(w.Fn.Body, func(m ast.Node) bool {
							if kv, ok := m.(*ast.KeyValueExpr); ok && kv.Pos() <= w.Pos && w.Pos <= kv.End() {
								if id, ok := kv.Key.(*ast.Ident); ok && wi.Uses[id] == fld {
									val = kv.Value
								}
							}
							return true
						})
					} else if as, ok := w.Fn.Graph().NodeContaining(w.Pos).Ast.(*ast.AssignStmt); ok && len(as.Rhs) == 1 && as.Tok == token.ASSIGN {
						val = as.Rhs[0]
					}
					if val == nil {
						c.Undecide("threshold-unit", w.Fn.TopDecl().Name()+"|"+fld.Name(), "write of a field that carries the producer count is not a plain value")
						continue
					}
					classify(w.Fn, val, w.Fn.TopDecl().Name()+"|field "+fld.Name(), w.Pos)
				}
			}
			return
		}
		if tv, has := info.Types[e]; has && tv.Value != nil {
			leaves++
			c.CheckTrivial("threshold-unit", where, pos, true, "a constant producer count")
			return
		}
		if call, ok := e.(*ast.CallExpr); ok && counts[an.CalleeName(info, call)] {
			leaves++
			c.Check("threshold-unit", where, pos, true, "the threshold is derived from the size of the producer set")
			return
		}
		c.Undecide("threshold-unit", where, "origin of the value handed on as producer count not recognised: "+an.ExprString(e))
	}
	for len(work) > 0 {
		ob := work[0]
		work = work[1:]
		seenO[ob] = true
		for _, s := range p.CallSitesOf(map[string]bool{ob.fn: true}) {
			if s.Fn == nil || ob.idx >= len(s.Call.Args) {
				continue
			}
			classify(s.Fn, s.Call.Args[ob.idx], s.Fn.TopDecl().Name()+"|"+shortName(ob.fn), s.Call.Pos())
		}
	}
	if leaves < 2 {
		c.Undecide("threshold-unit", "consensus/impl/dpos.newLibStatus", "fewer than 2 origins of the producer count found")
	}
}
