package props

import (
	"go/ast"
	"go/token"
	"go/types"
	"sort"
	"strings"

	"verif/checker/internal/an"
	"verif/checker/internal/rep"
)

// ---------------------------------------------------------------------------
// Receipt / event / chain-id codecs: writer and reader field sequences

// c19Group is a run of consecutive accesses to one field in a codec.
type c19Group struct {
	field *types.Var
	kinds []string // encoder kinds in order ("len:binary.PutUint32", "Write", "branch", ...)
	must  bool     // some access of the group is executed on every success path
	pos   token.Pos
	accs  []an.FieldUse
}

func (g c19Group) kindString() string { return strings.Join(g.kinds, "+") }

// c19Encoded decides whether a read of a field contributes to the byte stream
// and how: directly, through a pure call whose result is written (one level:
// ChainIdVersion(x), fmt.Sprintf(.., x)), or by deciding a branch.
func c19Encoded(p *an.Prog, a an.FieldUse) (string, bool) {
	if a.Kind != "read" {
		return "", false
	}
	if k, ok := c19ByteSink(a); ok {
		if a.ViaLen {
			return "len:" + k, true
		}
		return k, true
	}
	if a.InCond {
		if a.ViaLen {
			return "branch(len)", true
		}
		return "branch", true
	}
	if a.SinkCall != nil && a.SinkFn != nil {
		outer := p.SinkOfCall(a.Fn, a.SinkCall)
		if k, ok := c19ByteSink(outer); ok {
			return "via " + a.SinkFn.Name() + ":" + k, true
		}
	}
	if a.SinkCall == nil && !a.Returned && a.CopyTo == nil {
		// operand of a string concatenation (`x.A + "/" + x.B`, the operator
		// spelling of Sprintf("%s/%s", ..)): the concatenated text is followed to
		// the call that consumes it
		if outer, ok := c19ConcatSink(a); ok {
			if k, ok := c19ByteSink(outer); ok {
				return "via +:" + k, true
			}
		}
	}
	return "", false
}

// c19ConcatSink: the field read at a.Pos is an operand of a string
// concatenation; returns where the concatenated value is consumed: the call it
// is an argument of (through conversions such as []byte(..)), or, when it is
// stored in a local variable, the first call after the store that takes the
// variable (again through conversions) -- the same two steps the field tracer
// takes for a value that is passed on directly.
func c19ConcatSink(a an.FieldUse) (an.FieldUse, bool) {
	out := an.FieldUse{SinkArg: -2, Kind: "read", Fn: a.Fn}
	f := a.Fn
	if f == nil || f.Body == nil {
		return out, false
	}
	info := f.Info()
	// ancestors of the selector
	var stack, path []ast.Node
	ast.Inspect(f.Body, func(n ast.Node) bool {
		if n == nil {
			stack = stack[:len(stack)-1]
			return true
		}
		stack = append(stack, n)
		if sel, ok := n.(*ast.SelectorExpr); ok && path == nil && sel.Sel.Pos() == a.Pos {
			path = append([]ast.Node(nil), stack...)
		}
		return true
	})
	if path == nil {
		return out, false
	}
	isConv := func(call *ast.CallExpr) bool {
		tv, ok := info.Types[call.Fun]
		return ok && tv.IsType() && len(call.Args) == 1
	}
	var unconv func(e ast.Expr) ast.Expr
	unconv = func(e ast.Expr) ast.Expr {
		e = ast.Unparen(e)
		if call, ok := e.(*ast.CallExpr); ok && isConv(call) {
			return unconv(call.Args[0])
		}
		return e
	}
	i := len(path) - 1
	cur := path[i]
	concat := false
	var parent ast.Node
	for i--; i >= 0; i-- {
		parent = path[i]
		switch x := parent.(type) {
		case *ast.ParenExpr:
			cur = parent
			continue
		case *ast.BinaryExpr:
			isStr := false
			if tv, ok := info.Types[x]; ok && tv.Type != nil {
				bt, okb := tv.Type.Underlying().(*types.Basic)
				isStr = okb && bt.Info()&types.IsString != 0
			}
			if x.Op != token.ADD || !isStr {
				return out, false
			}
			concat = true
			cur = parent
			continue
		case *ast.CallExpr:
			if concat && isConv(x) && x.Args[0] == cur {
				cur = parent
				continue
			}
		}
		break
	}
	if !concat || parent == nil {
		return out, false
	}
	sinkAt := func(call *ast.CallExpr, idx int) (an.FieldUse, bool) {
		fn := an.Callee(info, call)
		if fn == nil {
			return out, false
		}
		out.SinkFn, out.SinkCall, out.SinkArg, out.Sink = fn, call, idx, an.FuncName(fn)
		return out, true
	}
	var obj types.Object
	var from token.Pos
	switch x := parent.(type) {
	case *ast.CallExpr:
		for idx, arg := range x.Args {
			if arg == cur {
				return sinkAt(x, idx)
			}
		}
		return out, false
	case *ast.AssignStmt:
		if len(x.Lhs) != len(x.Rhs) || (x.Tok != token.ASSIGN && x.Tok != token.DEFINE) {
			return out, false
		}
		for k, r := range x.Rhs {
			if r == cur {
				obj, from = an.ObjOf(info, x.Lhs[k]), x.End()
			}
		}
	case *ast.ValueSpec:
		for k, v := range x.Values {
			if v == cur && k < len(x.Names) {
				obj, from = info.Defs[x.Names[k]], x.End()
			}
		}
	}
	if v, isVar := obj.(*types.Var); !isVar || v.IsField() || (v.Pkg() != nil && v.Parent() == v.Pkg().Scope()) {
		return out, false
	}
	var res an.FieldUse
	found := false
	ast.Inspect(f.Body, func(n ast.Node) bool {
		if found || n == nil {
			return false
		}
		call, ok := n.(*ast.CallExpr)
		if !ok || call.Pos() < from || isConv(call) {
			return true
		}
		for idx, arg := range call.Args {
			if an.ObjOf(info, unconv(arg)) == obj {
				res, _ = sinkAt(call, idx)
				found = true
				return false
			}
		}
		return true
	})
	if !found || res.SinkCall == nil {
		return out, false
	}
	return res, true
}

// c19WriterSeq: ordered, grouped sequence of fields a writer emits.
func c19WriterSeq(p *an.Prog, f *an.Func, st *types.Struct) []c19Group {
	var out []c19Group
	for _, a := range p.FieldTrace(f, st, nil) {
		k, ok := c19Encoded(p, a)
		if !ok {
			continue
		}
		if n := len(out); n > 0 && out[n-1].field == a.Field {
			out[n-1].kinds = append(out[n-1].kinds, k)
			out[n-1].must = out[n-1].must || a.Must
			out[n-1].accs = append(out[n-1].accs, a)
			continue
		}
		out = append(out, c19Group{field: a.Field, kinds: []string{k}, must: a.Must, pos: a.Pos, accs: []an.FieldUse{a}})
	}
	return out
}

// c19ReaderSeq: ordered, grouped sequence of fields a reader stores.
func c19ReaderSeq(p *an.Prog, f *an.Func, st *types.Struct) []c19Group {
	var out []c19Group
	for _, a := range p.FieldTrace(f, st, nil) {
		if !a.IsWrite() {
			continue
		}
		if n := len(out); n > 0 && out[n-1].field == a.Field {
			out[n-1].kinds = append(out[n-1].kinds, a.Kind)
			out[n-1].must = out[n-1].must || a.Must
			out[n-1].accs = append(out[n-1].accs, a)
			continue
		}
		out = append(out, c19Group{field: a.Field, kinds: []string{a.Kind}, must: a.Must, pos: a.Pos, accs: []an.FieldUse{a}})
	}
	return out
}

func c19GroupNames(seq []c19Group) string {
	var s []string
	for _, g := range seq {
		s = append(s, g.field.Name())
	}
	return strings.Join(s, ",")
}

func c19Without(seq []c19Group, drop map[string]bool) []c19Group {
	var out []c19Group
	for _, g := range seq {
		if drop[g.field.Name()] {
			continue
		}
		if n := len(out); n > 0 && out[n-1].field == g.field {
			out[n-1].kinds = append(out[n-1].kinds, g.kinds...)
			continue
		}
		out = append(out, g)
	}
	return out
}

// c19SeqAgree records one instance per field (present on both sides, and, if
// kinds, with the same encoders) and one instance for the order of the fields.
func c19SeqAgree(c *rep.Ctx, rule, pair string, a, b []c19Group, kinds bool, what string) {
	find := func(seq []c19Group, f *types.Var) *c19Group {
		for i := range seq {
			if seq[i].field == f {
				return &seq[i]
			}
		}
		return nil
	}
	var fields []*types.Var
	seen := map[*types.Var]bool{}
	for _, seq := range [][]c19Group{b, a} {
		for _, g := range seq {
			if !seen[g.field] {
				seen[g.field] = true
				fields = append(fields, g.field)
			}
		}
	}
	for _, f := range fields {
		ga, gb := find(a, f), find(b, f)
		pos := token.NoPos
		if ga != nil {
			pos = ga.pos
		} else if gb != nil {
			pos = gb.pos
		}
		ok := ga != nil && gb != nil
		msg := what + ": field " + f.Name() + " occurs on both sides"
		switch {
		case !ok:
			msg = what + ": field " + f.Name() + " occurs on one side only: [" + c19GroupNames(a) + "] vs [" + c19GroupNames(b) + "]"
		case kinds && ga.kindString() != gb.kindString():
			ok = false
			msg = what + ": field " + f.Name() + " is encoded as " + ga.kindString() + " on one side and " + gb.kindString() + " on the other"
		}
		c.Check(rule, pair+"|"+f.Name(), pos, ok, msg)
	}
	pos := token.NoPos
	if len(a) > 0 {
		pos = a[0].pos
	}
	c.Check(rule, pair+"|order", pos, c19GroupNames(a) == c19GroupNames(b), what+": same fields in the same order: ["+c19GroupNames(a)+"] vs ["+c19GroupNames(b)+"]")
}

// receipt fields that are not part of any encoding, with the reason.
var c19ReceiptMemoryOnly = map[string]string{
	"BlockNo":   "memory-only: filled by SetMemoryInfo when a receipt is served, the key of the stored record already is (blockHash, blockNo)",
	"BlockHash": "memory-only: filled by SetMemoryInfo",
	"TxIndex":   "memory-only: filled by SetMemoryInfo (position in the stored list)",
	"From":      "memory-only: copied from the transaction by chain.(*ChainService).getReceipt & co.",
	"To":        "memory-only: copied from the transaction",
}

// fields added by the V2 format
var c19ReceiptV2Only = map[string]string{
	"GasUsed":       "not part of the V1 format (blocks before the V2 fork carry no gas)",
	"FeeDelegation": "not part of the V1 format",
}

// fields whose bytes are legitimately written on some paths only
var c19ReceiptConditional = map[string]string{
	"types.(*Receipt).marshalBody|Ret":                  "omitted from the merkle encoding of failed executions only (decided by rule ret-condition)",
	"types.(*Receipt).marshalBodyV2|Ret":                "omitted from the merkle encoding of failed executions only (decided by rule ret-condition)",
	"types.(*Receipt).marshalBody|Bloom":                "optional: a presence byte is always written, the filter only when non-empty",
	"types.(*Receipt).marshalBodyV2|Bloom":              "optional: a presence byte is always written, the filter only when non-empty",
	"types.(*Event).marshalStoreBinary|ContractAddress": "a single 0 byte stands for 'equal to the receipt's contract address'; the reader restores it from the receipt",
}

var c19EventMemoryOnly = map[string]string{
	"BlockHash": "memory-only: SetMemoryInfo",
	"BlockNo":   "memory-only: SetMemoryInfo",
	"TxIndex":   "memory-only: SetMemoryInfo",
}

type c19Codec struct {
	writer, reader string
	pkg, typ       string
	drop           map[string]bool // fields handled by the callers (element lists)
}

var c19Codecs = []c19Codec{
	{"types.(*Receipt).marshalBody", "types.(*Receipt).unmarshalBody", "types", "Receipt", map[string]bool{"Events": true}},
	{"types.(*Receipt).marshalBodyV2", "types.(*Receipt).unmarshalBodyV2", "types", "Receipt", map[string]bool{"Events": true}},
	{"types.(*Event).marshalStoreBinary", "types.(*Event).unmarshalStoreBinary", "types", "Event", nil},
	{"types.(*Event).MarshalBinary", "types.(*Event).UnmarshalBinary", "types", "Event", nil},
	{"types.(*ChainID).Bytes", "types.(*ChainID).Read", "types", "ChainID", nil},
	{"types.(*Receipts).MarshalBinary", "types.(*Receipts).UnmarshalBinary", "types", "Receipts", nil},
}

func c19Receipts(c *rep.Ctx) {
	p := c.Prog
	rst := p.LookupStruct("types", "Receipt")
	est := p.LookupStruct("types", "Event")
	if rst == nil || est == nil {
		c.Undecide("anchor", "types.Receipt/Event", "struct not found")
		return
	}

	// ---- receipt-coverage
	cover := func(fn string, st *types.Struct, tn string, excluded ...map[string]string) []c19Group {
		f := c.Fn(fn)
		if f == nil {
			return nil
		}
		seq := c19WriterSeq(p, f, st)
		for _, fld := range an.StructFields(st, true) {
			key := fn + "|" + tn + "." + fld.Name()
			var why string
			for _, ex := range excluded {
				if w, ok := ex[fld.Name()]; ok {
					why = w
				}
			}
			n, must := 0, false
			pos := f.Pos()
			for _, g := range seq {
				if g.field == fld {
					n++
					must = must || g.must
					pos = g.pos
				}
			}
			if why != "" {
				c.CheckTrivial("receipt-coverage", key+"(excluded)", pos, n == 0, "excluded from this encoding ("+why+") and indeed not written")
				continue
			}
			condWhy, cond := c19ReceiptConditional[fn+"|"+fld.Name()]
			msg := "consensus field is written by the encoder on every non-error path"
			if cond {
				msg = "field is written by the encoder (conditionally: " + condWhy + ")"
			}
			if n == 0 {
				msg = "field " + tn + "." + fld.Name() + " is not written by " + fn + ": two values differing only in it encode identically"
			} else if !must && !cond {
				msg = "field " + tn + "." + fld.Name() + " is written only on some paths"
			}
			c.Check("receipt-coverage", key, pos, n >= 1 && (must || cond), msg)
		}
		return seq
	}
	v1 := cover("types.(*Receipt).marshalBody", rst, "Receipt", c19ReceiptMemoryOnly, c19ReceiptV2Only)
	v2 := cover("types.(*Receipt).marshalBodyV2", rst, "Receipt", c19ReceiptMemoryOnly)
	cover("types.(*Event).MarshalMerkleBinary", est, "Event", c19EventMemoryOnly)
	cover("types.(*Event).marshalStoreBinary", est, "Event", c19EventMemoryOnly, map[string]string{"TxHash": "equal to the receipt's TxHash: restored by SetMemoryInfo from the receipt"})
	cover("types.(*Event).MarshalBinary", est, "Event")
	c.Floor("receipt-coverage", 40)

	// ---- receipt-v1-v2: V2 = V1 + the V2-only fields, same encoders
	if v1 != nil && v2 != nil {
		drop := map[string]bool{}
		for k := range c19ReceiptV2Only {
			drop[k] = true
		}
		c19SeqAgree(c, "receipt-v1-v2", "marshalBodyV2~marshalBody", c19Without(v2, drop), v1, true, "V2 writer minus the V2-only fields vs V1 writer")
		r1, r2 := c.Fn("types.(*Receipt).unmarshalBody"), c.Fn("types.(*Receipt).unmarshalBodyV2")
		if r1 != nil && r2 != nil {
			c19SeqAgree(c, "receipt-v1-v2", "unmarshalBodyV2~unmarshalBody", c19Without(c19ReaderSeq(p, r2, rst), drop), c19ReaderSeq(p, r1, rst), false, "V2 reader minus the V2-only fields vs V1 reader")
		}
	}
	c.Floor("receipt-v1-v2", 14)

	// ---- codec-agreement: writer sequence == reader sequence
	for _, cd := range c19Codecs {
		w, r := c.Fn(cd.writer), c.Fn(cd.reader)
		st := p.LookupStruct(cd.pkg, cd.typ)
		if w == nil || r == nil || st == nil {
			continue
		}
		ws := c19Without(c19WriterSeq(p, w, st), cd.drop)
		rs := c19Without(c19ReaderSeq(p, r, st), cd.drop)
		c19SeqAgree(c, "codec-agreement", cd.writer+"~"+cd.reader, ws, rs, false, "fields emitted by the writer vs fields stored by the reader")
	}
	c.Floor("codec-agreement", 28)

	c19StatusTables(c)
	c19RetCondition(c)
	c19Wiring(c)
	c19V2Select(c)
	c19Cursors(c)
	c19ReaderVersion(c)
	c19Widths(c)
	c19ReceiptsLoops(c)
	c19MemoryRestore(c)
	c19RootBinding(c)
}

// ---------------------------------------------------------------------------
// status-table: writer string->byte table and reader byte->string table are
// mutually inverse, and identical across versions.

func c19FindSwitch(f *an.Func, tagIs func(e ast.Expr) bool) *ast.SwitchStmt {
	var out *ast.SwitchStmt
	an.InspectShallow(f.Body, func(n ast.Node) bool {
		if sw, ok := n.(*ast.SwitchStmt); ok && out == nil && sw.Tag != nil && tagIs(sw.Tag) {
			out = sw
		}
		return true
	})
	return out
}

type c19Status struct {
	table  map[string]string
	target types.Object
	sw     *ast.SwitchStmt
	def    bool
}

func c19WriterStatus(c *rep.Ctx, fn string) *c19Status {
	f := c.Fn(fn)
	status := c.Prog.LookupField("types", "Receipt", "Status")
	if f == nil || status == nil {
		return nil
	}
	sw := c19FindSwitch(f, func(e ast.Expr) bool { return an.FieldOf(f.Info(), e) == status })
	if sw == nil {
		c.Undecide("status-table", fn, "no switch over Receipt.Status")
		return nil
	}
	tb, tgt, def, ok := an.SwitchTable(f.Info(), sw)
	if !ok {
		c.Undecide("status-table", fn, "the status switch is not a constant table")
		return nil
	}
	return &c19Status{tb, tgt, sw, def}
}

func c19StatusTables(c *rep.Ctx) {
	status := c.Prog.LookupField("types", "Receipt", "Status")
	var first map[string]string
	for _, pr := range [][2]string{
		{"types.(*Receipt).marshalBody", "types.(*Receipt).unmarshalBody"},
		{"types.(*Receipt).marshalBodyV2", "types.(*Receipt).unmarshalBodyV2"},
	} {
		w := c19WriterStatus(c, pr[0])
		rf := c.Fn(pr[1])
		if w == nil || rf == nil {
			continue
		}
		// writer: injective, unknown strings rejected
		inj := map[string]bool{}
		injective := true
		for _, v := range w.table {
			if inj[v] {
				injective = false
			}
			inj[v] = true
		}
		wf := c.Prog.Func(pr[0])
		rejects := false
		if w.def {
			for _, st := range w.sw.Body.List {
				if cc := st.(*ast.CaseClause); cc.List == nil {
					for _, b := range cc.Body {
						if _, isRet := b.(*ast.ReturnStmt); isRet {
							rejects = true
						}
					}
				}
			}
		}
		c.Check("status-table", pr[0]+"|injective", w.sw.Pos(), injective && rejects, "distinct status strings are encoded as distinct bytes and an unknown status is rejected, not encoded")
		// the byte written is the switch result
		wrote := false
		for _, s := range wf.Graph().CallsTo("bytes.(*Buffer).WriteByte") {
			if len(s.Call.Args) == 1 && an.ObjOf(wf.Info(), s.Call.Args[0]) == w.target && w.target != nil {
				wrote = wf.Graph().MustExecOnSuccess(s.Node, nil)
			}
		}
		c.Check("status-table", pr[0]+"|written", w.sw.Pos(), wrote, "the status byte selected by the switch is written on every non-error path")
		// reader: inverse table
		sw := c19FindSwitch(rf, func(e ast.Expr) bool {
			_, isVar := an.ObjOf(rf.Info(), e).(*types.Var)
			return isVar
		})
		if sw == nil {
			c.Undecide("status-table", pr[1], "no switch over the status byte")
			continue
		}
		rt, tgt, _, ok := an.SwitchTable(rf.Info(), sw)
		if !ok || tgt != types.Object(status) {
			c.Undecide("status-table", pr[1], "the reader's status switch is not a constant table assigning Receipt.Status")
			continue
		}
		inverse := len(rt) == len(w.table)
		for k, v := range w.table {
			if rt[v] != k {
				inverse = false
			}
		}
		c.Check("status-table", pr[0]+"~"+pr[1], sw.Pos(), inverse, "the reader's byte->status table is the inverse of the writer's status->byte table")
		if first == nil {
			first = w.table
		} else {
			same := len(first) == len(w.table)
			for k, v := range first {
				if w.table[k] != v {
					same = false
				}
			}
			c.Check("status-table", "marshalBody~marshalBodyV2", w.sw.Pos(), same, "both format versions use the same status table")
		}
	}
	c.Floor("status-table", 6)
}

// ---------------------------------------------------------------------------
// ret-condition: the return value is left out only for (merkle encoding AND
// status ERROR).

func c19RetCondition(c *rep.Ctx) {
	p := c.Prog
	ret := p.LookupField("types", "Receipt", "Ret")
	rst := p.LookupStruct("types", "Receipt")
	for _, fn := range []string{"types.(*Receipt).marshalBody", "types.(*Receipt).marshalBodyV2"} {
		f := c.Fn(fn)
		w := c19WriterStatus(c, fn)
		if f == nil || w == nil || ret == nil {
			continue
		}
		errByte, has := w.table[`"ERROR"`]
		if !has {
			c.Undecide("ret-condition", fn, `no "ERROR" case in the status table`)
			continue
		}
		// the bool parameter = merkle mode
		var merkle types.Object
		for _, fl := range f.Type.Params.List {
			for _, nm := range fl.Names {
				if o := f.Info().Defs[nm]; o != nil {
					if b, ok := o.Type().Underlying().(*types.Basic); ok && b.Kind() == types.Bool {
						merkle = o
					}
				}
			}
		}
		if merkle == nil {
			c.Undecide("ret-condition", fn, "no bool (merkle mode) parameter")
			continue
		}
		info := f.Info()
		at := func(e ast.Expr) (string, bool, bool) {
			e = ast.Unparen(e)
			if an.ObjOf(info, e) == merkle {
				return "M", false, true
			}
			if be, ok := e.(*ast.BinaryExpr); ok && (be.Op == token.EQL || be.Op == token.NEQ) {
				for _, pr := range [][2]ast.Expr{{be.X, be.Y}, {be.Y, be.X}} {
					if an.ObjOf(info, pr[0]) == w.target && w.target != nil {
						if tv, ok := info.Types[pr[1]]; ok && tv.Value != nil && tv.Value.ExactString() == errByte {
							return "E", be.Op == token.NEQ, true
						}
					}
				}
			}
			return "", false, false
		}
		g := f.Graph()
		n := 0
		for _, a := range p.FieldTrace(f, rst, nil) {
			if a.Field != ret || a.Kind != "read" {
				continue
			}
			if _, ok := c19ByteSink(a); !ok {
				continue
			}
			node := g.NodeContaining(a.Pos)
			if node == nil {
				continue
			}
			n++
			// every way around this write is an edge on which merkle && status==ERROR
			skip := g.EdgesImplying(at, map[string]bool{"M": true, "E": true})
			avoid := skip.Union(g.FailureReturns())
			avoid[node] = true
			bypass := g.Reach([]*an.Node{g.Entry}, avoid)[g.Exit]
			kind := "bytes"
			if a.ViaLen {
				kind = "length"
			}
			c.Check("ret-condition", fn+"|"+kind, a.Pos, !bypass,
				"the return value ("+kind+") is left out of the encoding only when the merkle flag is set and the status byte is the one of \"ERROR\": store mode always writes it, the receipts root commits to the return value of every execution that did not fail")
		}
		if n < 2 {
			c.Undecide("ret-condition", fn, "writes of Receipt.Ret (length and bytes) not found")
		}
	}
	c.Floor("ret-condition", 4)
}

// ---------------------------------------------------------------------------
// codec-wiring and events-loop: every wrapper calls the body codec of its own
// version and mode, then every event in order with the event codec of its mode.

type c19Wire struct {
	fn     string
	body   string // receipt body codec it must call
	merkle string // "true"/"false" constant for the merkle parameter ("" = reader)
	event  string // event codec applied to every event
	why    string
}

var c19Wires = []c19Wire{
	{"types.(*Receipt).marshalStoreBinary", "types.(*Receipt).marshalBody", "false", "types.(*Event).marshalStoreBinary", ""},
	{"types.(*Receipt).marshalStoreBinaryV2", "types.(*Receipt).marshalBodyV2", "false", "types.(*Event).marshalStoreBinary", ""},
	{"types.(*Receipt).MarshalMerkleBinary", "types.(*Receipt).marshalBody", "true", "types.(*Event).MarshalMerkleBinary", ""},
	{"types.(*Receipt).MarshalMerkleBinaryV2", "types.(*Receipt).marshalBodyV2", "true", "types.(*Event).MarshalMerkleBinary", ""},
	{"types.(*Receipt).unmarshalStoreBinary", "types.(*Receipt).unmarshalBody", "", "types.(*Event).unmarshalStoreBinary", ""},
	{"types.(*Receipt).unmarshalStoreBinaryV2", "types.(*Receipt).unmarshalBodyV2", "", "types.(*Event).unmarshalStoreBinary", ""},
}

func c19Wiring(c *rep.Ctx) {
	p := c.Prog
	events := p.LookupField("types", "Receipt", "Events")
	bodyNames := []string{"types.(*Receipt).marshalBody", "types.(*Receipt).marshalBodyV2", "types.(*Receipt).unmarshalBody", "types.(*Receipt).unmarshalBodyV2"}
	evNames := []string{"types.(*Event).marshalStoreBinary", "types.(*Event).MarshalMerkleBinary", "types.(*Event).MarshalBinary", "types.(*Event).unmarshalStoreBinary", "types.(*Event).UnmarshalBinary"}
	for _, w := range c19Wires {
		f := c.Fn(w.fn)
		if f == nil || events == nil {
			continue
		}
		g := f.Graph()
		info := f.Info()
		recv := c19Receiver(f)
		// --- body codec
		bodies := g.CallsTo(bodyNames...)
		ok := len(bodies) == 1 && an.FuncName(bodies[0].Fn) == w.body && c19RecvOf(info, bodies[0].Call) == recv && recv != nil
		msg := "calls exactly the body codec of its own format version on its own receiver"
		var stream types.Object
		if len(bodies) == 1 && w.merkle != "" && len(bodies[0].Call.Args) == 2 {
			stream = c19RootObj(info, bodies[0].Call.Args[0])
		}
		if ok && w.merkle != "" {
			mode := ""
			if len(bodies[0].Call.Args) == 2 {
				if tv, has := info.Types[bodies[0].Call.Args[1]]; has && tv.Value != nil {
					mode = tv.Value.ExactString()
				}
			}
			ok = mode == w.merkle && stream != nil
			msg += ", with the merkle flag " + w.merkle + " (got " + mode + ")"
		}
		if ok {
			ok = g.MustExecOnSuccess(bodies[0].Node, nil)
		}
		c.Check("codec-wiring", w.fn+"|"+w.body, f.Pos(), ok, msg)

		// --- events
		evs := g.CallsTo(evNames...)
		okEv := len(evs) == 1 && an.FuncName(evs[0].Fn) == w.event
		c.Check("codec-wiring", w.fn+"|"+w.event, f.Pos(), okEv, "applies exactly the event codec of its mode to the events")
		if !okEv || len(bodies) != 1 {
			continue
		}
		ev := evs[0]
		if w.merkle != "" {
			// writer: for _, ev := range r.Events { evB := ev.codec(..); b.Write(evB) }
			shape := false
			why := "no range loop over the receiver's Events"
			an.InspectShallow(f.Body, func(n ast.Node) bool {
				rs, isR := n.(*ast.RangeStmt)
				if !isR || an.FieldOf(info, rs.X) != events || c19RootObj(info, rs.X.(*ast.SelectorExpr).X) != recv {
					return true
				}
				why = ""
				vobj := types.Object(nil)
				if rs.Value != nil {
					vobj = an.ObjOf(info, rs.Value)
				}
				if vobj == nil || c19RecvOf(info, ev.Call) != vobj {
					why = "the event codec is not applied to the range value"
					return false
				}
				if !(rs.Body.Pos() <= ev.Call.Pos() && ev.Call.End() <= rs.Body.End()) {
					why = "the event codec is called outside the loop"
					return false
				}
				res := g.ResultVarAt(ev, 0)
				var wr *ast.CallExpr
				top := false
				for _, st := range rs.Body.List {
					es, isE := st.(*ast.ExprStmt)
					if !isE {
						continue
					}
					call, isC := es.X.(*ast.CallExpr)
					if !isC || len(call.Args) != 1 || an.ObjOf(info, call.Args[0]) != res || res == nil {
						continue
					}
					if k, isSink := c19ByteSink(an.FieldUse{SinkFn: an.Callee(info, call), SinkArg: 0}); isSink && k == "Write" && c19RecvOf(info, call) == stream {
						wr, top = call, true
					}
				}
				if wr == nil || !top {
					why = "the encoded event is not appended (unconditionally) to the stream the body was written to"
					return false
				}
				if esc := c19LoopEscapes(g, rs.Body); esc != "" {
					why = esc
					return false
				}
				// the event bytes follow the body
				if !g.Dominated(g.NodeContaining(ev.Call.Pos()), an.SetOf(bodies[0].Node)) {
					why = "the body is not written before the events"
					return false
				}
				shape = true
				return false
			})
			c.Check("events-loop", w.fn, f.Pos(), shape, "every event of the receipt, in slice order, is encoded and appended after the body ("+why+")")
			continue
		}
		// reader: r.Events = make([]*Event, n); for i := 0; i < n; i++ { rest, err = ev.codec(rest, ..); r.Events[i] = &ev }
		shape := false
		why := "no counting loop"
		cnt := g.ResultVarAt(bodies[0], 1)
		an.InspectShallow(f.Body, func(n ast.Node) bool {
			fs, isF := n.(*ast.ForStmt)
			if !isF || fs.Cond == nil || fs.Init == nil || fs.Post == nil {
				return true
			}
			why = ""
			be, isB := ast.Unparen(fs.Cond).(*ast.BinaryExpr)
			if !isB || be.Op != token.LSS || an.ObjOf(info, be.Y) != cnt || cnt == nil {
				why = "the loop bound is not `i < count` with the count returned by the body codec"
				return false
			}
			iobj := an.ObjOf(info, be.X)
			init, isA := fs.Init.(*ast.AssignStmt)
			post, isI := fs.Post.(*ast.IncDecStmt)
			zero := false
			if isA && len(init.Rhs) == 1 && len(init.Lhs) == 1 && an.ObjOf(info, init.Lhs[0]) == iobj {
				if tv, has := info.Types[init.Rhs[0]]; has && tv.Value != nil && tv.Value.ExactString() == "0" {
					zero = true
				}
			}
			if !zero || !isI || post.Tok != token.INC || an.ObjOf(info, post.X) != iobj || iobj == nil {
				why = "the loop does not count from 0 in steps of 1"
				return false
			}
			if !(fs.Body.Pos() <= ev.Call.Pos() && ev.Call.End() <= fs.Body.End()) {
				why = "the event codec is called outside the loop"
				return false
			}
			// rest threaded
			rest := g.ResultVarAt(ev, 0)
			if rest == nil || len(ev.Call.Args) < 1 || an.ObjOf(info, ev.Call.Args[0]) != rest {
				why = "the unread remainder returned by the event codec is not the input of the next call"
				return false
			}
			if rest != g.ResultVarAt(bodies[0], 0) {
				why = "the events are not decoded from the remainder returned by the body codec"
				return false
			}
			evObj := c19RecvOf(info, ev.Call)
			stored := false
			for _, st := range fs.Body.List {
				as, isAs := st.(*ast.AssignStmt)
				if !isAs || len(as.Lhs) != 1 || len(as.Rhs) != 1 {
					continue
				}
				ix, isIx := ast.Unparen(as.Lhs[0]).(*ast.IndexExpr)
				if !isIx || an.FieldOf(info, ix.X) != events || an.ObjOf(info, ix.Index) != iobj {
					continue
				}
				if c19RootObj(info, as.Rhs[0]) == evObj && evObj != nil {
					stored = true
				}
			}
			if !stored {
				why = "the decoded event is not stored at Events[i]"
				return false
			}
			if esc := c19LoopEscapes(g, fs.Body); esc != "" {
				why = esc
				return false
			}
			shape = true
			return false
		})
		// r.Events = make(.., count)
		sized := false
		an.InspectShallow(f.Body, func(n ast.Node) bool {
			as, isAs := n.(*ast.AssignStmt)
			if !isAs || len(as.Lhs) != 1 || len(as.Rhs) != 1 || an.FieldOf(info, as.Lhs[0]) != events {
				return true
			}
			if mk, isC := ast.Unparen(as.Rhs[0]).(*ast.CallExpr); isC && an.IsBuiltin(info, mk, "make") && len(mk.Args) == 2 && an.ObjOf(info, mk.Args[1]) == cnt && cnt != nil {
				sized = true
			}
			return true
		})
		if shape && !sized {
			shape, why = false, "Events is not allocated with the decoded count"
		}
		c.Check("events-loop", w.fn, f.Pos(), shape, "exactly `count` events are decoded in order from the remainder of the body and stored at Events[i] ("+why+")")
	}
	c.Floor("codec-wiring", 12)
	c.Floor("events-loop", 6)
}

// c19LoopEscapes: a loop body may be left early only through a failure return.
func c19LoopEscapes(g *an.Graph, body *ast.BlockStmt) string {
	fails := g.FailureReturns()
	out := ""
	ast.Inspect(body, func(n ast.Node) bool {
		switch x := n.(type) {
		case *ast.FuncLit:
			return false
		case *ast.BranchStmt:
			out = "the loop contains " + x.Tok.String() + ": elements can be skipped"
		case *ast.ReturnStmt:
			if nd := g.NodeOf(x); nd == nil || !fails[nd] {
				out = "the loop can return without an error before all elements are handled"
			}
		}
		return true
	})
	return out
}

func c19Receiver(f *an.Func) types.Object {
	if f.Decl == nil || f.Decl.Recv == nil || len(f.Decl.Recv.List) == 0 || len(f.Decl.Recv.List[0].Names) == 0 {
		return nil
	}
	return f.Info().Defs[f.Decl.Recv.List[0].Names[0]]
}

func c19RecvOf(info *types.Info, call *ast.CallExpr) types.Object {
	sel, ok := ast.Unparen(call.Fun).(*ast.SelectorExpr)
	if !ok {
		return nil
	}
	return c19RootObj(info, sel.X)
}

// ---------------------------------------------------------------------------
// v2-select: every use of a version-specific receipt codec is selected by
// X.hardForkConfig.IsV2Fork(X.blockNo) with the right polarity.

var c19Versioned = map[string]bool{ // codec -> is the V2 variant
	"types.(*Receipt).marshalStoreBinary":     false,
	"types.(*Receipt).marshalStoreBinaryV2":   true,
	"types.(*Receipt).unmarshalStoreBinary":   false,
	"types.(*Receipt).unmarshalStoreBinaryV2": true,
	"types.(*Receipt).MarshalMerkleBinary":    false,
	"types.(*Receipt).MarshalMerkleBinaryV2":  true,
}

// call sites that are not selected by the fork predicate, with the reason
var c19V2Exempt = map[string]string{
	"types.(*Receipt).MarshalBinaryTest|types.(*Receipt).marshalStoreBinaryV2":     "test hook (exported for unit tests of the V2 format), no caller in the node",
	"types.(*Receipt).UnmarshalBinaryTest|types.(*Receipt).unmarshalStoreBinaryV2": "test hook, no caller in the node",
	"types.(*Receipt).GetHash|types.(*Receipt).MarshalMerkleBinary":                "legacy MerkleEntry of a bare receipt (V1); the receipts root wraps every receipt in ReceiptMerkle (rule merkle-fill), no caller of (*Receipt).GetHash in the node (rule v2-select|legacy)",
}

func c19V2Select(c *rep.Ctx) {
	p := c.Prog
	names := map[string]bool{}
	for k := range c19Versioned {
		names[k] = true
		if p.Func(k) == nil {
			c.Undecide("anchor", k, "versioned codec not found")
		}
	}
	for _, cs := range p.CallSitesOf(names) {
		if cs.Fn == nil {
			continue
		}
		callee := an.FuncName(cs.Obj)
		key := cs.Fn.Name() + "|" + callee
		if why, ex := c19V2Exempt[key]; ex {
			c.CheckTrivial("v2-select", key, cs.Call.Pos(), true, "exempt: "+why)
			continue
		}
		wantV2 := c19Versioned[callee]
		f := cs.Fn
		g := f.Graph()
		info := f.Info()
		node := g.NodeContaining(cs.Call.Pos())
		ok := false
		why := "no call of IsV2Fork in this function"
		for _, s := range g.CallsTo("types.(BlockVersionner).IsV2Fork") {
			// shape: X.hardForkConfig.IsV2Fork(X.blockNo), both fields of one struct value
			sel := ast.Unparen(s.Call.Fun).(*ast.SelectorExpr)
			cfgField := an.FieldOf(info, sel.X)
			var noField *types.Var
			if len(s.Call.Args) == 1 {
				noField = an.FieldOf(info, s.Call.Args[0])
			}
			if cfgField == nil || noField == nil {
				why = "the predicate is not evaluated on a (config, block number) pair stored in one struct"
				continue
			}
			cx, okc := ast.Unparen(sel.X).(*ast.SelectorExpr)
			nx, okn := ast.Unparen(s.Call.Args[0]).(*ast.SelectorExpr)
			if !okc || !okn || c19RootObj(info, cx.X) == nil || c19RootObj(info, cx.X) != c19RootObj(info, nx.X) {
				why = "config and block number come from different values"
				continue
			}
			if !c19SameOwner(cfgField, noField) || !strings.EqualFold(noField.Name(), "blockNo") {
				why = "config and block number are not the hardForkConfig/blockNo pair of one struct"
				continue
			}
			edges := g.BoolEdges(s, wantV2)
			if node != nil && len(edges) > 0 && g.Dominated(node, edges) {
				ok, why = true, "holds"
			} else {
				why = "the call is not on the branch where IsV2Fork is " + map[bool]string{true: "true", false: "false"}[wantV2]
			}
		}
		c.Check("v2-select", key, cs.Call.Pos(), ok, "version-specific receipt codec is selected by hardForkConfig.IsV2Fork(blockNo) of the same object, V2 on the true branch and V1 on the false branch ("+why+")")
	}
	c.Floor("v2-select", 8)
	// the legacy V1-only digest of a bare receipt has no caller
	n := 0
	for _, cs := range p.CallSitesOf(map[string]bool{"types.(*Receipt).GetHash": true}) {
		n++
		c.Check("v2-select", "legacy|"+cs.Fn.Name(), cs.Call.Pos(), false, "(*Receipt).GetHash hashes the V1 merkle encoding regardless of the block's format version")
	}
	c.CheckTrivial("v2-select", "legacy|types.(*Receipt).GetHash", token.NoPos, n == 0, "the version-unaware (*Receipt).GetHash has no static caller")

	// merkle-entry-ctor: MerkleRoot hands each receipt to ReceiptMerkle together with the list's own (blockNo, config)
	f := c.Fn("types.(*Receipts).MerkleRoot")
	rm := p.LookupStruct("types", "ReceiptMerkle")
	rs := p.LookupStruct("types", "Receipts")
	if f == nil || rm == nil || rs == nil {
		return
	}
	info := f.Info()
	found := false
	ast.Inspect(f.Body, func(n ast.Node) bool {
		cl, isCl := n.(*ast.CompositeLit)
		if !isCl {
			return true
		}
		tv, has := info.Types[cl]
		if !has {
			return true
		}
		if s, isS := tv.Type.Underlying().(*types.Struct); !isS || s != rm {
			return true
		}
		found = true
		vals := map[string]ast.Expr{}
		for i, el := range cl.Elts {
			if kv, isKV := el.(*ast.KeyValueExpr); isKV {
				if id, isID := kv.Key.(*ast.Ident); isID {
					vals[id.Name] = kv.Value
				}
			} else if i < rm.NumFields() {
				vals[rm.Field(i).Name()] = el
			}
		}
		for i := 0; i < rm.NumFields(); i++ {
			fld := rm.Field(i)
			v := vals[fld.Name()]
			ok := false
			if v != nil {
				if src := an.FieldOf(info, v); src != nil {
					ok = src.Name() == fld.Name() && c19FieldOfStruct(src, rs) && c19RootObj(info, ast.Unparen(v).(*ast.SelectorExpr).X) == c19Receiver(f)
				} else if _, isVar := an.ObjOf(info, v).(*types.Var); isVar && fld.Name() == "receipt" {
					ok = true // the range value (checked by merkle-fill)
				}
			}
			c.Check("merkle-entry-ctor", "types.(*Receipts).MerkleRoot|ReceiptMerkle."+fld.Name(), cl.Pos(), ok, "the merkle entry of a receipt carries the list's own "+fld.Name()+" (same-named field of the receiver), so GetHash selects the version of the block")
		}
		return false
	})
	if !found {
		c.Undecide("merkle-entry-ctor", "types.(*Receipts).MerkleRoot", "no ReceiptMerkle literal")
	}
	c.Floor("merkle-entry-ctor", 3)
}

func c19FieldOfStruct(v *types.Var, st *types.Struct) bool {
	for i := 0; i < st.NumFields(); i++ {
		if st.Field(i) == v {
			return true
		}
	}
	return false
}

// c19SameOwner: both fields are declared in the same struct type of package types.
func c19SameOwner(a, b *types.Var) bool {
	if a.Pkg() == nil || a.Pkg() != b.Pkg() {
		return false
	}
	sc := a.Pkg().Scope()
	for _, nm := range sc.Names() {
		tn, ok := sc.Lookup(nm).(*types.TypeName)
		if !ok {
			continue
		}
		st, ok := tn.Type().Underlying().(*types.Struct)
		if !ok {
			continue
		}
		if c19FieldOfStruct(a, st) {
			return c19FieldOfStruct(b, st)
		}
	}
	return false
}

// ---------------------------------------------------------------------------
// cursor: decoders of package types that walk a []byte with an integer cursor

func c19Cursors(c *rep.Ctx) {
	p := c.Prog
	pk := p.Pkg("types")
	if pk == nil {
		return
	}
	decoders := 0
	for _, f := range p.Funcs() {
		if f.Pkg != pk || f.Body == nil || f.Type.Params == nil {
			continue
		}
		var bufs []types.Object
		for _, fl := range f.Type.Params.List {
			for _, nm := range fl.Names {
				o := f.Info().Defs[nm]
				if o == nil {
					continue
				}
				if sl, ok := o.Type().Underlying().(*types.Slice); ok {
					if b, ok := sl.Elem().Underlying().(*types.Basic); ok && b.Kind() == types.Uint8 {
						bufs = append(bufs, o)
					}
				}
			}
		}
		for _, buf := range bufs {
			evs := an.CursorAudit(f, buf)
			moves := 0
			for _, e := range evs {
				if e.Kind == "advance" {
					moves++
				}
			}
			if moves < 2 {
				continue
			}
			decoders++
			for _, e := range evs {
				switch e.Kind {
				case "advance", "tail":
					c.Check("cursor", f.Name()+"|advance:"+strings.ReplaceAll(e.Width.Text, " ", ""), e.Pos, e.OK, "decoder cursor moves exactly over what was decoded: "+e.Why)
				case "read":
					if e.AtCursor {
						c.Check("cursor", f.Name()+"|read:"+strings.ReplaceAll(e.Width.Text, " ", ""), e.Pos, e.OK, "decoder never decodes the same bytes twice: "+e.Why)
					}
				}
			}
		}
	}
	if decoders < 5 {
		c.Undecide("cursor", "types", "fewer cursor decoders than on the reference tree (5)")
	}
	c.Floor("cursor", 60)
}

// ---------------------------------------------------------------------------
// reader-version-set: a Receipts value is decoded only after its format
// version (SetHardFork) has been set on the same variable.

func c19ReaderVersion(c *rep.Ctx) {
	p := c.Prog
	rs := p.LookupObj("types", "Receipts")
	if rs == nil {
		c.Undecide("anchor", "types.Receipts", "type not found")
		return
	}
	isReceipts := func(t types.Type) bool {
		if pt, ok := t.(*types.Pointer); ok {
			t = pt.Elem()
		}
		return types.Identical(t, rs.Type())
	}
	var sites []an.CallSite
	for _, cs := range p.CallSitesOf(map[string]bool{"internal/enc/gob.Decode": true, "types.(*Receipts).UnmarshalBinary": true}) {
		if cs.Fn == nil {
			continue
		}
		info := cs.Fn.Info()
		var target ast.Expr
		if cs.Obj.Name() == "Decode" && len(cs.Call.Args) == 2 {
			target = cs.Call.Args[1]
		} else if sel, ok := ast.Unparen(cs.Call.Fun).(*ast.SelectorExpr); ok {
			target = sel.X
		}
		if target == nil {
			continue
		}
		tv, ok := info.Types[target]
		if !ok || !isReceipts(tv.Type) {
			continue
		}
		sites = append(sites, cs)
		g := cs.Fn.Graph()
		obj := c19RootObj(info, target)
		gates := an.Set{}
		for _, s := range g.CallsTo("types.(*Receipts).SetHardFork") {
			if c19RecvOf(info, s.Call) == obj && obj != nil {
				gates[s.Node] = true
			}
		}
		node := g.NodeContaining(cs.Call.Pos())
		c.Check("reader-version-set", cs.Fn.Name(), cs.Call.Pos(), len(gates) > 0 && node != nil && g.Dominated(node, gates),
			"stored receipts are decoded only after SetHardFork(config, blockNo) on the same value: the reader selects the format by the block's version")
	}
	sort.Slice(sites, func(i, j int) bool { return sites[i].Call.Pos() < sites[j].Call.Pos() })
	c.Floor("reader-version-set", 1)
}
