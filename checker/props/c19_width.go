package props

import (
	"go/ast"
	"go/token"
	"go/types"
	"sort"
	"strings"

	"verif/checker/internal/an"
	"verif/checker/internal/rep"
)

// ---------------------------------------------------------------------------
// codec-width: per field, the writer's encoder class equals the reader's
// decoder class (length-prefixed / fixed raw / 32- or 64-bit integer / flag).

func c19WriterClass(g c19Group) string {
	lenN, raw, put, branch, branchLen := "", false, "", false, false
	for _, k := range g.kinds {
		switch {
		case strings.HasPrefix(k, "len:binary.PutUint"):
			lenN = strings.TrimPrefix(k, "len:binary.PutUint")
		case k == "Write" || k == "WriteString":
			raw = true
		case strings.HasPrefix(k, "binary.PutUint"):
			put = strings.TrimPrefix(k, "binary.PutUint")
		case k == "branch":
			branch = true
		case k == "branch(len)":
			branchLen = true
		}
	}
	switch {
	case lenN != "" && raw:
		return "var/" + lenN
	case lenN != "":
		return "count/" + lenN
	case put != "":
		return "u" + put
	case raw && branchLen:
		return "raw" // optional raw bytes behind a presence byte
	case raw:
		return "raw"
	case branch:
		return "flag"
	}
	return "?"
}

// c19ReaderClass classifies how reader f computes the value stored in the
// field by the access a (an assignment); "" = not a decode (copied from another
// object, allocation).
func c19ReaderClass(f *an.Func, a an.FieldUse) string {
	info := f.Info()
	var rhs ast.Expr
	var at token.Pos
	ast.Inspect(f.Body, func(n ast.Node) bool {
		as, ok := n.(*ast.AssignStmt)
		if !ok || len(as.Lhs) != len(as.Rhs) {
			return true
		}
		for i, l := range as.Lhs {
			if l.Pos() <= a.Pos && a.Pos < l.End() {
				rhs, at = as.Rhs[i], as.Pos()
			}
		}
		return true
	})
	if rhs == nil {
		return ""
	}
	return c19DecodeClass(f, info, rhs, at, 0)
}

func c19Unconv(info *types.Info, e ast.Expr) ast.Expr {
	for {
		e = ast.Unparen(e)
		c, ok := e.(*ast.CallExpr)
		if !ok || len(c.Args) != 1 {
			return e
		}
		if tv, ok := info.Types[c.Fun]; !ok || !tv.IsType() {
			return e
		}
		e = c.Args[0]
	}
}

// c19LastDef: the right-hand side of the last assignment to obj before pos.
func c19LastDef(f *an.Func, obj types.Object, before token.Pos) (ast.Expr, token.Pos) {
	info := f.Info()
	var rhs ast.Expr
	var at token.Pos
	ast.Inspect(f.Body, func(n ast.Node) bool {
		as, ok := n.(*ast.AssignStmt)
		if !ok || len(as.Lhs) != len(as.Rhs) || as.Pos() >= before {
			return true
		}
		for i, l := range as.Lhs {
			if an.ObjOf(info, l) == obj && as.Pos() > at {
				rhs, at = as.Rhs[i], as.Pos()
			}
		}
		return true
	})
	return rhs, at
}

func c19DecodeClass(f *an.Func, info *types.Info, e ast.Expr, at token.Pos, depth int) string {
	e = c19Unconv(info, e)
	if tv, ok := info.Types[e]; ok && tv.Value != nil {
		return "flag"
	}
	switch x := e.(type) {
	case *ast.CallExpr:
		if fn := an.Callee(info, x); fn != nil && fn.Pkg() != nil && fn.Pkg().Path() == "encoding/binary" && strings.HasPrefix(fn.Name(), "Uint") {
			return "u" + strings.TrimPrefix(fn.Name(), "Uint")
		}
		return ""
	case *ast.Ident:
		obj := an.ObjOf(info, x)
		if _, isVar := obj.(*types.Var); isVar && depth < 2 {
			if def, dat := c19LastDef(f, obj, at); def != nil {
				return c19DecodeClass(f, info, def, dat, depth+1)
			}
		}
		return ""
	case *ast.SliceExpr:
		if x.High == nil {
			return "open"
		}
		var w ast.Expr
		if x.Low == nil {
			w = x.High
		} else if be, ok := ast.Unparen(x.High).(*ast.BinaryExpr); ok && be.Op == token.ADD {
			if an.SameExpr(info, be.X, x.Low) {
				w = be.Y
			} else if an.SameExpr(info, be.Y, x.Low) {
				w = be.X
			}
		}
		if w == nil {
			return "?"
		}
		w = c19Unconv(info, w)
		if tv, ok := info.Types[w]; ok && tv.Value != nil {
			return "raw/" + tv.Value.ExactString()
		}
		if obj := an.ObjOf(info, w); obj != nil {
			def, _ := c19LastDef(f, obj, at)
			if def == nil {
				return "?"
			}
			def = c19Unconv(info, def)
			if tv, ok := info.Types[def]; ok && tv.Value != nil {
				return "raw/" + tv.Value.ExactString()
			}
			if c, ok := def.(*ast.CallExpr); ok {
				if fn := an.Callee(info, c); fn != nil && fn.Pkg() != nil && fn.Pkg().Path() == "encoding/binary" && strings.HasPrefix(fn.Name(), "Uint") {
					return "var/" + strings.TrimPrefix(fn.Name(), "Uint")
				}
			}
		}
		return "?"
	}
	return ""
}

func c19Widths(c *rep.Ctx) {
	p := c.Prog
	fixed := map[string]map[string][]string{} // field name -> size -> readers
	for _, cd := range c19Codecs {
		if cd.typ == "ChainID" {
			continue // binary.Write / binary.Read of typed values: widths follow from the field types
		}
		w, r := c.Fn(cd.writer), c.Fn(cd.reader)
		st := p.LookupStruct(cd.pkg, cd.typ)
		if w == nil || r == nil || st == nil {
			continue
		}
		ws := c19WriterSeq(p, w, st)
		// merge groups of one field
		wclass := map[*types.Var]string{}
		for _, fld := range an.StructFields(st, true) {
			var all c19Group
			all.field = fld
			for _, g := range ws {
				if g.field == fld {
					all.kinds = append(all.kinds, g.kinds...)
				}
			}
			if len(all.kinds) > 0 {
				wclass[fld] = c19WriterClass(all)
			}
		}
		rclass := map[*types.Var]map[string]bool{}
		for _, a := range p.FieldTrace(r, st, nil) {
			if !a.IsWrite() || a.Kind == "elem-assign" {
				continue
			}
			cl := c19ReaderClass(a.Fn, a)
			if cl == "" {
				continue
			}
			if strings.HasPrefix(cl, "raw/") {
				sz := strings.TrimPrefix(cl, "raw/")
				if fixed[a.Field.Name()] == nil {
					fixed[a.Field.Name()] = map[string][]string{}
				}
				fixed[a.Field.Name()][sz] = append(fixed[a.Field.Name()][sz], cd.reader)
				cl = "raw"
			}
			if rclass[a.Field] == nil {
				rclass[a.Field] = map[string]bool{}
			}
			rclass[a.Field][cl] = true
		}
		for _, fld := range an.StructFields(st, true) {
			wc, hasW := wclass[fld]
			rc := rclass[fld]
			if !hasW || cd.drop[fld.Name()] {
				continue
			}
			var rcs []string
			for k := range rc {
				rcs = append(rcs, k)
			}
			sort.Strings(rcs)
			got := strings.Join(rcs, ",")
			c.Check("codec-width", cd.writer+"~"+cd.reader+"|"+fld.Name(), w.Pos(), got == wc,
				"the field is written as "+wc+" and read back as "+got+" (var/N: N-bit length prefix + bytes, raw: fixed-size bytes, uN: N-bit integer, flag: one byte decided by / deciding a branch)")
		}
	}
	c.Floor("codec-width", 24)
	// fixed-width: a field decoded as fixed-size raw bytes has the same size in every reader
	var names []string
	for k := range fixed {
		names = append(names, k)
	}
	sort.Strings(names)
	for _, nm := range names {
		var sizes []string
		for sz := range fixed[nm] {
			sizes = append(sizes, sz)
		}
		sort.Strings(sizes)
		c.Check("fixed-width", nm, token.NoPos, len(sizes) == 1, "every reader takes the same number of bytes for the fixed-size field "+nm+" (sizes: "+strings.Join(sizes, ",")+")")
	}
	c.Floor("fixed-width", 3)

	// put-write: a PutUintN into a scratch slice is followed by writing exactly N/8 bytes of that slice
	pk := p.Pkg("types")
	n := 0
	for _, f := range p.Funcs() {
		if f.Pkg != pk || f.Body == nil {
			continue
		}
		info := f.Info()
		makeSize := map[types.Object]int64{}
		ast.Inspect(f.Body, func(m ast.Node) bool {
			as, ok := m.(*ast.AssignStmt)
			if !ok || len(as.Lhs) != 1 || len(as.Rhs) != 1 {
				return true
			}
			if mk, ok := ast.Unparen(as.Rhs[0]).(*ast.CallExpr); ok && an.IsBuiltin(info, mk, "make") && len(mk.Args) == 2 {
				if tv, has := info.Types[mk.Args[1]]; has && tv.Value != nil {
					if obj := an.ObjOf(info, as.Lhs[0]); obj != nil {
						if v, exact := c19Int(tv); exact {
							makeSize[obj] = v
						}
					}
				}
			}
			return true
		})
		width := func(e ast.Expr) (types.Object, int64) {
			e = ast.Unparen(e)
			if se, ok := e.(*ast.SliceExpr); ok {
				obj := an.ObjOf(info, se.X)
				lo := int64(0)
				if se.Low != nil {
					tv, has := info.Types[se.Low]
					v, exact := c19Int(tv)
					if !has || tv.Value == nil || !exact {
						return obj, -1
					}
					lo = v
				}
				if se.High == nil {
					if sz, ok := makeSize[obj]; ok {
						return obj, sz - lo
					}
					return obj, -1
				}
				tv, has := info.Types[se.High]
				v, exact := c19Int(tv)
				if !has || tv.Value == nil || !exact {
					return obj, -1
				}
				return obj, v - lo
			}
			obj := an.ObjOf(info, e)
			if sz, ok := makeSize[obj]; ok {
				return obj, sz
			}
			return obj, -1
		}
		pending := map[types.Object]int64{}
		pendPos := map[types.Object]token.Pos{}
		pendName := map[types.Object]string{}
		for _, call := range an.CallsIn(f.Body) {
			fn := an.Callee(info, call)
			if fn == nil || fn.Pkg() == nil {
				continue
			}
			if fn.Pkg().Path() == "encoding/binary" && strings.HasPrefix(fn.Name(), "PutUint") && len(call.Args) == 2 {
				obj, _ := width(call.Args[0])
				bits := strings.TrimPrefix(fn.Name(), "PutUint")
				need := map[string]int64{"16": 2, "32": 4, "64": 8}[bits]
				if obj != nil && need > 0 {
					pending[obj], pendPos[obj], pendName[obj] = need, call.Pos(), fn.Name()
				}
				continue
			}
			if k, isSink := c19ByteSink(an.FieldUse{SinkFn: fn, SinkArg: 0}); isSink && k == "Write" && len(call.Args) == 1 {
				obj, wdt := width(call.Args[0])
				if need, has := pending[obj]; has && obj != nil {
					n++
					c.Check("put-write", f.Name()+"|"+pendName[obj], pendPos[obj], wdt == need,
						"the "+itoa(int(need))+" bytes produced by "+pendName[obj]+" are exactly the bytes appended to the stream (appended: "+itoa(int(wdt))+")")
					delete(pending, obj)
				}
			}
		}
	}
	c.Floor("put-write", 20)
}

func c19Int(tv types.TypeAndValue) (int64, bool) {
	if tv.Value == nil {
		return 0, false
	}
	s := tv.Value.ExactString()
	var v int64
	for _, ch := range s {
		if ch < '0' || ch > '9' {
			return 0, false
		}
		v = v*10 + int64(ch-'0')
	}
	return v, len(s) > 0
}

// ---------------------------------------------------------------------------
// receipts-loop: the envelope codec of the receipt list handles every receipt in order

func c19ReceiptsLoops(c *rep.Ctx) {
	p := c.Prog
	receipts := p.LookupField("types", "Receipts", "receipts")
	if receipts == nil {
		c.Undecide("anchor", "types.Receipts.receipts", "field not found")
		return
	}
	// writer
	if f := c.Fn("types.(*Receipts).MarshalBinary"); f != nil {
		g, info := f.Graph(), f.Info()
		ok, why := false, "no range loop over rs.receipts"
		an.InspectShallow(f.Body, func(n ast.Node) bool {
			rs, isR := n.(*ast.RangeStmt)
			if !isR || an.FieldOf(info, rs.X) != receipts {
				return true
			}
			why = ""
			vobj := types.Object(nil)
			if rs.Value != nil {
				vobj = an.ObjOf(info, rs.Value)
			}
			var res types.Object
			cnt := 0
			for _, s := range g.CallsTo("types.(*Receipt).marshalStoreBinary", "types.(*Receipt).marshalStoreBinaryV2") {
				if !(rs.Body.Pos() <= s.Call.Pos() && s.Call.End() <= rs.Body.End()) || c19RecvOf(info, s.Call) != vobj || vobj == nil {
					why = "a receipt codec is not applied to the range value inside the loop"
					return false
				}
				r := g.ResultVarAt(s, 0)
				if cnt > 0 && r != res {
					why = "the two versions store their bytes in different variables"
					return false
				}
				res = r
				cnt++
			}
			if cnt != 2 || res == nil {
				why = "expected the V1 and the V2 receipt codec in the loop"
				return false
			}
			wrote := false
			for _, st := range rs.Body.List {
				if es, isE := st.(*ast.ExprStmt); isE {
					if call, isC := es.X.(*ast.CallExpr); isC && len(call.Args) == 1 && an.ObjOf(info, call.Args[0]) == res {
						if k, isSink := c19ByteSink(an.FieldUse{SinkFn: an.Callee(info, call), SinkArg: 0}); isSink && k == "Write" {
							wrote = true
						}
					}
				}
			}
			if !wrote {
				why = "the encoded receipt is not appended unconditionally"
				return false
			}
			if esc := c19LoopEscapes(g, rs.Body); esc != "" {
				why = esc
				return false
			}
			ok = true
			return false
		})
		c.Check("receipts-loop", "types.(*Receipts).MarshalBinary", f.Pos(), ok, "every receipt of the list is encoded in slice order and appended ("+why+")")
	}
	// reader
	if f := c.Fn("types.(*Receipts).UnmarshalBinary"); f != nil {
		g, info := f.Graph(), f.Info()
		ok, why := false, "no counting loop"
		an.InspectShallow(f.Body, func(n ast.Node) bool {
			fs, isF := n.(*ast.ForStmt)
			if !isF || fs.Cond == nil || fs.Init == nil || fs.Post == nil {
				return true
			}
			why = ""
			be, isB := ast.Unparen(fs.Cond).(*ast.BinaryExpr)
			if !isB || be.Op != token.LSS {
				why = "the loop bound is not `i < count`"
				return false
			}
			iobj, cnt := an.ObjOf(info, be.X), an.ObjOf(info, be.Y)
			// count decoded from the data, receipts sized with it
			def, _ := c19LastDef(f, cnt, fs.Pos())
			if cnt == nil || def == nil || !strings.HasPrefix(c19DecodeClass(f, info, def, fs.Pos(), 0), "u") {
				why = "the count is not decoded from the data"
				return false
			}
			sized := false
			an.InspectShallow(f.Body, func(m ast.Node) bool {
				if as, isAs := m.(*ast.AssignStmt); isAs && len(as.Lhs) == 1 && len(as.Rhs) == 1 && an.FieldOf(info, as.Lhs[0]) == receipts {
					if mk, isC := ast.Unparen(as.Rhs[0]).(*ast.CallExpr); isC && an.IsBuiltin(info, mk, "make") && len(mk.Args) == 2 && an.ObjOf(info, mk.Args[1]) == cnt {
						sized = true
					}
				}
				return true
			})
			init, isA := fs.Init.(*ast.AssignStmt)
			post, isI := fs.Post.(*ast.IncDecStmt)
			zero := false
			if isA && len(init.Rhs) == 1 && len(init.Lhs) == 1 && an.ObjOf(info, init.Lhs[0]) == iobj {
				if tv, has := info.Types[init.Rhs[0]]; has && tv.Value != nil && tv.Value.ExactString() == "0" {
					zero = true
				}
			}
			if !sized || !zero || !isI || post.Tok != token.INC || an.ObjOf(info, post.X) != iobj || iobj == nil {
				why = "the list is not allocated with the count, or the loop does not count from 0 in steps of 1"
				return false
			}
			var rest, recv types.Object
			cntCalls := 0
			for _, s := range g.CallsTo("types.(*Receipt).unmarshalStoreBinary", "types.(*Receipt).unmarshalStoreBinaryV2") {
				if !(fs.Body.Pos() <= s.Call.Pos() && s.Call.End() <= fs.Body.End()) {
					why = "a receipt codec is called outside the loop"
					return false
				}
				r0 := g.ResultVarAt(s, 0)
				if r0 == nil || len(s.Call.Args) != 1 || an.ObjOf(info, s.Call.Args[0]) != r0 {
					why = "the unread remainder is not threaded through the receipt codec"
					return false
				}
				rv := c19RecvOf(info, s.Call)
				if cntCalls > 0 && (r0 != rest || rv != recv) {
					why = "the two versions do not decode into the same variables"
					return false
				}
				rest, recv = r0, rv
				cntCalls++
			}
			if cntCalls != 2 {
				why = "expected the V1 and the V2 receipt codec in the loop"
				return false
			}
			stored := false
			for _, st := range fs.Body.List {
				as, isAs := st.(*ast.AssignStmt)
				if !isAs || len(as.Lhs) != 1 || len(as.Rhs) != 1 {
					continue
				}
				ix, isIx := ast.Unparen(as.Lhs[0]).(*ast.IndexExpr)
				if isIx && an.FieldOf(info, ix.X) == receipts && an.ObjOf(info, ix.Index) == iobj && c19RootObj(info, as.Rhs[0]) == recv && recv != nil {
					stored = true
				}
			}
			if !stored {
				why = "the decoded receipt is not stored at receipts[i]"
				return false
			}
			if esc := c19LoopEscapes(g, fs.Body); esc != "" {
				why = esc
				return false
			}
			ok = true
			return false
		})
		c.Check("receipts-loop", "types.(*Receipts).UnmarshalBinary", f.Pos(), ok, "exactly `count` receipts are decoded in order, each from the remainder left by the previous one, and stored at receipts[i] ("+why+")")
	}
	c.Floor("receipts-loop", 2)
}

// ---------------------------------------------------------------------------
// memory-restore: the fields left out of the stored encodings are restored by
// SetMemoryInfo, which the chain DB reader calls.

func c19MemoryRestore(c *rep.Ctx) {
	p := c.Prog
	for _, it := range []struct {
		fn, typ string
		fields  []string
	}{
		{"types.(*Receipt).SetMemoryInfo", "Receipt", []string{"BlockNo", "BlockHash", "TxIndex"}},
		{"types.(*Event).SetMemoryInfo", "Event", []string{"TxHash", "BlockNo", "BlockHash", "TxIndex"}},
	} {
		f := c.Fn(it.fn)
		st := p.LookupStruct("types", it.typ)
		if f == nil || st == nil {
			continue
		}
		set := map[string]bool{}
		for _, a := range p.FieldTrace(f, st, func(_, _ *an.Func) bool { return false }) {
			if a.Kind == "assign" && a.Must {
				set[a.Field.Name()] = true
			}
		}
		for _, fld := range it.fields {
			c.Check("memory-restore", it.fn+"|"+fld, f.Pos(), set[fld], "a field that the stored encoding leaves out is restored unconditionally by SetMemoryInfo")
		}
	}
	// Receipt.SetMemoryInfo forwards to every event
	if f := c.Fn("types.(*Receipt).SetMemoryInfo"); f != nil {
		info := f.Info()
		events := p.LookupField("types", "Receipt", "Events")
		ok := false
		an.InspectShallow(f.Body, func(n ast.Node) bool {
			rs, isR := n.(*ast.RangeStmt)
			if !isR || an.FieldOf(info, rs.X) != events || rs.Value == nil {
				return true
			}
			v := an.ObjOf(info, rs.Value)
			for _, call := range an.CallsIn(rs.Body) {
				if an.CalleeName(info, call) == "types.(*Event).SetMemoryInfo" && c19RecvOf(info, call) == v && c19LoopEscapes(f.Graph(), rs.Body) == "" {
					ok = true
				}
			}
			return true
		})
		c.Check("memory-restore", "types.(*Receipt).SetMemoryInfo|events", f.Pos(), ok, "SetMemoryInfo restores the memory-only fields of every event of the receipt")
	}
	// readers of stored receipts call SetMemoryInfo on what they hand out
	if f := c.Fn("chain.(*ChainDB).getReceipt"); f != nil {
		g := f.Graph()
		sm := g.CallsTo("types.(*Receipt).SetMemoryInfo")
		ok := len(sm) >= 1
		for _, r := range g.Returns() {
			if g.FailureReturns()[r] {
				continue
			}
			gates := an.Set{}
			for _, s := range sm {
				gates[s.Node] = true
			}
			if !g.Dominated(r, gates) {
				ok = false
			}
		}
		c.Check("memory-restore", "chain.(*ChainDB).getReceipt", f.Pos(), ok, "a receipt read back from the store gets its memory-only fields before it is returned")
	}
	c.Floor("memory-restore", 8)
}

// ---------------------------------------------------------------------------
// root-binding: NewBlock puts into the header the roots of exactly the lists it
// was given, and the transaction list it stores in the body.

func c19RootBinding(c *rep.Ctx) {
	p := c.Prog
	f := c.Fn("types.NewBlock")
	if f == nil {
		return
	}
	info := f.Info()
	hdr := p.LookupStruct("types", "BlockHeader")
	body := p.LookupStruct("types", "BlockBody")
	if hdr == nil || body == nil {
		c.Undecide("anchor", "types.BlockHeader/BlockBody", "struct not found")
		return
	}
	vals := map[string]ast.Expr{}
	ast.Inspect(f.Body, func(n ast.Node) bool {
		cl, ok := n.(*ast.CompositeLit)
		if !ok {
			return true
		}
		tv, has := info.Types[cl]
		if !has {
			return true
		}
		s, isS := tv.Type.Underlying().(*types.Struct)
		if !isS || (s != hdr && s != body) {
			return true
		}
		for _, el := range cl.Elts {
			if kv, isKV := el.(*ast.KeyValueExpr); isKV {
				if id, isID := kv.Key.(*ast.Ident); isID {
					vals[id.Name] = kv.Value
				}
			}
		}
		return true
	})
	txs := an.ObjOf(info, vals["Txs"])
	okT := false
	if call, isC := ast.Unparen(vals["TxsRootHash"]).(*ast.CallExpr); isC && vals["TxsRootHash"] != nil {
		okT = an.CalleeName(info, call) == "types.CalculateTxsRootHash" && len(call.Args) == 1 && txs != nil && an.ObjOf(info, call.Args[0]) == txs
	}
	c.Check("root-binding", "types.NewBlock|TxsRootHash", f.Pos(), okT, "the header's TxsRootHash is CalculateTxsRootHash of the very list stored in Body.Txs")
	okR := false
	if vals["ReceiptsRootHash"] != nil {
		if call, isC := ast.Unparen(vals["ReceiptsRootHash"]).(*ast.CallExpr); isC {
			if an.CalleeName(info, call) == "types.(*Receipts).MerkleRoot" {
				if _, isParam := c19RecvOf(info, call).(*types.Var); isParam {
					okR = true
				}
			}
		}
	}
	c.Check("root-binding", "types.NewBlock|ReceiptsRootHash", f.Pos(), okR, "the header's ReceiptsRootHash is MerkleRoot() of the receipts handed to NewBlock")
	c.Floor("root-binding", 2)
}
