package props

import (
	"go/ast"
	"go/constant"
	"go/token"
	"go/types"

	"verif/checker/internal/an"
	"verif/checker/internal/rep"
)

// C04 gap rules (gap review after the seeded-change rounds).  Every rule is a
// necessary condition of "a transaction changes state only if it is signed by
// its sender, bound to this chain and carries exactly the next nonce":
//
//	digest-coverage, sign-flow  (shared with C19) the signed digest and the tx
//	                  hash cover every body field (the signature binds nonce,
//	                  chain id hash, ...), sign/verify use that digest
//	hash-recompute    the hash compared in Validate is recomputed, never the
//	                  stored field; the digest writers return the Sum of the
//	                  hash object they fed
//	nonce-advance     executeTx accepts (returns nil) only after the sender's
//	                  nonce was set to the tx nonce AND written to the state DB
//	                  (helpers followed, no Reset in between)
//	mempool-hit       the verifier's shortcut reports a hit only when the pool
//	                  answered with the transaction stored under the tx hash
//	pool-entry-sites  every call site of MemPool.put is behind verifyTx, the
//	                  hash index is filled only by put
//	verify-collect    a failed signature of one transaction reaches WaitDone:
//	                  worker result -> collector flag (monotone) -> VerifyResult
//	                  -> WaitDone's first result
//	sender-key        the key a named sender is verified against is looked up
//	                  under the tx's own Account field, for the same tx, and
//	                  the pool records the account it verified against
//	exec-entry        nothing but chain.executeTx drives the executors
//	fee-consent       a fee-delegated execution is behind CheckFeeDelegation
//	chain-id-source   the chain id hash given to Validate is the digest of the
//	                  executed block's own chain id
//	verify-drain      a verification request publishes its verdict only after
//	                  all submitted work items were received back
//	verdict-consumed  every exit of the block executor consumed the verdict
//	                  requested for this block (REPORTS on the unchanged tree)
//	shortcut-scope    the mempool-hit shortcut is limited to address senders
//	                  (REPORTS on the unchanged tree)
func init() {
	extend("C04", c04GapSharedDigest)
	extend("C04", c04GapHashRecompute)
	extend("C04", c04GapNonceAdvance)
	extend("C04", c04GapMempoolHit)
	extend("C04", c04GapPoolEntrySites)
	extend("C04", c04GapVerifyCollect)
	extend("C04", c04GapSenderKey)
	extend("C04", c04GapExecEntry)
	extend("C04", c04GapFeeConsent)
	extend("C04", c04GapChainIDSource)
	extend("C04", c04GapVerifyDrain)
	extend("C04", c04GapVerdictConsumed)
	extend("C04", c04GapShortcutScope)
}

// ---------------------------------------------------------------------------
// helpers

// c04GapResolve follows once-defined locals: x -> the expression x was
// defined with (single-valued definitions only).
func c04GapResolve(g *an.Graph, info *types.Info, e ast.Expr) ast.Expr {
	for i := 0; i < 6; i++ {
		e = ast.Unparen(e)
		id, ok := e.(*ast.Ident)
		if !ok {
			return e
		}
		obj := an.ObjOf(info, id)
		if obj == nil {
			return e
		}
		rhs, idx := g.SingleDef(obj)
		if rhs == nil || idx != 0 {
			return e
		}
		if tv, has := info.Types[rhs]; has {
			if _, tuple := tv.Type.(*types.Tuple); tuple {
				return e
			}
		}
		e = rhs
	}
	return ast.Unparen(e)
}

// c04GapDerivesFrom: e mentions obj, directly or through once-defined locals.
func c04GapDerivesFrom(g *an.Graph, info *types.Info, e ast.Node, obj types.Object, depth int) bool {
	if e == nil || obj == nil {
		return false
	}
	found := false
	ast.Inspect(e, func(n ast.Node) bool {
		id, ok := n.(*ast.Ident)
		if !ok || found {
			return !found
		}
		o := info.Uses[id]
		if o == nil {
			o = info.Defs[id]
		}
		if o == nil {
			return true
		}
		if o == obj {
			found = true
			return false
		}
		if _, isVar := o.(*types.Var); isVar && depth < 4 {
			if rhs, _ := g.SingleDef(o); rhs != nil && c04GapDerivesFrom(g, info, rhs, obj, depth+1) {
				found = true
			}
		}
		return !found
	})
	return found
}

func c04GapConstBool(info *types.Info, e ast.Expr) (val, isConst bool) {
	tv, ok := info.Types[e]
	if !ok || tv.Value == nil || tv.Value.Kind() != constant.Bool {
		return false, false
	}
	return constant.BoolVal(tv.Value), true
}

// c04GapStripAddr:  &x -> x, *x -> x
func c04GapStripAddr(e ast.Expr) (ast.Expr, bool) {
	e = ast.Unparen(e)
	if u, ok := e.(*ast.UnaryExpr); ok && u.Op == token.AND {
		return ast.Unparen(u.X), true
	}
	if s, ok := e.(*ast.StarExpr); ok {
		return ast.Unparen(s.X), false
	}
	return e, false
}

func c04GapParamIndex(f *an.Func, obj types.Object) int {
	if obj == nil {
		return -1
	}
	for i := 0; i < 16; i++ {
		o := f.ParamObj(i)
		if o == nil {
			// unnamed parameters return nil as well; keep scanning a little
			continue
		}
		if o == obj {
			return i
		}
	}
	return -1
}

// ---------------------------------------------------------------------------
// digest-coverage / sign-flow: the C19 anchors written for this property

func c04GapSharedDigest(c *rep.Ctx) {
	c19TxDigestCoverage(c, "")
	c19TxSignFlow(c)
	c.Floor("digest-coverage", 18)
}

// ---------------------------------------------------------------------------
// hash-recompute

func c04GapHashRecompute(c *rep.Ctx) {
	const rule = "hash-recompute"
	const full = "types.(*Tx).CalculateTxHash"
	if f := c.Fn("types.(*transaction).CalculateTxHash"); f != nil {
		g, info := f.Graph(), f.Info()
		rets := g.Returns()
		ok := len(rets) > 0
		for _, r := range rets {
			rs := r.Ast.(*ast.ReturnStmt)
			if len(rs.Results) != 1 {
				ok = false
				continue
			}
			call, isCall := c04GapResolve(g, info, rs.Results[0]).(*ast.CallExpr)
			if !isCall || an.CalleeName(info, call) != full {
				ok = false
			}
		}
		c.Check(rule, "types.(*transaction).CalculateTxHash|delegates", f.Pos(), ok, "the hash that Validate compares with the carried tx.Hash is recomputed from the body on every path (every return is the result of (*Tx).CalculateTxHash); returning the stored field would make the comparison vacuous")
	}
	for _, spec := range c19Digests {
		if spec.typ != "TxBody" {
			continue
		}
		d := c19LoadDigest(c, spec)
		if d == nil {
			continue
		}
		g, info := d.fn.Graph(), d.fn.Info()
		var sink types.Object
		oneSink := len(d.seq) > 0
		for _, x := range d.seq {
			o := c19SinkDest(info, x.acc)
			if o == nil || (sink != nil && o != sink) {
				oneSink = false
			}
			sink = o
		}
		rets := g.Returns()
		ok := oneSink && len(rets) > 0
		for _, r := range rets {
			rs := r.Ast.(*ast.ReturnStmt)
			if len(rs.Results) != 1 {
				ok = false
				continue
			}
			call, isCall := c04GapResolve(g, info, rs.Results[0]).(*ast.CallExpr)
			if !isCall {
				ok = false
				continue
			}
			fn := an.Callee(info, call)
			if fn == nil || fn.Name() != "Sum" || fn.Pkg() == nil || fn.Pkg().Path() != "hash" || recvObj(info, call) != sink {
				ok = false
			}
		}
		c.Check(rule, spec.fn+"|returns-sum", d.fn.Pos(), ok, "every return of the digest writer is Sum() of the one hash object the body fields were written to (no cached or carried value)")
	}
	c.Floor(rule, 3)
}

// ---------------------------------------------------------------------------
// nonce-advance

type c04GapAdv struct {
	gates an.Set
	reset bool // a Reset of the account can follow the SetNonce
	sets  int
}

// c04GapAdvanceGates computes the vertices of f after which the nonce of the
// account held in obj has been set to an accepted value and written with
// PutState.  infeasible: edges that cannot be taken for the call being
// summarised (pointer parameter known non-nil).  valOK judges the argument of
// SetNonce in f.
func c04GapAdvanceGates(p *an.Prog, f *an.Func, obj types.Object, infeasible an.Set, valOK func(ast.Expr) bool, depth int) c04GapAdv {
	g, info := f.Graph(), f.Info()
	res := c04GapAdv{gates: an.Set{}}
	setN := an.Set{}
	for _, s := range g.CallsTo("state.(*AccountState).SetNonce") {
		if recvObj(info, s.Call) == obj && len(s.Call.Args) == 1 && valOK(s.Call.Args[0]) {
			setN[s.Node] = true
		}
	}
	res.sets = len(setN)
	if len(setN) > 0 {
		var starts []*an.Node
		for n := range setN {
			starts = append(starts, n.Succs...)
		}
		after := g.Reach(starts, nil)
		for _, s := range g.CallsTo("state.(*AccountState).Reset") {
			if recvObj(info, s.Call) == obj && after[s.Node] {
				res.reset = true
			}
		}
		for _, s := range g.CallsTo("state.(*AccountState).PutState") {
			if recvObj(info, s.Call) != obj || !g.Dominated(s.Node, setN.Union(infeasible)) {
				continue
			}
			if edges := g.ErrNilEdges(s); len(edges) > 0 {
				for e := range edges {
					res.gates[e] = true
				}
			} else if _, isRet := s.Node.Ast.(*ast.ReturnStmt); isRet {
				res.gates[s.Node] = true // `return acc.PutState()`: the caller tests it
			}
		}
	}
	if depth >= 2 {
		return res
	}
	// helpers that receive the account
	for _, s := range g.Calls(func(fn *types.Func, call *ast.CallExpr) bool { return fn != nil && p.FuncOf(fn) != nil }) {
		callee := p.FuncOf(s.Fn)
		if callee == nil || callee == f || callee.Body == nil {
			continue
		}
		at := -1
		for i := range s.Call.Args {
			if an.ObjOf(info, s.Call.Args[i]) == obj {
				at = i
			}
		}
		if at < 0 {
			continue
		}
		cg, cinfo := callee.Graph(), callee.Info()
		pobj := callee.ParamObj(at)
		if pobj == nil {
			continue
		}
		inf := an.Set{}
		for j, a := range s.Call.Args {
			if _, addr := c04GapStripAddr(a); addr {
				if pj := callee.ParamObj(j); pj != nil {
					for e := range cg.EdgesImplying(an.NilAtom(cinfo, pj), map[string]bool{"nil": true}) {
						inf[e] = true
					}
				}
			}
		}
		site := s
		sub := c04GapAdvanceGates(p, callee, pobj, inf, func(e ast.Expr) bool {
			x, _ := c04GapStripAddr(e)
			k := c04GapParamIndex(callee, an.ObjOf(cinfo, x))
			if k < 0 || k >= len(site.Call.Args) || !cg.SingleDefOrParam(an.ObjOf(cinfo, x)) {
				return false
			}
			y, _ := c04GapStripAddr(site.Call.Args[k])
			return valOK(y)
		}, depth+1)
		if len(sub.gates) == 0 || sub.reset {
			if sub.reset {
				res.reset = res.reset || sub.sets > 0
			}
			continue
		}
		ok := true
		for _, r := range c04GapAcceptingReturns(cg, cinfo) {
			if !sub.gates[r] && !cg.Dominated(r, sub.gates.Union(inf)) {
				ok = false
			}
		}
		if !ok {
			continue
		}
		sig, _ := s.Fn.Type().(*types.Signature)
		if sig != nil && sig.Results().Len() == 0 {
			res.gates[s.Node] = true
			continue
		}
		for e := range g.ErrNilEdges(s) {
			res.gates[e] = true
		}
	}
	return res
}

// c04GapAcceptingReturns: g.NilReturns() without the returns `return x` that
// one branch edge on which x is known non-nil dominates with no assignment of x
// in between (NilReturns keeps those when an earlier, non-exiting `if x != nil`
// can reach the return on a path that is infeasible at run time).
func c04GapAcceptingReturns(g *an.Graph, info *types.Info) []*an.Node {
	var out []*an.Node
	for _, r := range g.NilReturns() {
		rs := r.Ast.(*ast.ReturnStmt)
		drop := false
		if len(rs.Results) > 0 {
			if obj := an.ObjOf(info, rs.Results[len(rs.Results)-1]); obj != nil {
				for e := range g.EdgesImplying(an.NilAtom(info, obj), map[string]bool{"nil": false}) {
					if !g.Dominated(r, an.SetOf(e)) {
						continue
					}
					clean := true
					for m := range g.Between(e, r) {
						if m.Kind == an.KStmt && an.Assigns(info, m.Ast, obj) {
							clean = false
						}
					}
					if clean {
						drop = true
					}
				}
			}
		}
		if !drop {
			out = append(out, r)
		}
	}
	return out
}

func c04GapNonceAdvance(c *rep.Ctx) {
	const rule = "nonce-advance"
	f := c.Fn("chain.executeTx")
	if f == nil {
		return
	}
	g, info := f.Graph(), f.Info()
	var sender types.Object
	for _, s := range g.CallsTo(c04ValidateSS) {
		if len(s.Call.Args) >= 1 {
			if call, ok := ast.Unparen(s.Call.Args[0]).(*ast.CallExpr); ok && an.CalleeName(info, call) == "state.(*AccountState).State" {
				sender = recvObj(info, call)
			}
		}
	}
	nonceF := c.Prog.LookupField("types", "TxBody", "Nonce")
	if sender == nil || nonceF == nil {
		c.Undecide(rule, "chain.executeTx", "the sender account object (receiver of .State() handed to ValidateWithSenderState) was not found")
		return
	}
	valOK := func(e ast.Expr) bool {
		e = c04GapResolve(g, info, e)
		return an.FieldOf(info, e) == nonceF || containsCallTo(info, e, "types.(*TxBody).GetNonce")
	}
	adv := c04GapAdvanceGates(c.Prog, f, sender, nil, valOK, 0)
	rets := c04GapAcceptingReturns(g, info)
	if len(rets) == 0 {
		c.Undecide(rule, "chain.executeTx", "no accepting return found")
	}
	for _, r := range rets {
		ok := len(adv.gates) > 0 && !adv.reset && g.Dominated(r, adv.gates)
		c.Check(rule, "chain.executeTx|accepting-return", r.Ast.Pos(), ok, "executeTx returns nil (the tx stays in the block, with a SUCCESS or an ERROR receipt) only after the sender's nonce was set to the tx nonce and written with PutState (directly or through a helper such as resetAccount called with a non-nil nonce, no Reset after the SetNonce); otherwise the same signed tx can be executed again")
	}
	c.Floor(rule, 1)
}

// ---------------------------------------------------------------------------
// mempool-hit

func c04GapMempoolHit(c *rep.Ctx) {
	const rule = "mempool-hit"
	p := c.Prog
	rspTx := p.LookupField("types/message", "MemPoolExistRsp", "Tx")
	reqHash := p.LookupField("types/message", "MemPoolExist", "Hash")
	if rspTx == nil || reqHash == nil {
		c.Undecide(rule, "types/message.MemPoolExist", "message fields not found")
		return
	}
	if f := c.Fn("chain.(*SignVerifier).isInMempool"); f != nil {
		g, info := f.Graph(), f.Info()
		present := g.EdgesImplying(func(e ast.Expr) (string, bool, bool) {
			be, ok := e.(*ast.BinaryExpr)
			if !ok || (be.Op != token.EQL && be.Op != token.NEQ) {
				return "", false, false
			}
			for _, pr := range [][2]ast.Expr{{be.X, be.Y}, {be.Y, be.X}} {
				if an.FieldOf(info, ast.Unparen(pr[0])) == rspTx {
					if tv, has := info.Types[pr[1]]; has && tv.IsNil() {
						return "absent", be.Op == token.NEQ, true
					}
				}
			}
			return "", false, false
		}, map[string]bool{"absent": false})
		n := 0
		for _, r := range g.Returns() {
			rs := r.Ast.(*ast.ReturnStmt)
			if len(rs.Results) != 2 {
				c.Undecide(rule, f.Name(), "return without explicit results")
				continue
			}
			v, isConst := c04GapConstBool(info, rs.Results[0])
			if !isConst {
				c.Undecide(rule, f.Name(), "hit result "+an.ExprString(rs.Results[0])+" is not a constant: not recognised")
				continue
			}
			if !v {
				continue
			}
			n++
			c.Check(rule, f.Name()+"|hit", r.Ast.Pos(), len(present) > 0 && g.Dominated(r, present), "the shortcut that skips ECDSA verification reports a hit only on the edge where the pool's answer carries a transaction (rsp.Tx != nil); a timeout, an error or an empty answer is a miss")
		}
		if n == 0 {
			c.Undecide(rule, f.Name(), "no return reporting a hit")
		}
		// the question asked is keyed by the hash of the transaction being verified,
		// and the answer tested is the answer to that question
		txParam := f.ParamObj(1)
		bound := false
		var reqLit *ast.CompositeLit
		ast.Inspect(f.Body, func(nd ast.Node) bool {
			cl, ok := nd.(*ast.CompositeLit)
			if !ok {
				return true
			}
			for _, el := range cl.Elts {
				kv, ok := el.(*ast.KeyValueExpr)
				if !ok {
					continue
				}
				if id, ok := kv.Key.(*ast.Ident); ok && info.Uses[id] == reqHash {
					reqLit = cl
					v := c04GapResolve(g, info, kv.Value)
					if txParam != nil && c04GapDerivesFrom(g, info, v, txParam, 0) && containsCallTo(info, v, "types.(*Tx).GetHash") {
						bound = true
					}
				}
			}
			return true
		})
		c.Check(rule, f.Name()+"|question", f.Pos(), bound, "the pool is asked for the hash of the transaction being verified (MemPoolExist{Hash: tx.GetHash()})")
		// answer provenance: the tested rsp is the type-asserted result of the request carrying reqLit
		prov := false
		if reqLit != nil {
			ast.Inspect(f.Body, func(nd ast.Node) bool {
				sel, ok := nd.(*ast.SelectorExpr)
				if !ok || an.FieldOf(info, sel) != rspTx {
					return true
				}
				e := c04GapResolve(g, info, sel.X)
				if ta, ok := e.(*ast.TypeAssertExpr); ok {
					e = ast.Unparen(ta.X)
				}
				if o := an.ObjOf(info, e); o != nil {
					if rhs, _ := g.SingleDef(o); rhs != nil {
						if call, ok := ast.Unparen(rhs).(*ast.CallExpr); ok {
							for _, a := range call.Args {
								found := false
								ast.Inspect(c04GapResolve(g, info, a), func(x ast.Node) bool {
									if x == ast.Node(reqLit) {
										found = true
									}
									return !found
								})
								if found {
									prov = true
								}
							}
						}
					}
				}
				return true
			})
		}
		c.Check(rule, f.Name()+"|answer", f.Pos(), prov, "the answer whose Tx field is tested is the result of that request")
	}
	// pool side: the answer to MemPoolExist is what the hash index holds under msg.Hash
	if f := c.Fn("mempool.(*MemPool).Receive"); f != nil {
		g, info := f.Graph(), f.Info()
		n := 0
		ast.Inspect(f.Body, func(nd ast.Node) bool {
			cl, ok := nd.(*ast.CompositeLit)
			if !ok {
				return true
			}
			for _, el := range cl.Elts {
				kv, ok := el.(*ast.KeyValueExpr)
				if !ok {
					continue
				}
				if id, ok := kv.Key.(*ast.Ident); ok && info.Uses[id] == rspTx {
					n++
					v := c04GapResolve(g, info, kv.Value)
					call, isCall := v.(*ast.CallExpr)
					ok := isCall && an.CalleeName(info, call) == "mempool.(*MemPool).exist" && len(call.Args) == 1 && an.FieldOf(info, ast.Unparen(call.Args[0])) == reqHash
					c.Check(rule, f.Name()+"|MemPoolExistRsp.Tx", kv.Pos(), ok, "the pool answers MemPoolExist with the entry of its hash index under the requested hash (mp.exist(msg.Hash))")
				}
			}
			return true
		})
		if n == 0 {
			c.Undecide(rule, f.Name(), "no MemPoolExistRsp literal found")
		}
	}
	c.Floor(rule, 4)
}

// ---------------------------------------------------------------------------
// pool-entry-sites

var c04GapPutExceptions = map[string]string{
	"mempool.(*MemPool).loadTxs": "re-admits the node's own dump file, written by dumpTxsToFile from pool entries that were verified when they entered; relies on the integrity of that local file (trust assumption, reported to the lead)",
}

func c04GapPoolEntrySites(c *rep.Ctx) {
	const rule = "pool-entry-sites"
	const put = "mempool.(*MemPool).put"
	const ver = "mempool.(*MemPool).verifyTx"
	p := c.Prog
	if !calleeExists(p, put) || !calleeExists(p, ver) {
		c.Undecide(rule, put, "anchor not found")
		return
	}
	var visit func(name string, depth int)
	seen := map[string]bool{}
	visit = func(name string, depth int) {
		if seen[name] || depth > 3 {
			return
		}
		seen[name] = true
		sites := p.CallSitesOf(map[string]bool{name: true})
		refs := p.FuncRefs(map[string]bool{name: true})
		for _, r := range refs {
			pos := token.NoPos
			if r.Fn != nil {
				pos = r.Fn.Pos()
			}
			c.Check(rule, name+"|func-value", pos, false, "the pool's insert function is taken as a value: its callers cannot be enumerated")
		}
		for _, s := range sites {
			if s.Fn == nil {
				c.Undecide(rule, name, "call site outside any function")
				continue
			}
			en := s.Fn.Name()
			key := en + "|" + shortName(name)
			if why, ok := c04GapPutExceptions[en]; ok {
				c.CheckTrivial(rule, key+"|exception", s.Call.Pos(), true, "table row: "+why)
				continue
			}
			g, info := s.Fn.Graph(), s.Fn.Info()
			node := g.NodeContaining(s.Call.Pos())
			vs := g.CallsTo(ver)
			if len(vs) == 0 && s.Fn.Obj != nil && !s.Fn.Obj.Exported() {
				// (an exported method may be called through an interface, e.g. an
				// actor's Receive: it is an entry point and must gate in place)
				// a forwarding wrapper: its own callers must be gated
				wn := an.FuncName(s.Fn.Obj)
				nCallers := len(p.CallSitesOf(map[string]bool{wn: true})) + len(p.FuncRefs(map[string]bool{wn: true}))
				if nCallers == 0 {
					c.CheckTrivial(rule, key+"|no-caller", s.Call.Pos(), true, "the wrapper has no caller and is not referenced in the loaded program (package tests only)")
					continue
				}
				if depth < 3 {
					visit(wn, depth+1)
					continue
				}
			}
			gates := an.Set{}
			sameTx := false
			for _, v := range vs {
				if len(v.Call.Args) >= 1 && len(s.Call.Args) >= 1 {
					a, b := an.ObjOf(info, v.Call.Args[0]), an.ObjOf(info, s.Call.Args[0])
					if a != nil && a == b && g.SingleDefOrParam(a) {
						sameTx = true
						for e := range g.ErrNilEdges(v) {
							gates[e] = true
						}
					}
				}
			}
			ok := node != nil && sameTx && len(gates) > 0 && g.Dominated(node, gates)
			c.Check(rule, key, s.Call.Pos(), ok, "a transaction is inserted into the pool (and thereby becomes a hit for the block verifier's shortcut) only on the success edge of MemPool.verifyTx for the same transaction")
		}
	}
	visit(put, 0)
	// the hash index is written only by put
	cacheF := p.LookupField("mempool", "MemPool", "cache")
	if cacheF == nil {
		c.Undecide(rule, "mempool.MemPool.cache", "field not found")
		return
	}
	n := 0
	for _, s := range p.CallSitesOf(map[string]bool{"sync.(*Map).Store": true, "sync.(*Map).LoadOrStore": true, "sync.(*Map).Swap": true, "sync.(*Map).CompareAndSwap": true}) {
		if s.Fn == nil {
			continue
		}
		sel, ok := ast.Unparen(s.Call.Fun).(*ast.SelectorExpr)
		if !ok || an.FieldOf(s.Fn.Info(), ast.Unparen(sel.X)) != cacheF {
			continue
		}
		n++
		c.Check(rule, s.Fn.Name()+"|cache.Store", s.Call.Pos(), s.Fn.Name() == put, "the pool's hash index (what MemPoolExist answers from) is filled only inside MemPool.put")
	}
	if n == 0 {
		c.Undecide(rule, "mempool.MemPool.cache", "no Store on the hash index found")
	}
	c.Floor(rule, 3)
}

// ---------------------------------------------------------------------------
// verify-collect

func c04GapVerifyCollect(c *rep.Ctx) {
	const rule = "verify-collect"
	p := c.Prog
	workErr := p.LookupField("chain", "verifyWorkRes", "err")
	resFailed := p.LookupField("chain", "VerifyResult", "failed")
	resultCh := p.LookupField("chain", "SignVerifier", "resultCh")
	doneCh := p.LookupField("chain", "SignVerifier", "doneCh")
	if workErr == nil || resFailed == nil || resultCh == nil || doneCh == nil {
		c.Undecide(rule, "chain.SignVerifier", "fields verifyWorkRes.err / VerifyResult.failed / resultCh / doneCh not found")
		return
	}
	// (a) the worker hands the verifier's error to the collector
	if f := c.Fn("chain.(*SignVerifier).verifyTxLoop"); f != nil {
		g, info := f.Graph(), f.Info()
		vs := g.CallsTo("chain.(*SignVerifier).verifyTx")
		n := 0
		for _, nd := range g.StmtNodes(func(n *an.Node) bool { _, ok := n.Ast.(*ast.SendStmt); return ok }) {
			snd := nd.Ast.(*ast.SendStmt)
			if an.FieldOf(info, ast.Unparen(snd.Chan)) != doneCh {
				continue
			}
			n++
			ok := false
			if len(vs) == 1 {
				errVar := g.ResultVarAt(vs[0], 1)
				v, _ := c04GapStripAddr(c04GapResolve(g, info, snd.Value))
				if cl, isLit := v.(*ast.CompositeLit); isLit && errVar != nil {
					if fv := c04GapFieldValue(info, cl, workErr); fv != nil && an.ObjOf(info, fv) == errVar && g.SingleDefOrParam(errVar) && g.Dominated(nd, an.SetOf(vs[0].Node)) {
						ok = true
					}
				}
			}
			c.Check(rule, f.Name()+"|done.err", snd.Pos(), ok, "the worker reports the error returned by verifyTx for this transaction to the collector (verifyWorkRes.err)")
		}
		if n == 0 {
			c.Undecide(rule, f.Name(), "no send on doneCh found")
		}
	}
	// (b) the collector: err != nil => failed = true, failed is monotone, and it is what is published
	if top := c.Fn("chain.(*SignVerifier).RequestVerifyTxs"); top != nil {
		fns := append([]*an.Func{top}, top.Lits...)
		nSend := 0
		for _, f := range fns {
			g, info := f.Graph(), f.Info()
			for _, nd := range g.StmtNodes(func(n *an.Node) bool { _, ok := n.Ast.(*ast.SendStmt); return ok }) {
				snd := nd.Ast.(*ast.SendStmt)
				if an.FieldOf(info, ast.Unparen(snd.Chan)) != resultCh {
					continue
				}
				nSend++
				key := f.Name() + "|publish"
				v, _ := c04GapStripAddr(c04GapResolve(g, info, snd.Value))
				cl, isLit := v.(*ast.CompositeLit)
				if !isLit {
					c.Undecide(rule, key, "published value is not a VerifyResult literal")
					continue
				}
				fv := c04GapFieldValue(info, cl, resFailed)
				if fv == nil {
					c.Check(rule, key, snd.Pos(), false, "the published VerifyResult does not set `failed`: it is always false")
					continue
				}
				if cv, isConst := c04GapConstBool(info, fv); isConst {
					if cv {
						c.CheckTrivial(rule, key+"|const-true", snd.Pos(), true, "publishes a failure")
						continue
					}
					empty := g.EdgesImplying(c04GapEmptyAtom(g, info), map[string]bool{"empty": true})
					c.Check(rule, key+"|const-false", snd.Pos(), len(empty) > 0 && g.Dominated(nd, empty), "`failed: false` is published without verification only for an empty transaction list")
					continue
				}
				flag := an.ObjOf(info, fv)
				if flag == nil {
					c.Undecide(rule, key, "`failed` is published from an expression that is not a local flag")
					continue
				}
				c04GapFlagMonotone(c, rule, f, nd, flag, workErr, snd.Pos())
			}
		}
		if nSend < 2 {
			c.Undecide(rule, top.Name(), "fewer sends on resultCh than on the reference tree")
		}
	}
	// (c) WaitDone hands out the published flag
	if f := c.Fn("chain.(*SignVerifier).WaitDone"); f != nil {
		g, info := f.Graph(), f.Info()
		rets := g.Returns()
		ok := len(rets) > 0
		for _, r := range rets {
			rs := r.Ast.(*ast.ReturnStmt)
			if len(rs.Results) != 2 {
				ok = false
				continue
			}
			e := c04GapResolve(g, info, rs.Results[0])
			sel, isSel := e.(*ast.SelectorExpr)
			if !isSel || an.FieldOf(info, sel) != resFailed {
				ok = false
				continue
			}
			base := an.ObjOf(info, sel.X)
			fromCh := false
			ast.Inspect(f.Body, func(nd ast.Node) bool {
				as, isAs := nd.(*ast.AssignStmt)
				if !isAs || len(as.Lhs) != 1 || len(as.Rhs) != 1 {
					return true
				}
				if u, isU := ast.Unparen(as.Rhs[0]).(*ast.UnaryExpr); isU && u.Op == token.ARROW && an.FieldOf(info, ast.Unparen(u.X)) == resultCh && base != nil && an.ObjOf(info, as.Lhs[0]) == base {
					fromCh = true
				}
				return true
			})
			if !fromCh {
				ok = false
			}
		}
		c.Check(rule, f.Name()+"|failed", f.Pos(), ok, "WaitDone's first result is the `failed` flag of the VerifyResult received from resultCh")
	}
	c.Floor(rule, 5)
}

// c04GapFieldValue returns the value given to field fld in a keyed or
// positional struct literal, nil if absent.
func c04GapFieldValue(info *types.Info, cl *ast.CompositeLit, fld *types.Var) ast.Expr {
	for i, el := range cl.Elts {
		if kv, ok := el.(*ast.KeyValueExpr); ok {
			if id, ok := kv.Key.(*ast.Ident); ok && info.Uses[id] == fld {
				return kv.Value
			}
			continue
		}
		if tv, ok := info.Types[cl]; ok {
			if st, ok := tv.Type.Underlying().(*types.Struct); ok && i < st.NumFields() && st.Field(i) == fld {
				return el
			}
		}
	}
	return nil
}

// c04GapEmptyAtom recognises "the list is empty": len(x) == 0, 0 == len(x),
// len(x) < 1, len(x) <= 0 (x or the length may be a once-defined local).
func c04GapEmptyAtom(g *an.Graph, info *types.Info) an.Atomizer {
	isLen := func(e ast.Expr) bool {
		call, ok := c04GapResolve(g, info, e).(*ast.CallExpr)
		return ok && an.IsBuiltin(info, call, "len")
	}
	constIs := func(e ast.Expr, want int64) bool {
		tv, ok := info.Types[e]
		if !ok || tv.Value == nil || tv.Value.Kind() != constant.Int {
			return false
		}
		v, exact := constant.Int64Val(tv.Value)
		return exact && v == want
	}
	return func(e ast.Expr) (string, bool, bool) {
		be, ok := e.(*ast.BinaryExpr)
		if !ok {
			return "", false, false
		}
		x, y, op := be.X, be.Y, be.Op
		if !isLen(x) && isLen(y) {
			x, y = y, x
			op = flipOpTok(op)
		}
		if !isLen(x) {
			return "", false, false
		}
		switch {
		case op == token.EQL && constIs(y, 0), op == token.LSS && constIs(y, 1), op == token.LEQ && constIs(y, 0):
			return "empty", false, true
		case op == token.NEQ && constIs(y, 0), op == token.GEQ && constIs(y, 1), op == token.GTR && constIs(y, 0):
			return "empty", true, true
		}
		return "", false, false
	}
}

// c04GapFlagMonotone: in f the boolean local `flag`, published at vertex pub,
// (1) starts false outside every loop, (2) is afterwards only set to true (or
// or-ed with itself), (3) is set to true on every path from an edge where a
// worker result's err is known non-nil to the publication.
func c04GapFlagMonotone(c *rep.Ctx, rule string, f *an.Func, pub *an.Node, flag types.Object, workErr *types.Var, pos token.Pos) {
	g, info := f.Graph(), f.Info()
	key := f.Name() + "|" + flag.Name()
	setTrue := an.Set{}
	mono := true
	why := ""
	orAcc := false
	for _, n := range g.Nodes {
		if n.Kind != an.KStmt || !an.Assigns(info, n.Ast, flag) {
			continue
		}
		var lhs, rhs []ast.Expr
		define := false
		switch s := n.Ast.(type) {
		case *ast.AssignStmt:
			lhs, rhs = s.Lhs, s.Rhs
			define = s.Tok == token.DEFINE
			if s.Tok != token.DEFINE && s.Tok != token.ASSIGN {
				mono, why = false, "op-assignment"
				continue
			}
		case *ast.ValueSpec:
			for _, nm := range s.Names {
				lhs = append(lhs, nm)
			}
			rhs = s.Values
			define = true
			if len(rhs) == 0 {
				if g.InLoop(n) {
					mono, why = false, "declared inside the loop (reset per result)"
				}
				continue
			}
		default:
			mono, why = false, "address taken or assigned in an unrecognised statement"
			continue
		}
		if len(lhs) != len(rhs) {
			mono, why = false, "assigned from a multi-valued expression"
			continue
		}
		for i, l := range lhs {
			if an.ObjOf(info, l) != flag {
				continue
			}
			r := ast.Unparen(rhs[i])
			if cv, isConst := c04GapConstBool(info, r); isConst {
				if cv {
					setTrue[n] = true
				} else if !define || g.InLoop(n) {
					mono, why = false, "set back to false after its definition"
				}
				continue
			}
			if be, ok := r.(*ast.BinaryExpr); ok && be.Op == token.LOR && (an.ObjOf(info, be.X) == flag || an.ObjOf(info, be.Y) == flag) {
				orAcc = true
				continue
			}
			mono, why = false, "assigned "+an.ExprString(r)+" (can clear an earlier failure)"
		}
	}
	c.Check(rule, key+"|monotone", pos, mono, "the collector's failure flag starts false outside the loop and is afterwards only raised (a later successful transaction cannot clear an earlier failure) "+why)
	errEdges := g.EdgesImplying(func(e ast.Expr) (string, bool, bool) {
		be, ok := e.(*ast.BinaryExpr)
		if !ok || (be.Op != token.EQL && be.Op != token.NEQ) {
			return "", false, false
		}
		for _, pr := range [][2]ast.Expr{{be.X, be.Y}, {be.Y, be.X}} {
			if an.FieldOf(info, ast.Unparen(pr[0])) == workErr {
				if tv, has := info.Types[pr[1]]; has && tv.IsNil() {
					return "err", be.Op == token.EQL, true
				}
			}
		}
		return "", false, false
	}, map[string]bool{"err": true})
	if len(errEdges) == 0 {
		if orAcc {
			c.Undecide(rule, key, "the flag is accumulated with || and no branch tests the worker error: idiom not recognised")
			return
		}
		c.Check(rule, key+"|err-raises", pos, false, "no branch of the collector tests the worker result's err: a failed signature never raises the flag")
		return
	}
	ok := true
	for e := range errEdges {
		if g.Reach([]*an.Node{e}, setTrue)[pub] {
			ok = false
		}
	}
	c.Check(rule, key+"|err-raises", pos, ok, "from every edge on which a worker result's err is known non-nil, the flag is set to true before the VerifyResult is published")
}

// ---------------------------------------------------------------------------
// sender-key

func c04GapSenderKey(c *rep.Ctx) {
	const rule = "sender-key"
	p := c.Prog
	accF := p.LookupField("types", "TxBody", "Account")
	if accF == nil {
		c.Undecide(rule, "types.TxBody.Account", "field not found")
		return
	}
	isSenderName := func(g *an.Graph, info *types.Info, e ast.Expr) bool {
		e = c04GapResolve(g, info, e)
		reads := readsField(info, e, accF) || containsCallTo(info, e, "types.(*TxBody).GetAccount")
		other := containsCallTo(info, e, "types.(*TxBody).GetRecipient") || readsField(info, e, p.LookupField("types", "TxBody", "Recipient"))
		return reads && !other
	}
	type spec struct {
		fn      string
		lookups []string
		txParam int
	}
	for _, sp := range []spec{
		{"chain.(*SignVerifier).verifyTx", []string{"contract/name.GetOwner", "contract/name.GetAddress"}, 1},
		{"mempool.(*MemPool).verifyTx", []string{"mempool.(*MemPool).getAddress", "mempool.(*MemPool).getOwner", "contract/name.GetOwner", "contract/name.GetAddress"}, 0},
	} {
		f := c.Fn(sp.fn)
		if f == nil {
			continue
		}
		g, info := f.Graph(), f.Info()
		txParam := f.ParamObj(sp.txParam)
		vs := g.CallsTo("account/key.VerifyTxWithAddress")
		if len(vs) == 0 || txParam == nil {
			c.Undecide(rule, sp.fn, "no VerifyTxWithAddress call / tx parameter found")
			continue
		}
		for _, v := range vs {
			if len(v.Call.Args) != 2 {
				continue
			}
			// same transaction
			a0 := c04GapResolve(g, info, v.Call.Args[0])
			same := an.ObjOf(info, a0) == txParam
			if call, ok := a0.(*ast.CallExpr); ok && an.CalleeName(info, call) == "types.(Transaction).GetTx" && recvObj(info, call) == txParam {
				same = true
			}
			c.Check(rule, sp.fn+"|same-tx", v.Call.Pos(), same, "the signature checked against the looked-up key is that of the transaction being admitted")
			// the key is looked up under the tx's own Account field
			addrObj := an.ObjOf(info, v.Call.Args[1])
			ok := false
			if addrObj != nil {
				if rhs, _ := g.SingleDef(addrObj); rhs != nil {
					if call, isCall := ast.Unparen(rhs).(*ast.CallExpr); isCall {
						cn := an.CalleeName(info, call)
						for _, l := range sp.lookups {
							if cn == l && len(call.Args) >= 1 && isSenderName(g, info, call.Args[len(call.Args)-1]) && c04GapMentionsTx(info, g, call.Args[len(call.Args)-1], txParam) {
								ok = true
							}
						}
					}
				}
			}
			c.Check(rule, sp.fn+"|lookup-key", v.Call.Pos(), ok, "the address/owner a named sender is verified against is looked up in the name registry under the transaction's own Account field")
			// the pool records the account it verified against
			for _, s := range g.CallsTo("types.(Transaction).SetVerifedAccount") {
				okSet := len(s.Call.Args) == 1 && addrObj != nil && an.ObjOf(info, s.Call.Args[0]) == addrObj && recvObj(info, s.Call) == txParam && g.Dominated(s.Node, g.ErrNilEdges(v))
				c.Check(rule, sp.fn+"|verified-account", s.Call.Pos(), okSet, "the verified account recorded on the pooled transaction (compared with the name's resolution at execution) is the address the signature was verified against, recorded after the verification succeeded")
			}
		}
	}
	c.Floor(rule, 5)
}

// c04GapMentionsTx: e (locals resolved) refers to the tx parameter.
func c04GapMentionsTx(info *types.Info, g *an.Graph, e ast.Expr, tx types.Object) bool {
	return c04GapDerivesFrom(g, info, e, tx, 0)
}

// ---------------------------------------------------------------------------
// exec-entry: the gates of executeTx are function-local; they protect the
// state only if nothing else in the node drives the executors.

func c04GapExecEntry(c *rep.Ctx) {
	const rule = "exec-entry"
	p := c.Prog
	imported := map[string]bool{}
	for _, pk := range p.ModulePkgs() {
		for path := range pk.Imports {
			imported[path] = true
		}
	}
	check := func(callee string, allowed map[string]bool) {
		n := 0
		for _, s := range p.CallSitesOf(map[string]bool{callee: true}) {
			if s.Fn == nil {
				continue
			}
			n++
			en := s.Fn.Name()
			key := en + "|" + shortName(callee)
			switch {
			case allowed[en]:
				c.CheckTrivial(rule, key, s.Call.Pos(), true, "the gated entry")
			case s.Fn.Pkg != nil && s.Fn.Pkg.PkgPath != an.Module+"/chain" && s.Fn.Pkg.Name != "main" && !imported[s.Fn.Pkg.PkgPath]:
				c.CheckTrivial(rule, key+"|stand-alone", s.Call.Pos(), true, "package "+s.Fn.Pkg.PkgPath+" is imported by no package of the module (stand-alone tool, not part of the node)")
			default:
				c.Check(rule, key, s.Call.Pos(), false, "transactions are executed outside chain.executeTx: the signature-account, chain id, hash and nonce gates of executeTx do not protect this path")
			}
		}
		if n == 0 {
			c.Undecide(rule, callee, "no call site found")
		}
	}
	check("contract.Execute", map[string]bool{"chain.executeTx": true})
	check("chain.executeGovernanceTx", map[string]bool{"chain.executeTx": true})
	check("chain.executeTx", map[string]bool{"chain.NewTxExecutor$1": true})
	for _, r := range p.FuncRefs(map[string]bool{"contract.Execute": true, "chain.executeGovernanceTx": true, "chain.executeTx": true}) {
		pos := token.NoPos
		if r.Fn != nil {
			pos = r.Fn.Pos()
		}
		c.Check(rule, "func-value", pos, false, "an executor is taken as a function value: its callers cannot be enumerated")
	}
	c.Floor(rule, 4)
}

// ---------------------------------------------------------------------------
// fee-consent: a transaction whose fee is charged to the contract (fee
// delegation) executes only after the contract agreed for this sender.

func c04GapFeeConsent(c *rep.Ctx) {
	const rule = "fee-consent"
	f := c.Fn("chain.executeTx")
	if f == nil {
		return
	}
	g, info := f.Graph(), f.Info()
	chk := g.CallsTo("contract.CheckFeeDelegation")
	gates := errEdgesOf(g, chk)
	n := 0
	for _, s := range g.CallsTo("contract.Execute") {
		if len(s.Call.Args) == 0 {
			continue
		}
		last := s.Call.Args[len(s.Call.Args)-1]
		if v, isConst := c04GapConstBool(info, last); isConst && !v {
			continue
		}
		n++
		c.Check(rule, "chain.executeTx|CheckFeeDelegation < Execute(feeDelegation)", s.Call.Pos(), len(gates) > 0 && g.Dominated(s.Node, gates), "an execution that charges the fee to the called contract is reached only on the edge where contract.CheckFeeDelegation returned no error (every refusal, including ErrNotAllowedFeeDelegation, leaves the function)")
	}
	for _, s := range chk {
		// the consent is asked for this transaction's sender, hash and amount
		ok := containsCallTo(info, s.Call, "types.(*TxBody).GetAccount") && containsCallTo(info, s.Call, "types.(Transaction).GetHash")
		c.Check(rule, "chain.executeTx|CheckFeeDelegation(args)", s.Call.Pos(), ok, "the contract is asked about this transaction's own sender and hash")
	}
	if n == 0 || len(chk) == 0 {
		c.Undecide(rule, "chain.executeTx", "fee-delegation arm (CheckFeeDelegation, Execute with isFeeDelegation) not found")
	}
	c.Floor(rule, 2)
}

// ---------------------------------------------------------------------------
// chain-id-source: the chain id hash handed to tx.Validate by the executor is
// the digest of the chain id of the block being executed.

func c04GapChainIDSource(c *rep.Ctx) {
	const rule = "chain-id-source"
	p := c.Prog
	cidF := p.LookupField("types", "BlockHeaderInfo", "ChainId")
	if cidF == nil {
		c.Undecide(rule, "types.BlockHeaderInfo.ChainId", "field not found")
		return
	}
	if f := c.Fn("types.(*BlockHeaderInfo).ChainIdHash"); f != nil {
		g, info := f.Graph(), f.Info()
		rets := g.Returns()
		ok := len(rets) > 0
		for _, r := range rets {
			rs := r.Ast.(*ast.ReturnStmt)
			if len(rs.Results) != 1 {
				ok = false
				continue
			}
			call, isCall := c04GapResolve(g, info, rs.Results[0]).(*ast.CallExpr)
			if hv := p.LookupObjVar("internal/common", "Hasher"); !isCall || hv == nil || an.CalleeVar(info, call) != hv || len(call.Args) != 1 || an.FieldOf(info, c04GapResolve(g, info, call.Args[0])) != cidF {
				ok = false
			}
		}
		c.Check(rule, f.Name()+"|digest-of-ChainId", f.Pos(), ok, "BlockHeaderInfo.ChainIdHash() is the digest of the ChainId field on every path")
	}
	if f := c.Fn("types.NewBlockHeaderInfo"); f != nil {
		g, info := f.Graph(), f.Info()
		blk := f.ParamObj(0)
		n := 0
		ast.Inspect(f.Body, func(nd ast.Node) bool {
			cl, ok := nd.(*ast.CompositeLit)
			if !ok {
				return true
			}
			tv, has := info.Types[cl]
			if !has {
				return true
			}
			if st, isSt := tv.Type.Underlying().(*types.Struct); !isSt || st.NumFields() == 0 || c.Prog.LookupStruct("types", "BlockHeaderInfo") != st {
				return true
			}
			n++
			v := c04GapFieldValue(info, cl, cidF)
			ok = false
			if v != nil {
				e := c04GapResolve(g, info, v)
				ok = containsCallTo(info, e, "types.(*BlockHeader).GetChainID") && c04GapDerivesFrom(g, info, e, blk, 0) && !containsCallTo(info, e, "types.(*BlockHeader).GetPrevBlockHash")
			}
			c.Check(rule, f.Name()+"|ChainId", cl.Pos(), ok, "the header info of a received block takes ChainId from that block's header (GetHeader().GetChainID())")
			return true
		})
		if n == 0 {
			c.Undecide(rule, f.Name(), "no BlockHeaderInfo literal found")
		}
	}
	c.Floor(rule, 2)
}

// ---------------------------------------------------------------------------
// verify-drain: a verification request publishes its verdict only after it
// received as many worker results as it submitted (workers and channels are
// shared by consecutive blocks: results left behind are counted by the next
// block's collector).
// verdict-consumed: every verdict that was requested for a block is consumed by
// that block's executor on every exit (the verdict channel is shared too: a
// verdict left behind is read by the next block's WaitVerifyDone).

func c04GapHasRecvFrom(info *types.Info, n ast.Node, ch *types.Var) bool {
	found := false
	an.InspectShallow(n, func(x ast.Node) bool {
		if u, ok := x.(*ast.UnaryExpr); ok && u.Op == token.ARROW && an.FieldOf(info, ast.Unparen(u.X)) == ch {
			found = true
		}
		return !found
	})
	return found
}

func c04GapVerifyDrain(c *rep.Ctx) {
	const rule = "verify-drain"
	p := c.Prog
	top := c.Fn("chain.(*SignVerifier).RequestVerifyTxs")
	if top == nil {
		return
	}
	resultCh := p.LookupField("chain", "SignVerifier", "resultCh")
	doneCh := p.LookupField("chain", "SignVerifier", "doneCh")
	workCh := p.LookupField("chain", "SignVerifier", "workCh")
	if resultCh == nil || doneCh == nil || workCh == nil {
		c.Undecide(rule, top.Name(), "channel fields not found")
		return
	}
	pg, pinfo := top.Graph(), top.Info()
	fns := append([]*an.Func{top}, top.Lits...)
	// the list whose length is the number of submitted work items
	listOf := func(e ast.Expr) types.Object {
		// e is an identifier defined (once) in the enclosing function as len(L)
		obj := an.ObjOf(pinfo, e)
		if obj == nil {
			return nil
		}
		rhs, _ := pg.SingleDef(obj)
		call, ok := ast.Unparen(rhs).(*ast.CallExpr)
		if rhs == nil || !ok || !an.IsBuiltin(pinfo, call, "len") || len(call.Args) != 1 {
			return nil
		}
		l := an.ObjOf(pinfo, call.Args[0])
		if l == nil || !pg.SingleDefOrParam(l) {
			return nil
		}
		return l
	}
	nColl := 0
	for _, f := range fns {
		g, info := f.Graph(), f.Info()
		recv := an.Set{}
		for _, n := range g.StmtNodes(func(n *an.Node) bool { return c04GapHasRecvFrom(info, n.Ast, doneCh) }) {
			recv[n] = true
		}
		if len(recv) == 0 {
			continue
		}
		nColl++
		var pub *an.Node
		for _, nd := range g.StmtNodes(func(n *an.Node) bool { _, ok := n.Ast.(*ast.SendStmt); return ok }) {
			if an.FieldOf(info, ast.Unparen(nd.Ast.(*ast.SendStmt).Chan)) == resultCh {
				pub = nd
			}
		}
		if pub == nil {
			c.Undecide(rule, f.Name(), "the collector does not publish on resultCh in the function that receives from doneCh")
			continue
		}
		// counters: locals incremented by one
		incs := map[types.Object]an.Set{}
		for _, n := range g.Nodes {
			if n.Kind != an.KStmt {
				continue
			}
			switch s := n.Ast.(type) {
			case *ast.IncDecStmt:
				if o := an.ObjOf(info, s.X); o != nil && s.Tok == token.INC {
					if incs[o] == nil {
						incs[o] = an.Set{}
					}
					incs[o][n] = true
				}
			case *ast.AssignStmt:
				if s.Tok == token.ADD_ASSIGN && len(s.Lhs) == 1 && len(s.Rhs) == 1 {
					if tv, ok := info.Types[s.Rhs[0]]; ok && tv.Value != nil && tv.Value.ExactString() == "1" {
						if o := an.ObjOf(info, s.Lhs[0]); o != nil {
							if incs[o] == nil {
								incs[o] = an.Set{}
							}
							incs[o][n] = true
						}
					}
				}
			}
		}
		var cnt, list types.Object
		atom := func(e ast.Expr) (string, bool, bool) {
			be, ok := e.(*ast.BinaryExpr)
			if !ok {
				return "", false, false
			}
			x, y, op := ast.Unparen(be.X), ast.Unparen(be.Y), be.Op
			if incs[an.ObjOf(info, x)] == nil && incs[an.ObjOf(info, y)] != nil {
				x, y = y, x
				op = flipOpTok(op)
			}
			co := an.ObjOf(info, x)
			if co == nil || incs[co] == nil {
				return "", false, false
			}
			l := listOf(y)
			if l == nil {
				return "", false, false
			}
			switch op {
			case token.EQL, token.GEQ:
				cnt, list = co, l
				return "done", false, true
			case token.NEQ, token.LSS:
				cnt, list = co, l
				return "done", true, true
			}
			return "", false, false
		}
		done := g.EdgesImplying(atom, map[string]bool{"done": true})
		c.Check(rule, f.Name()+"|publish-after-all", pub.Ast.Pos(), len(done) > 0 && g.Dominated(pub, done), "the verdict is published only on an edge where the count of received worker results is known to have reached the number of submitted transactions (no early exit on the first failure: the remaining results would be taken for the next block's)")
		if cnt == nil {
			continue
		}
		// the counter counts every received result exactly once, from zero
		okCount := true
		why := ""
		var targets []*an.Node
		for r := range recv {
			targets = append(targets, r)
		}
		targets = append(targets, pub)
		for r := range recv {
			reach := g.Reach(r.Succs, incs[cnt])
			for _, t := range targets {
				if reach[t] {
					okCount, why = false, "a received result can go uncounted"
				}
			}
		}
		for i := range incs[cnt] {
			reach := g.Reach(i.Succs, recv)
			for j := range incs[cnt] {
				if reach[j] {
					okCount, why = false, "a result can be counted twice"
				}
			}
		}
		for _, n := range g.Nodes {
			if n.Kind != an.KStmt || incs[cnt][n] || !an.Assigns(info, n.Ast, cnt) {
				continue
			}
			zero := false
			switch s := n.Ast.(type) {
			case *ast.AssignStmt:
				if s.Tok == token.DEFINE && len(s.Lhs) == len(s.Rhs) {
					for i, l := range s.Lhs {
						if an.ObjOf(info, l) == cnt {
							if tv, ok := info.Types[s.Rhs[i]]; ok && tv.Value != nil && tv.Value.ExactString() == "0" {
								zero = true
							}
						}
					}
				}
			case *ast.ValueSpec:
				zero = len(s.Values) == 0
				for i, nm := range s.Names {
					if info.Defs[nm] == cnt && i < len(s.Values) {
						if tv, ok := info.Types[s.Values[i]]; ok && tv.Value != nil && tv.Value.ExactString() == "0" {
							zero = true
						}
					}
				}
			}
			if !zero || g.InLoop(n) {
				okCount, why = false, "the counter is re-assigned"
			}
		}
		c.Check(rule, f.Name()+"|count", pub.Ast.Pos(), okCount, "the counter compared with the number of submitted transactions starts at zero and is incremented exactly once per result received from doneCh "+why)
		// submit side: one work item per element of the same list
		okSub := false
		for _, sf := range fns {
			sinfo := sf.Info()
			ast.Inspect(sf.Body, func(nd ast.Node) bool {
				if _, isLit := nd.(*ast.FuncLit); isLit && nd != ast.Node(sf.Lit) {
					return false
				}
				rs, ok := nd.(*ast.RangeStmt)
				if !ok || an.ObjOf(sinfo, rs.X) != list {
					return true
				}
				for _, st := range rs.Body.List {
					if snd, isSend := st.(*ast.SendStmt); isSend && an.FieldOf(sinfo, ast.Unparen(snd.Chan)) == workCh {
						okSub = true
						break
					}
					skip := false
					ast.Inspect(st, func(x ast.Node) bool {
						switch x.(type) {
						case *ast.BranchStmt, *ast.ReturnStmt:
							skip = true
						case *ast.FuncLit:
							return false
						}
						return !skip
					})
					if skip {
						break
					}
				}
				return true
			})
		}
		c.Check(rule, f.Name()+"|submitted", pub.Ast.Pos(), okSub, "one work item is submitted for every element of the list whose length the collector waits for (range over the same list, unconditional send on workCh)")
	}
	if nColl == 0 {
		c.Undecide(rule, top.Name(), "no collector (receive from doneCh) found")
	}
	c.Floor(rule, 3)
}

func c04GapVerdictConsumed(c *rep.Ctx) {
	const rule = "verdict-consumed"
	p := c.Prog
	vsw := p.LookupField("chain", "blockExecutor", "validateSignWait")
	commitOnly := p.LookupField("chain", "blockExecutor", "commitOnly")
	if f := c.Fn("chain.(*blockExecutor).execute"); f != nil && vsw != nil && commitOnly != nil {
		g, info := f.Graph(), f.Info()
		waits := funcValueCalls(f, vsw)
		gates := nodesOf(waits)
		for e := range g.EdgesImplying(an.FieldAtom(info, commitOnly, "commitOnly"), map[string]bool{"commitOnly": true}) {
			gates[e] = true
		}
		for e := range g.EdgesImplying(func(e ast.Expr) (string, bool, bool) {
			be, ok := e.(*ast.BinaryExpr)
			if !ok || (be.Op != token.EQL && be.Op != token.NEQ) {
				return "", false, false
			}
			for _, pr := range [][2]ast.Expr{{be.X, be.Y}, {be.Y, be.X}} {
				if an.FieldOf(info, ast.Unparen(pr[0])) == vsw {
					if tv, has := info.Types[pr[1]]; has && tv.IsNil() {
						return "unset", be.Op == token.NEQ, true
					}
				}
			}
			return "", false, false
		}, map[string]bool{"unset": true}) {
			gates[e] = true
		}
		if len(waits) == 0 {
			c.Undecide(rule, f.Name(), "no call of validateSignWait found")
		}
		all := g.Calls(nil)
		for _, r := range g.Returns() {
			// name the exit after the nearest call that dominates it
			label, best := "entry", token.NoPos
			for _, s := range all {
				if s.Call.End() <= r.Ast.Pos() && s.Call.End() > best && g.Dominated(r, an.SetOf(s.Node)) {
					nm := ""
					if s.Fn != nil {
						nm = s.Fn.Name()
					} else if v := an.CalleeVar(info, s.Call); v != nil {
						nm = v.Name()
					}
					if nm != "" {
						label, best = nm, s.Call.End()
					}
				}
			}
			c.Check(rule, f.Name()+"|exit-after:"+label, r.Ast.Pos(), g.Dominated(r, gates), "every exit of the block executor for a received block has consumed the signature verdict requested by ValidateBody for THIS block (validateSignWait called, or commitOnly / no wait function); a verdict left in the verifier's shared result channel is what the next block's WaitVerifyDone reads")
		}
		c.Floor(rule, 6)
	}
	// every successfully built executor is run
	for _, s := range p.CallSitesOf(map[string]bool{"chain.newBlockExecutor": true}) {
		if s.Fn == nil {
			continue
		}
		g := s.Fn.Graph()
		var site *an.Site
		for _, x := range g.CallsTo("chain.newBlockExecutor") {
			if x.Call == s.Call {
				x := x
				site = &x
			}
		}
		if site == nil {
			c.Undecide(rule, s.Fn.Name(), "call site of newBlockExecutor not found in the graph")
			continue
		}
		runs := nodesOf(g.CallsTo("chain.(*blockExecutor).execute"))
		ok := len(runs) > 0
		edges := g.ErrNilEdges(*site)
		if len(edges) == 0 {
			ok = false
		}
		for e := range edges {
			if !g.PostDominated(e, runs) {
				ok = false
			}
		}
		c.Check(rule, s.Fn.Name()+"|newBlockExecutor -> execute", s.Call.Pos(), ok, "an executor whose construction requested signature verification is always executed (execute consumes the verdict)")
	}
}

// ---------------------------------------------------------------------------
// shortcut-scope: the pool verifies a NAMED sender against the address the name
// resolved to when the tx entered the pool; the registry can change before the
// tx is executed, and the executor of a received block resolves the name anew
// (and has no verified account to compare with).  The mempool-hit shortcut may
// therefore replace the signature check only for address senders.

func c04GapShortcutScope(c *rep.Ctx) {
	const rule = "shortcut-scope"
	f := c.Fn("chain.(*SignVerifier).verifyTx")
	if f == nil {
		return
	}
	g, info := f.Graph(), f.Info()
	verified := errEdgesOf(g, g.CallsTo("account/key.VerifyTx", "account/key.VerifyTxWithAddress"))
	notNamed := an.Set{}
	for _, s := range g.CallsTo("types.(*Tx).NeedNameVerify", "types.(*Tx).HasNameAccount") {
		for e := range g.BoolEdges(s, false) {
			notNamed[e] = true
		}
	}
	n := 0
	for _, r := range c04GapAcceptingReturns(g, info) {
		if len(verified) > 0 && g.Dominated(r, verified) {
			continue
		}
		n++
		c.Check(rule, f.Name()+"|hit-accept", r.Ast.Pos(), len(notNamed) > 0 && g.Dominated(r, notNamed), "a transaction accepted without ECDSA verification (mempool hit) has an address sender (NeedNameVerify() == false): for a named sender the pool's verification was against the name's address at admission time, which the name owner can change before execution")
	}
	if n == 0 {
		c.Note("shortcut-scope: the block-side verifier has no accepting return without an ECDSA verification (no shortcut)")
	}
}
