package props

import (
	"go/ast"
	"go/token"
	"go/types"
	"sort"
	"strings"

	"verif/checker/internal/an"
)

// C12, second half: reset, revision sources, Snapshot/Rollback pairs, the
// storage cache, the block snapshot, callers of the public API, meta entries.

const (
	c12FnCacheSnap = "state/statedb.(*storageCache).Snapshot"
	c12FnCacheRoll = "state/statedb.(*storageCache).Rollback"
	c12FnBlockSnap = "state.(*BlockState).Snapshot"
	c12FnBlockRoll = "state.(*BlockState).Rollback"
	c12FnLoadCache = "pkg/trie.(*Trie).LoadCache"
	c12FnNewMeta   = "state/statedb.newMetaEntry"
)

// bufferFieldOf returns the field of struct type t whose type is *stateBuffer.
func (e *c12Env) bufferFieldOf(t types.Type) *types.Var {
	st := c12StructOf(t)
	if st == nil {
		return nil
	}
	var out *types.Var
	for i := 0; i < st.NumFields(); i++ {
		ft := st.Field(i).Type()
		if p, ok := ft.(*types.Pointer); ok {
			ft = p.Elem()
		}
		if types.Identical(ft, e.bufNamed) {
			if out != nil {
				return nil // ambiguous
			}
			out = st.Field(i)
		}
	}
	return out
}

// pathType: the type at the end of an access path.
func c12PathType(p c12Path) types.Type {
	if len(p.fields) > 0 {
		return p.fields[len(p.fields)-1].Type()
	}
	if p.root != nil {
		return p.root.Type()
	}
	return nil
}

// resetSites: calls in g that reset buffer `buf` (reset() or rollback(0)).
func (e *c12Env) resetSites(g *an.Graph, buf c12Path) an.Set {
	info := g.Fn.Info()
	out := an.Set{}
	for _, s := range g.CallsTo(c12FnReset, c12FnRollback) {
		rp, ok := c12RecvPath(info, s.Call)
		if !ok || !rp.eq(buf) {
			continue
		}
		if an.FuncName(s.Fn) == c12FnRollback {
			if v, isC := c12ConstInt(info, s.Call.Args[0]); !isC || v != 0 {
				continue
			}
		}
		out[s.Node] = true
	}
	return out
}

// ---------------------------------------------------------------------------
// rule reset

func (e *c12Env) ruleReset() {
	c := e.c
	// 1. reset is rollback(0) of the same buffer
	if f := c.Fn(c12FnReset); f != nil {
		g := f.Graph()
		self := c12Path{root: c12Receiver(f)}
		sites := g.CallsTo(c12FnRollback)
		ok := len(sites) == 1
		if ok {
			rp, is := c12RecvPath(f.Info(), sites[0].Call)
			v, isC := c12ConstInt(f.Info(), sites[0].Call.Args[0])
			ok = is && rp.eq(self) && isC && v == 0 && g.PostDominated(g.Entry, an.SetOf(sites[0].Node))
		}
		c.Check("reset", "def|"+c12FnReset, f.Pos(), ok, "reset is rollback to revision 0 of the same buffer, on every path")
	}
	// 2. effects that invalidate or persist the content of a buffer
	rootF := e.p.LookupField("pkg/trie", "Trie", "Root")
	if rootF == nil {
		c.Undecide("reset", "pkg/trie.Trie.Root", "trie root field not found")
		return
	}
	type effect struct {
		f      *an.Func
		node   *an.Node
		pos    token.Pos
		what   string
		holder c12Path
		stage  bool
	}
	var effs []effect
	for _, f := range e.p.Funcs() {
		if f.Pkg != e.pk || f.Body == nil {
			continue
		}
		g := f.Graph()
		info := f.Info()
		for _, n := range g.Nodes {
			if n.Kind != an.KStmt {
				continue
			}
			if as, ok := n.Ast.(*ast.AssignStmt); ok {
				for _, l := range as.Lhs {
					if an.FieldOf(info, l) != rootF {
						continue
					}
					p, is := c12PathOf(info, l)
					if !is || len(p.fields) < 2 {
						continue
					}
					h := c12Path{p.root, p.fields[:len(p.fields)-2]}
					if e.bufferFieldOf(c12PathType(h)) == nil {
						continue
					}
					effs = append(effs, effect{f, n, l.Pos(), "sets " + p.fieldString(), h, false})
				}
			}
		}
		for _, s := range g.CallsTo(c12FnLoadCache, c12FnStage) {
			rp, is := c12RecvPath(info, s.Call)
			if !is || len(rp.fields) < 1 {
				continue
			}
			h := c12Path{rp.root, rp.fields[:len(rp.fields)-1]}
			bf := e.bufferFieldOf(c12PathType(h))
			if bf == nil {
				continue
			}
			isStage := an.FuncName(s.Fn) == c12FnStage
			if isStage && rp.fields[len(rp.fields)-1] != bf {
				continue
			}
			effs = append(effs, effect{f, s.Node, s.Call.Pos(), "calls " + rp.fieldString() + "." + s.Fn.Name(), h, isStage})
		}
	}
	e.resetFuncs = map[string]bool{}
	for _, ef := range effs {
		e.resetFuncs[c12TopName(ef.f)] = true
		g := ef.f.Graph()
		bf := e.bufferFieldOf(c12PathType(ef.holder))
		buf := ef.holder.with(bf)
		resets := e.resetSites(g, buf)
		avoid := resets.Union(c12ErrExitEdges(g))
		var from []*an.Node
		if resets[ef.node] {
			from = nil
		} else {
			from = ef.node.Succs
		}
		r := g.Reach(from, avoid)
		ok := len(resets) > 0 && !r[g.Exit]
		c.Check("reset", ef.f.Name()+"|"+ef.what, ef.pos, ok, ef.f.Name()+" "+ef.what+": every path from there to a normal return resets "+buf.fieldString()+" (or leaves through an error exit)")
		if ef.stage {
			before := false
			for rn := range resets {
				if rn != ef.node && g.Reachable(rn, ef.node) {
					before = true
				}
			}
			c.Check("reset", ef.f.Name()+"|stage-before-reset", ef.pos, !before, "the buffer is written to the store before it is reset, never after")
		}
	}
	c.Floor("reset", 7)
}

// ---------------------------------------------------------------------------
// rule revision-source

func (e *c12Env) ruleRevisionSource() {
	c := e.c
	snapT := e.snapshotType()
	for _, s := range e.p.CallSitesOf(map[string]bool{c12FnRollback: true}) {
		fn := c12TopName(s.Fn)
		key := fn
		if s.Fn == nil || s.Fn.Body == nil || len(s.Call.Args) != 1 {
			c.Undecide("revision-source", key, "call of stateBuffer.rollback outside a function body")
			continue
		}
		if why, ex := c12RevisionExceptions[fn]; ex {
			c.CheckTrivial("revision-source", key, s.Call.Pos(), true, "exception: "+why)
			continue
		}
		g := s.Fn.Graph()
		info := s.Fn.Info()
		node := g.NodeContaining(s.Call.Pos())
		rp, rpOK := c12RecvPath(info, s.Call)
		arg := c12Unconv(info, s.Call.Args[0])
		if v, isC := c12ConstInt(info, arg); isC {
			ok := v == 0 && (fn == c12FnReset || e.resetFuncs[fn])
			c.Check("revision-source", key, s.Call.Pos(), ok, "constant revision "+itoa(int(v))+": only revision 0, and only in reset() or where a root change / persist requires the buffer to be emptied (rule reset), is meaningful")
			continue
		}
		obj := an.ObjOf(info, arg)
		if obj == nil || node == nil || !rpOK {
			c.Check("revision-source", key, s.Call.Pos(), false, "the revision passed to stateBuffer.rollback is `"+an.ExprString(s.Call.Args[0])+"`: it must be a snapshot value (a Snapshot parameter, a local holding snapshot() of the same buffer, or a revision looked up in the snapshot map), not a computed expression")
			continue
		}
		if c12IsParam(s.Fn, obj) {
			ok := snapT != nil && types.Identical(obj.Type(), snapT) && c12DefOf(g, obj).count == 0
			c.Check("revision-source", key, s.Call.Pos(), ok, "the revision is the (never reassigned) Snapshot parameter of the public Rollback; its callers are decided by api-pairing")
			continue
		}
		d := c12DefOf(g, obj)
		if d.count != 1 || d.rhs == nil {
			c.Check("revision-source", key, s.Call.Pos(), false, "the revision variable `"+obj.Name()+"` is not defined exactly once")
			continue
		}
		rhs := c12Unconv(info, d.rhs)
		if call, isCall := rhs.(*ast.CallExpr); isCall && an.CalleeName(info, call) == c12FnSnapshot {
			sp, is := c12RecvPath(info, call)
			ok := is && sp.eq(rp) && d.node != node && g.Dominated(node, an.SetOf(d.node))
			c.Check("revision-source", key, s.Call.Pos(), ok, "the revision is the snapshot() of the same buffer ("+rp.String()+"), taken on every path before this rollback")
			continue
		}
		if ix, isIx := rhs.(*ast.IndexExpr); isIx {
			mo := an.ObjOf(info, ix.X)
			_, isMap := types.Unalias(info.TypeOf(ix.X)).Underlying().(*types.Map)
			ok := isMap && mo != nil && c12IsParam(s.Fn, mo)
			c.Check("revision-source", key, s.Call.Pos(), ok, "the revision is looked up in the snapshot map parameter (key and presence test: rule cache-rollback)")
			continue
		}
		c.Check("revision-source", key, s.Call.Pos(), false, "the revision `"+obj.Name()+"` comes from `"+an.ExprString(d.rhs)+"`, not from a snapshot")
	}
	for k := range c12RevisionExceptions {
		if e.p.Func(k) == nil {
			c.Undecide("revision-source", k, "function in the exception table no longer exists")
		}
	}
	c.Floor("revision-source", 6)
}

func (e *c12Env) snapshotType() types.Type {
	if tn, ok := e.p.LookupObj(c12Pkg, "Snapshot").(*types.TypeName); ok {
		return tn.Type()
	}
	return nil
}

// ---------------------------------------------------------------------------
// rule pair-buffer

func (e *c12Env) rulePairBuffer() {
	c := e.c
	snapT := e.snapshotType()
	if snapT == nil {
		c.Undecide("pair-buffer", "state/statedb.Snapshot", "revision type not found")
		return
	}
	type pair struct{ snap, roll *an.Func }
	pairs := map[string]*pair{}
	for _, f := range e.p.Funcs() {
		if f.Pkg != e.pk || f.Body == nil || f.Obj == nil {
			continue
		}
		sig := f.Obj.Type().(*types.Signature)
		if sig.Recv() == nil {
			continue
		}
		rt := sig.Recv().Type()
		if p, ok := rt.(*types.Pointer); ok {
			rt = p.Elem()
		}
		nt, ok := rt.(*types.Named)
		if !ok {
			continue
		}
		name := nt.Obj().Name()
		if pairs[name] == nil {
			pairs[name] = &pair{}
		}
		if sig.Params().Len() == 0 && sig.Results().Len() == 1 && types.Identical(sig.Results().At(0).Type(), snapT) {
			pairs[name].snap = f
		}
		if sig.Params().Len() == 1 && types.Identical(sig.Params().At(0).Type(), snapT) {
			pairs[name].roll = f
		}
	}
	var names []string
	for n, p := range pairs {
		if p.snap != nil || p.roll != nil {
			names = append(names, n)
		}
	}
	sort.Strings(names)
	for _, n := range names {
		p := pairs[n]
		if p.snap == nil || p.roll == nil {
			var pos token.Pos
			if p.snap != nil {
				pos = p.snap.Pos()
			} else {
				pos = p.roll.Pos()
			}
			c.Check("pair-buffer", n, pos, false, "type "+n+" has only one half of the Snapshot/Rollback pair")
			continue
		}
		// Snapshot: returns snapshot() of one buffer
		sg := p.snap.Graph()
		ss := sg.CallsTo(c12FnSnapshot)
		var sPath c12Path
		sok := len(ss) == 1
		if sok {
			var is bool
			sPath, is = c12RecvPath(p.snap.Info(), ss[0].Call)
			sok = is && sPath.root == c12Receiver(p.snap)
			for _, r := range sg.Returns() {
				rs := r.Ast.(*ast.ReturnStmt)
				if len(rs.Results) != 1 {
					sok = false
					continue
				}
				x := c12Unconv(p.snap.Info(), rs.Results[0])
				if id, isID := x.(*ast.Ident); isID {
					d := c12DefOf(sg, an.ObjOf(p.snap.Info(), id))
					if d.count == 1 && d.rhs != nil {
						x = c12Unconv(p.snap.Info(), d.rhs)
					}
				}
				if x != ast.Expr(ss[0].Call) {
					sok = false
				}
			}
		}
		// Rollback: passes its parameter to rollback of one buffer
		rg := p.roll.Graph()
		rs := rg.CallsTo(c12FnRollback)
		var rPath c12Path
		rok := len(rs) == 1
		if rok {
			var is bool
			rPath, is = c12RecvPath(p.roll.Info(), rs[0].Call)
			arg := c12Unconv(p.roll.Info(), rs[0].Call.Args[0])
			po := an.ObjOf(p.roll.Info(), arg)
			rok = is && rPath.root == c12Receiver(p.roll) && po != nil && c12IsParam(p.roll, po) &&
				rg.PostDominated(rg.Entry, an.SetOf(rs[0].Node).Union(c12ErrExitEdges(rg)))
		}
		c.Check("pair-buffer", n+"|Snapshot", p.snap.Pos(), sok, n+".Snapshot returns snapshot() of exactly one buffer reached from its receiver")
		c.Check("pair-buffer", n+"|Rollback", p.roll.Pos(), rok, n+".Rollback passes its revision parameter to rollback of exactly one buffer reached from its receiver, on every non-error path")
		if sok && rok {
			c.Check("pair-buffer", n+"|same-buffer", p.roll.Pos(), sPath.eqFields(rPath) && len(sPath.fields) > 0,
				n+": Snapshot reads <recv>."+sPath.fieldString()+" and Rollback reverts <recv>."+rPath.fieldString()+": the same buffer")
		}
	}
	c.Floor("pair-buffer", 4)
}

// ---------------------------------------------------------------------------
// rules cache-snapshot / cache-rollback  (C03 item 3)

func (e *c12Env) ruleCache() {
	c := e.c
	storages := e.p.LookupField(c12Pkg, "storageCache", "storages")
	fs, fr := c.Fn(c12FnCacheSnap), c.Fn(c12FnCacheRoll)
	if storages == nil || fs == nil || fr == nil {
		c.Undecide("cache-snapshot", "state/statedb.storageCache", "storage cache anchors not found")
		return
	}
	rangeOver := func(f *an.Func) []*ast.RangeStmt {
		var out []*ast.RangeStmt
		recv := c12Receiver(f)
		an.InspectShallow(f.Body, func(n ast.Node) bool {
			if r, ok := n.(*ast.RangeStmt); ok && an.FieldOf(f.Info(), r.X) == storages {
				if p, is := c12PathOf(f.Info(), r.X); is && p.root == recv && len(p.fields) == 1 {
					out = append(out, r)
				}
			}
			return true
		})
		return out
	}
	// ---- Snapshot
	{
		f := fs
		g, info := f.Graph(), f.Info()
		loops := rangeOver(f)
		ok := len(loops) == 1 && loops[0].Key != nil && loops[0].Value != nil
		why := ""
		if !ok {
			why = "expected one `for id, storage := range cache.storages`"
		} else {
			loop := loops[0]
			ko, vo := an.ObjOf(info, loop.Key), an.ObjOf(info, loop.Value)
			head, body := c12LoopHead(g, loop)
			var rec []*an.Node
			var mapObj types.Object
			for _, s := range g.CallsTo(c12FnSnapshot) {
				if !c12Inside(loop.Body, s.Call) {
					continue
				}
				as, isAs := s.Node.Ast.(*ast.AssignStmt)
				if !isAs || len(as.Lhs) != 1 || len(as.Rhs) != 1 || c12Unconv(info, as.Rhs[0]) != ast.Expr(s.Call) {
					ok, why = false, "the snapshot() result is not stored directly"
					continue
				}
				ix, isIx := ast.Unparen(as.Lhs[0]).(*ast.IndexExpr)
				rp, is := c12RecvPath(info, s.Call)
				if !isIx || !is || an.ObjOf(info, ix.Index) != ko || rp.root != vo || len(rp.fields) != 1 || rp.fields[0] != e.bufferFieldOf(vo.Type()) {
					ok, why = false, "the recorded revision is not `result[id] = storage.Buffer.snapshot()` for the loop's own id and storage"
					continue
				}
				mapObj = an.ObjOf(info, ix.X)
				rec = append(rec, s.Node)
			}
			if ok && len(rec) != 1 {
				ok, why = false, "expected exactly one recorded revision per contract"
			}
			if ok && !c12EveryIteration(g, head, body, an.SetOf(rec...)) {
				ok, why = false, "some iteration skips recording the revision of a staged contract"
			}
			if ok {
				for _, r := range g.Returns() {
					rs := r.Ast.(*ast.ReturnStmt)
					if len(rs.Results) != 1 || an.ObjOf(info, rs.Results[0]) != mapObj || mapObj == nil {
						ok, why = false, "the map the revisions are recorded in is not what is returned"
					}
				}
				if mapObj != nil && c12DefOf(g, mapObj).count != 1 {
					ok, why = false, "the result map is reassigned"
				}
			}
		}
		c.Check("cache-snapshot", c12FnCacheSnap, f.Pos(), ok, "storageCache.Snapshot records, for every staged contract, storage.Buffer.snapshot() under the contract's id and returns that map"+c12Why(why))
	}
	// ---- Rollback
	{
		f := fr
		g, info := f.Graph(), f.Info()
		loops := rangeOver(f)
		if len(loops) != 1 || loops[0].Key == nil || loops[0].Value == nil {
			c.Check("cache-rollback", c12FnCacheRoll, f.Pos(), false, "expected one `for id, storage := range cache.storages`")
			return
		}
		loop := loops[0]
		ko, vo := an.ObjOf(info, loop.Key), an.ObjOf(info, loop.Value)
		head, body := c12LoopHead(g, loop)
		var snapParam types.Object
		if f.Type.Params != nil && f.Type.Params.NumFields() == 1 {
			for _, nm := range f.Type.Params.List[0].Names {
				snapParam = info.Defs[nm]
			}
		}
		// the revert
		var rb []an.Site
		for _, s := range g.CallsTo(c12FnRollback) {
			if c12Inside(loop.Body, s.Call) {
				rb = append(rb, s)
			}
		}
		var okObj types.Object
		rok, rwhy := len(rb) == 1, ""
		if !rok {
			rwhy = "expected exactly one Buffer.rollback in the loop"
		} else {
			s := rb[0]
			rp, is := c12RecvPath(info, s.Call)
			if !is || rp.root != vo || len(rp.fields) != 1 || rp.fields[0] != e.bufferFieldOf(vo.Type()) {
				rok, rwhy = false, "rollback is not applied to the loop's own storage.Buffer"
			}
			ro := an.ObjOf(info, c12Unconv(info, s.Call.Args[0]))
			d := c12DefOf(g, ro)
			if ro == nil || d.count != 1 || d.rhs == nil || d.idx != 0 {
				rok, rwhy = false, "the revision is not a variable defined once"
			} else if ix, isIx := ast.Unparen(d.rhs).(*ast.IndexExpr); !isIx || an.ObjOf(info, ix.X) != snapParam || snapParam == nil || an.ObjOf(info, ix.Index) != ko {
				rok, rwhy = false, "the revision is not snap[id] for the loop's own id"
			} else if as, isAs := d.node.Ast.(*ast.AssignStmt); !isAs || len(as.Lhs) != 2 {
				rok, rwhy = false, "the lookup in the snapshot map has no presence test (a contract absent from the snapshot would be rolled back to revision 0 instead of being dropped)"
			} else {
				okObj = an.ObjOf(info, as.Lhs[1])
			}
		}
		okAtom := func(x ast.Expr) (string, bool, bool) {
			if id, isID := ast.Unparen(x).(*ast.Ident); isID && okObj != nil && an.ObjOf(info, id) == okObj {
				return "OK", false, true
			}
			return "", false, false
		}
		if rok {
			if c12DefOf(g, okObj).count != 1 {
				rok, rwhy = false, "the presence flag is reassigned"
			} else if guarded, how := g.GuardedAt(rb[0].Node, okAtom, map[string]bool{"OK": true}); !guarded {
				rok, rwhy = false, "the revert is not restricted to contracts present in the snapshot: "+how
			}
		}
		c.Check("cache-rollback", "revert-present", f.Pos(), rok, "a staged contract present in the snapshot is reverted to snap[id] on its own buffer"+c12Why(rwhy))
		// the drop
		var del []an.Site
		for _, s := range g.Calls(nil) {
			if c12Inside(loop.Body, s.Call) && an.IsBuiltin(info, s.Call, "delete") && len(s.Call.Args) == 2 && an.FieldOf(info, s.Call.Args[0]) == storages {
				del = append(del, s)
			}
		}
		dok, dwhy := len(del) == 1, ""
		if !dok {
			dwhy = "(found " + itoa(len(del)) + " delete(cache.storages, ...) in the loop): a contract staged after the snapshot would survive the rollback with all its writes"
		} else {
			s := del[0]
			p, is := c12PathOf(info, s.Call.Args[0])
			if !is || p.root != c12Receiver(f) || an.ObjOf(info, s.Call.Args[1]) != ko {
				dok, dwhy = false, "the deletion is not delete(cache.storages, id) for the loop's own id"
			} else if okObj == nil {
				dok, dwhy = false, "no presence flag to guard the deletion"
			} else if guarded, how := g.GuardedAt(s.Node, okAtom, map[string]bool{"OK": false}); !guarded {
				dok, dwhy = false, "the deletion is not restricted to contracts absent from the snapshot: "+how
			}
		}
		c.Check("cache-rollback", "drop-absent", f.Pos(), dok, "a staged contract absent from the snapshot is removed from the cache"+c12Why(dwhy))
		if rok && dok {
			c.Check("cache-rollback", "every-contract", loop.Pos(), c12EveryIteration(g, head, body, an.SetOf(rb[0].Node, del[0].Node)), "every staged contract is either reverted or dropped (no iteration skips both)")
			// absent => dropped: from the not-present edges the iteration cannot end without the delete
			absent := g.EdgesImplying(okAtom, map[string]bool{"OK": false})
			all := len(absent) > 0
			for ed := range absent {
				r := g.Reach([]*an.Node{ed}, an.SetOf(del[0].Node))
				if r[head] || r[g.Exit] {
					all = false
				}
			}
			c.Check("cache-rollback", "absent-always-dropped", loop.Pos(), all, "whenever the contract is absent from the snapshot the iteration cannot finish without deleting it")
		}
	}
	c.Floor("cache-rollback", 2)
}

// ---------------------------------------------------------------------------
// rule block-components  (C03 item 3)

type c12Component struct {
	callee *types.Func
	path   c12Path
	node   *an.Node
	call   *ast.CallExpr
}

func (e *c12Env) ruleBlock() {
	c := e.c
	fs, fr := c.Fn(c12FnBlockSnap), c.Fn(c12FnBlockRoll)
	st := e.p.LookupStruct("state", "BlockSnapshot")
	if fs == nil || fr == nil || st == nil {
		c.Undecide("block-components", "state.BlockSnapshot", "block snapshot anchors not found")
		return
	}
	c.Pkgs["state"] = true
	bsT := e.p.LookupObj("state", "BlockSnapshot").Type()
	// ---- writer: which call fills each field
	written := map[*types.Var]*c12Component{}
	sg, sinfo := fs.Graph(), fs.Info()
	record := func(fv *types.Var, val ast.Expr) {
		call, ok := c12Unconv(sinfo, val).(*ast.CallExpr)
		if !ok {
			written[fv] = &c12Component{}
			return
		}
		fn := an.Callee(sinfo, call)
		rp, is := c12RecvPath(sinfo, call)
		if fn == nil || !is || rp.root != c12Receiver(fs) {
			written[fv] = &c12Component{}
			return
		}
		written[fv] = &c12Component{callee: fn, path: rp, node: sg.NodeContaining(call.Pos()), call: call}
	}
	var resObj types.Object
	litCount := 0
	an.InspectShallow(fs.Body, func(n ast.Node) bool {
		switch x := n.(type) {
		case *ast.CompositeLit:
			if tv, ok := sinfo.Types[x]; ok && types.Identical(tv.Type, bsT) {
				litCount++
				for i, el := range x.Elts {
					if kv, isKV := el.(*ast.KeyValueExpr); isKV {
						if id, isID := kv.Key.(*ast.Ident); isID {
							if fv, isF := sinfo.Uses[id].(*types.Var); isF {
								record(fv, kv.Value)
							}
						}
					} else if i < st.NumFields() {
						record(st.Field(i), el)
					}
				}
			}
		case *ast.AssignStmt:
			for i, l := range x.Lhs {
				if fv := an.FieldOf(sinfo, l); fv != nil && len(x.Rhs) == len(x.Lhs) {
					for j := 0; j < st.NumFields(); j++ {
						if st.Field(j) == fv {
							record(fv, x.Rhs[i])
						}
					}
				}
			}
		}
		return true
	})
	_ = resObj
	// ---- reader: which call consumes each field
	rg, rinfo := fr.Graph(), fr.Info()
	var snapParam types.Object
	if fr.Type.Params != nil && fr.Type.Params.NumFields() == 1 {
		for _, nm := range fr.Type.Params.List[0].Names {
			snapParam = rinfo.Defs[nm]
		}
	}
	read := map[*types.Var][]*c12Component{}
	for _, s := range rg.Calls(nil) {
		if s.Fn == nil {
			continue
		}
		for _, a := range s.Call.Args {
			fv := an.FieldOf(rinfo, a)
			if fv == nil {
				continue
			}
			p, is := c12PathOf(rinfo, a)
			if !is || p.root != snapParam || len(p.fields) != 1 {
				continue
			}
			rp, is2 := c12RecvPath(rinfo, s.Call)
			if !is2 || rp.root != c12Receiver(fr) {
				read[fv] = append(read[fv], &c12Component{})
				continue
			}
			read[fv] = append(read[fv], &c12Component{callee: s.Fn, path: rp, node: s.Node, call: s.Call})
		}
	}
	c.Check("block-components", "snapshot-literal", fs.Pos(), litCount == 1 || len(written) == st.NumFields(), "BlockState.Snapshot builds one BlockSnapshot value")
	var comps []*c12Component
	for i := 0; i < st.NumFields(); i++ {
		fv := st.Field(i)
		key := "BlockSnapshot." + fv.Name()
		w := written[fv]
		rs := read[fv]
		switch {
		case w == nil:
			c.Check("block-components", key, fs.Pos(), false, "field "+fv.Name()+" of BlockSnapshot is never captured by BlockState.Snapshot")
			continue
		case w.callee == nil:
			c.Check("block-components", key, fs.Pos(), false, "field "+fv.Name()+" is not captured by a Snapshot call on a component of the receiver")
			continue
		case len(rs) == 0:
			c.Check("block-components", key, fr.Pos(), false, "field "+fv.Name()+" is captured by "+an.FuncName(w.callee)+" but never restored by BlockState.Rollback")
			continue
		case len(rs) > 1 || rs[0].callee == nil:
			c.Check("block-components", key, fr.Pos(), false, "field "+fv.Name()+" is consumed more than once, or not by a method of a component of the receiver")
			continue
		}
		r := rs[0]
		// same component, and the consumer is the Rollback counterpart of the producer:
		// same receiver type, the producer's result type is the consumer's parameter type
		wsig := w.callee.Type().(*types.Signature)
		rsig := r.callee.Type().(*types.Signature)
		sameRecv := wsig.Recv() != nil && rsig.Recv() != nil && types.Identical(wsig.Recv().Type(), rsig.Recv().Type())
		typed := wsig.Results().Len() == 1 && rsig.Params().Len() == 1 && types.Identical(wsig.Results().At(0).Type(), rsig.Params().At(0).Type())
		named := w.callee.Name() == "Snapshot" && r.callee.Name() == "Rollback"
		ok := sameRecv && typed && named && w.path.eqFields(r.path)
		c.Check("block-components", key, r.call.Pos(), ok, "field "+fv.Name()+": captured by <bs>."+w.path.fieldString()+"."+w.callee.Name()+"() and restored by <bs>."+r.path.fieldString()+"."+r.callee.Name()+"(snap."+fv.Name()+"): the same component and the matching method pair")
		comps = append(comps, r)
	}
	// every component is restored on every path that is not an error exit of another component
	errEdges := c12ErrExitEdges(rg)
	for _, r := range comps {
		ok := r.node != nil && rg.PostDominated(rg.Entry, an.SetOf(r.node).Union(errEdges))
		c.Check("block-components", "restored|"+an.FuncName(r.callee), r.call.Pos(), ok, "BlockState.Rollback reaches "+an.FuncName(r.callee)+" on every path except the error exits")
	}
	// no Snapshot-capable component of the state DB is left out: every field of
	// StateDB whose type has a Snapshot/Rollback pair, and StateDB itself
	sdb := e.p.LookupStruct(c12Pkg, "StateDB")
	if sdb != nil {
		have := map[string]bool{}
		for _, w := range written {
			if w != nil && w.callee != nil {
				have[w.path.fieldString()] = true
			}
		}
		hasPair := func(t types.Type) bool {
			s, _, _ := types.LookupFieldOrMethod(t, true, e.pk.Types, "Snapshot")
			r, _, _ := types.LookupFieldOrMethod(t, true, e.pk.Types, "Rollback")
			_, sf := s.(*types.Func)
			_, rf := r.(*types.Func)
			return sf && rf
		}
		// locate the embedded StateDB in BlockState
		bst := e.p.LookupStruct("state", "BlockState")
		for i := 0; bst != nil && i < bst.NumFields(); i++ {
			bf := bst.Field(i)
			if c12StructOf(bf.Type()) != sdb {
				continue
			}
			if hasPair(bf.Type()) {
				c.Check("block-components", "covered|"+bf.Name(), fs.Pos(), have[bf.Name()], "the account buffer (<bs>."+bf.Name()+".Snapshot) is part of the block snapshot")
			}
			for j := 0; j < sdb.NumFields(); j++ {
				sf := sdb.Field(j)
				if hasPair(sf.Type()) {
					c.Check("block-components", "covered|"+bf.Name()+"."+sf.Name(), fs.Pos(), have[bf.Name()+"."+sf.Name()], "component <bs>."+bf.Name()+"."+sf.Name()+" has a Snapshot/Rollback pair and is part of the block snapshot")
				}
			}
		}
	}
	c.Floor("block-components", 6)
}

// ---------------------------------------------------------------------------
// rule api-pairing: every caller of a public Rollback passes the matching
// Snapshot of the same object.

func (e *c12Env) ruleAPIPairing() {
	c := e.c
	type api struct{ roll, snap string }
	apis := []api{
		{"state/statedb.(*ContractState).Rollback", "state/statedb.(*ContractState).Snapshot"},
		{"state/statedb.(*StateDB).Rollback", "state/statedb.(*StateDB).Snapshot"},
		{c12FnCacheRoll, c12FnCacheSnap},
		{c12FnBlockRoll, c12FnBlockSnap},
	}
	for _, a := range apis {
		if e.p.Func(a.roll) == nil || e.p.Func(a.snap) == nil {
			c.Undecide("api-pairing", a.roll, "public Snapshot/Rollback pair not found")
			return
		}
	}
	for _, a := range apis {
		for _, s := range e.p.CallSitesOf(map[string]bool{a.roll: true}) {
			fn := c12TopName(s.Fn)
			key := fn + "|" + a.roll
			if fn == c12FnBlockRoll {
				c.CheckTrivial("api-pairing", key, s.Call.Pos(), true, "component forwarder of the block snapshot (decided by block-components)")
				continue
			}
			if s.Fn == nil || s.Fn.Body == nil || len(s.Call.Args) != 1 {
				c.Undecide("api-pairing", key, "call outside a function body")
				continue
			}
			g := s.Fn.Graph()
			info := s.Fn.Info()
			node := g.NodeContaining(s.Call.Pos())
			rp, rpOK := c12RecvPath(info, s.Call)
			if node == nil || !rpOK {
				c.Undecide("api-pairing", key, "receiver of the Rollback call is not an access path")
				continue
			}
			arg := ast.Unparen(s.Call.Args[0])
			// (1) a local holding X.Snapshot() of the same X
			if id, isID := arg.(*ast.Ident); isID {
				obj := an.ObjOf(info, id)
				d := c12DefOf(g, obj)
				// a once-defined alias (or a chain of them) of the snapshot local
				// (before := X.Snapshot(); rev := before; X.Rollback(rev)) is the
				// same value: follow it to the defining call.  Every link must be
				// a plain single definition from a function-local variable, and
				// each definition must dominate the next use.
				use, chainOK := node, true
				for hops := 0; hops < 8 && d.count == 1 && d.addr == 0 && d.rhs != nil && d.idx == 0 && d.node != nil; hops++ {
					aid, isAlias := ast.Unparen(d.rhs).(*ast.Ident)
					if !isAlias {
						break
					}
					src, isVar := an.ObjOf(info, aid).(*types.Var)
					if !isVar || src.IsField() || src.Pkg() == nil || src.Parent() == src.Pkg().Scope() {
						break
					}
					if !g.Dominated(use, an.SetOf(d.node)) {
						chainOK = false
					}
					use = d.node
					d = c12DefOf(g, src)
				}
				ok, why := false, ""
				switch {
				case d.count != 1 || d.rhs == nil:
					why = "the revision variable is not defined exactly once in this function"
				case !chainOK:
					why = "an alias of the revision is not defined on every path before its use"
				default:
					call, isCall := ast.Unparen(d.rhs).(*ast.CallExpr)
					if !isCall || an.CalleeName(info, call) != a.snap {
						why = "the revision does not come from " + a.snap
					} else if sp, is := c12RecvPath(info, call); !is || !sp.eq(rp) {
						why = "the snapshot was taken on a different object than the one rolled back"
					} else if !g.Dominated(use, an.SetOf(d.node)) {
						why = "the snapshot is not taken on every path before the rollback"
					} else if c12DefOf(g, rp.root).count > 1 {
						why = "the object is reassigned between snapshot and rollback"
					} else {
						ok = true
					}
				}
				c.Check("api-pairing", key, s.Call.Pos(), ok, "Rollback("+id.Name+") on "+rp.String()+": the revision is "+a.snap+"() of the same object, taken before it"+c12Why(why))
				continue
			}
			// (2) a revision stored in a struct field (recovery point)
			if fv := an.FieldOf(info, arg); fv != nil {
				e.fieldPairing(key, a.roll, a.snap, s, fv, rp)
				continue
			}
			c.Check("api-pairing", key, s.Call.Pos(), false, "the revision passed to "+a.roll+" is neither a local snapshot nor a stored snapshot field")
		}
	}
	c.Floor("api-pairing", 4)
}

// fieldPairing: revision kept in holder.F.  Every write of F is either the
// matching Snapshot() or a negative constant sentinel; the object snapshotted
// at the write is the one stored in the holder's owner field, and the object
// rolled back at the read comes from that same owner field of the same holder;
// the read is guarded against the sentinel.
func (e *c12Env) fieldPairing(key, roll, snap string, s an.CallSite, fv *types.Var, rp c12Path) {
	c := e.c
	g := s.Fn.Graph()
	info := s.Fn.Info()
	node := g.NodeContaining(s.Call.Pos())
	argPath, is := c12PathOf(info, s.Call.Args[0])
	if !is || len(argPath.fields) != 1 {
		c.Undecide("api-pairing", key, "stored revision is not <holder>.<field>")
		return
	}
	holder := argPath.root
	// reader side: resolve the receiver to holder.owner.tail...
	rr := rp
	if len(rr.fields) >= 1 {
		d := c12DefOf(g, rr.root)
		if d.count == 1 && d.rhs != nil {
			if p, is := c12PathOf(info, d.rhs); is {
				rr = c12Path{p.root, append(append([]*types.Var{}, p.fields...), rr.fields...)}
			}
		}
	}
	if rr.root != holder || len(rr.fields) < 2 {
		c.Check("api-pairing", key, s.Call.Pos(), false, "Rollback("+argPath.String()+") is applied to "+rp.String()+", which is not reached through the same holder as the stored revision")
		return
	}
	owner, tail := rr.fields[0], rr.fields[1:]
	// writer side
	var holderT *types.Struct
	if st := c12StructOf(holder.Type()); st != nil {
		holderT = st
	}
	var sentinels []int64
	wOK, wWhy := true, ""
	nSnapWrites := 0
	checkSnapWrite := func(f *an.Func, lhsBase c12Path, rhs ast.Expr, pos token.Pos) {
		finfo := f.Info()
		fg := f.Graph()
		if v, isC := c12ConstInt(finfo, rhs); isC {
			sentinels = append(sentinels, v)
			return
		}
		call, isCall := ast.Unparen(rhs).(*ast.CallExpr)
		if !isCall || an.CalleeName(finfo, call) != snap {
			wOK, wWhy = false, "a write of "+fv.Name()+" in "+f.Name()+" stores something else than "+snap+"()"
			return
		}
		nSnapWrites++
		sp, is := c12RecvPath(finfo, call)
		if !is || len(sp.fields) != len(tail) {
			wOK, wWhy = false, "the snapshot stored in "+fv.Name()+" is taken on a different component than the one rolled back"
			return
		}
		for i := range tail {
			if sp.fields[i] != tail[i] {
				wOK, wWhy = false, "the snapshot stored in "+fv.Name()+" is taken on a different component than the one rolled back"
				return
			}
		}
		// sp.root must be what the holder's owner field holds
		if !e.ownerHolds(fg, lhsBase, owner, sp.root, holderT) {
			wOK, wWhy = false, "in "+f.Name()+" the object snapshotted ("+sp.String()+") is not the one stored in the holder's field "+owner.Name()
		}
	}
	for _, w := range e.p.FieldWrites(map[*types.Var]bool{fv: true}) {
		if w.Fn == nil || w.How == "literal" {
			continue
		}
		if w.How != "assign" {
			wOK, wWhy = false, "the stored revision is modified ("+w.How+") in "+w.Fn.Name()
			continue
		}
		fg := w.Fn.Graph()
		n := fg.NodeContaining(w.Pos)
		as, isAs := n.Ast.(*ast.AssignStmt)
		if n == nil || !isAs || len(as.Lhs) != len(as.Rhs) {
			wOK, wWhy = false, "unrecognised write of the stored revision in "+w.Fn.Name()
			continue
		}
		for i, l := range as.Lhs {
			if an.FieldOf(w.Fn.Info(), l) == fv {
				lp, _ := c12PathOf(w.Fn.Info(), l)
				base := c12Path{lp.root, nil}
				if len(lp.fields) > 1 {
					base.fields = lp.fields[:len(lp.fields)-1]
				}
				checkSnapWrite(w.Fn, base, as.Rhs[i], w.Pos)
			}
		}
	}
	// composite literals of the holder type (keyed or positional)
	if holderT != nil {
		fidx := -1
		for i := 0; i < holderT.NumFields(); i++ {
			if holderT.Field(i) == fv {
				fidx = i
			}
		}
		for _, pk := range e.p.ModulePkgs() {
			if pk.TypesInfo == nil || pk.Types != fv.Pkg() {
				continue
			}
			for _, file := range pk.Syntax {
				ast.Inspect(file, func(n ast.Node) bool {
					cl, ok := n.(*ast.CompositeLit)
					if !ok {
						return true
					}
					tv, has := pk.TypesInfo.Types[cl]
					if !has || c12StructOf(tv.Type) != holderT || len(cl.Elts) == 0 {
						return true
					}
					var val ast.Expr
					for i, el := range cl.Elts {
						if kv, isKV := el.(*ast.KeyValueExpr); isKV {
							if id, isID := kv.Key.(*ast.Ident); isID && pk.TypesInfo.Uses[id] == types.Object(fv) {
								val = kv.Value
							}
						} else if i == fidx {
							val = el
						}
					}
					if val == nil {
						sentinels = append(sentinels, 0) // zero value: revision 0 is a valid revision, not a sentinel
						return true
					}
					if v, isC := c12ConstInt(pk.TypesInfo, val); isC {
						sentinels = append(sentinels, v)
					} else {
						wOK, wWhy = false, "a literal of the holder initialises "+fv.Name()+" with a non-constant"
					}
					return true
				})
			}
		}
	}
	if nSnapWrites == 0 {
		wOK, wWhy = false, "no write of "+fv.Name()+" stores "+snap+"()"
	}
	// sentinel: all constants negative and equal, and the read is guarded against it
	sentOK, sentWhy := true, ""
	if len(sentinels) > 0 {
		for _, v := range sentinels {
			if v >= 0 || v != sentinels[0] {
				sentOK, sentWhy = false, "constant "+itoa(int(v))+" stored in "+fv.Name()+" is a valid revision, not a sentinel: the rollback would discard the whole buffer"
			}
		}
		if sentOK {
			sv := sentinels[0]
			at := func(x ast.Expr) (string, bool, bool) {
				be, ok := ast.Unparen(x).(*ast.BinaryExpr)
				if !ok {
					return "", false, false
				}
				for _, pr := range [][2]ast.Expr{{be.X, be.Y}, {be.Y, be.X}} {
					p, is := c12PathOf(info, pr[0])
					v, isC := c12ConstInt(info, pr[1])
					if !is || !isC || !p.eq(argPath) {
						continue
					}
					switch {
					case be.Op == token.NEQ && v == sv:
						return "SET", false, true
					case be.Op == token.EQL && v == sv:
						return "SET", true, true
					case pr[0] == be.X && be.Op == token.GEQ && v == 0, pr[0] == be.X && be.Op == token.GTR && v == -1:
						return "SET", false, true
					case pr[0] == be.X && be.Op == token.LSS && v == 0:
						return "SET", true, true
					}
				}
				return "", false, false
			}
			if guarded, how := g.GuardedAt(node, at, map[string]bool{"SET": true}); !guarded {
				sentOK, sentWhy = false, "the rollback is not guarded against the 'no snapshot' sentinel "+itoa(int(sv))+": "+how
			}
		}
	}
	c.Check("api-pairing", key, s.Call.Pos(), wOK && sentOK, "Rollback("+argPath.String()+") on "+rr.String()+": every write of "+fv.Name()+" stores "+snap+"() of the object kept in the holder's "+owner.Name()+" field (or the guarded sentinel)"+c12Why(wWhy)+c12Why(sentWhy))
}

// ownerHolds: in graph fg, the holder denoted by path `holder` has its field
// `owner` set to object obj: by `holder.owner = obj` or by the composite
// literal (keyed or positional) the holder variable is defined with.
func (e *c12Env) ownerHolds(fg *an.Graph, holder c12Path, owner *types.Var, obj types.Object, holderT *types.Struct) bool {
	info := fg.Fn.Info()
	if holder.root == nil || len(holder.fields) != 0 || obj == nil {
		return false
	}
	found := false
	// assignments holder.owner = obj
	for _, n := range fg.Nodes {
		if as, ok := n.Ast.(*ast.AssignStmt); ok && n.Kind == an.KStmt && len(as.Lhs) == len(as.Rhs) {
			for i, l := range as.Lhs {
				if an.FieldOf(info, l) == owner {
					if p, is := c12PathOf(info, l); is && p.root == holder.root && len(p.fields) == 1 {
						if an.ObjOf(info, as.Rhs[i]) == obj {
							found = true
						} else {
							return false
						}
					}
				}
			}
		}
	}
	d := c12DefOf(fg, holder.root)
	if d.count == 1 && d.rhs != nil && holderT != nil {
		x := ast.Unparen(d.rhs)
		if u, ok := x.(*ast.UnaryExpr); ok && u.Op == token.AND {
			x = ast.Unparen(u.X)
		}
		if cl, ok := x.(*ast.CompositeLit); ok {
			oidx := -1
			for i := 0; i < holderT.NumFields(); i++ {
				if holderT.Field(i) == owner {
					oidx = i
				}
			}
			for i, el := range cl.Elts {
				if kv, isKV := el.(*ast.KeyValueExpr); isKV {
					if id, isID := kv.Key.(*ast.Ident); isID && info.Uses[id] == types.Object(owner) && an.ObjOf(info, kv.Value) == obj {
						found = true
					}
				} else if i == oidx && an.ObjOf(info, el) == obj {
					found = true
				}
			}
		}
	}
	// obj itself must not be reassigned
	if found && c12DefOf(fg, obj).count > 1 {
		return false
	}
	return found
}

// ---------------------------------------------------------------------------
// rule meta-skip

func (e *c12Env) ruleMetaSkip() {
	c := e.c
	fm := e.p.Func(c12FnNewMeta)
	fx := c.Fn(c12FnExport)
	if fm == nil || fx == nil {
		c.Note("meta-skip: no meta-entry constructor in the tree; nothing to decide")
		return
	}
	// dynamic type built by the constructor
	var built types.Type
	for _, r := range fm.Graph().Returns() {
		rs := r.Ast.(*ast.ReturnStmt)
		if len(rs.Results) == 1 {
			if tv, ok := fm.Info().Types[rs.Results[0]]; ok {
				built = tv.Type
			}
		}
	}
	if built == nil {
		c.Undecide("meta-skip", c12FnNewMeta, "cannot determine the dynamic type of a meta entry")
		return
	}
	baseOf := func(t types.Type) types.Type {
		if p, ok := t.(*types.Pointer); ok {
			return p.Elem()
		}
		return t
	}
	// liveness: does any non-test code create meta entries?
	makers := map[string]bool{}
	for _, s := range e.p.CallSitesOf(map[string]bool{c12FnNewMeta: true}) {
		if s.Fn != nil {
			makers[c12TopName(s.Fn)] = true
		}
	}
	var live []string
	if len(makers) > 0 {
		for _, s := range e.p.CallSitesOf(makers) {
			live = append(live, c12TopName(s.Fn))
		}
		for _, s := range e.p.FuncRefs(makers) {
			live = append(live, c12TopName(s.Fn))
		}
	}
	// the filter in export (and stage)
	for _, spec := range []string{c12FnExport, c12FnStage} {
		f := e.p.Func(spec)
		if f == nil {
			continue
		}
		var asserted []types.Type
		an.InspectShallow(f.Body, func(n ast.Node) bool {
			if ta, ok := n.(*ast.TypeAssertExpr); ok && ta.Type != nil {
				if tv, has := f.Info().Types[ta.Type]; has && types.Identical(baseOf(tv.Type), baseOf(built)) {
					asserted = append(asserted, tv.Type)
				}
			}
			return true
		})
		agree := len(asserted) > 0
		for _, t := range asserted {
			if !types.Identical(t, built) {
				agree = false
			}
		}
		what := "has no meta-entry filter"
		if len(asserted) > 0 {
			what = "filters on dynamic type " + types.TypeString(asserted[0], func(p *types.Package) string { return p.Name() })
		}
		bt := types.TypeString(built, func(p *types.Package) string { return p.Name() })
		if len(live) == 0 {
			if !agree {
				c.Note("meta-skip (latent, no caller outside tests creates meta entries): %s %s while newMetaEntry builds %s; checkpoint entries would reach the trie / store if bufferedStorage.checkpoint were ever used", spec, what, bt)
			}
			c.CheckTrivial("meta-skip", spec, f.Pos(), true, "no non-test code creates meta entries (makers: "+strings.Join(c12SortedKeys(makers), ", ")+" have no callers), so nothing but value entries can be exported; filter agreement: "+c12Bool(agree))
			continue
		}
		c.Check("meta-skip", spec, f.Pos(), agree, spec+" "+what+" while newMetaEntry builds "+bt+" and meta entries are created by "+strings.Join(live, ", ")+": checkpoint entries reach the trie / the store")
	}
}

func c12Why(s string) string {
	if s == "" {
		return ""
	}
	return " -- FAILS: " + s
}

func c12Bool(b bool) string {
	if b {
		return "yes"
	}
	return "no"
}

func c12SortedKeys(m map[string]bool) []string {
	var out []string
	for k := range m {
		out = append(out, k)
	}
	sort.Strings(out)
	return out
}
