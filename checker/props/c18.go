package props

import (
	"go/ast"
	"go/constant"
	"go/token"
	"go/types"
	"sort"
	"strings"

	"golang.org/x/tools/go/packages"

	"verif/checker/internal/an"
	"verif/checker/internal/rep"
)

// C18 — P2P boundary: bounded framing, same-chain peers only, content-addressed blocks.
//
// Three rule families (see DESIGN.md section 4, "C18"):
//
//	c18.go      bounded allocation: every make() in p2p/... whose size derives from
//	            bytes decoded from the wire is dominated by an upper-bound guard against a
//	            configured limit; frame reader/writer agree on the limit; readToLen pairing
//	c18_hs.go   handshake: every checkRemoteStatus implementation constructed for an
//	            accepted protocol version has chain-id / genesis / peer-id guards
//	c18_blk.go  block identifier: a network block reaches the chain service / caches only
//	            after its Hash field was checked against the header digest; bad-block cache
//	            key and scope; requested-vs-received comparison in the chunk receiver

func init() { register("C18", runC18) }

func runC18(c *rep.Ctx) {
	c.Explain = "Structural decision of the P2P boundary rules. (1) Every make() in the p2p packages whose length or capacity derives from a value decoded from the wire (encoding/binary decoders, integer fields of the protobuf message types that are unmarshalled from payloads) lies only on control-flow paths on which an upper-bound comparison of that value (or of a value it was derived from) against a configured limit has taken its 'bounded' edge; the frame reader and writer compare against the same limit with the same strictness; the read loop is called with a buffer of exactly the announced length. (2) Every handshaker type that the version manager constructs for a version in AcceptedInboundVersions / AttemptingOutboundVersions returns a handshake result only after its status check, and that status check reaches its success return only through guards on chain id, genesis hash and peer id (delegation to an embedded handshaker counts); siblings are compared. (3) Every producer of message.AddBlock that takes its block from the network, the chain service's bad-block cache and the chunk receiver are checked for a header-digest gate, for the cache key and for the requested-identifier comparison. The shape of the code is decided, not its run-time behaviour."
	c.NotDecided = []string{
		"round-trip equality of written and read messages",
		"arithmetic between a guarded quantity and the allocation size derived from it (only that some value in the derivation chain is bounded)",
		"allocation performed by the protobuf decoder itself (bounded by the already bounded payload)",
		"absence of panics on arbitrary byte streams beyond the allocation bound and the fixed-array header parse",
		"run-time value of configured limits (MaxPayloadLength is a package variable initialised from types.MaxMessageSize())",
		"whether calculateBlockHash covers every header field (C19)",
	}
	c.Assume = []string{
		"wire-derived values enter the p2p packages only through encoding/binary decoders and integer fields of the message types passed to p2putil.UnmarshalAndReturn / UnmarshalMessageBody / proto.Decode",
		"len()/cap() of an in-memory object is bounded by what was already read",
		"taint propagation is flow-insensitive inside a function and follows results and parameters of functions of the p2p packages",
		"reflection and unsafe writes are out of scope",
	}
	c18Alloc(c)
	c18Frame(c)
	c18Handshake(c)
	c18BlockID(c)
}

// ---------------------------------------------------------------------------
// bounded allocation

// c18LimitCeiling: a *constant* accepted as an allocation limit must not exceed
// this many elements/bytes (1 GiB).  The largest sanctioned limit in the tree is
// the raft snapshot header limit of 512 MiB (raftsupport.readBytesLimit).
const c18LimitCeiling = 1 << 30

// c18AllocExempt: enumerated make() sites whose size is wire-derived by the
// taint rules but which were read and are not obligations.  (none today)
var c18AllocExempt = map[string]string{}

type c18El struct {
	obj types.Object
	fld *types.Var
}

type c18Dep struct {
	wire   bool
	srcs   map[string]bool
	params map[types.Object]bool // parameters of declared functions this value derives from
	els    map[c18El]bool        // variables / message fields on the derivation chain
}

func c18NewDep() *c18Dep {
	return &c18Dep{srcs: map[string]bool{}, params: map[types.Object]bool{}, els: map[c18El]bool{}}
}

func (d *c18Dep) merge(o *c18Dep) bool {
	if o == nil {
		return false
	}
	ch := false
	if o.wire && !d.wire {
		d.wire = true
		ch = true
	}
	for k := range o.srcs {
		if !d.srcs[k] {
			d.srcs[k] = true
			ch = true
		}
	}
	for k := range o.params {
		if !d.params[k] {
			d.params[k] = true
			ch = true
		}
	}
	for k := range o.els {
		if !d.els[k] {
			d.els[k] = true
			ch = true
		}
	}
	return ch
}

func (d *c18Dep) srcList() string {
	var s []string
	for k := range d.srcs {
		s = append(s, k)
	}
	sort.Strings(s)
	return strings.Join(s, ", ")
}

type c18ParamRef struct {
	fn  *an.Func
	idx int
}

type c18Sink struct {
	fn   *an.Func // function containing the make()
	call *ast.CallExpr
	typ  string
}

type c18An struct {
	c      *rep.Ctx
	p      *an.Prog
	scope  map[*packages.Package]bool
	wireT  map[*types.TypeName]bool
	env    map[types.Object]*c18Dep
	fld    map[*types.Var]*c18Dep
	res    map[*an.Func]map[int]*c18Dep
	params map[types.Object]c18ParamRef
	funcs  []*an.Func // declared functions and literals of the scope
	// allocBy[param object] = sinks whose size derives from that parameter
	allocBy map[types.Object][]c18Sink
	minFn   map[*an.Func]bool
}

func c18InScope(rel string) bool {
	if rel != "p2p" && !strings.HasPrefix(rel, "p2p/") {
		return false
	}
	if rel == "p2p/p2pmock" || strings.HasPrefix(rel, "p2p/test") {
		return false
	}
	return true
}

func c18IsInt(t types.Type) bool {
	if t == nil {
		return false
	}
	b, ok := t.Underlying().(*types.Basic)
	return ok && b.Info()&types.IsInteger != 0
}

func c18Named(t types.Type) *types.TypeName {
	if t == nil {
		return nil
	}
	t = types.Unalias(t)
	if p, ok := t.(*types.Pointer); ok {
		t = types.Unalias(p.Elem())
	}
	if n, ok := t.(*types.Named); ok {
		return n.Obj()
	}
	return nil
}

func c18StripConv(info *types.Info, e ast.Expr) ast.Expr {
	for {
		e = ast.Unparen(e)
		call, ok := e.(*ast.CallExpr)
		if !ok || len(call.Args) != 1 {
			return e
		}
		if tv, ok := info.Types[call.Fun]; ok && tv.IsType() {
			e = call.Args[0]
			continue
		}
		return e
	}
}

func (a *c18An) allFuncs(f *an.Func, out *[]*an.Func) {
	*out = append(*out, f)
	for _, l := range f.Lits {
		a.allFuncs(l, out)
	}
}

func c18NewAn(c *rep.Ctx) *c18An {
	a := &c18An{c: c, p: c.Prog, scope: map[*packages.Package]bool{}, wireT: map[*types.TypeName]bool{},
		env: map[types.Object]*c18Dep{}, fld: map[*types.Var]*c18Dep{}, res: map[*an.Func]map[int]*c18Dep{},
		params: map[types.Object]c18ParamRef{}, allocBy: map[types.Object][]c18Sink{}, minFn: map[*an.Func]bool{}}
	for _, pk := range a.p.ModulePkgs() {
		if c18InScope(an.Rel(pk.PkgPath)) {
			a.scope[pk] = true
			c.Pkgs[an.Rel(pk.PkgPath)] = true
		}
	}
	for _, f := range a.p.Funcs() {
		if !a.scope[f.Pkg] || f.Body == nil {
			continue
		}
		a.allFuncs(f, &a.funcs)
		if f.Type.Params != nil {
			i := 0
			for _, fl := range f.Type.Params.List {
				if len(fl.Names) == 0 {
					i++
					continue
				}
				for _, nm := range fl.Names {
					if o := f.Info().Defs[nm]; o != nil {
						a.params[o] = c18ParamRef{f, i}
					}
					i++
				}
			}
		}
		if c18IsMinFunc(f) {
			a.minFn[f] = true
		}
	}
	// wire message types by role: static type of the destination argument of the decoders
	decoders := map[string]int{
		"p2p/p2putil.UnmarshalAndReturn":   1,
		"p2p/p2putil.UnmarshalMessageBody": 1,
		"internal/enc/proto.Decode":        1,
	}
	for _, f := range a.funcs {
		info := f.Info()
		an.InspectShallow(f.Body, func(n ast.Node) bool {
			call, ok := n.(*ast.CallExpr)
			if !ok {
				return true
			}
			idx, ok := decoders[an.CalleeName(info, call)]
			if !ok || idx >= len(call.Args) {
				return true
			}
			if tn := c18Named(info.TypeOf(call.Args[idx])); tn != nil {
				if _, isStruct := tn.Type().Underlying().(*types.Struct); isStruct {
					a.wireT[tn] = true
				}
			}
			return true
		})
	}
	return a
}

// c18IsMinFunc recognises   func min(a, b T) T { if a < b { return a }; return b }
// by shape: two parameters, one result, and every return yields a bare
// parameter, the one returned under `x < y` / `x <= y` being x (under > / >=: y).
func c18IsMinFunc(f *an.Func) bool {
	if f.Decl == nil || f.Type.Params == nil || f.Type.Results == nil || f.Body == nil {
		return false
	}
	info := f.Info()
	var ps []types.Object
	for _, fl := range f.Type.Params.List {
		for _, nm := range fl.Names {
			ps = append(ps, info.Defs[nm])
		}
	}
	if len(ps) != 2 || len(f.Type.Results.List) != 1 || len(f.Body.List) != 2 {
		return false
	}
	ifs, ok := f.Body.List[0].(*ast.IfStmt)
	if !ok || ifs.Init != nil || ifs.Else != nil || len(ifs.Body.List) != 1 {
		return false
	}
	retObj := func(s ast.Stmt) types.Object {
		r, ok := s.(*ast.ReturnStmt)
		if !ok || len(r.Results) != 1 {
			return nil
		}
		return an.ObjOf(info, r.Results[0])
	}
	be, ok := ast.Unparen(ifs.Cond).(*ast.BinaryExpr)
	if !ok {
		return false
	}
	x, y := an.ObjOf(info, be.X), an.ObjOf(info, be.Y)
	if x == nil || y == nil || x == y || !((x == ps[0] && y == ps[1]) || (x == ps[1] && y == ps[0])) {
		return false
	}
	inner, outer := retObj(ifs.Body.List[0]), retObj(f.Body.List[1])
	switch be.Op {
	case token.LSS, token.LEQ:
		return inner == x && outer == y
	case token.GTR, token.GEQ:
		return inner == y && outer == x
	}
	return false
}

func c18BinaryDecoder(fn *types.Func) bool {
	if fn == nil || fn.Pkg() == nil || fn.Pkg().Path() != "encoding/binary" {
		return false
	}
	switch fn.Name() {
	case "Uint16", "Uint32", "Uint64", "Uvarint", "Varint", "ReadUvarint", "ReadVarint":
		return true
	}
	return false
}

// wireField: x.f (or x.GetF()) where x is a wire message and f an integer field.
func (a *c18An) wireField(info *types.Info, e ast.Expr) (c18El, string, bool) {
	e = ast.Unparen(e)
	if call, ok := e.(*ast.CallExpr); ok && len(call.Args) == 0 {
		sel, ok := ast.Unparen(call.Fun).(*ast.SelectorExpr)
		if !ok || !strings.HasPrefix(sel.Sel.Name, "Get") {
			return c18El{}, "", false
		}
		tn := c18Named(info.TypeOf(sel.X))
		if tn == nil || !a.wireT[tn] || !c18IsInt(info.TypeOf(e)) {
			return c18El{}, "", false
		}
		st, _ := tn.Type().Underlying().(*types.Struct)
		for i := 0; st != nil && i < st.NumFields(); i++ {
			if st.Field(i).Name() == strings.TrimPrefix(sel.Sel.Name, "Get") {
				return c18El{an.ObjOf(info, sel.X), st.Field(i)}, tn.Name() + "." + st.Field(i).Name(), true
			}
		}
		return c18El{}, "", false
	}
	sel, ok := e.(*ast.SelectorExpr)
	if !ok {
		return c18El{}, "", false
	}
	f := an.FieldOf(info, sel)
	if f == nil || !c18IsInt(f.Type()) {
		return c18El{}, "", false
	}
	tn := c18Named(info.TypeOf(sel.X))
	if tn == nil || !a.wireT[tn] {
		return c18El{}, "", false
	}
	return c18El{an.ObjOf(info, sel.X), f}, tn.Name() + "." + f.Name(), true
}

// dep computes what the value of e derives from.
func (a *c18An) dep(info *types.Info, e ast.Expr) *c18Dep {
	d := c18NewDep()
	a.depInto(info, e, d)
	return d
}

func (a *c18An) depInto(info *types.Info, e ast.Expr, d *c18Dep) {
	e = ast.Unparen(e)
	if e == nil {
		return
	}
	if tv, ok := info.Types[e]; ok && tv.Value != nil {
		return
	}
	if el, desc, ok := a.wireField(info, e); ok {
		d.wire = true
		d.srcs["message field "+desc] = true
		d.els[el] = true
		return
	}
	switch x := e.(type) {
	case *ast.Ident:
		obj := an.ObjOf(info, x)
		v, ok := obj.(*types.Var)
		if !ok {
			return
		}
		d.els[c18El{obj: v}] = true
		if _, isP := a.params[v]; isP {
			d.params[v] = true
		}
		d.merge(a.env[v])
	case *ast.SelectorExpr:
		if f := an.FieldOf(info, x); f != nil {
			d.merge(a.fld[f])
			return
		}
		// package-qualified variable
		if v, ok := info.Uses[x.Sel].(*types.Var); ok {
			d.merge(a.env[v])
		}
	case *ast.StarExpr:
		a.depInto(info, x.X, d)
	case *ast.UnaryExpr:
		if x.Op == token.AND {
			return
		}
		a.depInto(info, x.X, d)
	case *ast.BinaryExpr:
		switch x.Op {
		case token.EQL, token.NEQ, token.LSS, token.LEQ, token.GTR, token.GEQ, token.LAND, token.LOR:
			return
		}
		a.depInto(info, x.X, d)
		a.depInto(info, x.Y, d)
	case *ast.CallExpr:
		if tv, ok := info.Types[x.Fun]; ok && tv.IsType() {
			if len(x.Args) == 1 {
				a.depInto(info, x.Args[0], d)
			}
			return
		}
		if an.IsBuiltin(info, x, "len") || an.IsBuiltin(info, x, "cap") {
			return
		}
		a.callDep(info, x, 0, d)
	}
}

// callDep: dependency of result number idx of a call.
func (a *c18An) callDep(info *types.Info, call *ast.CallExpr, idx int, d *c18Dep) {
	fn := an.Callee(info, call)
	if c18BinaryDecoder(fn) {
		d.wire = true
		d.srcs["encoding/binary."+fn.Name()] = true
		return
	}
	isMin := an.IsBuiltin(info, call, "min")
	if cf := a.p.FuncOf(fn); cf != nil && a.minFn[cf] {
		isMin = true
	}
	if isMin {
		// clamp: bounded by any argument that is not wire-derived
		var all []*c18Dep
		for _, arg := range call.Args {
			ad := a.dep(info, arg)
			if !ad.wire && len(ad.params) == 0 {
				return
			}
			all = append(all, ad)
		}
		clean := false
		for _, ad := range all {
			if !ad.wire {
				clean = true
			}
		}
		for _, ad := range all {
			if clean && ad.wire {
				continue // bounded by the parameter-derived argument; the parameter dependency remains
			}
			d.merge(ad)
		}
		return
	}
	if cf := a.p.FuncOf(fn); cf != nil && a.scope[cf.Pkg] && cf.Body != nil {
		if rd := a.res[cf][idx]; rd != nil {
			if rd.wire {
				d.wire = true
				for k := range rd.srcs {
					d.srcs[k] = true
				}
			}
			for po := range rd.params {
				ref := a.params[po]
				if ref.fn == cf && ref.idx < len(call.Args) {
					a.depInto(info, call.Args[ref.idx], d)
				}
			}
		}
		return
	}
	// unknown callee: the result may derive from any argument
	for _, arg := range call.Args {
		if tv, ok := info.Types[arg]; ok && (c18IsInt(tv.Type) || tv.Type == nil) {
			a.depInto(info, arg, d)
		}
	}
}

func (a *c18An) assign(info *types.Info, lhs ast.Expr, d *c18Dep, onlyWire bool) bool {
	lhs = ast.Unparen(lhs)
	switch x := lhs.(type) {
	case *ast.Ident:
		if x.Name == "_" {
			return false
		}
		obj := an.ObjOf(info, x)
		v, ok := obj.(*types.Var)
		if !ok || !c18IsInt(v.Type()) {
			return false
		}
		cur := a.env[v]
		if cur == nil {
			cur = c18NewDep()
			a.env[v] = cur
		}
		// do not record a variable as its own chain element through itself
		return cur.merge(d)
	case *ast.SelectorExpr:
		f := an.FieldOf(info, x)
		if f == nil || !c18IsInt(f.Type()) || !d.wire {
			return false
		}
		cur := a.fld[f]
		if cur == nil {
			cur = c18NewDep()
			a.fld[f] = cur
		}
		w := c18NewDep()
		w.wire, w.srcs = true, d.srcs
		return cur.merge(w)
	}
	return false
}

// pass runs one propagation pass over every function of the scope.
func (a *c18An) pass() bool {
	changed := false
	for _, f := range a.funcs {
		info := f.Info()
		top := f.TopDecl()
		an.InspectShallow(f.Body, func(n ast.Node) bool {
			switch s := n.(type) {
			case *ast.AssignStmt:
				if len(s.Rhs) == 1 && len(s.Lhs) > 1 {
					if call, ok := ast.Unparen(s.Rhs[0]).(*ast.CallExpr); ok {
						for i, l := range s.Lhs {
							d := c18NewDep()
							a.callDep(info, call, i, d)
							if a.assign(info, l, d, false) {
								changed = true
							}
						}
					}
					return true
				}
				for i, l := range s.Lhs {
					if i < len(s.Rhs) {
						if a.assign(info, l, a.dep(info, s.Rhs[i]), false) {
							changed = true
						}
					}
				}
			case *ast.ValueSpec:
				if len(s.Values) == 1 && len(s.Names) > 1 {
					if call, ok := ast.Unparen(s.Values[0]).(*ast.CallExpr); ok {
						for i, l := range s.Names {
							d := c18NewDep()
							a.callDep(info, call, i, d)
							if a.assign(info, l, d, false) {
								changed = true
							}
						}
					}
					return true
				}
				for i, l := range s.Names {
					if i < len(s.Values) {
						if a.assign(info, l, a.dep(info, s.Values[i]), false) {
							changed = true
						}
					}
				}
			case *ast.KeyValueExpr:
				if id, ok := s.Key.(*ast.Ident); ok {
					if fv, ok := info.Uses[id].(*types.Var); ok && fv.IsField() && c18IsInt(fv.Type()) {
						d := a.dep(info, s.Value)
						if d.wire {
							cur := a.fld[fv]
							if cur == nil {
								cur = c18NewDep()
								a.fld[fv] = cur
							}
							w := c18NewDep()
							w.wire, w.srcs = true, d.srcs
							if cur.merge(w) {
								changed = true
							}
						}
					}
				}
			case *ast.CallExpr:
				// binary.Read(r, order, &v): v receives wire bytes
				if fn := an.Callee(info, s); fn != nil && fn.Pkg() != nil && fn.Pkg().Path() == "encoding/binary" && fn.Name() == "Read" && len(s.Args) == 3 {
					if u, ok := ast.Unparen(s.Args[2]).(*ast.UnaryExpr); ok && u.Op == token.AND {
						d := c18NewDep()
						d.wire = true
						d.srcs["encoding/binary.Read"] = true
						if a.assign(info, u.X, d, false) {
							changed = true
						}
					}
				}
			case *ast.ReturnStmt:
				if f.Decl == nil {
					return true
				}
				m := a.res[top]
				if m == nil {
					m = map[int]*c18Dep{}
					a.res[top] = m
				}
				put := func(i int, d *c18Dep) {
					if m[i] == nil {
						m[i] = c18NewDep()
					}
					if m[i].merge(d) {
						changed = true
					}
				}
				if len(s.Results) == 0 && f.Type.Results != nil {
					i := 0
					for _, fl := range f.Type.Results.List {
						for _, nm := range fl.Names {
							put(i, a.dep(info, nm))
							i++
						}
					}
					return true
				}
				if len(s.Results) == 1 && f.Type.Results != nil && f.Type.Results.NumFields() > 1 {
					if call, ok := ast.Unparen(s.Results[0]).(*ast.CallExpr); ok {
						for i := 0; i < f.Type.Results.NumFields(); i++ {
							d := c18NewDep()
							a.callDep(info, call, i, d)
							put(i, d)
						}
					}
					return true
				}
				for i, r := range s.Results {
					put(i, a.dep(info, r))
				}
			}
			return true
		})
	}
	return changed
}

func c18TypeString(t types.Type) string {
	return types.TypeString(t, func(p *types.Package) string { return an.Rel(p.Path()) })
}

// sizeArgs returns the size arguments of make().
func c18MakeSizes(info *types.Info, call *ast.CallExpr) []ast.Expr {
	if !an.IsBuiltin(info, call, "make") || len(call.Args) < 2 {
		return nil
	}
	return call.Args[1:]
}

type c18Bound struct {
	edge  *an.Node
	limit ast.Expr
	cmp   *ast.BinaryExpr
	el    c18El
}

// boundingEdges lists the branch edges of fn on which a comparison of a chain
// element of d against a value that is not wire-derived has its "bounded" outcome.
func (a *c18An) boundingEdges(fn *an.Func, d *c18Dep) []c18Bound {
	g := fn.Graph()
	info := fn.Info()
	var out []c18Bound
	matchEl := func(e ast.Expr) (c18El, bool) {
		e = c18StripConv(info, e)
		if el, _, ok := a.wireField(info, e); ok && d.els[el] {
			return el, true
		}
		if id, ok := e.(*ast.Ident); ok {
			el := c18El{obj: an.ObjOf(info, id)}
			if el.obj != nil && d.els[el] && a.dep(info, id).wire {
				// the element itself must carry the wire value (not a mere limit that was merged in)
				return el, true
			}
		}
		return c18El{}, false
	}
	for _, n := range g.Nodes {
		if n.Kind != an.KTrue && n.Kind != an.KFalse {
			continue
		}
		cond, ok := n.Ast.(ast.Expr)
		if !ok || cond == nil {
			continue
		}
		if tv, ok := info.Types[cond]; !ok || tv.Type == nil {
			continue
		} else if b, ok := tv.Type.Underlying().(*types.Basic); !ok || b.Info()&types.IsBoolean == 0 {
			continue
		}
		var cmps []*ast.BinaryExpr
		an.InspectShallow(cond, func(m ast.Node) bool {
			if be, ok := m.(*ast.BinaryExpr); ok {
				switch be.Op {
				case token.LSS, token.LEQ, token.GTR, token.GEQ, token.EQL, token.NEQ:
					cmps = append(cmps, be)
				}
			}
			return true
		})
		for _, be := range cmps {
			var el c18El
			var limit ast.Expr
			op := be.Op
			if e1, ok := matchEl(be.X); ok && !a.valueWire(info, be.Y, d) {
				el, limit = e1, be.Y
			} else if e2, ok := matchEl(be.Y); ok && !a.valueWire(info, be.X, d) {
				el, limit = e2, be.X
				switch op {
				case token.LSS:
					op = token.GTR
				case token.GTR:
					op = token.LSS
				case token.LEQ:
					op = token.GEQ
				case token.GEQ:
					op = token.LEQ
				}
			} else {
				continue
			}
			neg := false
			switch op {
			case token.GTR, token.GEQ, token.NEQ:
				neg = true
			}
			target := be
			at := func(e ast.Expr) (string, bool, bool) {
				if ast.Unparen(e) == ast.Expr(target) {
					return "B", neg, true
				}
				return "", false, false
			}
			if an.CondImplies(info, cond, n.Kind == an.KTrue, at, map[string]bool{"B": true}) {
				out = append(out, c18Bound{n, limit, be, el})
			}
		}
	}
	return out
}

// valueWire: is the candidate limit itself wire-derived (then it bounds nothing)?
func (a *c18An) valueWire(info *types.Info, e ast.Expr, of *c18Dep) bool {
	d := a.dep(info, e)
	return d.wire
}

// limitQuality classifies a limit expression evaluated in fn: "" = acceptable
// configured limit, otherwise the reason it is not.  Parameters are resolved
// through every call site (perCaller receives one verdict per caller).
func (a *c18An) limitQuality(fn *an.Func, e ast.Expr, depth int, perCaller func(caller *an.Func, why string)) string {
	info := fn.Info()
	e = c18StripConv(info, e)
	if tv, ok := info.Types[e]; ok && tv.Value != nil {
		return c18ConstOK(tv.Value)
	}
	if depth > 4 {
		return ""
	}
	switch x := e.(type) {
	case *ast.BinaryExpr:
		if r := a.limitQuality(fn, x.X, depth+1, perCaller); r != "" {
			return r
		}
		return a.limitQuality(fn, x.Y, depth+1, perCaller)
	case *ast.SelectorExpr:
		if v, ok := info.Uses[x.Sel].(*types.Var); ok && !v.IsField() {
			return a.pkgVarQuality(v)
		}
		return "" // configuration field
	case *ast.Ident:
		obj := an.ObjOf(info, x)
		switch o := obj.(type) {
		case *types.Const:
			return c18ConstOK(o.Val())
		case *types.Var:
			if o.Parent() != nil && o.Pkg() != nil && o.Parent() == o.Pkg().Scope() {
				return a.pkgVarQuality(o)
			}
			if ref, isP := a.params[o]; isP {
				// parameter: every caller must pass a configured limit
				worst := ""
				sites := a.p.CallSitesOf(map[string]bool{ref.fn.Name(): true})
				for _, cs := range sites {
					if cs.Fn == nil || ref.idx >= len(cs.Call.Args) {
						continue
					}
					why := a.limitQuality(cs.Fn, cs.Call.Args[ref.idx], depth+1, nil)
					if perCaller != nil {
						perCaller(cs.Fn, why)
					} else if why != "" {
						worst = why + " (passed by " + cs.Fn.Name() + ")"
					}
				}
				if perCaller != nil {
					return "per-caller"
				}
				return worst
			}
			// local variable: every assigned value must be acceptable
			worst := ""
			top := fn.TopDecl()
			var fs []*an.Func
			a.allFuncs(top, &fs)
			for _, lf := range fs {
				an.InspectShallow(lf.Body, func(n ast.Node) bool {
					switch s := n.(type) {
					case *ast.AssignStmt:
						for i, l := range s.Lhs {
							if an.ObjOf(info, l) == obj && i < len(s.Rhs) && len(s.Lhs) == len(s.Rhs) {
								if r := a.limitQuality(lf, s.Rhs[i], depth+1, nil); r != "" {
									worst = r
								}
							}
						}
					case *ast.ValueSpec:
						for i, nm := range s.Names {
							if info.Defs[nm] == obj && i < len(s.Values) {
								if r := a.limitQuality(lf, s.Values[i], depth+1, nil); r != "" {
									worst = r
								}
							}
						}
					}
					return true
				})
			}
			return worst
		}
	}
	return ""
}

func c18ConstOK(v constant.Value) string {
	if v.Kind() != constant.Int {
		return ""
	}
	if constant.Compare(v, token.GTR, constant.MakeInt64(c18LimitCeiling)) {
		return "the bound is the constant " + v.ExactString() + ", larger than any configured limit (ceiling " + itoa(c18LimitCeiling) + "): it bounds nothing"
	}
	return ""
}

func (a *c18An) pkgVarQuality(v *types.Var) string {
	pk := a.p.ByPath[v.Pkg().Path()]
	if pk == nil {
		return ""
	}
	for _, file := range pk.Syntax {
		for _, d := range file.Decls {
			gd, ok := d.(*ast.GenDecl)
			if !ok || gd.Tok != token.VAR {
				continue
			}
			for _, sp := range gd.Specs {
				vs := sp.(*ast.ValueSpec)
				for i, nm := range vs.Names {
					if pk.TypesInfo.Defs[nm] == v && i < len(vs.Values) {
						if tv, ok := pk.TypesInfo.Types[vs.Values[i]]; ok && tv.Value != nil {
							return c18ConstOK(tv.Value)
						}
					}
				}
			}
		}
	}
	return ""
}

func c18Alloc(c *rep.Ctx) {
	a := c18NewAn(c)
	if len(a.scope) < 8 {
		c.Undecide("alloc-bound", "scope", "fewer than 8 p2p packages loaded")
		return
	}
	if len(a.wireT) < 20 {
		c.Undecide("alloc-bound", "wire-types", "only "+itoa(len(a.wireT))+" wire message types discovered through the payload decoders (reference tree: 30+)")
	}
	for i := 0; i < 12 && a.pass(); i++ {
	}
	// ---- enumerate make() sites
	type site struct {
		sink c18Sink
		dep  *c18Dep
		via  string // "" or "called from X with a wire-derived argument"
		at   *an.Func
		node ast.Node
	}
	var sites []site
	nMake, nConst := 0, 0
	for _, f := range a.funcs {
		info := f.Info()
		an.InspectShallow(f.Body, func(n ast.Node) bool {
			call, ok := n.(*ast.CallExpr)
			if !ok {
				return true
			}
			sz := c18MakeSizes(info, call)
			if sz == nil {
				return true
			}
			nMake++
			d := c18NewDep()
			for _, s := range sz {
				a.depInto(info, s, d)
			}
			sk := c18Sink{f, call, c18TypeString(info.TypeOf(call.Args[0]))}
			if !d.wire && len(d.params) == 0 {
				nConst++
				return true
			}
			for po := range d.params {
				a.allocBy[po] = append(a.allocBy[po], sk)
			}
			if d.wire {
				sites = append(sites, site{sink: sk, dep: d, at: f, node: call})
			}
			return true
		})
	}
	// ---- parameter-sized allocation: the obligation moves to the call sites (fixpoint)
	seenCall := map[*ast.CallExpr]bool{}
	for round := 0; round < 6; round++ {
		grew := false
		for _, f := range a.funcs {
			info := f.Info()
			an.InspectShallow(f.Body, func(n ast.Node) bool {
				call, ok := n.(*ast.CallExpr)
				if !ok {
					return true
				}
				cf := a.p.FuncOf(an.Callee(info, call))
				if cf == nil || !a.scope[cf.Pkg] {
					return true
				}
				for po, sinks := range a.allocBy {
					ref := a.params[po]
					if ref.fn != cf || ref.idx >= len(call.Args) {
						continue
					}
					d := a.dep(info, call.Args[ref.idx])
					for p2 := range d.params {
						for _, sk := range sinks {
							dup := false
							for _, have := range a.allocBy[p2] {
								if have.call == sk.call {
									dup = true
								}
							}
							if !dup {
								a.allocBy[p2] = append(a.allocBy[p2], sk)
								grew = true
							}
						}
					}
					if d.wire && !seenCall[call] {
						seenCall[call] = true
						for _, sk := range sinks {
							sites = append(sites, site{sink: sk, dep: d, at: f, node: call, via: f.Name()})
						}
					}
				}
				return true
			})
		}
		if !grew {
			break
		}
	}
	c.Note("alloc-bound: %d wire message types discovered through the payload decoders", len(a.wireT))
	c.Note("alloc-bound: %d make() calls with a size argument in %d p2p packages; %d have constant / len()-derived / local sizes; %d are sized from wire-decoded values", nMake, len(a.scope), nConst, len(sites))
	sort.Slice(sites, func(i, j int) bool { return sites[i].node.Pos() < sites[j].node.Pos() })
	for _, s := range sites {
		construct := s.sink.fn.Name() + "|make:" + strings.ReplaceAll(s.sink.typ, " ", "")
		if s.via != "" {
			construct += "|size<-" + s.via
		}
		if why, ex := c18AllocExempt[construct]; ex {
			c.CheckTrivial("alloc-bound", construct, s.node.Pos(), true, "exempt: "+why)
			continue
		}
		c.Fns[s.at.TopDecl().Name()] = true
		g := s.at.Graph()
		target := g.NodeContaining(s.node.Pos())
		if target == nil {
			c.Undecide("alloc-bound", construct, "cannot locate the allocation in the control-flow graph")
			continue
		}
		bounds := a.boundingEdges(s.at, s.dep)
		info := s.at.Info()
		all := an.Set{}
		good := an.Set{}
		badWhy := ""
		type pc struct {
			caller *an.Func
			why    string
		}
		var perCaller []pc
		var paramEdges = an.Set{}
		// cleanFrom: the guarded local is not written on any path from gate vertex
		// `from` to the allocation (the value tested / assigned at the gate is the
		// value that sizes the allocation)
		cleanFrom := func(from *an.Node, obj types.Object) bool {
			for m := range g.Between(from, target) {
				if m.Kind == an.KStmt && m != target && m != from && an.Assigns(info, m.Ast, obj) {
					return false
				}
			}
			return true
		}
		clampSeen := map[*an.Node]bool{}
		for _, b := range bounds {
			if b.el.fld == nil && b.el.obj != nil {
				// clamp idiom `if x > L { x = L }` (any spelling of the comparison): behind
				// the bounding comparison the guarded local is overwritten with a value
				// that does not come from the wire.  Such an assignment is a gate of its
				// own (same idiom as rule loop-bound, c18GapLoopBound); the value assigned
				// is judged like a limit.
				for _, m := range g.Nodes {
					as, isAs := m.Ast.(*ast.AssignStmt)
					if m.Kind != an.KStmt || !isAs || as.Tok != token.ASSIGN || len(as.Lhs) != 1 || len(as.Rhs) != 1 || clampSeen[m] {
						continue
					}
					if an.ObjOf(info, as.Lhs[0]) != b.el.obj || a.dep(info, as.Rhs[0]).wire || !g.Dominated(m, an.SetOf(b.edge.Cond)) || !cleanFrom(m, b.el.obj) {
						continue
					}
					clampSeen[m] = true
					all[m] = true
					if q := a.limitQuality(s.at, as.Rhs[0], 0, nil); q == "" {
						good[m] = true
					} else {
						badWhy = q
					}
				}
				// the guarded variable must not be reassigned between the bounded outcome
				// of the guard and the allocation (a write on the other outcome does not
				// touch the paths this edge vouches for)
				if !cleanFrom(b.edge, b.el.obj) {
					continue
				}
			}
			all[b.edge] = true
			var got []pc
			q := a.limitQuality(s.at, b.limit, 0, func(caller *an.Func, why string) { got = append(got, pc{caller, why}) })
			switch q {
			case "":
				good[b.edge] = true
			case "per-caller":
				paramEdges[b.edge] = true
				perCaller = append(perCaller, got...)
			default:
				badWhy = q
			}
		}
		what := "make(" + s.sink.typ + ") sized from " + s.dep.srcList()
		switch {
		case len(good) > 0 && g.Dominated(target, good):
			c.Check("alloc-bound", construct, s.node.Pos(), true, what+": dominated by an upper-bound guard against a configured limit")
		case len(paramEdges) > 0 && g.Dominated(target, good.Union(paramEdges)):
			if len(perCaller) == 0 {
				c.Undecide("alloc-bound", construct, "the limit is a parameter but no caller was found")
			}
			for _, r := range perCaller {
				c.Check("alloc-bound", construct+"|limit<-"+r.caller.Name(), s.node.Pos(), r.why == "", what+": the guard's limit is a parameter; "+r.caller.Name()+" passes "+c18OrOK(r.why))
			}
		case len(all) > 0 && g.Dominated(target, all):
			c.Check("alloc-bound", construct, s.node.Pos(), false, what+": guarded, but "+badWhy)
		default:
			c.Check("alloc-bound", construct, s.node.Pos(), false, what+": no upper-bound guard against a configured limit dominates the allocation (a peer chooses the size)")
		}
	}
	c.Floor("alloc-bound", 4)
}

func c18OrOK(why string) string {
	if why == "" {
		return "a configured limit"
	}
	return why
}
