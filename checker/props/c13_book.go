package props

import (
	"go/ast"
	"go/token"
	"go/types"
	"strings"

	"verif/checker/internal/an"
)

// Bookkeeping rules of C13: the hash index (MemPool.cache), the counters
// (length, orphan) and the per-account lists (MemPool.pool) change together.

// c13OrphanDelta: sign convention of the orphan delta returned by the list
// operations (result 0), confirmed by reading each of them.
var c13OrphanDelta = map[string]struct {
	tok   token.Token
	shape bool // callee side decided structurally: returns (orphans before) - (orphans after)
	why   string
}{
	"mempool.(*txList).Put":           {token.SUB_ASSIGN, true, "returns orphans-before minus orphans-after the insertion: the caller subtracts"},
	"mempool.(*txList).FilterByState": {token.SUB_ASSIGN, true, "returns orphans-before minus orphans-after the filter: the caller subtracts"},
	"mempool.(*txList).RemoveTx":      {token.ADD_ASSIGN, false, "returns the number of NEW orphans (ready entries cut off behind the removed one, -1 when the removed one was an orphan): the caller adds; exception to the before-minus-after shape, read by hand"},
}

type c13CacheOp struct {
	site   an.Site
	method string
}

// c13CacheOps lists the sync.Map method calls on MemPool.cache in f.
func c13CacheOps(e *c13Env, f *an.Func) []c13CacheOp {
	var out []c13CacheOp
	info := f.Info()
	for _, s := range f.Graph().Calls(func(fn *types.Func, call *ast.CallExpr) bool {
		if fn == nil || !strings.HasPrefix(an.FuncName(fn), "sync.(*Map).") {
			return false
		}
		sel, ok := ast.Unparen(call.Fun).(*ast.SelectorExpr)
		return ok && an.FieldOf(info, sel.X) == e.cache
	}) {
		out = append(out, c13CacheOp{s, s.Fn.Name()})
	}
	return out
}

var c13CacheDelta = map[string]int{"Store": +1, "Delete": -1, "Load": 0, "Range": 0}

// c13Paired: a and b are executed together: one dominates the other, the
// other post-dominates it, and neither can be repeated without the other.
func c13Paired(g *an.Graph, a, b *an.Node) bool {
	if a == nil || b == nil {
		return false
	}
	if a == b {
		return true
	}
	one := func(x, y *an.Node) bool {
		return g.Dominated(y, an.SetOf(x)) && g.PostDominated(x, an.SetOf(y)) &&
			!g.Reach(x.Succs, an.SetOf(y))[x] && !g.Reach(y.Succs, an.SetOf(x))[y]
	}
	return one(a, b) || one(b, a)
}

// c13Defs returns the right-hand sides assigned to the local obj in f (nil
// entry: an assignment whose value cannot be named, e.g. a tuple result).
func c13Defs(f *an.Func, obj types.Object) (exprs []ast.Expr, nodes []*an.Node) {
	info := f.Info()
	for _, n := range f.Graph().Nodes {
		if n.Kind != an.KStmt || !an.Assigns(info, n.Ast, obj) {
			continue
		}
		var rhs ast.Expr
		switch s := n.Ast.(type) {
		case *ast.AssignStmt:
			if len(s.Lhs) == len(s.Rhs) {
				for i, l := range s.Lhs {
					if an.ObjOf(info, l) == obj {
						rhs = s.Rhs[i]
					}
				}
			}
		case *ast.ValueSpec:
			if len(s.Names) == len(s.Values) {
				for i, nm := range s.Names {
					if info.Defs[nm] == obj {
						rhs = s.Values[i]
					}
				}
			}
		}
		exprs = append(exprs, rhs)
		nodes = append(nodes, n)
	}
	return
}

// c13SingleDef: the only value ever assigned to the local obj, or nil.
func c13SingleDef(f *an.Func, obj types.Object) ast.Expr {
	ex, _ := c13Defs(f, obj)
	if len(ex) == 1 {
		return ex[0]
	}
	return nil
}

// c13Resolve replaces a once-assigned local identifier by its definition.
func c13Resolve(f *an.Func, x ast.Expr) ast.Expr {
	x = ast.Unparen(x)
	if id, ok := x.(*ast.Ident); ok {
		if obj, ok := an.ObjOf(f.Info(), id).(*types.Var); ok && !obj.IsField() {
			if d := c13SingleDef(f, obj); d != nil {
				return ast.Unparen(d)
			}
		}
	}
	return x
}

// c13KeyTx: the object X when x is types.ToTxID(X.GetHash()) or
// types.ToTxID(X.GetTx().GetHash()), directly or through a once-assigned local.
func c13KeyTx(f *an.Func, x ast.Expr) types.Object {
	info := f.Info()
	call, ok := c13Resolve(f, x).(*ast.CallExpr)
	if !ok || an.CalleeName(info, call) != "types.ToTxID" || len(call.Args) != 1 {
		return nil
	}
	h, ok := ast.Unparen(call.Args[0]).(*ast.CallExpr)
	if !ok {
		return nil
	}
	fn := an.Callee(info, h)
	if fn == nil || fn.Name() != "GetHash" {
		return nil
	}
	sel, ok := ast.Unparen(h.Fun).(*ast.SelectorExpr)
	if !ok {
		return nil
	}
	recv := ast.Unparen(sel.X)
	if inner, ok := recv.(*ast.CallExpr); ok { // X.GetTx().GetHash()
		if ifn := an.Callee(info, inner); ifn != nil && ifn.Name() == "GetTx" {
			if s2, ok := ast.Unparen(inner.Fun).(*ast.SelectorExpr); ok {
				recv = ast.Unparen(s2.X)
			}
		}
	}
	if id, ok := recv.(*ast.Ident); ok {
		return an.ObjOf(info, id)
	}
	return nil
}

// c13RangeOver finds the innermost range statement of f whose body contains pos.
func c13RangeOver(f *an.Func, pos token.Pos) *ast.RangeStmt {
	var best *ast.RangeStmt
	an.InspectShallow(f.Body, func(n ast.Node) bool {
		if rs, ok := n.(*ast.RangeStmt); ok && rs.Body.Pos() <= pos && pos < rs.Body.End() {
			best = rs
		}
		return true
	})
	return best
}

func c13IsZero(info *types.Info, x ast.Expr) bool {
	tv, ok := info.Types[x]
	return ok && tv.Value != nil && tv.Value.ExactString() == "0"
}

func c13Book(e *c13Env) {
	c, la := e.c, e.la
	lengthW := map[*an.Func][]c13W{}
	orphanW := map[*an.Func][]c13W{}
	poolW := map[*an.Func][]c13W{}
	for _, a := range e.acc {
		if !a.Write || a.How == "literal" || a.Fn == nil {
			continue
		}
		n := a.Fn.Graph().NodeContaining(a.Pos)
		switch a.Field {
		case e.length:
			lengthW[a.Fn] = append(lengthW[a.Fn], c13W{a, n})
		case e.orphan:
			orphanW[a.Fn] = append(orphanW[a.Fn], c13W{a, n})
		case e.pool:
			poolW[a.Fn] = append(poolW[a.Fn], c13W{a, n})
		case e.cache:
			// cache-stable: the sync.Map value itself is never overwritten
			if a.How == "assign" || a.How == "op-assign" || a.How == "addr" {
				c.Check("cache-stable", a.Fn.Name()+"|MemPool.cache|"+a.How, a.Pos, false,
					"the sync.Map hash index is overwritten (or its address escapes) while MemPool.exist/existEx/put call Load on it without the pool lock: sync.Map must not be copied or reassigned after first use; empty it with Range+Delete (or Clear) instead")
			}
		}
	}
	// cache-stable floor: the calls on the cache are the positive instances
	nCache := 0
	for _, f := range la.Funcs {
		for _, op := range c13CacheOps(e, f) {
			nCache++
			_, known := c13CacheDelta[op.method]
			c.CheckTrivial("cache-stable", f.Name()+"|MemPool.cache."+op.method, op.site.Call.Pos(), known, "hash index used through sync.Map."+op.method+" (Load/Store/Delete/Range are the classified operations)")
		}
	}
	c.Floor("cache-stable", 5)

	// ---- counter-pairing, update-gated, cache-key
	for _, f := range la.Funcs {
		if la.Status[f.TopDecl()] == "dead" {
			continue
		}
		g := f.Graph()
		info := f.Info()
		ops := c13CacheOps(e, f)
		// reset: length = 0 together with orphan = 0, a fresh pool map and an emptied index
		isReset := false
		if top := f.TopDecl(); top != f {
			// a literal of the reset function (e.g. the callback of cache.Range) belongs to the reset
			for _, w := range lengthW[top] {
				if w.a.How == "assign" {
					isReset = true
				}
			}
		}
		for _, w := range lengthW[f] {
			if w.a.How != "assign" {
				continue
			}
			isReset = true
			as, _ := w.n.Ast.(*ast.AssignStmt)
			ok := as != nil && len(as.Lhs) == 1 && len(as.Rhs) == 1 && c13IsZero(info, as.Rhs[0])
			var missing []string
			found := map[string]bool{}
			for _, o := range orphanW[f] {
				if oa, _ := o.n.Ast.(*ast.AssignStmt); oa != nil && o.a.How == "assign" && len(oa.Rhs) == 1 && c13IsZero(info, oa.Rhs[0]) && c13Paired(g, w.n, o.n) {
					found["orphan"] = true
				}
			}
			for _, o := range poolW[f] {
				if oa, _ := o.n.Ast.(*ast.AssignStmt); oa != nil && o.a.How == "assign" && len(oa.Rhs) == 1 && c13Paired(g, w.n, o.n) {
					switch r := ast.Unparen(oa.Rhs[0]).(type) {
					case *ast.CompositeLit:
						found["pool"] = len(r.Elts) == 0
					case *ast.CallExpr:
						found["pool"] = an.IsBuiltin(info, r, "make")
					}
				}
			}
			for _, a := range e.acc {
				if a.Fn == f && a.Field == e.cache && a.How == "assign" {
					if n := g.NodeContaining(a.Pos); c13Paired(g, w.n, n) {
						found["cache"] = true
					}
				}
			}
			for _, op := range ops {
				if (op.method == "Clear" || op.method == "Range") && c13Paired(g, w.n, op.site.Node) {
					found["cache"] = true
				}
			}
			for _, k := range []string{"orphan", "pool", "cache"} {
				if !found[k] {
					missing = append(missing, k)
				}
			}
			c.Check("counter-pairing", f.Name()+"|reset", w.a.Pos, ok && len(missing) == 0,
				"length is reset to 0 only together with orphan = 0, a fresh pool map and an emptied hash index (missing: "+strings.Join(missing, ",")+")")
		}
		if isReset {
			continue
		}
		usedL := map[*an.Node]int{}
		for _, op := range ops {
			d, known := c13CacheDelta[op.method]
			if !known {
				c.Check("counter-pairing", f.Name()+"|"+op.method, op.site.Call.Pos(), false, "unclassified mutation of the hash index")
				continue
			}
			if d == 0 {
				continue
			}
			want := map[int]string{+1: "inc", -1: "dec"}[d]
			n := 0
			for _, w := range lengthW[f] {
				if w.a.How == want && c13Paired(g, op.site.Node, w.n) {
					n++
					usedL[w.n]++
				}
			}
			c.Check("counter-pairing", f.Name()+"|cache."+op.method, op.site.Call.Pos(), n == 1,
				"cache."+op.method+" is executed together with exactly one length"+map[int]string{+1: "++", -1: "--"}[d]+" (same paths, same loop iteration); found "+itoa(n))
			c13GatedOrLifted(e, f, op)
		}
		for _, w := range lengthW[f] {
			if usedL[w.n] != 1 {
				c.Check("counter-pairing", f.Name()+"|length."+w.a.How, w.a.Pos, false, "length is changed without exactly one matching change of the hash index in the same function")
			}
		}
	}
	c.Floor("counter-pairing", 4)
	c.Floor("update-gated", 3)
	c.Floor("cache-key", 3)

	c13ListOpsCounted(e)
	c13Orphan(e, c13FnSet(orphanW))
	c13PoolMap(e, c13FnSet(poolW))
}

// c13W is a write access with its vertex.
type c13W struct {
	a an.FieldAccess
	n *an.Node
}

func c13FnSet(m map[*an.Func][]c13W) map[*an.Func]bool {
	r := map[*an.Func]bool{}
	for f := range m {
		r[f] = true
	}
	return r
}

// c13GatedOrLifted: a Store/Delete whose transaction is a parameter of a
// helper that performs no list operation itself is an obligation of the
// helper's call sites (extracted helper), otherwise of the function itself.
func c13GatedOrLifted(e *c13Env, f *an.Func, op c13CacheOp) {
	c := e.c
	info := f.Info()
	name := f.Name() + "|cache." + op.method
	if len(op.site.Call.Args) == 0 {
		c.Undecide("update-gated", name, "no key argument")
		return
	}
	keyTx := c13KeyTx(f, op.site.Call.Args[0])
	var val types.Object
	if len(op.site.Call.Args) == 2 {
		val = an.ObjOf(info, op.site.Call.Args[1])
	}
	g := f.Graph()
	listOps := len(g.CallsTo("mempool.(*txList).Put", "mempool.(*txList).RemoveTx", "mempool.(*txList).FilterByState", "mempool.(*txList).GetAll"))
	pi := c13ParamIndex(f, keyTx)
	if f.Decl == nil || listOps > 0 || pi < 0 || c13RangeOver(f, op.site.Call.Pos()) != nil || e.la.Status[f] != "closed" || !c13Stable(f, keyTx) ||
		(op.method == "Store" && val != keyTx) {
		c13Gated(e, f, op.site.Node, op.site.Call.Pos(), op.method, keyTx, val, name)
		return
	}
	c.CheckTrivial("update-gated", name+"|helper", op.site.Call.Pos(), true, "helper: the transaction is parameter "+itoa(pi)+"; the obligation is decided at every call site")
	n := 0
	for _, ed := range e.la.CG.In[f] {
		if ed.Call == nil || ed.Caller.Pkg != f.Pkg || pi >= len(ed.Call.Args) {
			continue
		}
		q := ed.Caller
		qn := q.Graph().NodeContaining(ed.Call.Pos())
		arg := an.ObjOf(q.Info(), ed.Call.Args[pi])
		if qn == nil {
			c.Undecide("update-gated", name, "call site of the helper not found in the control-flow graph")
			continue
		}
		n++
		c13Gated(e, q, qn, ed.Call.Pos(), op.method, arg, arg, q.Name()+"|cache."+op.method+" via "+f.Name())
	}
	if n == 0 {
		c.Undecide("update-gated", name, "helper without call sites")
	}
}

// c13ParamIndex: index of obj among the parameters of f, or -1.
func c13ParamIndex(f *an.Func, obj types.Object) int {
	if obj == nil || f.Type == nil || f.Type.Params == nil {
		return -1
	}
	i := 0
	for _, fl := range f.Type.Params.List {
		for _, nm := range fl.Names {
			if f.Info().Defs[nm] == obj {
				return i
			}
			i++
		}
		if len(fl.Names) == 0 {
			i++
		}
	}
	return -1
}

// c13Gated decides update-gated and cache-key for one Store/Delete executed at
// vertex at of f on the transaction keyTx (val: the stored value).
func c13Gated(e *c13Env, f *an.Func, at *an.Node, pos token.Pos, method string, keyTx, val types.Object, name string) {
	c := e.c
	g := f.Graph()
	info := f.Info()
	if method == "Store" {
		ok, msg := false, "no call of txList.Put in this function"
		var putArg types.Object
		for _, ps := range g.CallsTo("mempool.(*txList).Put") {
			msg = "not dominated by the success edge of txList.Put"
			if g.Dominated(at, g.ErrNilEdges(ps)) {
				ok, msg = true, "the hash index and the counter are updated only after txList.Put returned without error"
				if len(ps.Call.Args) == 1 {
					putArg = an.ObjOf(info, ps.Call.Args[0])
				}
			}
		}
		c.Check("update-gated", name, pos, ok, msg)
		same := keyTx != nil && keyTx == val && val == putArg && c13Stable(f, val)
		c.Check("cache-key", name, pos, same, "the stored value, the key (ToTxID of its hash) and the transaction handed to txList.Put are the same, never reassigned, object")
		return
	}
	// Delete
	// (c) single removal: gated by the result of txList.RemoveTx
	for _, rs := range g.CallsTo("mempool.(*txList).RemoveTx") {
		removed := g.ResultVarAt(rs, 1)
		ok := false
		if removed != nil {
			gates := g.EdgesImplying(an.NilAtom(info, removed), map[string]bool{"nil": false})
			ok = len(gates) > 0 && g.Dominated(at, gates) && g.Dominated(at, an.SetOf(rs.Node))
		}
		c.Check("update-gated", name, pos, ok, "the hash index and the counter are updated only when txList.RemoveTx actually removed the transaction (result != nil); otherwise the transaction stays in its list but disappears from the index and the total")
		var arg types.Object
		if len(rs.Call.Args) == 1 {
			arg = an.ObjOf(info, rs.Call.Args[0])
		}
		c.Check("cache-key", name, pos, keyTx != nil && keyTx == arg && c13Stable(f, arg), "the deleted key is the id of the transaction handed to txList.RemoveTx")
		return
	}
	// (a)/(b) bulk removal: inside a loop over the transactions a list operation handed back
	rng := c13RangeOver(f, pos)
	if rng == nil {
		c.Check("update-gated", name, pos, false, "cache.Delete is neither gated by txList.RemoveTx nor inside a loop over removed transactions")
		return
	}
	src := an.ObjOf(info, rng.X)
	from := ""
	for _, cs := range g.CallsTo("mempool.(*txList).FilterByState") {
		if v := g.ResultVarAt(cs, 1); v != nil && v == src {
			from = "txList.FilterByState"
		}
	}
	for _, cs := range g.CallsTo("mempool.(*txList).GetAll") {
		if v := g.ResultVarAt(cs, 0); v != nil && v == src {
			from = "txList.GetAll"
			// draining a whole list: the list must be dropped from the pool in the same iteration
			lst := c13RecvObj(info, cs.Call)
			dropped := false
			for _, a := range e.acc {
				if a.Fn == f && a.Field == e.pool && a.How == "delete" {
					dn := g.NodeContaining(a.Pos)
					if c13Paired(g, cs.Node, dn) && c13DeleteKeyOf(f, dn, lst) {
						dropped = true
					}
				}
			}
			if !dropped {
				from = ""
			}
		}
	}
	ok := from != "" && src != nil && c13Stable(f, src)
	c.Check("update-gated", name, pos, ok, "cache.Delete/length-- run once per transaction of the slice returned by "+from+" (for GetAll: the drained list is deleted from the pool in the same iteration)")
	var cur types.Object
	if rng.Value != nil {
		cur = an.ObjOf(info, rng.Value)
	}
	c.Check("cache-key", name, pos, keyTx != nil && keyTx == cur, "the deleted key is the id of the loop's current transaction")
}

// c13Stable: obj is a parameter never assigned, or a local assigned once.
func c13Stable(f *an.Func, obj types.Object) bool {
	if obj == nil {
		return false
	}
	ex, _ := c13Defs(f, obj)
	top := f
	isParam := false
	for top != nil && top.Type != nil {
		for _, fl := range top.Type.Params.List {
			for _, nm := range fl.Names {
				if f.Info().Defs[nm] == obj {
					isParam = true
				}
			}
		}
		top = top.Parent
	}
	if isParam {
		return len(ex) == 0
	}
	return len(ex) == 1
}

func c13RecvObj(info *types.Info, call *ast.CallExpr) types.Object {
	if sel, ok := ast.Unparen(call.Fun).(*ast.SelectorExpr); ok {
		return an.RootObj(info, sel.X)
	}
	return nil
}

// c13DeleteKeyOf: the vertex is delete(mp.pool, K) where K is the key variable
// of the range over mp.pool whose value variable is lst.
func c13DeleteKeyOf(f *an.Func, dn *an.Node, lst types.Object) bool {
	if dn == nil || lst == nil {
		return false
	}
	info := f.Info()
	ok := false
	for _, call := range an.CallsIn(dn.Ast) {
		if !an.IsBuiltin(info, call, "delete") || len(call.Args) != 2 {
			continue
		}
		k := an.ObjOf(info, call.Args[1])
		rs := c13RangeOver(f, call.Pos())
		for rs != nil {
			if rs.Key != nil && rs.Value != nil && an.ObjOf(info, rs.Key) == k && k != nil && an.ObjOf(info, rs.Value) == lst {
				ok = true
			}
			break
		}
	}
	return ok
}

// ---------------------------------------------------------------------------
// orphan-pairing

func c13Orphan(e *c13Env, fns map[*an.Func]bool) {
	c, la := e.c, e.la
	for _, f := range la.Funcs {
		if !fns[f] || la.Status[f.TopDecl()] == "dead" {
			continue
		}
		g := f.Graph()
		info := f.Info()
		for _, a := range e.acc {
			if a.Fn != f || a.Field != e.orphan || !a.Write || a.How == "literal" {
				continue
			}
			n := g.NodeContaining(a.Pos)
			as, _ := n.Ast.(*ast.AssignStmt)
			name := f.Name() + "|orphan"
			if as == nil || len(as.Lhs) != 1 || len(as.Rhs) != 1 {
				c.Check("orphan-pairing", name, a.Pos, false, "orphan is changed by something else than a single assignment")
				continue
			}
			if a.How == "assign" {
				if !c13IsZero(info, as.Rhs[0]) {
					c.Check("orphan-pairing", name, a.Pos, false, "orphan is overwritten with a value other than the reset to 0")
				}
				continue // the reset is decided by counter-pairing
			}
			v := an.ObjOf(info, as.Rhs[0])
			if v == nil {
				c.Check("orphan-pairing", name, a.Pos, false, "orphan is adjusted by an expression that is not the delta variable of a list operation")
				continue
			}
			done := false
			for callee, row := range c13OrphanDelta {
				for _, cs := range g.CallsTo(callee) {
					if g.ResultVarAt(cs, 0) != v {
						continue
					}
					done = true
					ok := as.Tok == row.tok && c13Stable(f, v) && g.Dominated(n, an.SetOf(cs.Node))
					// the adjustment may be skipped only when the list operation failed
					gates := an.SetOf(n)
					for en := range g.ErrNilEdges(cs) {
						for _, sib := range en.Cond.Succs {
							if sib != en {
								gates[sib] = true
							}
						}
					}
					// ... or, for RemoveTx, removed nothing (second result nil: the delta is 0)
					if rv := g.ResultVarAt(cs, 1); rv != nil && callee == "mempool.(*txList).RemoveTx" {
						for en := range g.EdgesImplying(an.NilAtom(info, rv), map[string]bool{"nil": true}) {
							gates[en] = true
						}
					}
					ok = ok && g.PostDominated(cs.Node, gates) && !g.InLoop(n) == !g.InLoop(cs.Node)
					c.Check("orphan-pairing", name+"|"+callee, a.Pos, ok, "orphan "+row.tok.String()+" the delta returned by this very call, on every path on which the call succeeded ("+row.why+")")
				}
			}
			if done {
				continue
			}
			// whole-list eviction: orphan -= len(list.GetAll()) - list.Len()
			ok := false
			if d, _ := c13SingleDef(f, v).(*ast.BinaryExpr); d != nil && d.Op == token.SUB && as.Tok == token.SUB_ASSIGN {
				var all, ready types.Object
				if lc, ok := ast.Unparen(d.X).(*ast.CallExpr); ok && an.IsBuiltin(info, lc, "len") && len(lc.Args) == 1 {
					src := an.ObjOf(info, lc.Args[0])
					for _, cs := range g.CallsTo("mempool.(*txList).GetAll") {
						if g.ResultVarAt(cs, 0) == src && src != nil && c13Stable(f, src) {
							all = c13RecvObj(info, cs.Call)
						}
					}
				}
				if rc, ok := ast.Unparen(d.Y).(*ast.CallExpr); ok && an.CalleeName(info, rc) == "mempool.(*txList).Len" {
					ready = c13RecvObj(info, rc)
				}
				ok = all != nil && all == ready
				if ok {
					// and that list leaves the pool in the same iteration
					ok = false
					for _, pa := range e.acc {
						if pa.Fn == f && pa.Field == e.pool && pa.How == "delete" {
							dn := g.NodeContaining(pa.Pos)
							if c13Paired(g, n, dn) && c13DeleteKeyOf(f, dn, all) {
								ok = true
							}
						}
					}
				}
			}
			c.Check("orphan-pairing", name+"|evict", a.Pos, ok, "orphan -= len(list.GetAll()) - list.Len() of the very list that is deleted from the pool in the same iteration")
		}
	}
	// callee side: before-minus-after
	for callee, row := range c13OrphanDelta {
		f := c.Fn(callee)
		if f == nil {
			continue
		}
		if !row.shape {
			c.CheckTrivial("orphan-pairing", callee+"|delta-shape", f.Pos(), true, "exception: "+row.why)
			continue
		}
		ok, msg := c13DeltaShape(e, f)
		c.Check("orphan-pairing", callee+"|delta-shape", f.Pos(), ok, msg)
	}
	c.Floor("orphan-pairing", 6)
}

// c13OrphanCount: x is len(tl.list) - tl.ready.
func c13OrphanCount(e *c13Env, info *types.Info, x ast.Expr) bool {
	b, ok := ast.Unparen(x).(*ast.BinaryExpr)
	if !ok || b.Op != token.SUB {
		return false
	}
	lc, ok := ast.Unparen(b.X).(*ast.CallExpr)
	if !ok || !an.IsBuiltin(info, lc, "len") || len(lc.Args) != 1 {
		return false
	}
	return an.FieldOf(info, lc.Args[0]) == e.tlList && an.FieldOf(info, b.Y) == e.tlReady
}

// c13DeltaShape: every return of f after a change of list/ready returns
// old - new, where old = len(list)-ready taken before every change and new the
// same expression taken after every change; returns before any change return 0.
func c13DeltaShape(e *c13Env, f *an.Func) (bool, string) {
	g := f.Graph()
	info := f.Info()
	var muts []*an.Node
	for _, a := range e.acc {
		if a.Fn == f && a.Write && (a.Field == e.tlList || a.Field == e.tlReady) {
			muts = append(muts, g.NodeContaining(a.Pos))
		}
	}
	// ready is also changed by updateReady()
	for _, s := range g.CallsTo("mempool.(*txList).updateReady") {
		muts = append(muts, s.Node)
	}
	if len(muts) == 0 {
		return false, "no change of list/ready found"
	}
	nRet := 0
	for _, r := range g.Returns() {
		rs := r.Ast.(*ast.ReturnStmt)
		if len(rs.Results) == 0 {
			return false, "bare return"
		}
		after := false
		for _, m := range muts {
			if g.Reachable(m, r) {
				after = true
			}
		}
		x := ast.Unparen(rs.Results[0])
		if !after {
			if !c13IsZero(info, x) {
				return false, "a return that follows no change of the list reports a non-zero delta"
			}
			continue
		}
		nRet++
		b, ok := x.(*ast.BinaryExpr)
		if !ok || b.Op != token.SUB {
			return false, "the delta is not a difference"
		}
		oldV, newV := an.ObjOf(info, b.X), an.ObjOf(info, b.Y)
		if oldV == nil || newV == nil {
			return false, "the delta is not old - new of two locals"
		}
		oe, on := c13Defs(f, oldV)
		ne, nn := c13Defs(f, newV)
		if len(oe) != 1 || len(ne) != 1 || !c13OrphanCount(e, info, oe[0]) || !c13OrphanCount(e, info, ne[0]) {
			return false, "old/new are not each assigned once from len(list) - ready"
		}
		for _, m := range muts {
			if !g.Dominated(m, an.SetOf(on[0])) || g.Reachable(m, on[0]) {
				return false, "the 'before' orphan count is not taken before every change of list/ready"
			}
			if g.Reachable(nn[0], m) {
				return false, "the 'after' orphan count is taken before some change of list/ready"
			}
		}
		if !g.Dominated(r, an.SetOf(nn[0])) {
			return false, "the 'after' orphan count is not taken on every path to the return"
		}
	}
	if nRet == 0 {
		return false, "no return after the change"
	}
	return true, "returns (len(list)-ready before every change) - (len(list)-ready after every change); returns before any change report 0"
}

// ---------------------------------------------------------------------------
// pool-map

func c13PoolMap(e *c13Env, fns map[*an.Func]bool) {
	c, la := e.c, e.la
	for _, a := range e.acc {
		if a.Field != e.pool || !a.Write || a.Fn == nil || !fns[a.Fn] || la.Status[a.Fn.TopDecl()] == "dead" {
			continue
		}
		f := a.Fn
		g := f.Graph()
		info := f.Info()
		n := g.NodeContaining(a.Pos)
		name := f.Name() + "|pool." + a.How
		switch a.How {
		case "literal", "assign":
			// construction / reset (reset decided by counter-pairing)
		case "delete":
			ok, msg := false, ""
			for _, s := range g.CallsTo("mempool.(*txList).Empty") {
				if g.Dominated(n, g.BoolEdges(s, true)) {
					lst := c13RecvObj(info, s.Call)
					// the key is derived from the same list
					for _, call := range an.CallsIn(n.Ast) {
						if an.IsBuiltin(info, call, "delete") && len(call.Args) == 2 {
							if c13Mentions(info, c13Resolve(f, call.Args[1]), lst) {
								ok, msg = true, "a list leaves the pool only when list.Empty() is true, under the key derived from that list"
							}
						}
					}
				}
			}
			if !ok {
				for _, s := range g.CallsTo("mempool.(*txList).GetAll") {
					lst := c13RecvObj(info, s.Call)
					if c13Paired(g, s.Node, n) && c13DeleteKeyOf(f, n, lst) {
						// all its transactions are un-counted in the same iteration
						src := g.ResultVarAt(s, 0)
						for _, dp := range c13DeleteSites(e, f) {
							if rng := c13RangeOver(f, dp); rng != nil && src != nil && an.ObjOf(info, rng.X) == src {
								ok, msg = true, "a non-empty list leaves the pool only together with the un-counting of every transaction of list.GetAll() in the same iteration"
							}
						}
					}
				}
			}
			if !ok {
				msg = "a list is deleted from the pool although it may still hold transactions (neither guarded by list.Empty() nor drained through list.GetAll() in the same iteration)"
			}
			c.Check("pool-map", name, a.Pos, ok, msg)
		case "elem-assign":
			ok := false
			for _, s := range g.CallsTo("mempool.(*MemPool).getMemPoolList") {
				if v := g.ResultVarAt(s, 0); v != nil {
					gates := g.EdgesImplying(an.NilAtom(info, v), map[string]bool{"nil": true})
					if len(gates) > 0 && g.Dominated(n, gates) && c13Stable(f, v) {
						ok = true
					}
				}
			}
			c.Check("pool-map", name, a.Pos, ok, "a new list is stored in the pool only when the lookup of that account returned nil (an existing list is never replaced)")
		default:
			c.Check("pool-map", name, a.Pos, false, "unclassified write of the pool map")
		}
	}
	c.Floor("pool-map", 3)
}

// c13Mentions: expression x refers to object obj.
func c13Mentions(info *types.Info, x ast.Expr, obj types.Object) bool {
	if obj == nil || x == nil {
		return false
	}
	found := false
	ast.Inspect(x, func(n ast.Node) bool {
		if id, ok := n.(*ast.Ident); ok && info.Uses[id] == obj {
			found = true
		}
		return true
	})
	return found
}

// c13DeleteSites: positions in f where an entry is deleted from the hash
// index: cache.Delete itself or the call of a same-package helper that does it.
func c13DeleteSites(e *c13Env, f *an.Func) []token.Pos { return c13OpSites(e, f, "Delete") }

// c13OpSites: the same for any sync.Map method of the hash index.
func c13OpSites(e *c13Env, f *an.Func, method string) []token.Pos {
	var out []token.Pos
	for _, op := range c13CacheOps(e, f) {
		if op.method == method {
			out = append(out, op.site.Call.Pos())
		}
	}
	for _, s := range f.Graph().Calls(nil) {
		h := e.p.FuncOf(s.Fn)
		if h == nil || h.Pkg != f.Pkg || h.Body == nil || h == f {
			continue
		}
		for _, op := range c13CacheOps(e, h) {
			if op.method == method {
				out = append(out, s.Call.Pos())
			}
		}
	}
	return out
}

// c13ListOpsCounted: the converse of update-gated: every change of a list made
// through txList.Put / RemoveTx / FilterByState is followed by the matching
// change of the hash index (and, by counter-pairing, of the counter).
func c13ListOpsCounted(e *c13Env) {
	c, la := e.c, e.la
	for _, f := range la.Funcs {
		if la.Status[f.TopDecl()] == "dead" {
			continue
		}
		g := f.Graph()
		info := f.Info()
		nodesOf := func(method string) an.Set {
			out := an.Set{}
			for _, p := range c13OpSites(e, f, method) {
				if n := g.NodeContaining(p); n != nil {
					out[n] = true
				}
			}
			return out
		}
		for _, ps := range g.CallsTo("mempool.(*txList).Put") {
			gates := nodesOf("Store")
			n := len(gates)
			for en := range g.ErrNilEdges(ps) {
				for _, sib := range en.Cond.Succs {
					if sib != en {
						gates[sib] = true
					}
				}
			}
			c.Check("list-op-counted", f.Name()+"|txList.Put", ps.Call.Pos(), n > 0 && g.PostDominated(ps.Node, gates), "every path on which txList.Put succeeded stores the transaction in the hash index before the function returns")
		}
		for _, rs := range g.CallsTo("mempool.(*txList).RemoveTx") {
			gates := nodesOf("Delete")
			n := len(gates)
			if rv := g.ResultVarAt(rs, 1); rv != nil {
				for en := range g.EdgesImplying(an.NilAtom(info, rv), map[string]bool{"nil": true}) {
					gates[en] = true
				}
			}
			c.Check("list-op-counted", f.Name()+"|txList.RemoveTx", rs.Call.Pos(), n > 0 && g.PostDominated(rs.Node, gates), "every path on which txList.RemoveTx removed the transaction deletes it from the hash index before the function returns")
		}
		for _, fs := range g.CallsTo("mempool.(*txList).FilterByState") {
			ok := false
			if rv := g.ResultVarAt(fs, 1); rv != nil && c13Stable(f, rv) {
				for _, dp := range c13OpSites(e, f, "Delete") {
					if rng := c13RangeOver(f, dp); rng != nil && an.ObjOf(info, rng.X) == rv {
						if xn := g.NodeOf(rng.X); xn != nil && g.PostDominated(fs.Node, an.SetOf(xn)) && c13EveryIteration(g, rng, an.SetOf(g.NodeContaining(dp)), an.Set{}) {
							ok = true
						}
					}
				}
			}
			c.Check("list-op-counted", f.Name()+"|txList.FilterByState", fs.Call.Pos(), ok, "the transactions FilterByState hands back are all deleted from the hash index: the loop over them is always reached and every iteration performs the delete")
		}
	}
	c.Floor("list-op-counted", 3)
}
