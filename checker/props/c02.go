package props

import (
	"go/ast"
	"go/token"
	"go/types"
	"sort"
	"strings"

	"verif/checker/internal/an"
	"verif/checker/internal/rep"
)

// C02 — deterministic execution: same block + same prior state => same roots.
//
// Decided clauses: (a) inside the functions reachable from the block execution
// entry points no wall-clock, unseeded randomness, environment or goroutine
// count reaches state (complete enumeration, every site triaged); (b) every
// `range` over a map there has an order-insensitive body or a sort before use
// (recognised shapes, else triaged); (c) sort comparators on consensus data are
// total orders; (d) producer and validator share the executor and the
// post-transaction sequence; (e) the validator compares both roots.

func init() { register("C02", runC02) }

// execution roots (FuncName)
var c02Roots = []string{
	"chain.executeTx",
	"chain.(*blockExecutor).execute",
	"chain.(*blockExecutor).commit",
	"chain.executeGovernanceTx",
	"chain.sendRewardCoinbase",
	"consensus/chain.(*BlockGenerator).GatherTXs",
	"consensus/impl/dpos.sendVotingReward",
	"state.(*BlockState).Snapshot",
	"state.(*BlockState).Rollback",
	"state.(*BlockState).AddReceipt",
	"state/statedb.(*StateDB).Update",
	"state/statedb.(*StateDB).Commit",
	"state/statedb.(*StateDB).PutState",
	"contract.Execute",
	"contract.SaveRecoveryPoint",
	"contract/system.ExecuteSystemTx",
	"contract/name.ExecuteNameTx",
	"contract/enterprise.ExecuteEnterpriseTx",
	"contract/system.PickVotingRewardWinner",
	"pkg/trie.(*Trie).Update",
	"types.(*Receipts).MerkleRoot",
	"types.CalculateTxsRootHash",
	"chain.(*BlockValidator).ValidatePost",
}

// packages whose functions belong to block execution; edges leaving this set
// (networking, actors, rpc, pool, logging) are not followed.
var c02ExecPkgs = map[string]bool{
	"chain": true, "contract": true, "contract/system": true, "contract/name": true, "contract/enterprise": true,
	"state": true, "state/statedb": true, "pkg/trie": true, "types": true, "types/dbkey": true, "fee": true,
	"consensus/chain": true, "consensus/impl/dpos": true, "internal/merkle": true, "internal/common": true,
	"internal/enc/proto": true, "internal/enc/base58": true, "internal/enc/hex": true, "internal/enc/gob": true,
	"contract/util": true, "blacklist": true, "config": true,
}

// nondeterministic primitives
var c02Nondet = map[string]string{
	"time.Now": "wall clock", "time.Since": "wall clock", "time.Until": "wall clock", "time.After": "timer", "time.NewTimer": "timer", "time.Tick": "timer",
	"math/rand.Int": "global PRNG", "math/rand.Intn": "global PRNG", "math/rand.Int31": "global PRNG", "math/rand.Int31n": "global PRNG",
	"math/rand.Int63": "global PRNG", "math/rand.Int63n": "global PRNG", "math/rand.Uint32": "global PRNG", "math/rand.Uint64": "global PRNG",
	"math/rand.Float64": "global PRNG", "math/rand.Float32": "global PRNG", "math/rand.Perm": "global PRNG", "math/rand.Shuffle": "global PRNG", "math/rand.Read": "global PRNG",
	"math/rand.Seed":  "global PRNG seed",
	"crypto/rand.Read": "OS randomness", "crypto/rand.Int": "OS randomness", "crypto/rand.Prime": "OS randomness",
	"os.Getenv": "environment", "os.LookupEnv": "environment", "os.Hostname": "environment", "os.Getpid": "environment",
	"runtime.NumCPU": "host", "runtime.NumGoroutine": "scheduler", "runtime.GOMAXPROCS": "host",
}

func runC02(c *rep.Ctx) {
	c.Explain = "Decides structural necessary conditions of deterministic block execution: a complete enumeration, over the functions reachable from the block-execution entry points inside the execution packages, of wall-clock / randomness / environment calls and of map iterations, each of which must be of a recognised order-insensitive shape (writes keyed by the loop key, delete, commutative accumulation, collect-then-sort) or be a triaged table row; total-order comparators for the sorts that feed consensus data; producer and validator use the same transaction executor and the same post-transaction sequence; the validator compares state root and receipts root with the header and fails on mismatch. It does not decide equality of roots between two executions."
	c.NotDecided = []string{"equality of roots between two executions", "goroutine-order effects inside trie.update beyond placement by position", "Lua VM determinism", "float/locale effects in C code"}
	c.Assume = []string{"reachability is computed on an AST-level call graph (static calls, CHA for interface calls, function-valued fields) restricted to the execution packages; calls through C are not edges"}
	cg := c.Prog.BuildCallGraphCached()
	var roots []*an.Func
	for _, r := range c02Roots {
		if f := c.Fn(r); f != nil {
			roots = append(roots, f)
		}
	}
	reach := cg.ReachableFrom(roots, func(e an.Edge) bool {
		return e.Callee != nil && c02ExecPkgs[an.Rel(e.Callee.Pkg.PkgPath)] && !c01OffNodePkg(e.Callee)
	})
	c.Note("%d functions/literals reachable from %d execution roots inside %d execution packages", len(reach), len(roots), len(c02ExecPkgs))
	if len(reach) < 300 {
		c.Undecide("reach", "execution roots", "implausibly small reachable set")
	}
	var fl []*an.Func
	for f := range reach {
		if f.Body != nil {
			fl = append(fl, f)
		}
	}
	sort.Slice(fl, func(i, j int) bool { return fl[i].Pos() < fl[j].Pos() })
	c02NondetCalls(c, fl)
	c02MapRanges(c, fl)
	c02Comparators(c)
	c02Siblings(c)
	c02RootValidation(c)
}

// triage table for nondeterministic calls: enclosing function|callee -> reason.
// Independently of the table, the value must flow only into logging (checked).
var c02NondetOK = map[string]string{
	"contract.Call|time.Now":   "start of the VM execution-time metric; flows only into vmLogger.Trace",
	"contract.Call|time.Now#2": "end of the VM execution-time metric; flows only into vmLogger.Trace",
}

// c02FlowsOnlyToLog: the value of call ends in logger chains only.  The value
// is followed upwards through value-preserving contexts (parentheses,
// arithmetic, conversions, methods and functions of package time, effect-free
// formatting helpers) until it is
//   - an argument of a logger-chain method of a statement that is a logger
//     chain (lgr.Trace().Dur("t", time.Since(t0)).Msg("..")): fine;
//   - stored into a function-local variable: every read of that variable in the
//     enclosing top-level function — INCLUDING reads inside nested function
//     literals, e.g. a deferred closure that logs time.Since(t0) — must end the
//     same way (depth 4);
//   - anything else (a condition, a return value, an argument of another call,
//     a field, a global, a composite literal, its address): not only logged.
// The walk is on the syntax tree of the top-level declaration, so the answer
// is the same whether f is that declaration or one of its literals.
func c02FlowsOnlyToLog(f *an.Func, call *ast.CallExpr) bool {
	top := f.TopDecl()
	if top == nil || top.Body == nil {
		return false
	}
	info := f.Info()
	parent := map[ast.Node]ast.Node{}
	var stack []ast.Node
	ast.Inspect(top.Body, func(n ast.Node) bool {
		if n == nil {
			stack = stack[:len(stack)-1]
			return true
		}
		if len(stack) > 0 {
			parent[n] = stack[len(stack)-1]
		}
		stack = append(stack, n)
		return true
	})
	if parent[call] == nil {
		return false
	}
	isLogPkg := func(fn *types.Func) bool {
		return fn != nil && fn.Pkg() != nil && (strings.Contains(fn.Pkg().Path(), "zerolog") || strings.Contains(fn.Pkg().Path(), "aergo-lib/log"))
	}
	passThrough := func(fn *types.Func) bool {
		return fn != nil && fn.Pkg() != nil && (fn.Pkg().Path() == "time" || c02GapNeutralCallee(fn))
	}
	// inLogChain: x is a call of a logger-chain method; the statement it belongs
	// to is a logger chain ending in Msg/Msgf/Send.
	inLogChain := func(x ast.Node) bool {
		cur := x
		for {
			switch p := parent[cur].(type) {
			case *ast.SelectorExpr:
				if p.X != cur {
					return false
				}
				cur = p
			case *ast.CallExpr:
				if p.Fun != cur || !isLogPkg(an.Callee(info, p)) {
					return false
				}
				cur = p
			case *ast.ParenExpr:
				cur = p
			case *ast.ExprStmt:
				c, ok := ast.Unparen(p.X).(*ast.CallExpr)
				return ok && c02IsLogChain(info, c)
			default:
				return false
			}
		}
	}
	var okUse func(n ast.Node, depth int) bool
	okLocal := func(l ast.Expr, depth int) bool {
		id, ok := ast.Unparen(l).(*ast.Ident)
		if !ok {
			return false // stored into a field / element
		}
		if id.Name == "_" {
			return true
		}
		o := info.Defs[id]
		if o == nil {
			o = info.Uses[id]
		}
		v, isVar := o.(*types.Var)
		if !isVar || v.IsField() || v.Pkg() == nil || v.Parent() == nil || v.Parent() == v.Pkg().Scope() {
			return false // global
		}
		good := true
		ast.Inspect(top.Body, func(m ast.Node) bool {
			if u, isID := m.(*ast.Ident); isID && u != id && info.Uses[u] == o && good {
				if !okUse(u, depth+1) {
					good = false
				}
			}
			return good
		})
		return good
	}
	okUse = func(n ast.Node, depth int) bool {
		if depth > 4 {
			return false
		}
		cur := n
		for {
			switch p := parent[cur].(type) {
			case *ast.ParenExpr:
				cur = p
			case *ast.BinaryExpr:
				cur = p
			case *ast.UnaryExpr:
				if p.Op == token.AND || p.Op == token.ARROW {
					return false
				}
				cur = p
			case *ast.SelectorExpr:
				if p.X != cur {
					return false
				}
				cur = p // method value / field of the value
			case *ast.CallExpr:
				if tv, has := info.Types[p.Fun]; has && tv.IsType() {
					cur = p // conversion
					continue
				}
				fn := an.Callee(info, p)
				if p.Fun == cur {
					// a method called on the value
					if !passThrough(fn) {
						return false
					}
					cur = p
					continue
				}
				// the value is an argument
				if isLogPkg(fn) {
					return inLogChain(p)
				}
				if !passThrough(fn) {
					return false
				}
				cur = p
			case *ast.AssignStmt:
				for _, l := range p.Lhs {
					if l == cur {
						return true // the variable is overwritten here: not a read
					}
				}
				if p.Tok != token.ASSIGN && p.Tok != token.DEFINE {
					// x += v : flows into x
					return len(p.Lhs) == 1 && okLocal(p.Lhs[0], depth)
				}
				if len(p.Lhs) == len(p.Rhs) {
					for i, r := range p.Rhs {
						if r == cur {
							return okLocal(p.Lhs[i], depth)
						}
					}
					return false
				}
				for _, l := range p.Lhs {
					if !okLocal(l, depth) {
						return false
					}
				}
				return true
			case *ast.ValueSpec:
				for _, nm := range p.Names {
					if ast.Node(nm) == cur {
						return true
					}
				}
				if len(p.Names) == len(p.Values) {
					for i, r := range p.Values {
						if r == cur {
							return okLocal(p.Names[i], depth)
						}
					}
					return false
				}
				for _, nm := range p.Names {
					if !okLocal(nm, depth) {
						return false
					}
				}
				return true
			default:
				return false
			}
		}
	}
	return okUse(call, 0)
}

func c02NondetCalls(c *rep.Ctx, fl []*an.Func) {
	seenKey := map[string]int{}
	n := 0
	for _, f := range fl {
		info := f.Info()
		an.InspectShallow(f.Body, func(m ast.Node) bool {
			call, ok := m.(*ast.CallExpr)
			if !ok {
				return true
			}
			fn := an.Callee(info, call)
			if fn == nil {
				return true
			}
			name := an.FuncName(fn)
			kind, bad := c02Nondet[name]
			if !bad {
				return true
			}
			n++
			key := f.TopDecl().Name() + "|" + name
			seenKey[key]++
			tkey := key
			if seenKey[key] > 1 {
				tkey = key + "#" + itoa(seenKey[key])
			}
			// The clause is decided by the flow: the value ends in logger chains
			// only (also through locals read by deferred closures).  A row of the
			// table documents why a known call is there; it does not replace the
			// flow check, and a call without a row that is only logged (an added
			// timing metric) is not a violation — the same decision exec-primitives
			// (c02_gap.go) takes for the VM callbacks.
			reason, listed := c02NondetOK[tkey]
			flowOK := c02FlowsOnlyToLog(f, call)
			switch {
			case flowOK && !listed:
				reason = "the value ends in logger chains only"
			case !flowOK && listed:
				reason += " [the value now flows somewhere other than a logger]"
			case !flowOK:
				reason = "the value flows somewhere other than a logger"
			}
			c.Check("nondet-call", key, call.Pos(), flowOK, kind+" call reachable from block execution must not influence state, receipts or roots: "+reason)
			return true
		})
	}
	c.Note("%d nondeterministic primitive calls found in the reachable set", n)
}

// triage table for map ranges whose body is not of a recognised shape: the
// reason it is order-insensitive, and the resolved callees its body may
// contain (a new callee in the body re-opens the triage).
type c02Row struct {
	reason  string
	callees []string
}

var c02MapRangeOK = map[string]c02Row{
	"state/statedb.(*StateDB).updateStorage|range states.Cache.storages": {
		"one storage trie per contract: each iteration updates its own trie and puts one account entry under its own key; entries of different keys commute (export sorts by key, stage is content addressed); an error aborts the whole block",
		[]string{"state/statedb.(*bufferedStorage).update", "state/statedb.(*bufferedStorage).isDirty", "state/statedb.(*StateDB).getState", "state/statedb.(*stateBuffer).put", "state/statedb.(*stateBuffer).rollback", "state/statedb.newValueEntry"}},
	"state/statedb.(*StateDB).Commit|range states.Cache.storages": {
		"each storage stages its own content-addressed nodes into the bulk; an error discards the bulk",
		[]string{"state/statedb.(*bufferedStorage).stage", "github.com/aergoio/aergo-lib/db.(Bulk).DiscardLast"}},
	"contract/system.(*vpr).apply|range v.changes": {
		"per-voter delta: the voter table is keyed by id, buckets are kept ordered by account id only (vprStore.cmp), the total is a commutative sum; `lowest` depends on order only among equal powers and is read only by equals() (diagnostic)",
		[]string{"contract/system.(*deltaVP).cmp", "contract/system.(*topVoters).addVotingPower", "contract/system.(*vprStore).update", "contract/system.(*vpr).updateLowest", "contract/system.(*vpr).addTotal", "contract/system.(*deltaVP).getAmount"}},
	"contract.CloseDatabase|range database.DBs": {
		"per-database rollback/close of SQL handles, no chain state involved",
		[]string{"contract.(*litetree).close", "contract.(sqlTx).rollback"}},
	"contract.SaveRecoveryPoint|range database.DBs": {
		"one SQL database per contract account: each iteration commits its own handle and puts the recovery point into its own account entry",
		[]string{"contract.(sqlTx).commit", "contract.(*litetree).recoveryPoint", "state/statedb.(*StateDB).GetAccountState", "state/statedb.(*StateDB).PutState", "types.(*State).GetSqlRecoveryPoint", "types.ToAccountID", "types.(*State).Clone"}},
	"contract.(*executor).commitCalledContract|range ctx.callState": {
		"one call state per account: storage is staged under the account id and the account entry is put under its own key",
		[]string{"contract.(sqlTx).release", "state/statedb.StageContractState", "state.(*AccountState).PutState", "contract.newVmError", "contract.newDbSystemError"}},
	"contract.(*executor).commitCalledContract|range ctx.callState#2": {
		"trace file output only (diagnostic, ctx.traceFile != nil)",
		[]string{"os.(*File).WriteString", "fmt.Sprintf", "types.(AccountID).String", "state.(*AccountState).Nonce", "state.(*AccountState).Balance", "math/big.(*Int).String"}},
	"contract.(*executor).rollbackToSavepoint|range ctx.callState": {
		"per-account SQL savepoint rollback and in-memory code cache removal",
		[]string{"state.(*AccountState).CodeHash", "state.(*BlockState).RemoveCache", "contract.(sqlTx).rollbackToSavepoint", "contract.(sqlTx).begin", "strings.HasPrefix", "contract.newVmError", ".(error).Error"}},
}

func c02MapRanges(c *rep.Ctx, fl []*an.Func) {
	n := 0
	for _, f := range fl {
		info := f.Info()
		an.InspectShallow(f.Body, func(m ast.Node) bool {
			rs, ok := m.(*ast.RangeStmt)
			if !ok {
				return true
			}
			tv, has := info.Types[rs.X]
			if !has || tv.Type == nil {
				return true
			}
			if _, isMap := tv.Type.Underlying().(*types.Map); !isMap {
				return true
			}
			n++
			shape, okShape := c02RangeShape(f, rs)
			key := f.TopDecl().Name() + "|range " + an.ExprString(rs.X)
			if okShape {
				c.Check("map-range", key, rs.Pos(), true, "map iteration with an order-insensitive body: "+shape)
				return true
			}
			row, ok := c02MapRangeOK[c02RangeKey(c, key)]
			callees := c02BodyCallees(f, rs)
			extra := ""
			if ok {
				allowed := map[string]bool{}
				for _, a := range row.callees {
					allowed[a] = true
				}
				for _, cn := range callees {
					if !allowed[cn] {
						ok = false
						extra = " [body now calls " + cn + ", which is not in the triaged callee set]"
					}
				}
			} else {
				extra = " [body callees: " + strings.Join(callees, ", ") + "]"
			}
			c.Check("map-range", key, rs.Pos(), ok, "iteration over a map reachable from block execution whose body is not of a recognised order-insensitive shape ("+shape+"): "+row.reason+extra)
			return true
		})
	}
	c.Note("%d map iterations found in the reachable set", n)
}

// c02RangeShape classifies the body of a map range.
func c02RangeShape(f *an.Func, rs *ast.RangeStmt) (string, bool) {
	info := f.Info()
	keyObj := an.ObjOf(info, rs.Key)
	var valObj types.Object
	if rs.Value != nil {
		valObj = an.ObjOf(info, rs.Value)
	}
	_ = valObj
	if len(rs.Body.List) == 0 {
		return "empty body", true
	}
	// collect-then-sort: every statement appends to a slice that is sorted after the loop before any other use
	var appended []types.Object
	allInsensitive := true
	why := ""
	var check func(stmts []ast.Stmt)
	check = func(stmts []ast.Stmt) {
		for _, st := range stmts {
			switch s := st.(type) {
			case *ast.AssignStmt:
				for i, l := range s.Lhs {
					// m2[k] = v : write keyed by the loop key (or by something derived from it)
					if ix, ok := ast.Unparen(l).(*ast.IndexExpr); ok {
						if t, has := info.Types[ix.X]; has {
							if _, isMap := t.Type.Underlying().(*types.Map); isMap {
								continue
							}
						}
						allInsensitive, why = false, "indexed write into a non-map"
						continue
					}
					// x = append(x, ...)
					if i < len(s.Rhs) {
						if call, ok := ast.Unparen(s.Rhs[i]).(*ast.CallExpr); ok && an.IsBuiltin(info, call, "append") {
							if o := an.ObjOf(info, l); o != nil {
								appended = append(appended, o)
								continue
							}
							// x.f = append(x.f, ...) on a local struct
							if sel, ok := ast.Unparen(l).(*ast.SelectorExpr); ok {
								if o := an.ObjOf(info, sel.X); o != nil && o.Parent() != nil && o.Parent() != o.Pkg().Scope() {
									appended = append(appended, o)
									continue
								}
							}
						}
					}
					// local definitions inside the body, blank identifier
					if s.Tok == token.DEFINE {
						continue
					}
					if id, ok := ast.Unparen(l).(*ast.Ident); ok && id.Name == "_" {
						continue
					}
					// field of a variable declared inside the loop body
					if sel, ok := ast.Unparen(l).(*ast.SelectorExpr); ok {
						if o := an.ObjOf(info, sel.X); o != nil && o.Pos() >= rs.Body.Pos() && o.Pos() < rs.Body.End() {
							continue
						}
					}
					// commutative integer accumulation:  n += x / n -= x / n |= x
					if s.Tok == token.ADD_ASSIGN || s.Tok == token.OR_ASSIGN || s.Tok == token.AND_ASSIGN || s.Tok == token.XOR_ASSIGN {
						if t, has := info.Types[l]; has {
							if b, isB := t.Type.Underlying().(*types.Basic); isB && b.Info()&types.IsInteger != 0 {
								continue
							}
						}
					}
					// assignment to a variable declared inside the loop body
					if o := an.ObjOf(info, l); o != nil && o.Pos() >= rs.Body.Pos() && o.Pos() < rs.Body.End() {
						continue
					}
					allInsensitive, why = false, "assignment to "+an.ExprString(l)
				}
			case *ast.IncDecStmt:
				continue
			case *ast.ExprStmt:
				call, ok := s.X.(*ast.CallExpr)
				if !ok {
					allInsensitive, why = false, "expression statement"
					continue
				}
				if an.IsBuiltin(info, call, "delete") {
					continue
				}
				name := an.CalleeName(info, call)
				switch {
				case strings.HasPrefix(name, "github.com/rs/zerolog") || strings.HasPrefix(name, "github.com/aergoio/aergo-lib/log"):
					continue
				case name == "math/big.(*Int).Add":
					continue // commutative accumulation
				}
				if c02IsLogChain(info, call) {
					continue
				}
				// keyed store write:  tx.Set(key, value)  with a key derived from the loop variables
				if fn := an.Callee(info, call); fn != nil && fn.Name() == "Set" && len(call.Args) == 2 && c02IsDbWriter(fn) {
					if c02LoopDerived(info, rs, call.Args[0]) {
						continue
					}
				}
				allInsensitive, why = false, "call "+name
			case *ast.IfStmt:
				if s.Init != nil {
					check([]ast.Stmt{s.Init})
				}
				check(s.Body.List)
				if s.Else != nil {
					switch e := s.Else.(type) {
					case *ast.BlockStmt:
						check(e.List)
					case *ast.IfStmt:
						check([]ast.Stmt{e})
					}
				}
			case *ast.BranchStmt:
				if s.Tok == token.CONTINUE {
					continue
				}
				allInsensitive, why = false, "break (result depends on which element is met first)"
			case *ast.ReturnStmt:
				// early exit only on error: all results except a trailing non-nil error are zero values
				okRet := len(s.Results) > 0
				if okRet {
					last := s.Results[len(s.Results)-1]
					if tv, has := info.Types[last]; !has || tv.IsNil() {
						okRet = false
					}
				}
				if !okRet {
					allInsensitive, why = false, "return inside the loop"
				}
			case *ast.DeclStmt:
				continue
			case *ast.BlockStmt:
				check(s.List)
			default:
				allInsensitive, why = false, "unsupported statement"
			}
		}
	}
	check(rs.Body.List)
	if !allInsensitive {
		return why, false
	}
	if len(appended) == 0 {
		return "writes keyed by the loop key / delete / commutative accumulation / error exit only", true
	}
	// every appended slice must be sorted after the loop before another use
	g := f.Graph()
	for _, o := range appended {
		if !c02SortedAfter(f, g, rs, o) {
			// appending only the key of a map whose slice is then ... not sorted
			return "appends to " + o.Name() + " which is not sorted before use", false
		}
	}
	_ = keyObj
	return "collects into a slice that is sorted before any other use", true
}

// c02IsDbWriter: Set of a key-value transaction / bulk / trie DbTx interface.
func c02IsDbWriter(fn *types.Func) bool {
	switch an.FuncName(fn) {
	case "github.com/aergoio/aergo-lib/db.(Transaction).Set", "github.com/aergoio/aergo-lib/db.(Bulk).Set", "pkg/trie.(DbTx).Set":
		return true
	}
	return false
}

// c02LoopDerived: e mentions the range key/value or a variable defined inside the loop body.
func c02LoopDerived(info *types.Info, rs *ast.RangeStmt, e ast.Expr) bool {
	derived := false
	ast.Inspect(e, func(n ast.Node) bool {
		id, ok := n.(*ast.Ident)
		if !ok {
			return true
		}
		o := info.Uses[id]
		if o == nil {
			return true
		}
		if o.Pos() >= rs.Pos() && o.Pos() < rs.End() {
			derived = true
		}
		return true
	})
	return derived
}

func c02IsLogChain(info *types.Info, call *ast.CallExpr) bool {
	sel, ok := ast.Unparen(call.Fun).(*ast.SelectorExpr)
	if !ok {
		return false
	}
	if sel.Sel.Name != "Msg" && sel.Sel.Name != "Msgf" && sel.Sel.Name != "Send" {
		return false
	}
	fn := an.Callee(info, call)
	return fn != nil && fn.Pkg() != nil && (strings.Contains(fn.Pkg().Path(), "zerolog") || strings.Contains(fn.Pkg().Path(), "aergo-lib/log"))
}

// c02SortedAfter: after the range statement, the first use of obj on every
// path is as an argument of sort.Slice/Sort/Strings/Stable/SliceStable.
func c02SortedAfter(f *an.Func, g *an.Graph, rs *ast.RangeStmt, obj types.Object) bool {
	info := f.Info()
	isSort := func(n *an.Node) bool {
		for _, call := range an.CallsIn(n.Ast) {
			switch an.CalleeName(info, call) {
			case "sort.Slice", "sort.SliceStable", "sort.Sort", "sort.Stable", "sort.Strings", "sort.Ints":
				for _, a := range call.Args {
					if mentions(info, a, obj) {
						return true
					}
				}
			}
		}
		return false
	}
	sorts := an.Set{}
	uses := []*an.Node{}
	for _, n := range g.Nodes {
		if n.Kind != an.KStmt || n.Ast.Pos() < rs.End() {
			continue
		}
		if isSort(n) {
			sorts[n] = true
		} else if mentions(info, n.Ast, obj) {
			uses = append(uses, n)
		}
	}
	if len(sorts) == 0 {
		return false
	}
	for _, u := range uses {
		if !g.Dominated(u, sorts) {
			return false
		}
	}
	return true
}

// c02RangeKey appends the ordinal the reporter will give to a repeated key.
func c02RangeKey(c *rep.Ctx, key string) string {
	n := 0
	for _, o := range c.Obs {
		if o.Key == "map-range|"+key || strings.HasPrefix(o.Key, "map-range|"+key+"#") {
			n++
		}
	}
	if n == 0 {
		return key
	}
	return key + "#" + itoa(n+1)
}

// c02BodyCallees lists the resolved callees in a range body (logging excluded).
func c02BodyCallees(f *an.Func, rs *ast.RangeStmt) []string {
	info := f.Info()
	seen := map[string]bool{}
	ast.Inspect(rs.Body, func(n ast.Node) bool {
		call, ok := n.(*ast.CallExpr)
		if !ok {
			return true
		}
		fn := an.Callee(info, call)
		if fn == nil {
			return true
		}
		if fn.Pkg() != nil && (strings.Contains(fn.Pkg().Path(), "zerolog") || strings.Contains(fn.Pkg().Path(), "aergo-lib/log")) {
			return true
		}
		seen[an.FuncName(fn)] = true
		return true
	})
	var out []string
	for k := range seen {
		out = append(out, k)
	}
	sort.Strings(out)
	return out
}

// c02Comparators: the comparators that order consensus data are total orders
// on distinct elements: they consult a unique secondary key when the primary
// keys tie (or compare the unique key only).
func c02Comparators(c *rep.Ctx) {
	p := c.Prog
	// the vote ranking comparator: decided by the rank-total rule shared with C15
	// (primary comparison of the whole amounts of elements i and j, strict
	// tie-break on the whole candidate of i versus j; the sliced peer-id
	// tie-break is the known finding D1 recorded under C15)
	(&c15Env{c: c, p: p, sys: p.Pkg("contract/system"), nm: p.Pkg("contract/name")}).rankLess()
	// voting-power rank tree: power, then id
	if f := c.Fn("contract/system.newTopVoters$1"); f != nil {
		info := f.Info()
		ok := containsCallTo(info, f.Body, "contract/system.(*votingPower).getPower") && containsCallTo(info, f.Body, "contract/system.(*votingPower).idBytes")
		c.Check("comparator", "contract/system.newTopVoters$1|tie-break", f.Pos(), ok, "the voting-power rank tree compares by power and breaks ties by account id")
	}
	if f := c.Fn("contract/system.newVprStore$1"); f != nil {
		info := f.Info()
		ok := containsCallTo(info, f.Body, "contract/system.(*votingPower).idBytes") && !containsCallTo(info, f.Body, "contract/system.(*votingPower).getPower")
		c.Check("comparator", "contract/system.newVprStore$1|by-id", f.Pos(), ok, "voting-power buckets are ordered by account id only, so bucket contents do not depend on insertion order")
	}
	// buildVoteList sorts with that comparator
	if f := c.Fn("contract/system.(*VoteResult).buildVoteList"); f != nil {
		s := f.Graph().CallsTo("sort.Sort", "sort.Stable")
		c.Check("comparator", "contract/system.(*VoteResult).buildVoteList|sorted", posOf(s), len(s) == 1, "the vote list built from the tally map is sorted before it is returned")
	}
}

// c02Siblings: producer and validator run the same executor and sequence.
func c02Siblings(c *rep.Ctx) {
	p := c.Prog
	reward := p.LookupObjVar("chain", "SendBlockReward")
	for _, name := range []string{"chain.(*blockExecutor).execute", "consensus/chain.(*BlockGenerator).GatherTXs"} {
		f := c.Fn(name)
		if f == nil {
			continue
		}
		g := f.Graph()
		rw := funcValueCalls(f, reward)
		save := sitesOf(f, "contract.SaveRecoveryPoint")
		upd := sitesOf(f, "state/statedb.(*StateDB).Update", "state.(*BlockState).Update")
		ok := len(rw) == 1 && len(save) == 1 && len(upd) == 1
		if ok {
			ok = g.Dominated(save[0].Node, g.ErrNilEdges(rw[0])) && len(g.ErrNilEdges(rw[0])) > 0 &&
				g.Dominated(upd[0].Node, g.ErrNilEdges(save[0])) && len(g.ErrNilEdges(save[0])) > 0
		}
		c.Check("sibling-sequence", name, posOf(rw), ok, "after the transactions: block reward, then SQL recovery points, then the state update, each only after the previous step succeeded (same order in producer and validator)")
	}
	// every value of type chain.TxExecFn is produced by chain.NewTxExecutor
	tn, _ := p.LookupObj("chain", "TxExecFn").(*types.TypeName)
	if tn == nil {
		c.Undecide("shared-executor", "chain.TxExecFn", "type not found")
		return
	}
	execT := tn.Type()
	nCalls := 0
	for _, pk := range p.ModulePkgs() {
		info := pk.TypesInfo
		if info == nil {
			continue
		}
		for _, file := range pk.Syntax {
			ast.Inspect(file, func(n ast.Node) bool {
				e, ok := n.(ast.Expr)
				if !ok {
					return true
				}
				tv, has := info.Types[e]
				if !has || tv.Type == nil || !types.Identical(tv.Type, execT) || tv.IsType() {
					return true
				}
				fn := p.EnclosingFunc(pk, e.Pos())
				if c01OffNodePkg(fn) {
					return true
				}
				where := "<package level>"
				if fn != nil {
					where = fn.TopDecl().Name()
				}
				switch x := ast.Unparen(e).(type) {
				case *ast.CallExpr:
					if ftv, isConv := info.Types[x.Fun]; isConv && ftv.IsType() {
						c.Check("shared-executor", where+"|conversion", x.Pos(), where == "chain.NewTxExecutor", "a function is converted to chain.TxExecFn outside NewTxExecutor: producer and validator would no longer share one executor")
						return true
					}
					nCalls++
					c.Check("shared-executor", where+"|"+an.CalleeName(info, x), x.Pos(), an.CalleeName(info, x) == "chain.NewTxExecutor", "every transaction executor function value comes from chain.NewTxExecutor")
				case *ast.FuncLit:
					c.Check("shared-executor", where+"|literal", x.Pos(), where == "chain.NewTxExecutor", "a function literal of type chain.TxExecFn outside NewTxExecutor")
				}
				return true
			})
		}
	}
	// implicit conversions of function literals: return statements of functions whose result type is TxExecFn
	for _, f := range p.Funcs() {
		if f.Obj == nil || c01OffNodePkg(f) {
			continue
		}
		sig := f.Obj.Type().(*types.Signature)
		for i := 0; i < sig.Results().Len(); i++ {
			if types.Identical(sig.Results().At(i).Type(), execT) {
				c.Check("shared-executor", f.Name()+"|returns-TxExecFn", f.Pos(), f.Name() == "chain.NewTxExecutor", "only chain.NewTxExecutor constructs a transaction executor")
			}
		}
	}
	if nCalls < 4 {
		c.Undecide("shared-executor", "chain.NewTxExecutor", "fewer constructor call sites than on the reference tree (chain, dpos, raftv2, sbp)")
	}
	// the block generator applies the executor it was handed to every transaction: GatherTXs calls op.Apply once per candidate
	if f := c.Fn("consensus/chain.(*BlockGenerator).GatherTXs"); f != nil {
		g := f.Graph()
		ap := g.CallsTo("consensus/chain.(TxOp).Apply")
		ok := len(ap) == 1 && g.InLoop(ap[0].Node)
		c.Check("shared-executor", "consensus/chain.(*BlockGenerator).GatherTXs|Apply", posOf(ap), ok, "the producer runs its transaction operation on each candidate inside the gathering loop")
	}
}

// c02RootValidation: the validator compares both roots and fails on mismatch.
func c02RootValidation(c *rep.Ctx) {
	p := c.Prog
	f := c.Fn("chain.(*BlockValidator).ValidatePost")
	if f == nil {
		return
	}
	g := f.Graph()
	info := f.Info()
	verbose := p.LookupField("chain", "BlockValidator", "verbose")
	if verbose == nil {
		c.Undecide("root-validation", "chain.BlockValidator.verbose", "diagnostic flag not found")
		return
	}
	// path atom: verbose (verify-only diagnostic mode, never commits) at its production value false
	infeasible := g.InfeasibleEdges(an.FieldAtom(info, verbose, "verbose"), map[string]bool{"verbose": false})
	sdbRoot, receipts := f.ParamObj(0), f.ParamObj(1)
	rcptF := p.LookupField("types", "BlockHeader", "ReceiptsRootHash")
	derivedFrom := func(e ast.Expr, pred func(ast.Node) bool) bool {
		if pred(e) {
			return true
		}
		if o := an.ObjOf(info, e); o != nil {
			for _, n := range g.StmtNodes(func(n *an.Node) bool { return an.Assigns(info, n.Ast, o) }) {
				if pred(n.Ast) {
					return true
				}
			}
		}
		return false
	}
	var stateEq, rcptEq an.Set
	var p1, p2 token.Pos
	for _, s := range g.CallsTo("bytes.Equal") {
		if len(s.Call.Args) != 2 {
			continue
		}
		a, b := s.Call.Args[0], s.Call.Args[1]
		isHdrState := func(x ast.Expr) bool {
			return derivedFrom(x, func(n ast.Node) bool { return containsCallTo(info, n, "types.(*BlockHeader).GetBlocksRootHash") })
		}
		isHdrRcpt := func(x ast.Expr) bool {
			return derivedFrom(x, func(n ast.Node) bool {
				return (rcptF != nil && readsField(info, n, rcptF)) || containsCallTo(info, n, "types.(*BlockHeader).GetReceiptsRootHash")
			})
		}
		isComputedRcpt := func(x ast.Expr) bool {
			return derivedFrom(x, func(n ast.Node) bool { return containsCallTo(info, n, "types.(*Receipts).MerkleRoot") && mentions(info, n, receipts) })
		}
		// the header variable is reused for both comparisons: decide by the computed side
		switch {
		case (an.ObjOf(info, a) == sdbRoot && isHdrState(b)) || (an.ObjOf(info, b) == sdbRoot && isHdrState(a)):
			stateEq, p1 = g.BoolEdges(s, true), s.Call.Pos()
		case (isComputedRcpt(a) && isHdrRcpt(b)) || (isComputedRcpt(b) && isHdrRcpt(a)):
			rcptEq, p2 = g.BoolEdges(s, true), s.Call.Pos()
		}
	}
	nil0 := g.NilReturns()
	okS, okR := len(stateEq) > 0 && len(nil0) > 0, len(rcptEq) > 0 && len(nil0) > 0
	for _, r := range nil0 {
		okS = okS && g.Dominated(r, stateEq.Union(infeasible))
		okR = okR && g.Dominated(r, rcptEq.Union(infeasible))
	}
	c.Check("root-validation", "chain.(*BlockValidator).ValidatePost|state-root", p1, okS, "ValidatePost accepts only if the header's state root equals the executed state root (diagnostic flag `verbose` at its production value)")
	c.Check("root-validation", "chain.(*BlockValidator).ValidatePost|receipts-root", p2, okR, "ValidatePost accepts only if the header's receipts root equals the merkle root of the produced receipts (diagnostic flag `verbose` at its production value)")
	// the executor hands ValidatePost the roots it computed
	if nb := c.Fn("chain.newBlockExecutor"); nb != nil {
		for _, lf := range nb.Lits {
			vp := lf.Graph().CallsTo("chain.(*BlockValidator).ValidatePost")
			if len(vp) != 1 {
				continue
			}
			args := vp[0].Call.Args
			ok := len(args) == 3 && containsCallTo(lf.Info(), args[0], "state/statedb.(*StateDB).GetRoot") && containsCallTo(lf.Info(), args[1], "state.(*BlockState).Receipts")
			c.Check("root-validation", "chain.newBlockExecutor|validatePost-args", vp[0].Call.Pos(), ok, "the validator is given the root and the receipts of the block state that was just executed")
		}
	}
}
