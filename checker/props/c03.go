package props

import (
	"go/ast"
	"go/token"
	"go/types"
	"sort"

	"verif/checker/internal/an"
	"verif/checker/internal/rep"
)

// C03 — transaction atomicity: full effect, fee+nonce only, or nothing.
//
// Decided clauses: the snapshot/rollback bracket of the per-transaction
// executor; the runtime-error arm of executeTx (reset before any put, ERROR
// status, no ordinary put on that arm); the failed-block arm of the chain
// service (consensus status restored, nothing written, commit only after both
// validations).  BlockSnapshot field agreement is decided under C12.

func init() { register("C03", runC03) }

func runC03(c *rep.Ctx) {
	c.Explain = "Decides the three mechanisms that make the outcomes of a transaction exclusive, on all control-flow paths of the real functions: (1) chain.NewTxExecutor's closure takes a block-state snapshot before executeTx and every error return is dominated by Rollback with that same snapshot value; (2) in chain.executeTx the only way to continue after an execution error is the runtime-error guard, on that arm every touched account goes through resetAccount (whose first action is Reset) before being put, the status is the constant ERROR, and the ordinary SetNonce/PutState sites are reachable only when no error is pending; (3) a block whose execution or post-validation fails restores the consensus status and reaches neither the receipt writer nor the tip move, the executor commits only after validatePost succeeded, and a failed block is cached as bad only when the failure is attributable to the block. It decides the shape of the code, not the absence of residue in every storage key."
	c.NotDecided = []string{"absence of residue in every key after a rollback (needs state comparison)", "BlockState fields outside the snapshot (BpReward, receipts, internalOps): informational only", "governance storage semantics"}
	c.Assume = []string{"logger.Panic()/Fatal() chains do not return", "function literals stored in struct fields are resolved through the assignments to that field"}
	c03ExecutorBracket(c)
	c03RuntimeErrorArm(c)
	c03FailedBlock(c)
}

// c03Roll is one place where the block state is rolled back: a direct
// BlockState.Rollback call, or a call of a helper (at most two static call
// levels) that cannot return normally / without error unless a Rollback of its
// own parameters succeeded.
type c03Roll struct {
	site       an.Site
	recv, snap ast.Expr // the block state and the snapshot handed over at the site
	void       bool     // helper without error result: returning normally means the rollback succeeded
	via        string   // name of the helper ("" for a direct call)
}

const c03RollbackFn = "state.(*BlockState).Rollback"

// c03Rolls lists the rollback places of f (not inside nested literals).
func c03Rolls(f *an.Func, depth int) []c03Roll {
	g, info := f.Graph(), f.Info()
	var out []c03Roll
	for _, s := range sitesOf(f, c03RollbackFn) {
		sel, ok := ast.Unparen(s.Call.Fun).(*ast.SelectorExpr)
		if !ok || len(s.Call.Args) != 1 {
			continue
		}
		out = append(out, c03Roll{site: s, recv: sel.X, snap: s.Call.Args[0]})
	}
	if depth >= 2 {
		return out
	}
	helpers := g.Calls(func(fn *types.Func, call *ast.CallExpr) bool {
		hf := f.Prog.FuncOf(fn)
		return hf != nil && hf.Decl != nil && hf.Body != nil && an.FuncName(fn) != c03RollbackFn && c03MentionsRollback(hf, depth+1)
	})
	sort.Slice(helpers, func(i, j int) bool { return helpers[i].Call.Pos() < helpers[j].Call.Pos() })
	for _, s := range helpers {
		hf := f.Prog.FuncOf(s.Fn)
		recvSlot, snapSlot, void, ok := c03RollbackHelper(hf, depth+1)
		if !ok {
			continue
		}
		at := func(slot int) ast.Expr {
			if slot == c03RecvSlot {
				if sel, isSel := ast.Unparen(s.Call.Fun).(*ast.SelectorExpr); isSel && info.Selections[sel] != nil {
					return sel.X
				}
				return nil
			}
			if slot >= 0 && slot < len(s.Call.Args) && !s.Call.Ellipsis.IsValid() {
				return s.Call.Args[slot]
			}
			return nil
		}
		r, sn := at(recvSlot), at(snapSlot)
		if r == nil || sn == nil {
			continue
		}
		out = append(out, c03Roll{site: s, recv: r, snap: sn, void: void, via: hf.Name()})
	}
	return out
}

// c03MentionsRollback: a BlockState.Rollback call occurs in hf or in a function
// it calls statically, down to the depth c03Rolls follows (cheap pre-filter).
func c03MentionsRollback(hf *an.Func, depth int) bool {
	found := false
	info := hf.Info()
	an.InspectShallow(hf.Body, func(n ast.Node) bool {
		call, ok := n.(*ast.CallExpr)
		if !ok || found {
			return !found
		}
		fn := an.Callee(info, call)
		if fn == nil {
			return true
		}
		if an.FuncName(fn) == c03RollbackFn {
			found = true
		} else if sub := hf.Prog.FuncOf(fn); depth < 2 && sub != nil && sub != hf && sub.Decl != nil && sub.Body != nil && c03MentionsRollback(sub, depth+1) {
			found = true
		}
		return !found
	})
	return found
}

const c03RecvSlot = -1 // the method receiver, as a parameter slot

// c03RollbackHelper decides whether hf is a rollback helper: every rollback
// place in it acts on the same two parameters of hf (block state, snapshot),
// neither of which is reassigned, and
//   - hf has no results: no path from its entry to a normal exit avoids the
//     success of a rollback place (a failing Rollback ends in panic), or
//   - hf has the single result error: every return that is not known to
//     follow a successful rollback hands back a certainly non-nil error or
//     the error result of the rollback place itself.
func c03RollbackHelper(hf *an.Func, depth int) (recvSlot, snapSlot int, void, ok bool) {
	if hf == nil || hf.Decl == nil || hf.Body == nil || hf.Type == nil {
		return 0, 0, false, false
	}
	g, info := hf.Graph(), hf.Info()
	nRes := 0
	if hf.Type.Results != nil {
		nRes = hf.Type.Results.NumFields()
	}
	switch nRes {
	case 0:
		void = true
	case 1:
		if !c03IsError(info.TypeOf(hf.Type.Results.List[0].Type)) {
			return 0, 0, false, false
		}
	default:
		return 0, 0, false, false
	}
	slotOf := func(e ast.Expr) int {
		o := an.ObjOf(info, e)
		if o == nil || !g.SingleDefOrParam(o) {
			return -100
		}
		if hf.Decl.Recv != nil {
			for _, fl := range hf.Decl.Recv.List {
				for _, nm := range fl.Names {
					if info.Defs[nm] == o {
						return c03RecvSlot
					}
				}
			}
		}
		for i := 0; hf.Type.Params != nil && i < hf.Type.Params.NumFields(); i++ {
			if hf.ParamObj(i) == o {
				return i
			}
		}
		return -100
	}
	rolls := c03Rolls(hf, depth)
	if len(rolls) == 0 {
		return 0, 0, false, false
	}
	success := an.Set{}
	tail := an.Set{} // returns whose value is the error result of a rollback place
	for i, r := range rolls {
		rs, ss := slotOf(r.recv), slotOf(r.snap)
		if rs == -100 || ss == -100 || (i > 0 && (rs != recvSlot || ss != snapSlot)) {
			return 0, 0, false, false
		}
		recvSlot, snapSlot = rs, ss
		if r.void {
			success[r.site.Node] = true
			continue
		}
		for e := range g.ErrNilEdges(r.site) {
			success[e] = true
		}
		if ret, isRet := r.site.Node.Ast.(*ast.ReturnStmt); isRet && len(ret.Results) == 1 && ast.Unparen(ret.Results[0]) == ast.Expr(r.site.Call) {
			tail[r.site.Node] = true
		}
	}
	if void {
		return recvSlot, snapSlot, true, len(success) > 0 && !g.Reach([]*an.Node{g.Entry}, success)[g.Exit]
	}
	for _, pr := range g.Exit.Preds {
		if !g.Reach([]*an.Node{g.Entry}, success)[pr] || tail[pr] {
			continue
		}
		ret, isRet := pr.Ast.(*ast.ReturnStmt)
		if !isRet || pr.Kind != an.KStmt || len(ret.Results) != 1 {
			return 0, 0, false, false
		}
		res := ast.Unparen(ret.Results[0])
		if an.NonNilErrorExpr(info, res) {
			continue
		}
		if o := an.ObjOf(info, res); o != nil {
			if nonNil, _ := g.GuardedAt(pr, an.NilAtom(info, o), map[string]bool{"nil": false}); nonNil {
				continue
			}
		}
		return 0, 0, false, false
	}
	return recvSlot, snapSlot, false, len(success)+len(tail) > 0
}

func c03IsError(t types.Type) bool {
	return t != nil && types.Identical(t, types.Universe.Lookup("error").Type())
}

func c03ExecutorBracket(c *rep.Ctx) {
	f := c.Fn("chain.NewTxExecutor$1")
	if f == nil {
		return
	}
	g := f.Graph()
	info := f.Info()
	snaps := sitesOf(f, "state.(*BlockState).Snapshot")
	execs := sitesOf(f, "chain.executeTx")
	// the rollback places: direct BlockState.Rollback calls and calls of rollback helpers
	rolls := c03Rolls(f, 0)
	if len(snaps) != 1 || len(execs) != 1 || len(rolls) < 1 {
		c.Check("tx-bracket", "chain.NewTxExecutor$1|shape", f.Pos(), false, "expected exactly one Snapshot, one executeTx and at least one Rollback in the transaction executor closure (a direct BlockState.Rollback call, or a call of a helper that cannot return unless a Rollback of the block state and snapshot it was handed succeeded)")
		return
	}
	snapVar := g.ResultVarAt(snaps[0], 0)
	// Snapshot precedes executeTx, on the same block state
	ok := g.Dominated(execs[0].Node, nodesOf(snaps)) && snapVar != nil &&
		recvObj(info, snaps[0].Call) != nil && argIs(info, execs[0].Call, 3, recvObj(info, snaps[0].Call))
	c.Check("tx-bracket", "chain.NewTxExecutor$1|Snapshot < executeTx", snaps[0].Call.Pos(), ok, "the block state passed to executeTx is snapshotted before the transaction runs")
	// nothing that can change state sits between the snapshot and the execution
	between := g.Between(snaps[0].Node, execs[0].Node)
	clean := true
	for n := range between {
		if n.Kind != an.KStmt {
			continue
		}
		for _, call := range an.CallsIn(n.Ast) {
			if fn := an.Callee(info, call); fn != nil && fn.Pkg() != nil && (an.Rel(fn.Pkg().Path()) == "state" || an.Rel(fn.Pkg().Path()) == "state/statedb" || an.Rel(fn.Pkg().Path()) == "contract") {
				clean = false
			}
		}
	}
	c.Check("tx-bracket", "chain.NewTxExecutor$1|nothing-between", snaps[0].Call.Pos(), clean, "no state-touching call lies between taking the snapshot and executing the transaction")
	// every return of a non-nil error after executeTx is dominated by Rollback(same snapshot)
	okEdges := g.ErrNilEdges(execs[0])
	rollNodes := an.Set{}
	sameSnap := true
	for _, r := range rolls {
		rollNodes[r.site.Node] = true
		if an.ObjOf(info, r.snap) == nil || an.ObjOf(info, r.snap) != snapVar || an.ObjOf(info, r.recv) == nil || an.ObjOf(info, r.recv) != recvObj(info, snaps[0].Call) {
			sameSnap = false
		}
	}
	c.Check("tx-bracket", "chain.NewTxExecutor$1|Rollback(snapshot)", rolls[0].site.Call.Pos(), sameSnap, "Rollback is applied to the same block state with the very snapshot value taken before the transaction")
	after := g.Reach(execs[0].Node.Succs, nil)
	nRet := 0
	for _, r := range g.Returns() {
		if !after[r] {
			continue
		}
		nRet++
		// a return after executeTx is either on the success edge, or behind a Rollback
		onSuccess := g.DominatedFrom(execs[0].Node, r, okEdges)
		rolled := g.DominatedFrom(execs[0].Node, r, rollNodes)
		c.Check("tx-bracket", "chain.NewTxExecutor$1|return-after-exec", r.Ast.Pos(), onSuccess || rolled, "every return reached after executeTx is on its success edge or is preceded by Rollback")
	}
	if nRet < 2 {
		c.Undecide("tx-bracket", "chain.NewTxExecutor$1", "fewer than two returns after executeTx")
	}
	// a failed Rollback does not continue (panic)
	for _, r := range rolls {
		if r.void {
			// decided inside the helper (c03RollbackHelper): it returns only past a successful Rollback
			c.Check("tx-bracket", "chain.NewTxExecutor$1|Rollback-failure-stops", r.site.Call.Pos(), true, "if Rollback itself fails the executor does not return normally: "+r.via+" reaches its normal exit only past the success edge of Rollback (it panics otherwise), so a half-rolled-back state is never used")
			continue
		}
		bad := false
		okr := g.ErrNilEdges(r.site)
		for _, ret := range g.Returns() {
			if g.Reach(r.site.Node.Succs, okr)[ret] {
				bad = true // a return reachable from Rollback without passing its success edge
			}
		}
		c.Check("tx-bracket", "chain.NewTxExecutor$1|Rollback-failure-stops", r.site.Call.Pos(), len(okr) > 0 && !bad, "if Rollback itself fails the executor does not return normally (it panics), so a half-rolled-back state is never used")
	}
}

func c03RuntimeErrorArm(c *rep.Ctx) {
	f := c.Fn("chain.executeTx")
	if f == nil {
		return
	}
	g := f.Graph()
	info := f.Info()
	rt := boolGate(c, f, true, "contract.IsRuntimeError")
	resets := sitesOf(f, "chain.resetAccount")
	if len(resets) < 2 {
		c.Undecide("error-arm", "chain.executeTx", "resetAccount sites not found")
	}
	mustPrecede(c, "error-arm", f, rt, resets, nil, "accounts are reset to fee+nonce only when the failure is a run-time error of the contract; any other error leaves through `return err` (and is rolled back by the executor bracket)")
	// the err variable tested by the error test after the execution switch
	var errObj types.Object
	for _, s := range rt.sites {
		if len(s.Call.Args) == 1 {
			errObj = an.ObjOf(info, s.Call.Args[0])
		}
	}
	if errObj == nil {
		c.Undecide("error-arm", "chain.executeTx", "cannot identify the pending-error variable")
		return
	}
	nilAt := an.NilAtom(info, errObj)
	// ordinary completion: SetNonce / PutState directly in executeTx only when no error is pending
	for _, s := range sitesOf(f, "state.(*AccountState).SetNonce", "state.(*AccountState).PutState") {
		ok, how := g.GuardedAt(s.Node, nilAt, map[string]bool{"nil": true})
		// the fact must still be current: no assignment of err between the deciding test and the site, other than by the puts themselves
		if ok {
			current := false
			for _, ft := range g.FactsAt(s.Node) {
				if !an.CondImplies(info, ft.Cond, ft.Val, nilAt, map[string]bool{"nil": true}) {
					continue
				}
				clean := true
				for m := range g.Between(ft.Edge, s.Node) {
					if m.Kind == an.KStmt && an.Assigns(info, m.Ast, errObj) && !containsCallTo(info, m.Ast, "state.(*AccountState).PutState") {
						clean = false
					}
				}
				if clean {
					current = true
				}
			}
			ok = current
		}
		c.Check("error-arm", "chain.executeTx|no-error < "+shortName(an.FuncName(s.Fn)), s.Call.Pos(), ok, "the ordinary nonce update / account put happens only on paths where no execution error is pending ("+how+")")
	}
	// on the runtime-error arm nothing but resetAccount puts state: the plain put sites are unreachable from the error edge
	errEdges := g.EdgesImplying(nilAt, map[string]bool{"nil": false})
	var armEdges []*an.Node
	for e := range errEdges {
		// the error test that leads to resetAccount: it dominates a reset site
		for _, rs := range resets {
			if g.Dominated(rs.Node, an.SetOf(e)) {
				armEdges = append(armEdges, e)
				break
			}
		}
	}
	if len(armEdges) == 0 {
		c.Check("error-arm", "chain.executeTx|error-test", f.Pos(), false, "no error test leading to resetAccount found after the execution switch")
		return
	}
	// status ERROR: on the arm, the receipt status variable is assigned the constant "ERROR" after the resets
	statusOK := false
	var statusPos token.Pos
	var statusNode *an.Node
	for _, n := range g.StmtNodes(func(n *an.Node) bool { _, ok := n.Ast.(*ast.AssignStmt); return ok }) {
		as := n.Ast.(*ast.AssignStmt)
		if len(as.Lhs) != 1 || len(as.Rhs) != 1 {
			continue
		}
		tv, has := info.Types[as.Rhs[0]]
		if !has || tv.Value == nil || tv.Value.ExactString() != `"ERROR"` {
			continue
		}
		statusObj := an.ObjOf(info, as.Lhs[0])
		// the same variable is the status argument of NewReceipt
		for _, nr := range g.CallsTo("types.NewReceipt") {
			if argIs(info, nr.Call, 1, statusObj) {
				statusOK, statusPos, statusNode = true, as.Pos(), n
			}
		}
	}
	if statusOK {
		// every path from the error arm to the receipt passes the assignment, and nothing re-assigns status afterwards
		for _, nr := range g.CallsTo("types.NewReceipt") {
			for _, e := range armEdges {
				if g.Reach([]*an.Node{e}, an.SetOf(statusNode))[nr.Node] {
					statusOK = false
				}
			}
		}
	}
	c.Check("error-arm", "chain.executeTx|status-ERROR", statusPos, statusOK, "every path from the runtime-error arm to the receipt assigns the constant \"ERROR\" to the receipt status")
	// every path from the error arm to the fee credit / receipt passes a resetAccount of the sender
	senderResets := an.Set{}
	for _, rs := range resets {
		senderResets[rs.Node] = true
	}
	for _, t := range append(sitesOf(f, "state.(*BlockState).AddReceipt"), c01BpRewardAdd(f)...) {
		ok := true
		for _, e := range armEdges {
			if g.Reach([]*an.Node{e}, senderResets)[t.Node] {
				ok = false
			}
		}
		tn := "BpReward.Add"
		if t.Fn != nil && t.Fn.Name() == "AddReceipt" {
			tn = "AddReceipt"
		}
		c.Check("error-arm", "chain.executeTx|reset < "+tn, t.Call.Pos(), ok, "on the runtime-error arm the fee credit and the receipt are reached only through resetAccount")
	}
	// resetAccount: Reset first
	if rf := c.Fn("chain.resetAccount"); rf != nil {
		rg := rf.Graph()
		rst := callGate(c, rf, "state.(*AccountState).Reset")
		acc := rf.ParamObj(0)
		okRecv := len(rst.sites) == 1 && recvObj(rf.Info(), rst.sites[0].Call) == acc
		c.Check("error-arm", "chain.resetAccount|Reset(param)", posOf(rst.sites), okRecv, "resetAccount resets the account it was handed")
		mustPrecede(c, "error-arm", rf, rst, sitesOf(rf, "state.(*AccountState).SubBalance", "state.(*AccountState).SetNonce", "state.(*AccountState).PutState"), nil, "the account is reset to its pre-transaction state before fee, nonce and put are applied")
		// the put is unconditional at the end: every nil-capable return passes PutState
		puts := nodesOf(sitesOf(rf, "state.(*AccountState).PutState"))
		okPut := len(puts) == 1
		for _, r := range rg.Returns() {
			rs := r.Ast.(*ast.ReturnStmt)
			if len(rs.Results) == 1 && an.NonNilErrorExpr(rf.Info(), rs.Results[0]) {
				continue
			}
			if !puts[r] && !rg.Dominated(r, puts) {
				okPut = false
			}
		}
		c.Check("error-arm", "chain.resetAccount|PutState", rf.Pos(), okPut, "resetAccount stores the reset account on every non-failing path")
	}
	c.Floor("error-arm", 12)
}

// c01BpRewardAdd: the sites  bs.BpReward.Add(&bs.BpReward, x)  in f.
func c01BpRewardAdd(f *an.Func) []an.Site {
	g := f.Graph()
	info := f.Info()
	bp := f.Prog.LookupField("state", "BlockState", "BpReward")
	return g.Calls(func(fn *types.Func, call *ast.CallExpr) bool {
		if fn == nil || an.FuncName(fn) != "math/big.(*Int).Add" || bp == nil {
			return false
		}
		sel, ok := ast.Unparen(call.Fun).(*ast.SelectorExpr)
		return ok && an.FieldOf(info, sel.X) == bp
	})
}

func c03FailedBlock(c *rep.Ctx) {
	p := c.Prog
	if f := c.Fn("chain.(*ChainService).executeBlock"); f != nil {
		g := f.Graph()
		info := f.Info()
		ex := errGate(c, f, "chain.(*blockExecutor).execute")
		post := sitesOf(f, "chain.(*ChainDB).writeReceiptsAndOperations", "chain.(*ChainService).notifyEvents")
		if len(post) < 2 {
			c.Undecide("failed-block", "chain.(*ChainService).executeBlock", "receipt writer / event notifier not found")
		}
		mustPrecede(c, "failed-block", f, ex, post, nil, "receipts are written and events published only for a block whose execution and validation succeeded")
		// the consensus status is restored to the previous best block on the failure edge
		upd := g.CallsTo("consensus.(ChainConsensus).Update")
		var best types.Object
		for _, s := range g.CallsTo("chain.(*ChainDB).GetBestBlock") {
			best = g.ResultVarAt(s, 0)
		}
		var restore an.Set = an.Set{}
		for _, u := range upd {
			if argIs(info, u.Call, 0, best) {
				restore[u.Node] = true
			}
		}
		okRestore := len(ex.sites) == 1 && len(restore) > 0
		if okRestore {
			for _, r := range g.Returns() {
				if !g.Reach(ex.sites[0].Node.Succs, nil)[r] {
					continue
				}
				if g.DominatedFrom(ex.sites[0].Node, r, ex.edges) {
					continue // success side
				}
				if !g.DominatedFrom(ex.sites[0].Node, r, restore) {
					okRestore = false
				}
			}
		}
		c.Check("failed-block", "chain.(*ChainService).executeBlock|restore-consensus", posOf(upd), okRestore, "when block execution fails the consensus status is reset to the previous best block before returning")
		// on success the status moves to the new block, after the receipts
		okNew := false
		for _, u := range upd {
			if argIs(info, u.Call, 0, f.ParamObj(1)) && g.Dominated(u.Node, ex.edges) && g.Dominated(u.Node, nodesOf(sitesOf(f, "chain.(*ChainDB).writeReceiptsAndOperations"))) {
				okNew = true
			}
		}
		c.Check("failed-block", "chain.(*ChainService).executeBlock|advance-consensus", posOf(upd), okNew, "the consensus status advances to the new block only after successful execution and after the receipts were written")
	}
	if f := c.Fn("chain.(*blockExecutor).execute"); f != nil {
		g := f.Graph()
		vp := p.LookupField("chain", "blockExecutor", "validatePost")
		calls := funcValueCalls(f, vp)
		gates := errEdgesOf(g, calls)
		commits := sitesOf(f, "chain.(*blockExecutor).commit")
		if vp == nil || len(commits) == 0 {
			c.Undecide("failed-block", "chain.(*blockExecutor).execute", "validatePost/commit anchors not found")
		}
		for _, t := range commits {
			c.Check("failed-block", "chain.(*blockExecutor).execute|validatePost < commit", t.Call.Pos(), len(gates) > 0 && g.Dominated(t.Node, gates), "state is committed only after the post-execution validation of state root and receipts root succeeded")
		}
		// every transaction error aborts the block
		execTx := p.LookupField("chain", "blockExecutor", "execTx")
		txCalls := funcValueCalls(f, execTx)
		txOK := errEdgesOf(g, txCalls)
		// the loop exits the function on the first failing transaction
		okAbort := len(txCalls) == 1
		if okAbort {
			// from the failure side of execTx no commit / validatePost is reachable
			for _, t := range append(commits, calls...) {
				if g.Reach(txCalls[0].Node.Succs, txOK)[t.Node] {
					okAbort = false
				}
			}
		}
		c.Check("failed-block", "chain.(*blockExecutor).execute|tx-error-aborts", posOf(txCalls), okAbort, "a transaction that fails during validation of a received block aborts the block: neither validatePost nor commit is reachable from the failure edge")
		// validatePost literal really validates
		for _, lf := range p.BuildCallGraphCached().FuncValues(vp) {
			ok := len(lf.Graph().CallsTo("chain.(*BlockValidator).ValidatePost")) == 1
			if ok {
				for _, r := range lf.Graph().Returns() {
					rs := r.Ast.(*ast.ReturnStmt)
					if len(rs.Results) != 1 || !containsCallTo(lf.Info(), rs.Results[0], "chain.(*BlockValidator).ValidatePost") {
						ok = false
					}
				}
			}
			c.Check("failed-block", "chain.newBlockExecutor|validatePost-binding", lf.Pos(), ok, "the executor's validatePost is bound to BlockValidator.ValidatePost and returns its verdict")
		}
	}
	if f := c.Fn("chain.(*blockExecutor).commit"); f != nil {
		g := f.Graph()
		cm := errGate(c, f, "state/statedb.(*StateDB).Commit", "state.(*BlockState).Commit")
		mustPrecede(c, "failed-block", f, cm, sitesOf(f, "state.(*ChainStateDB).UpdateRoot"), nil, "the chain state DB root moves only after the block state was committed successfully")
		_ = g
	}
	if f := c.Fn("chain.(*chainProcessor).execute"); f != nil {
		ex := errGate(c, f, "chain.(*chainProcessor).executeBlock")
		mustPrecede(c, "failed-block", f, ex, sitesOf(f, "chain.(*chainProcessor).connectToChain"), nil, "the chain tip moves only after the block executed and validated successfully")
	}
	if f := c.Fn("chain.(*ChainService).addBlock"); f != nil {
		g := f.Graph()
		info := f.Info()
		adds := g.Calls(func(fn *types.Func, call *ast.CallExpr) bool {
			if fn == nil || fn.Name() != "Add" {
				return false
			}
			sel, ok := ast.Unparen(call.Fun).(*ast.SelectorExpr)
			eb := p.LookupField("chain", "ChainService", "errBlocks")
			return ok && eb != nil && an.FieldOf(info, sel.X) == eb
		})
		inner := g.CallsTo("chain.(*ChainService).addBlockInternal")
		if len(adds) == 0 || len(inner) != 1 {
			c.Undecide("failed-block", "chain.(*ChainService).addBlock", "errBlocks.Add / addBlockInternal anchors not found")
		} else {
			need := g.ResultVarAt(inner[0], 1)
			errV := g.ResultVarAt(inner[0], 0)
			at := func(e ast.Expr) (string, bool, bool) {
				if id, ok := ast.Unparen(e).(*ast.Ident); ok && need != nil && info.Uses[id] == need {
					return "need", false, true
				}
				return an.NilAtom(info, errV)(e)
			}
			for _, a := range adds {
				ok, how := g.GuardedAt(a.Node, at, map[string]bool{"need": true, "nil": false})
				c.Check("failed-block", "chain.(*ChainService).addBlock|errBlocks.Add", a.Call.Pos(), ok, "a block is entered in the bad-block cache only when adding it failed and the failure is attributable to the block (needCache): "+how)
			}
		}
	}
}
