package props

import (
	"go/ast"
	"go/constant"
	"go/token"
	"go/types"
	"sort"
	"strings"

	"golang.org/x/tools/go/cfg"
	"golang.org/x/tools/go/packages"

	"verif/checker/internal/an"
	"verif/checker/internal/rep"
)

// C12 — state snapshots: reverting restores exactly the earlier visible state.
//
// The working state is an undo log (stateBuffer: entries + per-key index
// stacks + counter).  Decided, structurally:
//
//   owner            who may write / shrink / alias the three log fields and who
//                    may call the mutating methods of the index stacks
//   put-complete     put appends, pushes the pre-increment counter under the
//                    entry's key and increments the counter, all together
//   rollback-complete  rollback pops the index of every entry in [rev, next),
//                    deletes emptied stacks, truncates entries and the counter to
//                    the same revision, in that order
//   latest-entry     every element read of entries uses the top of the key's
//                    index stack; nobody ranges over entries
//   empty-sentinel   the "empty stack" value of peek/pop (-1) and every
//                    comparison against it agree
//   reset            reset == rollback(0); every root change / persist of a
//                    buffer is followed by its reset (and the persist precedes it)
//   revision-source  where the argument of every stateBuffer.rollback comes from
//   pair-buffer      Snapshot/Rollback pairs address the same buffer
//   cache-snapshot / cache-rollback   storageCache (C03 item 3)
//   block-components BlockState.Snapshot / Rollback agree per BlockSnapshot field
//   api-pairing      every caller of a public Rollback passes the matching
//                    Snapshot of the same object
//   meta-skip        export's meta-entry filter matches what newMetaEntry builds,
//                    as soon as meta entries are live
//   read-through / key-agreement / undo-on-error / delete-visible: c12_reads.go
//
// (second half in c12_pairs.go, third in c12_reads.go)

func init() { register("C12", runC12) }

const (
	c12Pkg        = "state/statedb"
	c12FnNew      = "state/statedb.newStateBuffer"
	c12FnPut      = "state/statedb.(*stateBuffer).put"
	c12FnRollback = "state/statedb.(*stateBuffer).rollback"
	c12FnSnapshot = "state/statedb.(*stateBuffer).snapshot"
	c12FnReset    = "state/statedb.(*stateBuffer).reset"
	c12FnStage    = "state/statedb.(*stateBuffer).stage"
	c12FnExport   = "state/statedb.(*stateBuffer).export"
	c12FnGet      = "state/statedb.(*stateBuffer).get"
	c12FnKeyID    = "state/statedb.(entry).KeyID"
)

// c12Owners: the functions that own the undo log (DESIGN C12 item 1).
var c12Owners = map[string]string{
	c12FnNew:      "constructor: the only composite literal of stateBuffer",
	c12FnPut:      "the only grower",
	c12FnRollback: "the only shrinker",
}

// c12IndexExceptions: element reads of entries whose index is not the top of
// the key's index stack, read and accepted.
var c12IndexExceptions = map[string]string{
	"state/statedb.(*bufferedStorage).rollback": "checkpoint walk (no caller outside the package tests): the indices come from stack.iter() over the index stack of checkpointKey, which holds only surviving entries; it reads meta entries, never exports them",
	c12FnRollback: "owner: walks the discarded suffix [revision, nextIdx) by position to pop each entry's key",
}

// c12RevisionExceptions: callers of stateBuffer.rollback whose argument is not
// one of the recognised sources.
var c12RevisionExceptions = map[string]string{
	"state/statedb.(*bufferedStorage).rollback": "checkpoint walk (no caller outside the package tests): rolls back to the position of a checkpoint meta entry taken from the index stack of checkpointKey",
}

type c12Env struct {
	c    *rep.Ctx
	p    *an.Prog
	pk   *packages.Package
	info *types.Info

	entries, indexes, nextIdx *types.Var
	bufNamed                  *types.Named // stateBuffer
	idxNamed                  *types.Named // bufferIndex
	stkNamed                  *types.Named // stack

	mutators map[string]bool // FuncName of the mutating methods of stack / bufferIndex
	peekers  map[string]bool // FuncName of stack.peek / bufferIndex.peek (return the top or the sentinel)
	poppers  map[string]bool // FuncName of stack.pop / bufferIndex.pop
	pushers  map[string]bool // FuncName of stack.push / bufferIndex.push

	resetFuncs map[string]bool // functions containing an effect that requires a buffer reset (filled by ruleReset)
}

// ---------------------------------------------------------------------------
// generic helpers (all c12-prefixed)

// c12Path is an access path: a root object followed by struct fields, with
// embedded-field promotions expanded, pointer dereferences ignored.
type c12Path struct {
	root   types.Object
	fields []*types.Var
}

func (a c12Path) eqFields(b c12Path) bool {
	if len(a.fields) != len(b.fields) {
		return false
	}
	for i := range a.fields {
		if a.fields[i] != b.fields[i] {
			return false
		}
	}
	return true
}

func (a c12Path) eq(b c12Path) bool { return a.root != nil && a.root == b.root && a.eqFields(b) }

func (a c12Path) String() string {
	s := "?"
	if a.root != nil {
		s = a.root.Name()
	}
	for _, f := range a.fields {
		s += "." + f.Name()
	}
	return s
}

func (a c12Path) fieldString() string {
	var s []string
	for _, f := range a.fields {
		s = append(s, f.Name())
	}
	return strings.Join(s, ".")
}

func (a c12Path) with(f *types.Var) c12Path {
	return c12Path{a.root, append(append([]*types.Var{}, a.fields...), f)}
}

func c12StructOf(t types.Type) *types.Struct {
	if p, ok := t.Underlying().(*types.Pointer); ok {
		t = p.Elem()
	}
	st, _ := t.Underlying().(*types.Struct)
	return st
}

// c12SelFields expands the field steps of a selection (all of them for a
// field selection, all but the method for a method selection).
func c12SelFields(sel *types.Selection) ([]*types.Var, bool) {
	idx := sel.Index()
	if sel.Kind() != types.FieldVal {
		idx = idx[:len(idx)-1]
	}
	var out []*types.Var
	t := sel.Recv()
	for _, i := range idx {
		st := c12StructOf(t)
		if st == nil || i >= st.NumFields() {
			return nil, false
		}
		f := st.Field(i)
		out = append(out, f)
		t = f.Type()
	}
	return out, true
}

func c12PathOf(info *types.Info, e ast.Expr) (c12Path, bool) {
	e = ast.Unparen(e)
	switch x := e.(type) {
	case *ast.Ident:
		if o := an.ObjOf(info, x); o != nil {
			if _, isVar := o.(*types.Var); isVar {
				return c12Path{root: o}, true
			}
		}
	case *ast.StarExpr:
		return c12PathOf(info, x.X)
	case *ast.SelectorExpr:
		sel := info.Selections[x]
		if sel == nil || sel.Kind() != types.FieldVal {
			return c12Path{}, false
		}
		base, ok := c12PathOf(info, x.X)
		if !ok {
			return c12Path{}, false
		}
		fs, ok := c12SelFields(sel)
		if !ok {
			return c12Path{}, false
		}
		base.fields = append(append([]*types.Var{}, base.fields...), fs...)
		return base, true
	}
	return c12Path{}, false
}

// c12RecvPath: access path of the receiver of a method call x.f.M(...).
func c12RecvPath(info *types.Info, call *ast.CallExpr) (c12Path, bool) {
	se, ok := ast.Unparen(call.Fun).(*ast.SelectorExpr)
	if !ok {
		return c12Path{}, false
	}
	sel := info.Selections[se]
	if sel == nil || sel.Kind() != types.MethodVal {
		return c12Path{}, false
	}
	base, ok := c12PathOf(info, se.X)
	if !ok {
		return c12Path{}, false
	}
	fs, ok := c12SelFields(sel)
	if !ok {
		return c12Path{}, false
	}
	base.fields = append(append([]*types.Var{}, base.fields...), fs...)
	return base, true
}

// c12RecvExpr: the syntactic receiver of a method call.
func c12RecvExpr(call *ast.CallExpr) ast.Expr {
	if se, ok := ast.Unparen(call.Fun).(*ast.SelectorExpr); ok {
		return se.X
	}
	return nil
}

// c12Def describes the unique definition of a local variable.
type c12Def struct {
	count int            // number of assigning vertices (0 for parameters / never assigned)
	addr  int            // number of vertices that only take the variable's address
	node  *an.Node       // the assigning vertex when count == 1
	rhs   ast.Expr       // the right-hand side feeding the variable (nil for range variables)
	idx   int            // result index when rhs is a multi-value expression (v, ok := m[k])
	rng   *ast.RangeStmt // the range statement when the variable is its key or value
	isKey bool
}

func c12DefOf(g *an.Graph, obj types.Object) c12Def {
	info := g.Fn.Info()
	d := c12Def{}
	for _, n := range g.Nodes {
		if n.Kind != an.KStmt || n.Ast == nil {
			continue
		}
		if _, isRange := n.Ast.(*ast.RangeStmt); isRange {
			continue
		}
		if !an.Assigns(info, n.Ast, obj) {
			continue
		}
		if !c12WritesVar(info, n.Ast, obj) {
			d.addr++ // only `&x` occurs at this vertex
			continue
		}
		d.count++
		d.node = n
		d.rhs, d.idx = nil, 0
		switch s := n.Ast.(type) {
		case *ast.AssignStmt:
			for i, l := range s.Lhs {
				if an.ObjOf(info, l) != obj {
					continue
				}
				if len(s.Rhs) == len(s.Lhs) {
					d.rhs = s.Rhs[i]
				} else if len(s.Rhs) == 1 {
					d.rhs, d.idx = s.Rhs[0], i
				}
			}
			if s.Tok != token.ASSIGN && s.Tok != token.DEFINE {
				d.rhs = nil
				d.count++ // op-assign: not a plain definition
			}
		case *ast.ValueSpec:
			for i, nm := range s.Names {
				if info.Defs[nm] == obj {
					if len(s.Values) == len(s.Names) {
						d.rhs = s.Values[i]
					} else if len(s.Values) == 1 {
						d.rhs, d.idx = s.Values[0], i
					}
				}
			}
		case *ast.Ident:
			// range key / value
			ast.Inspect(g.Fn.Body, func(m ast.Node) bool {
				if r, ok := m.(*ast.RangeStmt); ok {
					if r.Key == ast.Expr(s) {
						d.rng, d.isKey = r, true
					}
					if r.Value == ast.Expr(s) {
						d.rng, d.isKey = r, false
					}
				}
				return true
			})
		default:
			d.count++ // ++/--, &x: not a plain definition
		}
	}
	// assignments inside nested literals make the variable unstable
	for _, l := range g.Fn.Lits {
		ast.Inspect(l.Body, func(n ast.Node) bool {
			if s, ok := n.(ast.Stmt); ok {
				if _, isBlock := s.(*ast.BlockStmt); !isBlock && an.Assigns(info, s, obj) {
					d.count += 2
					return false
				}
			}
			return true
		})
	}
	return d
}

// c12WritesVar: the vertex assigns obj by =, :=, op=, ++/--, var spec or as a
// range variable (an.Assigns additionally counts `&obj`).
func c12WritesVar(info *types.Info, a ast.Node, obj types.Object) bool {
	found := false
	isObj := func(x ast.Expr) bool {
		id, ok := ast.Unparen(x).(*ast.Ident)
		return ok && (info.Defs[id] == obj || info.Uses[id] == obj)
	}
	an.InspectShallow(a, func(n ast.Node) bool {
		switch s := n.(type) {
		case *ast.AssignStmt:
			for _, l := range s.Lhs {
				if isObj(l) {
					found = true
				}
			}
		case *ast.IncDecStmt:
			if isObj(s.X) {
				found = true
			}
		case *ast.ValueSpec:
			for _, nm := range s.Names {
				if info.Defs[nm] == obj {
					found = true
				}
			}
		}
		return true
	})
	if id, ok := a.(*ast.Ident); ok && info.Defs[id] == obj {
		found = true
	}
	return found
}

func c12IsParam(f *an.Func, obj types.Object) bool {
	if f.Type == nil || f.Type.Params == nil || obj == nil {
		return false
	}
	for _, fl := range f.Type.Params.List {
		for _, nm := range fl.Names {
			if f.Info().Defs[nm] == obj {
				return true
			}
		}
	}
	return false
}

// c12Receiver returns the receiver variable of a method.
func c12Receiver(f *an.Func) types.Object {
	if f.Decl == nil || f.Decl.Recv == nil || len(f.Decl.Recv.List) == 0 || len(f.Decl.Recv.List[0].Names) == 0 {
		return nil
	}
	return f.Info().Defs[f.Decl.Recv.List[0].Names[0]]
}

// c12Unconv strips value-preserving conversions T(x).
func c12Unconv(info *types.Info, e ast.Expr) ast.Expr {
	for {
		e = ast.Unparen(e)
		call, ok := e.(*ast.CallExpr)
		if !ok || len(call.Args) != 1 {
			return e
		}
		if tv, ok := info.Types[call.Fun]; ok && tv.IsType() {
			e = call.Args[0]
			continue
		}
		return e
	}
}

func c12ConstInt(info *types.Info, e ast.Expr) (int64, bool) {
	tv, ok := info.Types[ast.Unparen(e)]
	if !ok || tv.Value == nil || tv.Value.Kind() != constant.Int {
		return 0, false
	}
	v, exact := constant.Int64Val(tv.Value)
	return v, exact
}

// c12Together: on every path to the normal exit, a is executed if and only if
// b is (each one dominates or post-dominates the other).
func c12Together(g *an.Graph, a, b *an.Node) bool {
	if a == nil || b == nil {
		return false
	}
	if a == b {
		return true
	}
	ab := g.Dominated(a, an.SetOf(b)) || g.PostDominated(a, an.SetOf(b))
	ba := g.Dominated(b, an.SetOf(a)) || g.PostDominated(b, an.SetOf(a))
	return ab && ba
}

// c12LoopHead returns the vertex evaluated once per iteration (the condition of
// a for statement, the synthetic head of a range statement) and the vertex
// that starts the body.
func c12LoopHead(g *an.Graph, loop ast.Stmt) (head, body *an.Node) {
	switch s := loop.(type) {
	case *ast.ForStmt:
		if s.Cond != nil {
			head = g.NodeOf(s.Cond)
		}
	case *ast.RangeStmt:
		for _, n := range g.Nodes {
			if n.Kind == an.KHead && n.Block != nil && n.Block.Kind == cfg.KindRangeLoop && n.Block.Stmt == loop {
				head = n
			}
		}
	}
	if head == nil {
		return nil, nil
	}
	for _, n := range g.Nodes {
		if n.Kind == an.KTrue && n.Cond == head {
			body = n
		}
	}
	return head, body
}

// c12EveryIteration: every path from the start of the loop body to the next
// evaluation of the loop head, or to the normal exit, passes a vertex of must.
func c12EveryIteration(g *an.Graph, head, body *an.Node, must an.Set) bool {
	if head == nil || body == nil || len(must) == 0 {
		return false
	}
	r := g.Reach([]*an.Node{body}, must)
	return !r[head] && !r[g.Exit]
}

func c12Inside(outer ast.Node, n ast.Node) bool {
	return outer != nil && n != nil && outer.Pos() <= n.Pos() && n.End() <= outer.End()
}

// c12WalkParents walks root calling fn with the stack of ancestors
// (parents[len-1] is the direct parent).
func c12WalkParents(root ast.Node, fn func(n ast.Node, parents []ast.Node)) {
	var stack []ast.Node
	ast.Inspect(root, func(n ast.Node) bool {
		if n == nil {
			stack = stack[:len(stack)-1]
			return true
		}
		fn(n, stack)
		stack = append(stack, n)
		return true
	})
}

func c12TopName(f *an.Func) string {
	if f == nil {
		return "<package level>"
	}
	return f.TopDecl().Name()
}

// c12ErrExitEdges: the branch edges on which some error-typed local variable
// is known to be non-nil (the error exits of the function).
func c12ErrExitEdges(g *an.Graph) an.Set {
	info := g.Fn.Info()
	out := an.Set{}
	seen := map[types.Object]bool{}
	errT := types.Universe.Lookup("error").Type()
	ast.Inspect(g.Fn.Body, func(n ast.Node) bool {
		id, ok := n.(*ast.Ident)
		if !ok {
			return true
		}
		o := an.ObjOf(info, id)
		v, isVar := o.(*types.Var)
		if !isVar || v.IsField() || seen[o] || !types.Identical(v.Type(), errT) {
			return true
		}
		seen[o] = true
		for e := range g.EdgesImplying(an.NilAtom(info, o), map[string]bool{"nil": false}) {
			out[e] = true
		}
		return true
	})
	return out
}

// ---------------------------------------------------------------------------

func runC12(c *rep.Ctx) {
	c.Explain = "Structural decision of the undo-log discipline behind state snapshots: who may write, shrink or alias the log fields of stateBuffer and who may call the mutating methods of its index stacks; that put performs its three updates together with the pre-increment counter as the pushed index; that rollback pops exactly the discarded suffix, deletes emptied key stacks and truncates entries and counter to the same revision; that every element read of the log goes through the top of the key's index stack; that the empty-stack sentinel and all comparisons against it agree; that every root change or persist of a buffer is followed by its reset; that each Snapshot/Rollback pair (buffer, contract state, state DB, storage cache, block state, and every caller of them) addresses the same object with a revision that came from the matching snapshot; and that readers fall through to the trie only when the buffer holds nothing for the key, derive the log key like the writers do, and that a local snapshot is rolled back to on every error exit. It decides the shape of the code (sites, dominance, operators, same-object access paths), not the values at run time."
	c.NotDecided = []string{
		"value-level correctness of nested reverts (that the restored values equal the values visible at snapshot time)",
		"contracts opened but not yet staged are outside BlockSnapshot; they are reverted by the VM's recovery points (only the pairing of that call is decided)",
		"fields of BlockState outside the snapshot (BpReward, receipts, internalOps)",
		"that trie.Update / StageUpdates themselves only see the exported keys (C10)",
		"aliasing of a stateBuffer through reflection or unsafe",
	}
	c.Assume = []string{
		"index values held in an index stack are >= 0, so a result of peek/pop is negative exactly when it is the empty sentinel -1 (put pushes the counter, which starts at 0 and only grows between rollbacks: rules put-complete, owner)",
		"stateBuffer.has/get decide presence by membership of the key in indexes; therefore rollback must delete a key whose stack became empty (rule rollback-complete|delete-empty)",
		"test files are not analysed; bufferedStorage.checkpoint/rollback have no caller outside them (rule meta-skip re-checks this on every run)",
	}
	e := &c12Env{c: c, p: c.Prog}
	e.pk = c.Prog.Pkg(c12Pkg)
	if e.pk == nil || e.pk.TypesInfo == nil {
		c.Undecide("anchor", c12Pkg, "package not loaded")
		return
	}
	e.info = e.pk.TypesInfo
	c.Pkgs[c12Pkg] = true
	e.entries = c.Prog.LookupField(c12Pkg, "stateBuffer", "entries")
	e.indexes = c.Prog.LookupField(c12Pkg, "stateBuffer", "indexes")
	e.nextIdx = c.Prog.LookupField(c12Pkg, "stateBuffer", "nextIdx")
	if e.entries == nil || e.indexes == nil || e.nextIdx == nil {
		c.Undecide("anchor", "state/statedb.stateBuffer.{entries,indexes,nextIdx}", "undo-log fields not found")
		return
	}
	if tn, ok := c.Prog.LookupObj(c12Pkg, "stateBuffer").(*types.TypeName); ok {
		e.bufNamed, _ = tn.Type().(*types.Named)
	}
	// the index types by role: the type of field indexes and its element type
	e.idxNamed, _ = e.indexes.Type().(*types.Named)
	if e.idxNamed != nil {
		if m, ok := e.idxNamed.Underlying().(*types.Map); ok {
			el := m.Elem()
			if p, ok := el.(*types.Pointer); ok {
				el = p.Elem()
			}
			e.stkNamed, _ = el.(*types.Named)
		}
	}
	if e.bufNamed == nil || e.idxNamed == nil || e.stkNamed == nil {
		c.Undecide("anchor", "state/statedb.{stateBuffer,bufferIndex,stack}", "index types not found by role (type of stateBuffer.indexes and its element type)")
		return
	}
	for _, spec := range []string{c12FnNew, c12FnPut, c12FnRollback, c12FnSnapshot, c12FnReset, c12FnStage, c12FnExport, c12FnGet} {
		if c.Fn(spec) == nil {
			return
		}
	}
	e.discoverStackMethods()
	e.ruleOwner()
	e.rulePut()
	e.ruleRollback()
	e.ruleLatestEntry()
	e.ruleSentinel()
	e.ruleReset()
	e.ruleRevisionSource()
	e.rulePairBuffer()
	e.ruleCache()
	e.ruleBlock()
	e.ruleAPIPairing()
	e.ruleMetaSkip()
	e.ruleReadThrough()
	e.ruleKeyAgreement()
	e.ruleUndoOnError()
	e.ruleDeleteVisible()
}

// ---------------------------------------------------------------------------
// role discovery: mutating / peeking methods of the index types

func (e *c12Env) methodsOf(nt *types.Named) []*an.Func {
	var out []*an.Func
	for i := 0; i < nt.NumMethods(); i++ {
		if f := e.p.FuncOf(nt.Method(i)); f != nil && f.Body != nil {
			out = append(out, f)
		}
	}
	return out
}

func (e *c12Env) discoverStackMethods() {
	e.mutators, e.peekers, e.poppers = map[string]bool{}, map[string]bool{}, map[string]bool{}
	var ms []*an.Func
	ms = append(ms, e.methodsOf(e.stkNamed)...)
	ms = append(ms, e.methodsOf(e.idxNamed)...)
	// direct: writes through the receiver
	for _, f := range ms {
		recv := c12Receiver(f)
		if recv == nil {
			continue
		}
		base := func(x ast.Expr) types.Object {
			for {
				x = ast.Unparen(x)
				switch y := x.(type) {
				case *ast.IndexExpr:
					x = y.X
					continue
				case *ast.SliceExpr:
					x = y.X
					continue
				case *ast.StarExpr:
					x = y.X
					continue
				}
				break
			}
			return an.ObjOf(f.Info(), x)
		}
		mut := false
		an.InspectShallow(f.Body, func(n ast.Node) bool {
			switch s := n.(type) {
			case *ast.AssignStmt:
				for _, l := range s.Lhs {
					if _, isID := ast.Unparen(l).(*ast.Ident); isID {
						continue // rebinding the receiver variable itself is local
					}
					if base(l) == recv {
						mut = true
					}
				}
			case *ast.IncDecStmt:
				if _, isID := ast.Unparen(s.X).(*ast.Ident); !isID && base(s.X) == recv {
					mut = true
				}
			case *ast.CallExpr:
				if an.IsBuiltin(f.Info(), s, "delete") && len(s.Args) > 0 && base(s.Args[0]) == recv {
					mut = true
				}
			}
			return true
		})
		if mut {
			e.mutators[f.Name()] = true
		}
	}
	// transitive: calls a mutating method of the index types
	for changed := true; changed; {
		changed = false
		for _, f := range ms {
			if e.mutators[f.Name()] {
				continue
			}
			for _, call := range an.CallsIn(f.Body) {
				if e.mutators[an.CalleeName(f.Info(), call)] {
					e.mutators[f.Name()] = true
					changed = true
				}
			}
		}
	}
	// roles by signature and shape, not by name:
	//   stack top reader : method of stack, no parameter, int result, some constant result, not mutating
	//   stack pop        : the same, mutating
	//   index top reader : method of bufferIndex, one parameter (the key), int result, delegates to a stack top reader
	//   index pop        : the same, delegates to a stack pop
	//   pusher           : mutating method with a variadic int parameter
	e.pushers = map[string]bool{}
	isRecv := func(f *an.Func, nt *types.Named) bool {
		t := f.Obj.Type().(*types.Signature).Recv().Type()
		if p, ok := t.(*types.Pointer); ok {
			t = p.Elem()
		}
		return t == types.Type(nt)
	}
	intResult := func(sig *types.Signature) bool {
		if sig.Results().Len() != 1 {
			return false
		}
		b, ok := sig.Results().At(0).Type().(*types.Basic)
		return ok && b.Kind() == types.Int
	}
	for _, f := range ms {
		sig := f.Obj.Type().(*types.Signature)
		if sig.Variadic() && e.mutators[f.Name()] {
			if sl, ok := sig.Params().At(sig.Params().Len() - 1).Type().(*types.Slice); ok {
				if b, ok := sl.Elem().(*types.Basic); ok && b.Kind() == types.Int {
					e.pushers[f.Name()] = true
				}
			}
		}
		if !isRecv(f, e.stkNamed) || sig.Params().Len() != 0 || !intResult(sig) {
			continue
		}
		hasConst := false
		an.InspectShallow(f.Body, func(n ast.Node) bool {
			if r, ok := n.(*ast.ReturnStmt); ok && len(r.Results) == 1 {
				if _, ok := c12ConstInt(f.Info(), r.Results[0]); ok {
					hasConst = true
				}
			}
			return true
		})
		if !hasConst {
			continue
		}
		if e.mutators[f.Name()] {
			e.poppers[f.Name()] = true
		} else {
			e.peekers[f.Name()] = true
		}
	}
	for _, f := range ms {
		sig := f.Obj.Type().(*types.Signature)
		if !isRecv(f, e.idxNamed) || sig.Params().Len() != 1 || sig.Variadic() || !intResult(sig) {
			continue
		}
		pk, pp := false, false
		for _, call := range an.CallsIn(f.Body) {
			n := an.CalleeName(f.Info(), call)
			if e.peekers[n] {
				pk = true
			}
			if e.poppers[n] {
				pp = true
			}
		}
		switch {
		case pp:
			e.poppers[f.Name()] = true
		case pk:
			e.peekers[f.Name()] = true
		}
	}
	var mnames []string
	for k := range e.mutators {
		mnames = append(mnames, k)
	}
	sort.Strings(mnames)
	e.c.Note("role discovery: mutating methods of the index types: %s", strings.Join(mnames, ", "))
	// cross-check the role split: peekers are not mutators, poppers are
	for k := range e.peekers {
		e.c.CheckTrivial("empty-sentinel", "role|"+k, token.NoPos, !e.mutators[k], "the top-of-stack reader does not write through its receiver")
	}
	for k := range e.poppers {
		e.c.CheckTrivial("empty-sentinel", "role|"+k, token.NoPos, e.mutators[k], "pop writes through its receiver (role discovery)")
	}
	if len(e.peekers) < 2 || len(e.poppers) < 2 || len(e.pushers) < 1 || len(e.mutators) < 4 {
		e.c.Undecide("anchor", "state/statedb.{stack,bufferIndex}.{peek,pop,push}", "index stack methods not found")
	}
}

// isField reports whether expr selects the given stateBuffer field; it returns
// the access path of the buffer.
func (e *c12Env) isField(info *types.Info, x ast.Expr, f *types.Var) (c12Path, bool) {
	if an.FieldOf(info, x) != f {
		return c12Path{}, false
	}
	se := ast.Unparen(x).(*ast.SelectorExpr)
	p, ok := c12PathOf(info, se.X)
	if !ok {
		return c12Path{}, true // field of an unnamed path (call result ...): matched, no path
	}
	return p, true
}

// stackOrigin: the expression s denotes an index stack of buffer `buf`:
//
//	buf.indexes[k] | v (range value of buf.indexes) | v, ok := buf.indexes[k]
func (e *c12Env) stackOrigin(g *an.Graph, s ast.Expr, depth int) (buf c12Path, key ast.Expr, ok bool) {
	info := g.Fn.Info()
	s = ast.Unparen(s)
	if ix, isIx := s.(*ast.IndexExpr); isIx {
		if p, is := e.isField(info, ix.X, e.indexes); is && p.root != nil {
			return p, ix.Index, true
		}
		return c12Path{}, nil, false
	}
	id, isID := s.(*ast.Ident)
	if !isID || depth > 2 {
		return c12Path{}, nil, false
	}
	obj := an.ObjOf(info, id)
	d := c12DefOf(g, obj)
	if d.count == 0 && c12IsParam(g.Fn, obj) && depth == 0 {
		return e.stackParamOrigin(g, obj)
	}
	if d.count != 1 {
		return c12Path{}, nil, false
	}
	if d.rng != nil && !d.isKey {
		if p, is := e.isField(info, d.rng.X, e.indexes); is && p.root != nil {
			return p, d.rng.Key, true
		}
		return c12Path{}, nil, false
	}
	if d.rhs != nil && d.idx == 0 {
		return e.stackOrigin(g, d.rhs, depth+1)
	}
	return c12Path{}, nil, false
}

// stackParamOrigin: obj is a *stack parameter of an extracted helper method of
// stateBuffer.  Every call site of the helper must pass an index stack of the
// very buffer it is called on; the stack then belongs to the helper's receiver.
func (e *c12Env) stackParamOrigin(g *an.Graph, obj types.Object) (c12Path, ast.Expr, bool) {
	f := g.Fn
	recv := c12Receiver(f)
	if f.Obj == nil || recv == nil || f.Obj.Exported() {
		return c12Path{}, nil, false
	}
	pidx := -1
	i := 0
	for _, fl := range f.Type.Params.List {
		for _, nm := range fl.Names {
			if f.Info().Defs[nm] == obj {
				pidx = i
			}
			i++
		}
	}
	sites := e.p.CallSitesOf(map[string]bool{f.Name(): true})
	if pidx < 0 || len(sites) == 0 || len(e.p.FuncRefs(map[string]bool{f.Name(): true})) > 0 {
		return c12Path{}, nil, false
	}
	for _, s := range sites {
		if s.Fn == nil || s.Fn.Body == nil || pidx >= len(s.Call.Args) || s.Call.Ellipsis != token.NoPos {
			return c12Path{}, nil, false
		}
		cg := s.Fn.Graph()
		rp, is := c12RecvPath(s.Fn.Info(), s.Call)
		buf, _, ok := e.stackOrigin(cg, s.Call.Args[pidx], 1)
		if !is || !ok || !buf.eq(rp) {
			return c12Path{}, nil, false
		}
	}
	return c12Path{root: recv}, nil, true
}

// topCall: the call reads (peek) or removes (pop) the top of an index stack of
// buffer buf under key; which is "peek" or "pop".
func (e *c12Env) topCall(g *an.Graph, call *ast.CallExpr) (buf c12Path, key ast.Expr, which string, ok bool) {
	info := g.Fn.Info()
	name := an.CalleeName(info, call)
	switch {
	case e.peekers[name]:
		which = "peek"
	case e.poppers[name]:
		which = "pop"
	default:
		return c12Path{}, nil, "", false
	}
	recv := c12RecvExpr(call)
	if recv == nil {
		return c12Path{}, nil, "", false
	}
	if len(call.Args) == 1 {
		// bufferIndex.peek(key) / pop(key): the receiver is buf.indexes
		if p, is := e.isField(info, recv, e.indexes); is && p.root != nil {
			return p, call.Args[0], which, true
		}
		return c12Path{}, nil, "", false
	}
	buf, key, ok = e.stackOrigin(g, recv, 0)
	return buf, key, which, ok
}

// topValue: e is (a variable defined once as) the result of a peek on an index
// stack; returns the buffer and key.
func (e *c12Env) topValue(g *an.Graph, x ast.Expr) (buf c12Path, key ast.Expr, call *ast.CallExpr, ok bool) {
	info := g.Fn.Info()
	x = ast.Unparen(x)
	if id, isID := x.(*ast.Ident); isID {
		d := c12DefOf(g, an.ObjOf(info, id))
		if d.count != 1 || d.rhs == nil || d.idx != 0 {
			return c12Path{}, nil, nil, false
		}
		x = ast.Unparen(d.rhs)
	}
	cl, isCall := x.(*ast.CallExpr)
	if !isCall {
		return c12Path{}, nil, nil, false
	}
	b, k, which, is := e.topCall(g, cl)
	if !is || which != "peek" {
		return c12Path{}, nil, nil, false
	}
	return b, k, cl, true
}

// keyOf: k is entry.KeyID() of (a variable holding) x; returns x's object when
// x is an identifier, and the expression x.
func (e *c12Env) keyOf(info *types.Info, k ast.Expr) (ast.Expr, bool) {
	call, ok := ast.Unparen(k).(*ast.CallExpr)
	if !ok || len(call.Args) != 0 {
		return nil, false
	}
	fn := an.Callee(info, call)
	if fn == nil || fn.Name() != "KeyID" {
		return nil, false
	}
	// the method of the entry interface (or of a type implementing it)
	if an.FuncName(fn) != c12FnKeyID {
		return nil, false
	}
	return c12RecvExpr(call), true
}

// ---------------------------------------------------------------------------
// rule owner

func (e *c12Env) ruleOwner() {
	c := e.c
	fields := map[*types.Var]bool{e.entries: true, e.indexes: true, e.nextIdx: true}
	// 1. direct writes (assign, op-assign, ++/--, literal key, address-of)
	for _, w := range e.p.FieldWrites(fields) {
		fn := c12TopName(w.Fn)
		_, owner := c12Owners[fn]
		c.Check("owner", w.Field.Name()+"|"+w.How+"|"+fn, w.Pos, owner, "stateBuffer."+w.Field.Name()+" may be written only by newStateBuffer, put and rollback ("+w.How+" in "+fn+")")
	}
	// unkeyed composite literals of stateBuffer
	for _, f := range e.pk.Syntax {
		ast.Inspect(f, func(n ast.Node) bool {
			cl, ok := n.(*ast.CompositeLit)
			if !ok || len(cl.Elts) == 0 {
				return true
			}
			tv, has := e.info.Types[cl]
			if !has || tv.Type == nil {
				return true
			}
			t := tv.Type
			if types.Identical(t, e.bufNamed) {
				if _, keyed := cl.Elts[0].(*ast.KeyValueExpr); !keyed {
					fn := c12TopName(e.p.EnclosingFunc(e.pk, cl.Pos()))
					_, owner := c12Owners[fn]
					c.Check("owner", "literal|positional|"+fn, cl.Pos(), owner, "positional stateBuffer literal outside the constructor")
				}
			}
			return true
		})
	}
	// 2. uses that shrink, alias or delete: by syntactic form, everywhere in the package
	for _, file := range e.pk.Syntax {
		c12WalkParents(file, func(n ast.Node, parents []ast.Node) {
			se, ok := n.(*ast.SelectorExpr)
			if !ok || len(parents) == 0 {
				return
			}
			fv := an.FieldOf(e.info, se)
			if !fields[fv] || fv == e.nextIdx {
				return
			}
			par := parents[len(parents)-1]
			for {
				if pe, isParen := par.(*ast.ParenExpr); isParen && len(parents) > 1 {
					_ = pe
					parents = parents[:len(parents)-1]
					par = parents[len(parents)-1]
					continue
				}
				break
			}
			encl := e.p.EnclosingFunc(e.pk, se.Pos())
			fn := c12TopName(encl)
			_, owner := c12Owners[fn]
			form := ""
			switch x := par.(type) {
			case *ast.IndexExpr:
				if x.X == ast.Expr(se) {
					return // element read (rule latest-entry) or element write (FieldWrites above)
				}
				form = "used as an index"
			case *ast.SliceExpr:
				if x.X == ast.Expr(se) {
					form = "sliced"
				}
			case *ast.RangeStmt:
				if x.X == ast.Expr(se) {
					if fv == e.indexes {
						return // per-key iteration
					}
					form = "ranged over"
				}
			case *ast.AssignStmt:
				for _, l := range x.Lhs {
					if l == ast.Expr(se) {
						return // write: FieldWrites above
					}
				}
				form = "copied (alias)"
			case *ast.CallExpr:
				if id, isID := ast.Unparen(x.Fun).(*ast.Ident); isID {
					if _, isB := e.info.Uses[id].(*types.Builtin); isB {
						switch id.Name {
						case "len", "cap":
							return
						case "delete":
							form = "delete()"
						case "append":
							form = "append()"
						}
					}
				}
				if form == "" {
					form = "passed to a call (alias)"
				}
			case *ast.SelectorExpr:
				if x.X == ast.Expr(se) {
					// method call on the field: mutators are handled below, the rest reads
					return
				}
			case *ast.UnaryExpr:
				if x.Op == token.AND {
					return // FieldWrites "addr"
				}
				form = "used in a unary expression"
			case *ast.KeyValueExpr, *ast.CompositeLit:
				return
			case *ast.ReturnStmt:
				form = "returned (alias)"
			case *ast.BinaryExpr:
				return // comparison with nil
			}
			if form == "" {
				form = "used in an unrecognised form"
			}
			if fv == e.entries && form == "ranged over" {
				// also a latest-entry violation outside the owners, reported there
			}
			if !owner && strings.Contains(form, "alias") {
				c.Undecide("owner", fv.Name()+"|"+form+"|"+fn, "stateBuffer."+fv.Name()+" is "+form+" outside its owners: accesses through the alias cannot be attributed")
				return
			}
			c.Check("owner", fv.Name()+"|"+form+"|"+fn, se.Pos(), owner, "stateBuffer."+fv.Name()+" is "+form+" in "+fn+": only newStateBuffer, put and rollback may shrink, delete from, append to or alias the undo log")
		})
	}
	// 3. callers of the mutating methods of the index types
	idxMethod := func(name string) bool {
		return strings.HasPrefix(name, c12Pkg+".(*"+e.stkNamed.Obj().Name()+").") || strings.HasPrefix(name, c12Pkg+".(*"+e.idxNamed.Obj().Name()+").") ||
			strings.HasPrefix(name, c12Pkg+".("+e.stkNamed.Obj().Name()+").") || strings.HasPrefix(name, c12Pkg+".("+e.idxNamed.Obj().Name()+").")
	}
	for _, s := range e.p.CallSitesOf(e.mutators) {
		fn := c12TopName(s.Fn)
		_, owner := c12Owners[fn]
		ok := owner || idxMethod(fn)
		c.Check("owner", "call "+an.FuncName(s.Obj)+"|"+fn, s.Call.Pos(), ok, "a mutating method of the index stacks may be called only by put, rollback and the index types themselves (called in "+fn+")")
	}
	for _, s := range e.p.FuncRefs(e.mutators) {
		fn := c12TopName(s.Fn)
		c.Check("owner", "ref "+an.FuncName(s.Obj)+"|"+fn, token.NoPos, false, "a mutating method of the index stacks is taken as a value in "+fn)
	}
	c.Floor("owner", 10)
}

// ---------------------------------------------------------------------------
// rule put-complete

func (e *c12Env) rulePut() {
	c := e.c
	f := c.Fn(c12FnPut)
	g := f.Graph()
	info := f.Info()
	recv := c12Receiver(f)
	self := c12Path{root: recv}
	// the entry parameter
	var param types.Object
	if f.Type.Params != nil {
		for _, fl := range f.Type.Params.List {
			for _, nm := range fl.Names {
				param = info.Defs[nm]
			}
		}
	}
	if recv == nil || param == nil || f.Type.Params.NumFields() != 1 {
		c.Undecide("put-complete", c12FnPut, "expected one receiver and one entry parameter")
		return
	}
	var appendN, pushN, incN []*an.Node
	var pushVal ast.Expr
	var pushKeys []ast.Expr
	pushArgs := 0
	for _, n := range g.Nodes {
		if n.Kind != an.KStmt {
			continue
		}
		switch s := n.Ast.(type) {
		case *ast.AssignStmt:
			for i, l := range s.Lhs {
				// entries = append(entries, et)
				if p, is := e.isField(info, l, e.entries); is {
					okShape := false
					if p.eq(self) && len(s.Rhs) == len(s.Lhs) {
						if call, isCall := ast.Unparen(s.Rhs[i]).(*ast.CallExpr); isCall && an.IsBuiltin(info, call, "append") && len(call.Args) == 2 && call.Ellipsis == token.NoPos {
							if p0, is0 := e.isField(info, call.Args[0], e.entries); is0 && p0.eq(self) && an.ObjOf(info, call.Args[1]) == param {
								okShape = true
							}
						}
					}
					c.Check("put-complete", "append-shape", s.Pos(), okShape, "put grows the log by exactly `entries = append(entries, <the entry parameter>)` on its own buffer")
					appendN = append(appendN, n)
				}
				// indexes[key] = indexes[key].push(v)
				if ix, isIx := ast.Unparen(l).(*ast.IndexExpr); isIx {
					if p, is := e.isField(info, ix.X, e.indexes); is {
						pushN = append(pushN, n)
						pushKeys = append(pushKeys, ix.Index)
						shape := false
						if p.eq(self) && len(s.Rhs) == len(s.Lhs) {
							if call, isCall := ast.Unparen(s.Rhs[i]).(*ast.CallExpr); isCall && e.pushers[an.CalleeName(info, call)] {
								if rb, rk, is2 := e.stackOrigin(g, c12RecvExpr(call), 0); is2 && rb.eq(self) {
									pushKeys = append(pushKeys, rk)
									pushArgs = len(call.Args)
									if len(call.Args) == 1 && call.Ellipsis == token.NoPos {
										pushVal = call.Args[0]
										shape = true
									}
								}
							}
						}
						c.Check("put-complete", "push-shape", s.Pos(), shape, "put stores `indexes[key].push(<one index>)` back under indexes[key] of its own buffer")
					}
				}
				// nextIdx = nextIdx + 1 / nextIdx += 1
				if p, is := e.isField(info, l, e.nextIdx); is {
					okInc := false
					if p.eq(self) && len(s.Rhs) == 1 {
						if s.Tok == token.ADD_ASSIGN {
							v, isC := c12ConstInt(info, s.Rhs[0])
							okInc = isC && v == 1
						} else if s.Tok == token.ASSIGN {
							if be, isBin := ast.Unparen(s.Rhs[0]).(*ast.BinaryExpr); isBin && be.Op == token.ADD {
								for _, pr := range [][2]ast.Expr{{be.X, be.Y}, {be.Y, be.X}} {
									if p0, is0 := e.isField(info, pr[0], e.nextIdx); is0 && p0.eq(self) {
										if v, isC := c12ConstInt(info, pr[1]); isC && v == 1 {
											okInc = true
										}
									}
								}
							}
						}
					}
					c.Check("put-complete", "counter-shape", s.Pos(), okInc, "put advances nextIdx by exactly one")
					incN = append(incN, n)
				}
			}
		case *ast.IncDecStmt:
			if p, is := e.isField(info, s.X, e.nextIdx); is {
				c.Check("put-complete", "counter-shape", s.Pos(), p.eq(self) && s.Tok == token.INC, "put advances nextIdx by exactly one")
				incN = append(incN, n)
			}
		case *ast.ExprStmt:
			// indexes.push(key, v)
			if call, isCall := ast.Unparen(s.X).(*ast.CallExpr); isCall {
				name := an.CalleeName(info, call)
				if e.pushers[name] {
					if p, is := e.isField(info, c12RecvExpr(call), e.indexes); is {
						pushN = append(pushN, n)
						shape := p.eq(self) && len(call.Args) == 2 && call.Ellipsis == token.NoPos
						if shape {
							pushKeys = append(pushKeys, call.Args[0])
							pushVal = call.Args[1]
							pushArgs = 1
						}
						c.Check("put-complete", "push-shape", s.Pos(), shape, "put pushes exactly one index under the entry's key on its own buffer")
					}
				}
			}
		}
	}
	_ = pushArgs
	if len(appendN) != 1 || len(pushN) != 1 || len(incN) != 1 {
		c.Check("put-complete", "once", f.Pos(), false, "put must append to entries, push on the key's index stack and advance nextIdx exactly once each (found "+itoa(len(appendN))+" appends, "+itoa(len(pushN))+" index pushes, "+itoa(len(incN))+" counter updates)")
		return
	}
	a, pu, in := appendN[0], pushN[0], incN[0]
	c.Check("put-complete", "once", f.Pos(), !g.InLoop(a) && !g.InLoop(pu) && !g.InLoop(in), "append, index push and counter update occur once each, outside any loop")
	c.Check("put-complete", "together", f.Pos(), c12Together(g, a, pu) && c12Together(g, a, in) && c12Together(g, pu, in) && g.Reach([]*an.Node{g.Entry}, nil)[a],
		"on every path to the normal exit the three updates are performed together (none of them can be skipped alone)")
	c.Check("put-complete", "unconditional", f.Pos(), g.PostDominated(g.Entry, an.SetOf(a)) && g.PostDominated(g.Entry, an.SetOf(pu)) && g.PostDominated(g.Entry, an.SetOf(in)),
		"put records the entry on every path to its normal exit: no write handed to put is dropped")
	// the pushed key is the KeyID of the appended entry
	keysOK := len(pushKeys) > 0
	for _, k := range pushKeys {
		x, is := e.keyOf(info, k)
		if !is || an.ObjOf(info, x) != param {
			// a local holding et.KeyID()
			if id, isID := ast.Unparen(k).(*ast.Ident); isID {
				d := c12DefOf(g, an.ObjOf(info, id))
				if d.count == 1 && d.rhs != nil {
					if x2, is2 := e.keyOf(info, d.rhs); is2 && an.ObjOf(info, x2) == param {
						continue
					}
				}
			}
			keysOK = false
		}
	}
	c.Check("put-complete", "push-key", pu.Ast.Pos(), keysOK, "the index is pushed (and stored back) under KeyID() of the appended entry")
	// the pushed value is the counter before the increment == position of the appended entry
	if pushVal != nil {
		ok, decided, why := e.preIncrementCounter(g, pushVal, pu, in, a, self)
		if !decided {
			c.Undecide("put-complete", "push-value", "cannot decide where the pushed index comes from: "+why)
		} else {
			c.Check("put-complete", "push-value", pushVal.Pos(), ok, "the pushed index is the counter before its increment (the position the entry is appended at): "+why)
		}
	}
	c.Floor("put-complete", 7)
}

// preIncrementCounter decides whether v, evaluated for the push at vertex pu,
// is the value of nextIdx before the increment at vertex in (or len(entries)
// before the append at vertex a).
func (e *c12Env) preIncrementCounter(g *an.Graph, v ast.Expr, pu, in, a *an.Node, self c12Path) (ok, decided bool, why string) {
	info := g.Fn.Info()
	at := pu
	x := ast.Unparen(v)
	if id, isID := x.(*ast.Ident); isID {
		d := c12DefOf(g, an.ObjOf(info, id))
		if d.count != 1 || d.rhs == nil || d.idx != 0 {
			return false, false, "the pushed variable is not defined exactly once"
		}
		at = d.node
		x = ast.Unparen(d.rhs)
	}
	// recognised sources
	src := ""
	if p, is := e.isField(info, x, e.nextIdx); is && p.eq(self) {
		src = "nextIdx"
	}
	if call, isCall := x.(*ast.CallExpr); isCall {
		if an.CalleeName(info, call) == c12FnSnapshot {
			if rp, is := c12RecvPath(info, call); is && rp.eq(self) {
				src = "snapshot()"
			}
		}
		if an.IsBuiltin(info, call, "len") && len(call.Args) == 1 {
			if p, is := e.isField(info, call.Args[0], e.entries); is && p.eq(self) {
				src = "len(entries)"
			}
		}
	}
	if src == "" {
		if be, isBin := x.(*ast.BinaryExpr); isBin && (be.Op == token.ADD || be.Op == token.SUB) {
			// counter +- constant: recognised and wrong
			for _, pr := range [][2]ast.Expr{{be.X, be.Y}, {be.Y, be.X}} {
				if _, isC := c12ConstInt(info, pr[1]); isC {
					if ok2, dec2, _ := e.preIncrementCounter(g, pr[0], pu, in, a, self); dec2 {
						_ = ok2
						return false, true, "the pushed index is offset by a constant from the counter"
					}
				}
			}
		}
		return false, false, "unrecognised expression " + an.ExprString(v)
	}
	switch src {
	case "nextIdx", "snapshot()":
		// evaluated before the increment: the increment must not precede it
		if at == in || g.Reachable(in, at) {
			return false, true, src + " is read after the increment"
		}
		return g.Reachable(at, in) || at == pu, true, src + " read before the increment"
	default:
		if at == a || g.Reachable(a, at) {
			return false, true, src + " is read after the append"
		}
		return true, true, src + " read before the append"
	}
}

// ---------------------------------------------------------------------------
// rule rollback-complete

func (e *c12Env) ruleRollback() {
	c := e.c
	f := c.Fn(c12FnRollback)
	g := f.Graph()
	info := f.Info()
	recv := c12Receiver(f)
	self := c12Path{root: recv}
	var param types.Object
	if f.Type.Params != nil && f.Type.Params.NumFields() == 1 {
		for _, nm := range f.Type.Params.List[0].Names {
			param = info.Defs[nm]
		}
	}
	if recv == nil || param == nil {
		c.Undecide("rollback-complete", c12FnRollback, "expected one receiver and one revision parameter")
		return
	}
	c.Check("rollback-complete", "revision-stable", f.Pos(), c12DefOf(g, param).count == 0, "the revision parameter is never reassigned inside rollback")
	// ---- truncation and counter
	var truncN, cntN []*an.Node
	for _, n := range g.Nodes {
		if n.Kind != an.KStmt {
			continue
		}
		switch s := n.Ast.(type) {
		case *ast.AssignStmt:
			for i, l := range s.Lhs {
				if p, is := e.isField(info, l, e.entries); is {
					ok := false
					if p.eq(self) && len(s.Rhs) == len(s.Lhs) && s.Tok == token.ASSIGN {
						if sl, isSl := ast.Unparen(s.Rhs[i]).(*ast.SliceExpr); isSl && sl.High != nil && !sl.Slice3 {
							lowOK := sl.Low == nil
							if v, isC := c12ConstInt(info, sl.Low); sl.Low != nil && isC && v == 0 {
								lowOK = true
							}
							if p0, is0 := e.isField(info, sl.X, e.entries); is0 && p0.eq(self) && lowOK && an.ObjOf(info, sl.High) == param {
								ok = true
							}
						}
					}
					c.Check("rollback-complete", "truncate-shape", s.Pos(), ok, "rollback cuts the log to `entries[:revision]` (the revision parameter itself, no offset)")
					truncN = append(truncN, n)
				}
				if p, is := e.isField(info, l, e.nextIdx); is {
					ok := p.eq(self) && len(s.Rhs) == len(s.Lhs) && s.Tok == token.ASSIGN && an.ObjOf(info, s.Rhs[i]) == param
					c.Check("rollback-complete", "counter-shape", s.Pos(), ok, "rollback sets nextIdx to the revision parameter itself (the same value entries is cut to)")
					cntN = append(cntN, n)
				}
			}
		case *ast.IncDecStmt:
			if _, is := e.isField(info, s.X, e.nextIdx); is {
				c.Check("rollback-complete", "counter-shape", s.Pos(), false, "rollback must set nextIdx to the revision, not step it")
				cntN = append(cntN, n)
			}
		}
	}
	// ---- the pop loop
	var loops []*ast.ForStmt
	an.InspectShallow(f.Body, func(n ast.Node) bool {
		if fs, ok := n.(*ast.ForStmt); ok {
			// a loop that indexes entries with its variable
			uses := false
			an.InspectShallow(fs.Body, func(m ast.Node) bool {
				if ix, ok := m.(*ast.IndexExpr); ok {
					if _, is := e.isField(info, ix.X, e.entries); is {
						uses = true
					}
				}
				return true
			})
			if uses {
				loops = append(loops, fs)
			}
		}
		return true
	})
	if len(loops) != 1 || len(truncN) != 1 || len(cntN) != 1 {
		if len(loops) == 0 && len(truncN) == 1 && len(cntN) == 1 {
			c.Undecide("rollback-complete", "pop-loop", "no for-loop over the discarded suffix of entries found: unrecognised shape of rollback")
			return
		}
		c.Check("rollback-complete", "once", f.Pos(), false, "rollback must pop the discarded suffix in one loop, cut entries once and set nextIdx once (found "+itoa(len(loops))+" loops, "+itoa(len(truncN))+" cuts, "+itoa(len(cntN))+" counter writes)")
		return
	}
	loop, tr, cn := loops[0], truncN[0], cntN[0]
	head, body := c12LoopHead(g, loop)
	if head == nil || body == nil {
		c.Undecide("rollback-complete", "pop-loop", "loop without a condition")
		return
	}
	c.Check("rollback-complete", "together", f.Pos(), c12Together(g, tr, cn) && c12Together(g, head, tr) && c12Together(g, head, cn) && g.Reach([]*an.Node{g.Entry}, nil)[tr] && !g.InLoop(tr) && !g.InLoop(cn),
		"on every path to the normal exit the index pops, the cut of entries and the counter reset are performed together")
	{
		// exits that return a non-nil error expression are error exits
		errRet := an.Set{}
		for _, r := range g.Returns() {
			rs := r.Ast.(*ast.ReturnStmt)
			if len(rs.Results) > 0 {
				if tv, has := info.Types[rs.Results[len(rs.Results)-1]]; has && !tv.IsNil() {
					if _, isCall := ast.Unparen(rs.Results[len(rs.Results)-1]).(*ast.CallExpr); isCall || tv.Value == nil {
						if id, isID := ast.Unparen(rs.Results[len(rs.Results)-1]).(*ast.Ident); !isID || id.Name != "nil" {
							errRet[r] = true
						}
					}
				}
			}
		}
		all := g.PostDominated(g.Entry, an.SetOf(tr).Union(errRet)) && g.PostDominated(g.Entry, an.SetOf(cn).Union(errRet)) && g.PostDominated(g.Entry, an.SetOf(head).Union(errRet))
		if !all && c12Together(g, tr, cn) && c12Together(g, head, tr) {
			c.Undecide("rollback-complete", "unconditional", "rollback has a normal exit that skips the whole undo (an early `return nil`): whether the skipped case is really a no-op is a value question this check does not decide")
		} else {
			c.Check("rollback-complete", "unconditional", f.Pos(), all, "every exit of rollback that does not return an error has popped the indexes, cut entries and set the counter")
		}
	}
	// order: the loop reads nextIdx and entries[i], so both writes come after it
	c.Check("rollback-complete", "order", tr.Ast.Pos(), !g.Reachable(tr, head) && !g.Reachable(cn, head) && g.Reachable(head, tr) && g.Reachable(head, cn),
		"the index stacks are popped before entries is cut and before nextIdx is overwritten (the loop reads both)")
	// bounds
	lv, dir, bok, bdec, bwhy := e.loopBounds(g, loop, param, self)
	if !bdec {
		c.Undecide("rollback-complete", "pop-loop-bounds", bwhy)
	} else {
		c.Check("rollback-complete", "pop-loop-bounds", loop.Pos(), bok, "the loop visits exactly the positions revision <= i <= nextIdx-1 ("+dir+"): "+bwhy)
	}
	// body: pop of the key of entries[i], once per iteration
	var popSites []*an.Node
	var popKey ast.Expr
	popOK := true
	for _, s := range g.Calls(nil) {
		if !c12Inside(loop.Body, s.Call) {
			continue
		}
		buf, key, which, is := e.topCall(g, s.Call)
		if !is || which != "pop" {
			continue
		}
		popSites = append(popSites, s.Node)
		popKey = key
		if !buf.eq(self) {
			popOK = false
		}
	}
	if len(popSites) != 1 {
		c.Check("rollback-complete", "pop", loop.Pos(), false, "each iteration must pop the index stack of the discarded entry's key exactly once (found "+itoa(len(popSites))+" pop calls in the loop)")
	} else {
		keyOK := e.isKeyOfEntryAt(g, popKey, lv, self)
		every := c12EveryIteration(g, head, body, an.SetOf(popSites[0]))
		inner := false
		// not inside a nested loop
		r := g.Reach(popSites[0].Succs, an.SetOf(head))
		if r[popSites[0]] {
			inner = true
		}
		c.Check("rollback-complete", "pop", popSites[0].Ast.Pos(), popOK && keyOK && every && !inner,
			"every iteration pops, exactly once, the index stack of this buffer under KeyID() of entries[i]")
		// deletion of emptied stacks
		e.checkDeleteEmpty(g, loop, head, body, popSites[0], lv, self)
	}
	c.Floor("rollback-complete", 8)
}

// loopBounds recognises  for i := nextIdx-1; i >= rev; i--   and
// for i := rev; i < nextIdx; i++  (and len(entries) for nextIdx).
func (e *c12Env) loopBounds(g *an.Graph, loop *ast.ForStmt, param types.Object, self c12Path) (lv types.Object, dir string, ok, decided bool, why string) {
	info := g.Fn.Info()
	init, isAs := loop.Init.(*ast.AssignStmt)
	if !isAs || len(init.Lhs) != 1 || len(init.Rhs) != 1 || loop.Cond == nil || loop.Post == nil {
		return nil, "", false, false, "loop header is not `i := ...; cond; post`"
	}
	lv = an.ObjOf(info, init.Lhs[0])
	if lv == nil {
		return nil, "", false, false, "no loop variable"
	}
	// the loop variable is not written in the body
	written := false
	an.InspectShallow(loop.Body, func(n ast.Node) bool {
		if s, isS := n.(ast.Stmt); isS {
			if _, isB := s.(*ast.BlockStmt); !isB && an.Assigns(info, s, lv) {
				switch s.(type) {
				case *ast.AssignStmt, *ast.IncDecStmt:
					written = true
				}
			}
		}
		return true
	})
	if written {
		return lv, "", false, false, "the loop variable is assigned inside the body"
	}
	// counter expression: nextIdx or len(entries) with constant offset
	counter := func(x ast.Expr) (off int64, is bool) {
		x = ast.Unparen(x)
		if be, isBin := x.(*ast.BinaryExpr); isBin && (be.Op == token.SUB || be.Op == token.ADD) {
			if v, isC := c12ConstInt(info, be.Y); isC {
				o, is2 := int64(0), false
				if p, isF := e.isField(info, be.X, e.nextIdx); isF && p.eq(self) {
					is2 = true
				} else if call, isCall := ast.Unparen(be.X).(*ast.CallExpr); isCall && an.IsBuiltin(info, call, "len") && len(call.Args) == 1 {
					if p, isF := e.isField(info, call.Args[0], e.entries); isF && p.eq(self) {
						is2 = true
					}
				}
				if is2 {
					if be.Op == token.SUB {
						return o - v, true
					}
					return o + v, true
				}
			}
			return 0, false
		}
		if p, isF := e.isField(info, x, e.nextIdx); isF && p.eq(self) {
			return 0, true
		}
		if call, isCall := x.(*ast.CallExpr); isCall && an.IsBuiltin(info, call, "len") && len(call.Args) == 1 {
			if p, isF := e.isField(info, call.Args[0], e.entries); isF && p.eq(self) {
				return 0, true
			}
		}
		return 0, false
	}
	// revision expression: the parameter with constant offset
	revision := func(x ast.Expr) (off int64, is bool) {
		x = ast.Unparen(x)
		if an.ObjOf(info, x) == param {
			return 0, true
		}
		if be, isBin := x.(*ast.BinaryExpr); isBin && (be.Op == token.SUB || be.Op == token.ADD) && an.ObjOf(info, be.X) == param {
			if v, isC := c12ConstInt(info, be.Y); isC {
				if be.Op == token.SUB {
					return -v, true
				}
				return v, true
			}
		}
		return 0, false
	}
	cond, isBin := ast.Unparen(loop.Cond).(*ast.BinaryExpr)
	if !isBin {
		return lv, "", false, false, "loop condition is not a comparison"
	}
	cx, cy, op := cond.X, cond.Y, cond.Op
	if an.ObjOf(info, cy) == lv {
		cx, cy = cy, cx
		switch op {
		case token.LSS:
			op = token.GTR
		case token.GTR:
			op = token.LSS
		case token.LEQ:
			op = token.GEQ
		case token.GEQ:
			op = token.LEQ
		}
	}
	if an.ObjOf(info, cx) != lv {
		return lv, "", false, false, "loop condition does not test the loop variable"
	}
	step := 0
	switch ps := loop.Post.(type) {
	case *ast.IncDecStmt:
		if an.ObjOf(info, ps.X) == lv {
			if ps.Tok == token.INC {
				step = 1
			} else {
				step = -1
			}
		}
	case *ast.AssignStmt:
		if len(ps.Lhs) == 1 && len(ps.Rhs) == 1 && an.ObjOf(info, ps.Lhs[0]) == lv {
			if v, isC := c12ConstInt(info, ps.Rhs[0]); isC && v == 1 {
				if ps.Tok == token.ADD_ASSIGN {
					step = 1
				} else if ps.Tok == token.SUB_ASSIGN {
					step = -1
				}
			}
		}
	}
	if step == 0 {
		return lv, "", false, false, "loop step is not +1 / -1 on the loop variable"
	}
	if step < 0 {
		// i := counter-1 ; i >= rev  (or i > rev-1)
		io, is1 := counter(init.Rhs[0])
		ro, is2 := revision(cy)
		if !is1 || !is2 {
			return lv, "descending", false, false, "descending loop whose start is not nextIdx-1 or whose bound is not the revision"
		}
		first := io // first visited = nextIdx + io ; must be nextIdx-1
		var last int64
		switch op {
		case token.GEQ:
			last = ro // last visited = rev + ro
		case token.GTR:
			last = ro + 1
		default:
			return lv, "descending", false, true, "descending loop with condition operator " + op.String()
		}
		if first != -1 {
			return lv, "descending", false, true, "the loop starts at nextIdx" + c12Off(first) + " instead of nextIdx-1"
		}
		if last != 0 {
			return lv, "descending", false, true, "the loop stops at revision" + c12Off(last) + " instead of the revision itself (an entry at or after the revision keeps its index, or one before it loses it)"
		}
		return lv, "descending", true, true, "start nextIdx-1, stop at the revision inclusive"
	}
	ro, is1 := revision(init.Rhs[0])
	io, is2 := counter(cy)
	if !is1 || !is2 {
		return lv, "ascending", false, false, "ascending loop whose start is not the revision or whose bound is not nextIdx"
	}
	var last int64
	switch op {
	case token.LSS:
		last = io - 1
	case token.LEQ:
		last = io
	default:
		return lv, "ascending", false, true, "ascending loop with condition operator " + op.String()
	}
	if ro != 0 {
		return lv, "ascending", false, true, "the loop starts at revision" + c12Off(ro)
	}
	if last != -1 {
		return lv, "ascending", false, true, "the loop stops at nextIdx" + c12Off(last) + " instead of nextIdx-1"
	}
	return lv, "ascending", true, true, "start at the revision, stop at nextIdx-1 inclusive"
}

func c12Off(v int64) string {
	if v == 0 {
		return "+0"
	}
	if v > 0 {
		return "+" + itoa(int(v))
	}
	return itoa(int(v))
}

// isKeyOfEntryAt: key is KeyID() of entries[lv] of buffer self (directly or
// through a local defined once from entries[lv]).
func (e *c12Env) isKeyOfEntryAt(g *an.Graph, key ast.Expr, lv types.Object, self c12Path) bool {
	info := g.Fn.Info()
	if key == nil || lv == nil {
		return false
	}
	if id, isID := ast.Unparen(key).(*ast.Ident); isID {
		d := c12DefOf(g, an.ObjOf(info, id))
		if d.count != 1 || d.rhs == nil {
			return false
		}
		key = d.rhs
	}
	x, is := e.keyOf(info, key)
	if !is {
		return false
	}
	if id, isID := ast.Unparen(x).(*ast.Ident); isID {
		d := c12DefOf(g, an.ObjOf(info, id))
		if d.count != 1 || d.rhs == nil || d.idx != 0 {
			return false
		}
		x = d.rhs
	}
	ix, isIx := ast.Unparen(x).(*ast.IndexExpr)
	if !isIx {
		return false
	}
	p, isF := e.isField(info, ix.X, e.entries)
	return isF && p.eq(self) && an.ObjOf(info, ix.Index) == lv
}

// emptyAtom: atom "E" = "the index stack is empty", recognised in a comparison
// of a peek result with an integer constant.  Values v of a peek are >= -1.
// verdict: +1 equivalent to (v == -1), -1 equivalent to (v != -1), 0 neither.
func c12SentinelVerdict(op token.Token, k int64) int {
	// truth of (v op k) at v = -1 and at v >= 0 (must be constant over v >= 0)
	at := func(v int64) bool {
		switch op {
		case token.LSS:
			return v < k
		case token.LEQ:
			return v <= k
		case token.GTR:
			return v > k
		case token.GEQ:
			return v >= k
		case token.EQL:
			return v == k
		case token.NEQ:
			return v != k
		}
		return false
	}
	empty := at(-1)
	// over v >= 0 the comparison is monotone (or a point test): constant iff it
	// agrees at 0 and at a large value and, for ==/!=, k < 0
	v0, vBig := at(0), at(1<<40)
	if v0 != vBig {
		return 0
	}
	if (op == token.EQL || op == token.NEQ) && k >= 0 {
		return 0
	}
	if empty == v0 {
		return 0 // does not separate the sentinel from real indices
	}
	if empty {
		return 1
	}
	return -1
}

func (e *c12Env) emptyAtomizer(g *an.Graph, self c12Path, keyOK func(ast.Expr) bool, seen *int, bad *[]string) an.Atomizer {
	info := g.Fn.Info()
	return func(x ast.Expr) (string, bool, bool) {
		be, ok := ast.Unparen(x).(*ast.BinaryExpr)
		if !ok {
			return "", false, false
		}
		vx, cy, op := be.X, be.Y, be.Op
		if _, isC := c12ConstInt(info, vx); isC {
			vx, cy = cy, vx
			switch op {
			case token.LSS:
				op = token.GTR
			case token.GTR:
				op = token.LSS
			case token.LEQ:
				op = token.GEQ
			case token.GEQ:
				op = token.LEQ
			}
		}
		k, isC := c12ConstInt(info, cy)
		if !isC {
			return "", false, false
		}
		buf, key, _, is := e.topValue(g, vx)
		if !is || !buf.eq(self) || (keyOK != nil && !keyOK(key)) {
			return "", false, false
		}
		*seen++
		switch c12SentinelVerdict(op, k) {
		case 1:
			return "E", false, true
		case -1:
			return "E", true, true
		}
		dup := false
		for _, b := range *bad {
			if b == an.ExprString(be) {
				dup = true
			}
		}
		if !dup {
			*bad = append(*bad, an.ExprString(be))
		}
		return "", false, false
	}
}

func (e *c12Env) checkDeleteEmpty(g *an.Graph, loop *ast.ForStmt, head, body, pop *an.Node, lv types.Object, self c12Path) {
	c := e.c
	info := g.Fn.Info()
	var dels []an.Site
	for _, s := range g.Calls(nil) {
		if !c12Inside(loop.Body, s.Call) || !an.IsBuiltin(info, s.Call, "delete") || len(s.Call.Args) != 2 {
			continue
		}
		if _, is := e.isField(info, s.Call.Args[0], e.indexes); is {
			dels = append(dels, s)
		}
	}
	if len(dels) == 0 {
		c.Check("rollback-complete", "delete-empty", loop.Pos(), false, "rollback never deletes a key whose index stack became empty: has()/get() decide presence by membership in indexes, so a fully reverted key would still be reported as buffered (and get would index entries[-1])")
		return
	}
	keyOK := func(k ast.Expr) bool { return e.isKeyOfEntryAt(g, k, lv, self) }
	for _, d := range dels {
		p, _ := e.isField(info, d.Call.Args[0], e.indexes)
		seen := 0
		var bad []string
		at := e.emptyAtomizer(g, self, keyOK, &seen, &bad)
		guarded, how := g.GuardedAt(d.Node, at, map[string]bool{"E": true})
		after := g.Reachable(pop, d.Node) && !g.Reachable(d.Node, pop) || g.InLoop(pop) && g.Dominated(d.Node, an.SetOf(pop))
		// the peek feeding the guard is evaluated after the pop
		switch {
		case seen == 0:
			c.Undecide("rollback-complete", "delete-empty", "the deletion of the key is not guarded by a recognisable comparison of the stack's top with a constant")
		default:
			msg := "the key is deleted from indexes exactly when the top of its stack, read after the pop, is the empty sentinel: " + how
			if len(bad) > 0 {
				msg += " (comparison " + strings.Join(bad, ", ") + " does not separate the sentinel -1 from the valid index 0)"
			}
			c.Check("rollback-complete", "delete-empty", d.Call.Pos(), p.eq(self) && keyOK(d.Call.Args[1]) && guarded && after && e.peekAfterPop(g, d.Node, pop, self), msg)
		}
	}
	// completeness: on the "empty" outcome the iteration cannot finish without the deletion
	seen := 0
	var bad []string
	at := e.emptyAtomizer(g, self, keyOK, &seen, &bad)
	emptyEdges := g.EdgesImplying(at, map[string]bool{"E": true})
	delNodes := an.Set{}
	for _, d := range dels {
		delNodes[d.Node] = true
	}
	if len(emptyEdges) > 0 {
		okAll := true
		for ed := range emptyEdges {
			if !c12Inside(loop.Body, ed.Ast) {
				continue
			}
			r := g.Reach([]*an.Node{ed}, delNodes)
			if r[head] || r[g.Exit] {
				okAll = false
			}
		}
		c.Check("rollback-complete", "delete-empty-always", loop.Pos(), okAll, "whenever the stack is found empty after the pop, the key is deleted before the iteration ends")
	}
}

// peekAfterPop: every peek whose result guards vertex n is evaluated after the pop.
func (e *c12Env) peekAfterPop(g *an.Graph, n, pop *an.Node, self c12Path) bool {
	info := g.Fn.Info()
	ok := true
	for _, ft := range g.FactsAt(n) {
		ast.Inspect(ft.Cond, func(m ast.Node) bool {
			x, isE := m.(ast.Expr)
			if !isE {
				return true
			}
			if _, _, call, is := e.topValue(g, x); is {
				pn := g.NodeContaining(call.Pos())
				if pn == nil || !(g.Dominated(pn, an.SetOf(pop)) && g.Reachable(pop, pn)) {
					ok = false
				}
				return false
			}
			return true
		})
	}
	_ = info
	return ok
}

// ---------------------------------------------------------------------------
// rule latest-entry

func (e *c12Env) ruleLatestEntry() {
	c := e.c
	n := 0
	for _, file := range e.pk.Syntax {
		c12WalkParents(file, func(nd ast.Node, parents []ast.Node) {
			switch x := nd.(type) {
			case *ast.RangeStmt:
				if _, is := e.isField(e.info, x.X, e.entries); is {
					fn := c12TopName(e.p.EnclosingFunc(e.pk, x.Pos()))
					_, owner := c12Owners[fn]
					n++
					c.Check("latest-entry", "range|"+fn, x.Pos(), owner, fn+" iterates entries directly: overwritten entries of a key would be visited too; readers must go through indexes[key].peek()")
				}
			case *ast.IndexExpr:
				bp, is := e.isField(e.info, x.X, e.entries)
				if !is {
					return
				}
				// element write?  (put/rollback never do; FieldWrites reports it under owner)
				if len(parents) > 0 {
					if as, isAs := parents[len(parents)-1].(*ast.AssignStmt); isAs {
						for _, l := range as.Lhs {
							if l == ast.Expr(x) {
								return
							}
						}
					}
				}
				encl := e.p.EnclosingFunc(e.pk, x.Pos())
				fn := c12TopName(encl)
				n++
				if why, ex := c12IndexExceptions[fn]; ex {
					c.CheckTrivial("latest-entry", "index|"+fn, x.Pos(), true, "exception: "+why)
					return
				}
				if encl == nil || encl.Graph() == nil {
					c.Undecide("latest-entry", "index|"+fn, "element read of entries outside a function body")
					return
				}
				g := encl.Graph()
				buf, _, _, isTop := e.topValue(g, x.Index)
				ok := isTop && bp.root != nil && buf.eq(bp)
				c.Check("latest-entry", "index|"+encl.Name(), x.Pos(), ok, "entries["+an.ExprString(x.Index)+"] in "+fn+": the position must be the top (peek) of an index stack of the same buffer, i.e. the latest surviving entry of the key")
			}
		})
	}
	// the exceptions still exist
	for k := range c12IndexExceptions {
		if e.p.Func(k) == nil {
			c.Undecide("latest-entry", k, "function in the exception table no longer exists")
		}
	}
	// export and stage iterate per key
	for _, spec := range []string{c12FnExport, c12FnStage} {
		f := c.Fn(spec)
		if f == nil {
			continue
		}
		recv := c12Receiver(f)
		cnt := 0
		an.InspectShallow(f.Body, func(m ast.Node) bool {
			if r, ok := m.(*ast.RangeStmt); ok {
				if p, is := e.isField(f.Info(), r.X, e.indexes); is && p.eq(c12Path{root: recv}) {
					cnt++
				}
			}
			return true
		})
		c.Check("latest-entry", "per-key|"+spec, f.Pos(), cnt == 1, "the exporter visits the buffer per key (one range over its own indexes)")
	}
	_ = n
	c.Floor("latest-entry", 6)
}

// ---------------------------------------------------------------------------
// rule empty-sentinel

func (e *c12Env) ruleSentinel() {
	c := e.c
	// definition: the constant results of stack.peek / stack.pop are all -1
	for _, f := range e.methodsOf(e.stkNamed) {
		if !e.peekers[f.Name()] && !e.poppers[f.Name()] {
			continue
		}
		var consts []int64
		other := 0
		an.InspectShallow(f.Body, func(n ast.Node) bool {
			if r, ok := n.(*ast.ReturnStmt); ok && len(r.Results) == 1 {
				if v, ok := c12ConstInt(f.Info(), r.Results[0]); ok {
					consts = append(consts, v)
				} else {
					other++
				}
			}
			return true
		})
		ok := len(consts) >= 1 && other >= 1
		for _, v := range consts {
			if v != -1 {
				ok = false
			}
		}
		c.Check("empty-sentinel", "def|"+f.Name(), f.Pos(), ok, "the only constant result is -1 (empty stack); every other result is an element")
	}
	// uses: every comparison of a top-of-stack value with an integer constant
	for _, file := range e.pk.Syntax {
		ast.Inspect(file, func(n ast.Node) bool {
			be, ok := n.(*ast.BinaryExpr)
			if !ok {
				return true
			}
			switch be.Op {
			case token.LSS, token.LEQ, token.GTR, token.GEQ, token.EQL, token.NEQ:
			default:
				return true
			}
			encl := e.p.EnclosingFunc(e.pk, be.Pos())
			if encl == nil || encl.Body == nil {
				return true
			}
			g := encl.Graph()
			info := encl.Info()
			vx, cy, op := be.X, be.Y, be.Op
			if _, isC := c12ConstInt(info, vx); isC {
				vx, cy = cy, vx
				switch op {
				case token.LSS:
					op = token.GTR
				case token.GTR:
					op = token.LSS
				case token.LEQ:
					op = token.GEQ
				case token.GEQ:
					op = token.LEQ
				}
			}
			k, isC := c12ConstInt(info, cy)
			if !isC {
				return true
			}
			if !e.isTopResult(g, vx) {
				return true
			}
			v := c12SentinelVerdict(op, k)
			c.Check("empty-sentinel", "cmp|"+encl.Name(), be.Pos(), v != 0, "`"+an.ExprString(be)+"` tests a top-of-stack value against a constant: it must separate exactly the empty sentinel -1 from the valid indices 0,1,2,...")
			return true
		})
	}
	c.Floor("empty-sentinel", 5)
}

// isTopResult: x is (a variable defined once as) the result of any peek/pop
// of the index types, whatever stack it is called on.
func (e *c12Env) isTopResult(g *an.Graph, x ast.Expr) bool {
	info := g.Fn.Info()
	x = ast.Unparen(x)
	if id, isID := x.(*ast.Ident); isID {
		d := c12DefOf(g, an.ObjOf(info, id))
		if d.count != 1 || d.rhs == nil || d.idx != 0 {
			return false
		}
		x = ast.Unparen(d.rhs)
	}
	call, ok := x.(*ast.CallExpr)
	if !ok {
		return false
	}
	n := an.CalleeName(info, call)
	return e.peekers[n] || e.poppers[n]
}
