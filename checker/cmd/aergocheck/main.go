// aergocheck decides structural rules of the properties in
// /verif/properties.jsonl on the current source tree of /repo.
//
//	aergocheck -prop C20 [-tier quick|thorough] [-verif /verif]
//
// exit 0: every rule instance holds (known findings are printed);
// exit 1 + "VIOLATION property=.. replay=..": an instance fails;
// exit 2: the checker could not decide (load error, lost anchor, floor).
package main

import (
	"flag"
	"fmt"
	"os"
	"runtime/debug"
	"sort"
	"strings"

	"verif/checker/internal/an"
	"verif/checker/internal/rep"
	"verif/checker/props"
)

func main() {
	prop := flag.String("prop", "", "property id (C01..C20), comma separated, or 'all'")
	tier := flag.String("tier", "quick", "quick | thorough")
	verif := flag.String("verif", "/verif", "verification directory (evidence, known findings)")
	replay := flag.String("replay", "", "violations file to re-evaluate (same rules, current tree)")
	flag.Parse()
	if t := os.Getenv("VERIF_TIER"); t != "" && *tier == "" {
		*tier = t
	}
	_ = replay
	ids := strings.Split(*prop, ",")
	if *prop == "all" {
		ids = props.IDs()
		sort.Strings(ids)
	}
	if *prop == "" {
		fmt.Fprintln(os.Stderr, "usage: aergocheck -prop Cnn")
		os.Exit(2)
	}
	for _, id := range ids {
		if props.Get(id) == nil {
			fmt.Fprintf(os.Stderr, "property %s has no check\n", id)
			os.Exit(2)
		}
	}
	debug.SetGCPercent(400)
	prog, err := an.Load(nil, "")
	if err != nil {
		fmt.Fprintf(os.Stderr, "CHECKER-ERROR load: %v\n", err)
		os.Exit(2)
	}
	if len(prog.ModulePkgs()) < 60 {
		fmt.Fprintf(os.Stderr, "CHECKER-ERROR load: only %d module packages loaded\n", len(prog.ModulePkgs()))
		os.Exit(2)
	}
	worst := 0
	for _, id := range ids {
		code := runOne(id, *tier, prog, *verif)
		if code == 1 || (code == 2 && worst == 0) {
			worst = code
		}
	}
	os.Exit(worst)
}

func runOne(id, tier string, prog *an.Prog, verif string) (code int) {
	c := rep.New(id, tier, prog)
	defer func() {
		if r := recover(); r != nil {
			fmt.Fprintf(os.Stderr, "CHECKER-ERROR %s panicked: %v\n%s\n", id, r, debug.Stack())
			code = 2
		}
	}()
	props.Get(id).Run(c)
	return c.Finish(verif)
}
