// aergocheck decides structural rules of the properties in
// /verif/properties.jsonl on the current source tree of /repo.
//
//	aergocheck -prop C20 [-tier quick|thorough] [-verif /verif]
//
// exit 0: every rule instance holds (known findings are printed);
// exit 1 + "VIOLATION property=.. replay=..": an instance fails;
// exit 2: the checker could not decide (load error, lost anchor, floor).
//
// The thorough tier evaluates the same rules on the current tree and then
// validates the checker itself against the kept seeded changes of the
// property (/verif/seeded/*/patch.diff applied in memory through a
// go/packages overlay: each must be reported) and against the recorded
// behaviour-preserving variants (/verif/seeded/_benign: each must be silent).
// A seed that is no longer reported, or a benign variant that is, makes the run
// exit 2 (the checker is broken, not the code).
package main

import (
	"encoding/json"
	"flag"
	"fmt"
	"os"
	"os/exec"
	"path/filepath"
	"runtime/debug"
	"sort"
	"strings"
	"sync"

	"verif/checker/internal/an"
	"verif/checker/internal/rep"
	"verif/checker/props"
)

func main() {
	prop := flag.String("prop", "", "property id (C01..C20), comma separated, or 'all'")
	tier := flag.String("tier", "", "quick | thorough (default: $VERIF_TIER or quick)")
	verif := flag.String("verif", "/verif", "verification directory (evidence, known findings, seeds)")
	replay := flag.String("replay", "", "violations file: re-evaluate the property and report only the recorded instance keys")
	variantDir := flag.String("variant", "", "internal (thorough tier): evaluate the property on the tree patched in memory with <dir>/patch.diff and print the failing instance keys as one JSON line")
	flag.Parse()
	if *tier == "" {
		*tier = os.Getenv("VERIF_TIER")
	}
	if *tier != "thorough" {
		*tier = "quick"
	}
	ids := strings.Split(*prop, ",")
	if *prop == "all" {
		ids = props.IDs()
		sort.Strings(ids)
	}
	if *prop == "" {
		fmt.Fprintln(os.Stderr, "usage: aergocheck -prop Cnn")
		os.Exit(2)
	}
	for _, id := range ids {
		if props.Get(id) == nil {
			fmt.Fprintf(os.Stderr, "property %s has no check\n", id)
			os.Exit(2)
		}
	}
	debug.SetGCPercent(400)
	if *variantDir != "" {
		runVariant(ids[0], *variantDir)
		return
	}
	prog := load(nil)
	worst := 0
	for _, id := range ids {
		code := runOne(id, *tier, prog, *verif, *replay)
		if code == 1 || (code == 2 && worst == 0) {
			worst = code
		}
	}
	os.Exit(worst)
}

func load(overlay map[string][]byte) *an.Prog {
	prog, err := an.Load(overlay, "")
	if err != nil {
		fmt.Fprintf(os.Stderr, "CHECKER-ERROR load: %v\n", err)
		os.Exit(2)
	}
	if len(prog.ModulePkgs()) < 60 {
		fmt.Fprintf(os.Stderr, "CHECKER-ERROR load: only %d module packages loaded\n", len(prog.ModulePkgs()))
		os.Exit(2)
	}
	return prog
}

func runOne(id, tier string, prog *an.Prog, verif, replay string) (code int) {
	c := rep.New(id, tier, prog)
	defer func() {
		if r := recover(); r != nil {
			fmt.Fprintf(os.Stderr, "CHECKER-ERROR %s panicked: %v\n%s\n", id, r, debug.Stack())
			code = 2
		}
	}()
	props.Get(id).Run(c)
	if replay != "" {
		keep := replayKeys(replay)
		var obs []rep.Ob
		for _, o := range c.Obs {
			if keep[o.Key] || o.OK {
				obs = append(obs, o)
			}
		}
		c.Obs = obs
		c.Note("replay of %s: %d recorded instance keys re-evaluated on the current tree", replay, len(keep))
	}
	if tier == "thorough" && an.RepoDir() == "/repo" {
		selfValidate(c, id, verif)
	}
	return c.Finish(verif)
}

func replayKeys(path string) map[string]bool {
	out := map[string]bool{}
	b, err := os.ReadFile(path)
	if err != nil {
		fmt.Fprintf(os.Stderr, "CHECKER-ERROR replay: %v\n", err)
		os.Exit(2)
	}
	var obs []rep.Ob
	if err := json.Unmarshal(b, &obs); err != nil {
		fmt.Fprintf(os.Stderr, "CHECKER-ERROR replay: %v\n", err)
		os.Exit(2)
	}
	for _, o := range obs {
		out[o.Key] = true
	}
	return out
}

// selfValidate runs the property's rules on in-memory variants of the tree.
func selfValidate(c *rep.Ctx, id, verif string) {
	type meta struct {
		Property string   `json:"property"`
		Detected string   `json:"detected_by_checks"`
		Props    []string `json:"props"`
	}
	readMeta := func(dir string) *meta {
		b, err := os.ReadFile(filepath.Join(dir, "meta.json"))
		if err != nil {
			return nil
		}
		var m meta
		if json.Unmarshal(b, &m) != nil {
			return nil
		}
		return &m
	}
	// baseline failing keys (known findings etc.) so that only NEW reports count
	base := map[string]bool{}
	for _, o := range c.Obs {
		if !o.OK {
			base[o.Key] = true
		}
	}
	// Each variant is evaluated in a child process of this binary (-variant): the patched program is
	// loaded there through an in-memory overlay, so memory stays bounded however many variants a
	// property has, and up to three variants run at a time.
	variant := func(dir string) (newFails []string, err error) {
		if _, err := an.OverlayFromPatch(filepath.Join(dir, "patch.diff")); err != nil {
			return nil, err // the tree moved away from the patch: reported as skipped by the caller
		}
		cmd := exec.Command(os.Args[0], "-prop", id, "-variant", dir, "-verif", verif)
		cmd.Env = os.Environ()
		out, runErr := cmd.Output()
		var res variantResult
		if jerr := json.Unmarshal(lastJSONLine(out), &res); jerr != nil {
			return nil, fmt.Errorf("variant run failed (%v): %s", runErr, firstLine(out))
		}
		if res.Err != "" {
			return nil, fmt.Errorf("%s", res.Err)
		}
		for _, k := range res.Fails {
			if !base[k] {
				newFails = append(newFails, k)
			}
		}
		if len(res.Undecided) > 0 && len(newFails) == 0 {
			newFails = append(newFails, "UNDECIDED:"+res.Undecided[0])
		}
		return newFails, nil
	}
	type vres struct {
		fails []string
		err   error
	}
	runAll := func(dirs []string) map[string]vres {
		out := map[string]vres{}
		var mu sync.Mutex
		sem := make(chan struct{}, 3)
		var wg sync.WaitGroup
		for _, d := range dirs {
			wg.Add(1)
			go func(d string) {
				defer wg.Done()
				sem <- struct{}{}
				defer func() { <-sem }()
				f, e := variant(d)
				mu.Lock()
				out[d] = vres{f, e}
				mu.Unlock()
			}(d)
		}
		wg.Wait()
		return out
	}
	dirs, _ := filepath.Glob(filepath.Join(verif, "seeded", "C*"))
	sort.Strings(dirs)
	nSeeds := 0
	var seedDirs []string
	for _, d := range dirs {
		m := readMeta(d)
		if m == nil || !strings.Contains(" "+m.Detected+" ", " "+id+" ") {
			continue
		}
		seedDirs = append(seedDirs, d)
	}
	bdirs, _ := filepath.Glob(filepath.Join(verif, "seeded", "_benign", "*"))
	sort.Strings(bdirs)
	var benignDirs []string
	for _, d := range bdirs {
		m := readMeta(d)
		if m == nil {
			continue
		}
		for _, p := range m.Props {
			if p == id {
				benignDirs = append(benignDirs, d)
			}
		}
	}
	results := runAll(append(append([]string{}, seedDirs...), benignDirs...))
	for _, d := range seedDirs {
		m := readMeta(d)
		nSeeds++
		name := filepath.Base(d)
		fails, err := results[d].fails, results[d].err
		switch {
		case err != nil:
			c.Note("selftest seed %s skipped: %v (the tree moved away from the seed's context)", name, err)
		case len(fails) == 0:
			c.Undecide("selftest", "seed|"+name, "the seeded change "+name+" (breaks "+m.Property+") is no longer reported by this property's rules: checker regression")
		default:
			c.Check("selftest", "seed|"+name, 0, true, "seeded change applied in memory is reported ("+strings.Join(firstN(fails, 3), ", ")+")")
		}
	}
	for _, d := range benignDirs {
		name := filepath.Base(d)
		fails, err := results[d].fails, results[d].err
		switch {
		case err != nil:
			c.Note("selftest benign variant %s skipped: %v", name, err)
		case len(fails) > 0:
			c.Undecide("selftest", "benign|"+name, "behaviour-preserving variant "+name+" is reported ("+strings.Join(firstN(fails, 3), ", ")+"): false-alarm regression of the checker")
		default:
			c.Check("selftest", "benign|"+name, 0, true, "behaviour-preserving variant applied in memory stays silent")
		}
	}
	c.Note("thorough tier: %d seeded changes for this property re-checked through in-memory overlays", nSeeds)
}

func firstN(s []string, n int) []string {
	if len(s) > n {
		return s[:n]
	}
	return s
}

// variantResult is what a -variant child prints (one JSON line on stdout).
type variantResult struct {
	Fails     []string `json:"fails"`
	Undecided []string `json:"undecided"`
	Err       string   `json:"err,omitempty"`
}

// runVariant evaluates one property on the tree with <dir>/patch.diff applied in memory.
func runVariant(id, dir string) {
	var res variantResult
	emit := func() {
		b, _ := json.Marshal(res)
		fmt.Println(string(b))
	}
	ov, err := an.OverlayFromPatch(filepath.Join(dir, "patch.diff"))
	if err != nil {
		res.Err = err.Error()
		emit()
		return
	}
	prog2, err := an.Load(ov, "")
	if err != nil {
		res.Err = err.Error()
		emit()
		return
	}
	c2 := rep.New(id, "thorough", prog2)
	func() {
		defer func() {
			if r := recover(); r != nil {
				res.Err = fmt.Sprintf("rules panicked on the variant: %v", r)
			}
		}()
		props.Get(id).Run(c2)
	}()
	for _, o := range c2.Obs {
		if !o.OK {
			res.Fails = append(res.Fails, o.Key)
		}
	}
	res.Undecided = c2.Undecided
	emit()
}

func lastJSONLine(out []byte) []byte {
	lines := strings.Split(strings.TrimSpace(string(out)), "\n")
	for i := len(lines) - 1; i >= 0; i-- {
		if strings.HasPrefix(strings.TrimSpace(lines[i]), "{") {
			return []byte(lines[i])
		}
	}
	return nil
}

func firstLine(out []byte) string {
	s := strings.TrimSpace(string(out))
	if i := strings.IndexByte(s, '\n'); i >= 0 {
		s = s[:i]
	}
	if len(s) > 200 {
		s = s[:200]
	}
	return s
}
