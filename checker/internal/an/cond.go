package an

import (
	"go/ast"
	"go/constant"
	"go/token"
	"go/types"
)

// Atomizer maps a leaf boolean expression to a named atom.  It returns the
// atom name and whether the expression is the atom's negation.  ok=false means
// "not one of mine": the expression then becomes an opaque atom named after
// its text (identical texts share an atom).
type Atomizer func(e ast.Expr) (atom string, negated bool, ok bool)

// boolean formula
type bexpr struct {
	op   byte // 'a' atom, '!' not, '&' and, '|' or, 'c' const
	atom string
	val  bool
	l, r *bexpr
}

func parseBool(info *types.Info, e ast.Expr, at Atomizer, atoms map[string]bool) *bexpr {
	e = ast.Unparen(e)
	if at != nil {
		if name, neg, ok := at(e); ok {
			atoms[name] = true
			b := &bexpr{op: 'a', atom: name}
			if neg {
				return &bexpr{op: '!', l: b}
			}
			return b
		}
	}
	if tv, ok := info.Types[e]; ok && tv.Value != nil && tv.Value.Kind() == constant.Bool {
		return &bexpr{op: 'c', val: constant.BoolVal(tv.Value)}
	}
	switch x := e.(type) {
	case *ast.UnaryExpr:
		if x.Op == token.NOT {
			return &bexpr{op: '!', l: parseBool(info, x.X, at, atoms)}
		}
	case *ast.BinaryExpr:
		switch x.Op {
		case token.LAND:
			return &bexpr{op: '&', l: parseBool(info, x.X, at, atoms), r: parseBool(info, x.Y, at, atoms)}
		case token.LOR:
			return &bexpr{op: '|', l: parseBool(info, x.X, at, atoms), r: parseBool(info, x.Y, at, atoms)}
		case token.EQL, token.NEQ:
			// b == true, b != false, ...
			for _, pr := range [][2]ast.Expr{{x.X, x.Y}, {x.Y, x.X}} {
				if tv, ok := info.Types[pr[1]]; ok && tv.Value != nil && tv.Value.Kind() == constant.Bool {
					inner := parseBool(info, pr[0], at, atoms)
					want := constant.BoolVal(tv.Value)
					if (x.Op == token.EQL) == want {
						return inner
					}
					return &bexpr{op: '!', l: inner}
				}
			}
			// x != y  is the negation of  x == y : share the atom
			if x.Op == token.NEQ {
				name := "op:" + ExprString(x.X) + "==" + ExprString(x.Y)
				atoms[name] = true
				return &bexpr{op: '!', l: &bexpr{op: 'a', atom: name}}
			}
			name := "op:" + ExprString(x.X) + "==" + ExprString(x.Y)
			atoms[name] = true
			return &bexpr{op: 'a', atom: name}
		}
	}
	name := "op:" + ExprString(e)
	atoms[name] = true
	return &bexpr{op: 'a', atom: name}
}

func (b *bexpr) eval(env map[string]bool) bool {
	switch b.op {
	case 'a':
		return env[b.atom]
	case 'c':
		return b.val
	case '!':
		return !b.l.eval(env)
	case '&':
		return b.l.eval(env) && b.r.eval(env)
	case '|':
		return b.l.eval(env) || b.r.eval(env)
	}
	return false
}

// CondImplies decides propositionally: whenever cond evaluates to edgeVal, do
// all atoms in want have the given values?  Leaves not recognised by at are
// opaque atoms.  More than 16 atoms: returns false (undecided = not implied).
func CondImplies(info *types.Info, cond ast.Expr, edgeVal bool, at Atomizer, want map[string]bool) bool {
	atoms := map[string]bool{}
	f := parseBool(info, cond, at, atoms)
	for a := range want {
		if !atoms[a] {
			return false // cond does not mention the atom at all
		}
	}
	var names []string
	for a := range atoms {
		names = append(names, a)
	}
	if len(names) > 16 {
		return false
	}
	env := map[string]bool{}
	sat := false
	for m := 0; m < 1<<len(names); m++ {
		for i, a := range names {
			env[a] = m&(1<<i) != 0
		}
		if f.eval(env) != edgeVal {
			continue
		}
		sat = true
		for a, v := range want {
			if env[a] != v {
				return false
			}
		}
	}
	return sat
}

// EdgesImplying returns the KTrue/KFalse vertices of g whose condition, taken
// with that edge's value, implies `want` under atomizer at.  For switch-case
// conditions (tag==value) only the `at` callback can give meaning; the tag is
// passed through CaseAtomizer if non-nil.
func (g *Graph) EdgesImplying(at Atomizer, want map[string]bool) Set {
	out := Set{}
	info := g.Fn.Info()
	for _, n := range g.Nodes {
		if n.Kind != KTrue && n.Kind != KFalse {
			continue
		}
		cond, ok := n.Ast.(ast.Expr)
		if !ok || cond == nil {
			continue
		}
		if tv, ok := info.Types[cond]; !ok || tv.Type == nil || !isBool(tv.Type) {
			continue // switch case value or range header
		}
		if CondImplies(info, cond, n.Kind == KTrue, at, want) {
			out[n] = true
		}
	}
	return out
}

func isBool(t types.Type) bool {
	b, ok := t.Underlying().(*types.Basic)
	return ok && b.Info()&types.IsBoolean != 0
}

// NilAtom builds an Atomizer recognising  x == nil / x != nil  for the given
// object as atom "nil" (true when x is nil).
func NilAtom(info *types.Info, obj types.Object) Atomizer {
	return func(e ast.Expr) (string, bool, bool) {
		be, ok := e.(*ast.BinaryExpr)
		if !ok || (be.Op != token.EQL && be.Op != token.NEQ) {
			return "", false, false
		}
		for _, pr := range [][2]ast.Expr{{be.X, be.Y}, {be.Y, be.X}} {
			id, ok := ast.Unparen(pr[0]).(*ast.Ident)
			if !ok || info.Uses[id] != obj {
				continue
			}
			if tv, ok := info.Types[pr[1]]; ok && tv.IsNil() {
				return "nil", be.Op == token.NEQ, true
			}
		}
		return "", false, false
	}
}

// ErrNilEdges finds, for a call site whose (last) result is an error or whose
// result is tested directly, the edge vertices that imply "the call succeeded":
//
//	if err := f(); err != nil { exit }      -> the false edge
//	err = f(); if err != nil { exit }       -> the false edge
//	x, err := f(); if err == nil { T }      -> the true edge
//	if f() != nil / if !f() / if f()        -> direct tests of the result
//
// `wantTrue` selects, for boolean results tested directly, which value means
// success.  The returned edges are only those where the tested variable is not
// reassigned between the call and the test.
func (g *Graph) ErrNilEdges(site Site) Set {
	return g.resultEdges(site, nil)
}

// BoolEdges is ErrNilEdges for calls with a boolean result: the edges on which
// the call's result is known to equal val.
func (g *Graph) BoolEdges(site Site, val bool) Set {
	return g.resultEdges(site, &val)
}

func (g *Graph) resultEdges(site Site, boolVal *bool) Set {
	info := g.Fn.Info()
	out := Set{}
	// 1. direct test: the call occurs inside a condition vertex
	direct := func(e ast.Expr) (string, bool, bool) {
		e = ast.Unparen(e)
		if e == site.Call {
			return "res", false, true
		}
		if be, ok := e.(*ast.BinaryExpr); ok && (be.Op == token.EQL || be.Op == token.NEQ) {
			for _, pr := range [][2]ast.Expr{{be.X, be.Y}, {be.Y, be.X}} {
				if ast.Unparen(pr[0]) == site.Call {
					if tv, ok := info.Types[pr[1]]; ok && tv.IsNil() {
						return "nil", be.Op == token.NEQ, true
					}
				}
			}
		}
		return "", false, false
	}
	if boolVal != nil {
		for n := range g.EdgesImplying(direct, map[string]bool{"res": *boolVal}) {
			if n.Cond == site.Node {
				out[n] = true
			}
		}
	} else {
		for n := range g.EdgesImplying(direct, map[string]bool{"nil": true}) {
			if n.Cond == site.Node {
				out[n] = true
			}
		}
	}
	// 2. result stored in a variable, tested later
	obj := g.resultVar(site, boolVal != nil)
	if obj == nil {
		return out
	}
	var at Atomizer
	var want map[string]bool
	if boolVal != nil {
		at = func(e ast.Expr) (string, bool, bool) {
			if id, ok := ast.Unparen(e).(*ast.Ident); ok && info.Uses[id] == obj {
				return "res", false, true
			}
			return "", false, false
		}
		want = map[string]bool{"res": *boolVal}
	} else {
		at = NilAtom(info, obj)
		want = map[string]bool{"nil": true}
	}
	for n := range g.EdgesImplying(at, want) {
		// the test must see the value assigned at the site: no other
		// assignment of obj on any path site -> test
		if !g.Reach(site.Node.Succs, nil)[n.Cond] {
			continue
		}
		clean := true
		for m := range g.Between(site.Node, n.Cond) {
			if m.Kind == KStmt && Assigns(info, m.Ast, obj) {
				clean = false
			}
		}
		// and the test must not be reachable from entry without passing the site
		if clean && g.Dominated(n.Cond, SetOf(site.Node)) {
			out[n] = true
		}
	}
	return out
}

// resultVar returns the variable receiving the tested result of the call at
// site: the error (last) result for ErrNil, the only/bool result otherwise.
func (g *Graph) resultVar(site Site, wantBool bool) types.Object {
	info := g.Fn.Info()
	var lhs []ast.Expr
	var rhs []ast.Expr
	switch s := site.Node.Ast.(type) {
	case *ast.AssignStmt:
		lhs, rhs = s.Lhs, s.Rhs
	case *ast.ValueSpec:
		for _, n := range s.Names {
			lhs = append(lhs, n)
		}
		rhs = s.Values
	default:
		return nil
	}
	pick := func(e ast.Expr) types.Object {
		id, ok := ast.Unparen(e).(*ast.Ident)
		if !ok || id.Name == "_" {
			return nil
		}
		if o := info.Defs[id]; o != nil {
			return o
		}
		return info.Uses[id]
	}
	if len(rhs) == 1 && ast.Unparen(rhs[0]) == site.Call {
		// a, b, err := f()
		tv := info.Types[site.Call]
		if tup, ok := tv.Type.(*types.Tuple); ok {
			for i := tup.Len() - 1; i >= 0; i-- {
				if (!wantBool && isErrorType(tup.At(i).Type())) || (wantBool && isBool(tup.At(i).Type())) {
					if i < len(lhs) {
						return pick(lhs[i])
					}
				}
			}
			return nil
		}
		if len(lhs) == 1 {
			return pick(lhs[0])
		}
		return nil
	}
	for i, r := range rhs {
		if ast.Unparen(r) == site.Call && i < len(lhs) {
			return pick(lhs[i])
		}
	}
	return nil
}

func isErrorType(t types.Type) bool {
	return types.Identical(t, types.Universe.Lookup("error").Type())
}

// Assigns reports whether the statement/expression at a vertex assigns obj
// (=, :=, op=, ++/--, range key/value, or takes its address).
func Assigns(info *types.Info, a ast.Node, obj types.Object) bool {
	found := false
	isObj := func(e ast.Expr) bool {
		id, ok := ast.Unparen(e).(*ast.Ident)
		if !ok {
			return false
		}
		return info.Defs[id] == obj || info.Uses[id] == obj
	}
	InspectShallow(a, func(n ast.Node) bool {
		switch s := n.(type) {
		case *ast.AssignStmt:
			for _, l := range s.Lhs {
				if isObj(l) {
					found = true
				}
			}
		case *ast.IncDecStmt:
			if isObj(s.X) {
				found = true
			}
		case *ast.UnaryExpr:
			if s.Op == token.AND && isObj(s.X) {
				found = true
			}
		case *ast.ValueSpec:
			for _, nm := range s.Names {
				if info.Defs[nm] == obj {
					found = true
				}
			}
		}
		return true
	})
	// range key/value identifiers are separate cfg nodes (bare idents)
	if id, ok := a.(*ast.Ident); ok && (info.Defs[id] == obj) {
		found = true
	}
	return found
}

// ObjOf returns the object an identifier expression denotes.
func ObjOf(info *types.Info, e ast.Expr) types.Object {
	id, ok := ast.Unparen(e).(*ast.Ident)
	if !ok {
		return nil
	}
	if o := info.Uses[id]; o != nil {
		return o
	}
	return info.Defs[id]
}

// pureCalls are functions whose result depends only on their operands' values
// and which have no side effects: two textually identical calls on unmodified
// operands yield the same value on one path (the "path atom" rule).
var pureCalls = map[string]bool{
	"math/big.(*Int).Cmp":  true,
	"math/big.(*Int).Sign": true,
	"bytes.Equal":          true,
}

// stableExpr reports whether two evaluations of e at different points of the
// function are guaranteed to agree: built from constants, package-level
// variables of the module that are never assigned outside init (approximated:
// any package-level variable), locals/params assigned at most once and never
// address-taken, pure calls, and comparisons thereof.
func (g *Graph) stableExpr(e ast.Expr) bool {
	info := g.Fn.Info()
	ok := true
	InspectShallow(e, func(n ast.Node) bool {
		switch x := n.(type) {
		case *ast.CallExpr:
			if IsBuiltin(info, x, "len") {
				return true
			}
			fn := Callee(info, x)
			if fn == nil || !pureCalls[FuncName(fn)] {
				ok = false
			}
		case *ast.SelectorExpr:
			// field reads are not stable in general; method selectors of pure
			// calls are handled by the CallExpr case, package-qualified idents ok
			if s := info.Selections[x]; s != nil && s.Kind() == types.FieldVal {
				ok = false
			}
		case *ast.Ident:
			obj := info.Uses[x]
			if obj == nil {
				obj = info.Defs[x]
			}
			switch o := obj.(type) {
			case *types.Var:
				if o.IsField() {
					return true
				}
				if o.Parent() != nil && o.Parent() == o.Pkg().Scope() {
					return true // package-level variable
				}
				if g.assignCount(o) > 1 {
					ok = false
				}
			}
		case *ast.IndexExpr, *ast.StarExpr, *ast.SliceExpr:
			ok = false
		}
		return ok
	})
	return ok
}

func (g *Graph) assignCount(obj types.Object) int {
	info := g.Fn.Info()
	c := 0
	for _, n := range g.Nodes {
		if n.Kind == KStmt && Assigns(info, n.Ast, obj) {
			c++
		}
	}
	// parameters are "assigned" once at entry
	if v, ok := obj.(*types.Var); ok && g.Fn.Type != nil {
		for _, fl := range []*ast.FieldList{g.Fn.Type.Params, g.Fn.Type.Results} {
			if fl == nil {
				continue
			}
			for _, f := range fl.List {
				for _, nm := range f.Names {
					if info.Defs[nm] == v {
						c++
					}
				}
			}
		}
	}
	// assignments inside nested literals make the variable unstable
	for _, l := range g.Fn.Lits {
		InspectShallow(l.Body, func(n ast.Node) bool {
			if s, ok := n.(ast.Stmt); ok && Assigns(info, s, obj) {
				c += 2
				return false
			}
			return true
		})
	}
	return c
}

// Fact is a branch outcome known on every path reaching a vertex.
type Fact struct {
	Edge *Node
	Cond ast.Expr
	Val  bool
}

// FactsAt returns the branch outcomes that hold on every path from the entry
// to target: the KTrue/KFalse vertices that individually dominate it.
func (g *Graph) FactsAt(target *Node) []Fact {
	info := g.Fn.Info()
	var out []Fact
	for _, n := range g.Nodes {
		if n.Kind != KTrue && n.Kind != KFalse {
			continue
		}
		cond, ok := n.Ast.(ast.Expr)
		if !ok || cond == nil {
			continue
		}
		if tv, ok := info.Types[cond]; !ok || tv.Type == nil || !isBool(tv.Type) {
			continue
		}
		if n != target && g.Dominated(target, SetOf(n)) {
			out = append(out, Fact{n, cond, n.Kind == KTrue})
		}
	}
	return out
}

// GuardedAt decides whether on every path from the entry to target the atoms
// of `want` are known to have the given values, using
//  1. set dominance: target is dominated by the set of edges each of which
//     alone implies want; or
//  2. the conjunction of all branch outcomes that individually dominate target
//     (opaque sub-conditions are shared between outcomes only when stable).
//
// It returns a short description of how it was established.
func (g *Graph) GuardedAt(target *Node, at Atomizer, want map[string]bool) (bool, string) {
	edges := g.EdgesImplying(at, want)
	if len(edges) > 0 && g.Dominated(target, edges) {
		return true, "dominated by guard edge(s)"
	}
	facts := g.FactsAt(target)
	if len(facts) == 0 {
		return false, "no dominating branch outcome"
	}
	info := g.Fn.Info()
	atoms := map[string]bool{}
	var fs []*bexpr
	for i, f := range facts {
		idx := i
		wrap := func(e ast.Expr) (string, bool, bool) {
			if at != nil {
				if a, neg, ok := at(e); ok {
					return a, neg, true
				}
			}
			// opaque leaf: share across facts only when stable
			switch x := ast.Unparen(e).(type) {
			case *ast.BinaryExpr:
				if x.Op == token.LAND || x.Op == token.LOR {
					return "", false, false
				}
				if x.Op == token.EQL || x.Op == token.NEQ {
					for _, y := range []ast.Expr{x.X, x.Y} {
						if tv, ok := info.Types[y]; ok && tv.Value != nil && tv.Value.Kind() == constant.Bool {
							return "", false, false
						}
					}
				}
			case *ast.UnaryExpr:
				if x.Op == token.NOT {
					return "", false, false
				}
			}
			if tv, ok := info.Types[e]; ok && tv.Value != nil {
				return "", false, false
			}
			name := "op:" + ExprString(e)
			neg := false
			if be, ok := ast.Unparen(e).(*ast.BinaryExpr); ok && be.Op == token.NEQ {
				name = "op:" + ExprString(be.X) + " == " + ExprString(be.Y)
				neg = true
			}
			if !g.stableExpr(e) {
				name = name + "@" + itoa(idx)
			}
			return name, neg, true
		}
		fs = append(fs, parseBool(info, f.Cond, wrap, atoms))
	}
	for a := range want {
		if !atoms[a] {
			return false, "dominating conditions do not mention the guard"
		}
	}
	var names []string
	for a := range atoms {
		names = append(names, a)
	}
	if len(names) > 18 {
		return false, "too many atoms"
	}
	env := map[string]bool{}
	sat := false
	for m := 0; m < 1<<len(names); m++ {
		for i, a := range names {
			env[a] = m&(1<<i) != 0
		}
		all := true
		for i, f := range fs {
			if f.eval(env) != facts[i].Val {
				all = false
				break
			}
		}
		if !all {
			continue
		}
		sat = true
		for a, v := range want {
			if env[a] != v {
				return false, "dominating branch outcomes do not imply the guard"
			}
		}
	}
	if !sat {
		return true, "unreachable (dominating outcomes are contradictory)"
	}
	return true, "implied by the conjunction of dominating branch outcomes"
}

// ResultVarAt returns the variable that receives result number idx of the call
// at site ( a, b := f() ), or nil.
func (g *Graph) ResultVarAt(site Site, idx int) types.Object {
	info := g.Fn.Info()
	var lhs []ast.Expr
	var rhs []ast.Expr
	switch s := site.Node.Ast.(type) {
	case *ast.AssignStmt:
		lhs, rhs = s.Lhs, s.Rhs
	case *ast.ValueSpec:
		for _, n := range s.Names {
			lhs = append(lhs, n)
		}
		rhs = s.Values
	default:
		return nil
	}
	pick := func(e ast.Expr) types.Object {
		id, ok := ast.Unparen(e).(*ast.Ident)
		if !ok || id.Name == "_" {
			return nil
		}
		if o := info.Defs[id]; o != nil {
			return o
		}
		return info.Uses[id]
	}
	if len(rhs) == 1 && ast.Unparen(rhs[0]) == site.Call {
		if idx < len(lhs) {
			return pick(lhs[idx])
		}
		return nil
	}
	if idx == 0 {
		for i, r := range rhs {
			if ast.Unparen(r) == site.Call && i < len(lhs) {
				return pick(lhs[i])
			}
		}
	}
	return nil
}
