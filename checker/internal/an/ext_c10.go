package an

// Lockset engine (E5), added for C10.
//
// Per function: a forward must-analysis over the fine-grained graph computing,
// for every vertex, the set of mutexes that are certainly held when the vertex
// starts executing.  A mutex is identified by the struct field object of the
// sync.Mutex / sync.RWMutex and by the *object path* of the expression that
// owns it (`s.db` in `s.db.liveMux.Lock()` is the path [s, db]), so locking one
// CacheDB does not count for another one.  `defer m.Unlock()` is not an unlock
// at the place of the defer statement: the mutex stays held up to the exit.
//
// Across functions: the set held on entry of f is the intersection, over every
// call site of f in the module, of the set held at the site, renamed from the
// caller's receiver/arguments to f's receiver/parameters.  `go f()` and
// `defer f()` sites, references to f as a value, call sites outside the analysed
// scope and exported functions without any call site contribute the empty set.
// Greatest fixed point (recursive functions start from "everything").

import (
	"go/ast"
	"go/token"
	"go/types"
	"sort"
	"strings"
)

// LockMode is how a mutex is held.
type LockMode uint8

const (
	LockNone LockMode = iota
	LockR             // RLock
	LockW             // Lock
)

func (m LockMode) String() string {
	switch m {
	case LockR:
		return "R"
	case LockW:
		return "W"
	}
	return "-"
}

// LockRef names one mutex instance: owner path + mutex field.
type LockRef struct {
	Path  string     // key of the owner's object path (see PathKey)
	Mutex *types.Var // the sync.Mutex / sync.RWMutex field (or embedded field)
}

// LockSet maps held mutexes to their mode.  A nil *LockState means "top".
type LockSet map[LockRef]LockMode

func (s LockSet) clone() LockSet {
	r := LockSet{}
	for k, v := range s {
		r[k] = v
	}
	return r
}

func lockMeet(a, b LockSet) LockSet {
	r := LockSet{}
	for k, v := range a {
		if w, ok := b[k]; ok {
			if w < v {
				v = w
			}
			if v != LockNone {
				r[k] = v
			}
		}
	}
	return r
}

func lockEqual(a, b LockSet) bool {
	if len(a) != len(b) {
		return false
	}
	for k, v := range a {
		if b[k] != v {
			return false
		}
	}
	return true
}

// OuterObj is a pseudo path element: the path [x, OuterObj] names "some
// object that owns x" (a mutex of an ancestor of a callee's receiver or
// argument, renamed into the callee).
var OuterObj types.Object = types.NewVar(token.NoPos, nil, "<owner>", types.Typ[types.Invalid])

var pathIntern = map[string][]types.Object{}
var pathObjID = map[types.Object]int{}

// PathKey interns an object path and returns its key.
func PathKey(objs []types.Object) string {
	parts := make([]string, len(objs))
	for i, o := range objs {
		id, ok := pathObjID[o]
		if !ok {
			id = len(pathObjID) + 1
			pathObjID[o] = id
		}
		parts[i] = itoa(id)
	}
	k := strings.Join(parts, ".")
	if _, ok := pathIntern[k]; !ok {
		pathIntern[k] = append([]types.Object(nil), objs...)
	}
	return k
}

// PathObjs is the inverse of PathKey.
func PathObjs(key string) []types.Object { return pathIntern[key] }

// PathString renders a path for messages (names only).
func PathString(key string) string {
	var parts []string
	for _, o := range pathIntern[key] {
		parts = append(parts, o.Name())
	}
	return strings.Join(parts, ".")
}

// PathHasPrefix reports whether path `key` starts with path `prefix`.
func PathHasPrefix(key, prefix string) bool {
	return key == prefix || strings.HasPrefix(key, prefix+".")
}

// ObjPath resolves x, x.f, x.f.g, (*x).f, (&x).f to the list of objects
// [x, f, g].  ok is false for anything else (calls, index expressions ...).
func ObjPath(info *types.Info, e ast.Expr) ([]types.Object, bool) {
	e = ast.Unparen(e)
	switch x := e.(type) {
	case *ast.Ident:
		o := info.Uses[x]
		if o == nil {
			o = info.Defs[x]
		}
		if o == nil {
			return nil, false
		}
		if _, isVar := o.(*types.Var); !isVar {
			return nil, false
		}
		return []types.Object{o}, true
	case *ast.StarExpr:
		return ObjPath(info, x.X)
	case *ast.UnaryExpr:
		if x.Op == token.AND {
			return ObjPath(info, x.X)
		}
	case *ast.SelectorExpr:
		sel := info.Selections[x]
		if sel == nil || sel.Kind() != types.FieldVal {
			return nil, false
		}
		base, ok := ObjPath(info, x.X)
		if !ok {
			return nil, false
		}
		// embedded promotions: add the intermediate embedded fields
		t := info.Types[x.X].Type
		for _, fi := range sel.Index() {
			st := structOf(t)
			if st == nil || fi >= st.NumFields() {
				return nil, false
			}
			fld := st.Field(fi)
			base = append(base, fld)
			t = fld.Type()
		}
		return base, true
	}
	return nil, false
}

func structOf(t types.Type) *types.Struct {
	if t == nil {
		return nil
	}
	if p, ok := t.Underlying().(*types.Pointer); ok {
		t = p.Elem()
	}
	st, _ := t.Underlying().(*types.Struct)
	return st
}

// LockOp is one Lock/RLock/Unlock/RUnlock call on a sync mutex.
type LockOp struct {
	Node     *Node
	Call     *ast.CallExpr
	Ref      LockRef
	Acquire  bool
	Mode     LockMode // mode acquired or released
	Deferred bool     // the call is the operand of a defer statement (runs at exit)
	Spawned  bool     // operand of a go statement
}

var lockMethods = map[string]struct {
	acquire bool
	mode    LockMode
}{
	"sync.(*RWMutex).Lock":    {true, LockW},
	"sync.(*RWMutex).RLock":   {true, LockR},
	"sync.(*RWMutex).Unlock":  {false, LockW},
	"sync.(*RWMutex).RUnlock": {false, LockR},
	"sync.(*Mutex).Lock":      {true, LockW},
	"sync.(*Mutex).Unlock":    {false, LockW},
}

// lockOpOf classifies a call; ok=false when it is not a mutex operation or the
// mutex cannot be named (then unresolved=true for mutex operations).
func lockOpOf(info *types.Info, call *ast.CallExpr) (op LockOp, ok bool, unresolved bool) {
	fn := Callee(info, call)
	if fn == nil {
		return op, false, false
	}
	lm, is := lockMethods[FuncName(fn)]
	if !is {
		return op, false, false
	}
	sel, isSel := ast.Unparen(call.Fun).(*ast.SelectorExpr)
	if !isSel {
		return op, false, true
	}
	// the receiver expression is either the mutex field itself (x.mu.Lock())
	// or a struct embedding the mutex (x.Lock())
	path, pok := ObjPath(info, sel.X)
	if !pok {
		return op, false, true
	}
	if s := info.Selections[sel]; s != nil && len(s.Index()) > 1 {
		// promoted through embedding: append the embedded fields
		t := info.Types[sel.X].Type
		idx := s.Index()
		for _, fi := range idx[:len(idx)-1] {
			st := structOf(t)
			if st == nil {
				return op, false, true
			}
			path = append(path, st.Field(fi))
			t = st.Field(fi).Type()
		}
	}
	if len(path) < 2 {
		// a local or package-level mutex variable: owner path is empty
		mv, _ := path[len(path)-1].(*types.Var)
		op = LockOp{Call: call, Ref: LockRef{Path: PathKey(nil), Mutex: mv}, Acquire: lm.acquire, Mode: lm.mode}
		return op, true, false
	}
	mv, _ := path[len(path)-1].(*types.Var)
	op = LockOp{Call: call, Ref: LockRef{Path: PathKey(path[:len(path)-1]), Mutex: mv}, Acquire: lm.acquire, Mode: lm.mode}
	return op, true, false
}

// LockOps lists the mutex operations of the function in vertex order.
// unresolved are mutex calls whose receiver is not a plain object path.
func (g *Graph) LockOps() (ops []LockOp, unresolved []*ast.CallExpr) {
	info := g.Fn.Info()
	for _, n := range g.Nodes {
		if n.Kind != KStmt {
			continue
		}
		var deferred, spawned *ast.CallExpr
		switch s := n.Ast.(type) {
		case *ast.DeferStmt:
			deferred = s.Call
		case *ast.GoStmt:
			spawned = s.Call
		}
		for _, c := range CallsIn(stmtShallow(n.Ast)) {
			op, ok, unres := lockOpOf(info, c)
			if unres {
				unresolved = append(unresolved, c)
			}
			if !ok {
				continue
			}
			op.Node = n
			op.Deferred = c == deferred
			op.Spawned = c == spawned
			ops = append(ops, op)
		}
	}
	return ops, unresolved
}

// Locksets returns, for every vertex, the mutexes certainly held when the
// vertex starts (the effect of the vertex's own calls is not included).
func (g *Graph) Locksets(entry LockSet) map[*Node]LockSet {
	ops, _ := g.LockOps()
	byNode := map[*Node][]LockOp{}
	for _, op := range ops {
		if op.Deferred || op.Spawned {
			continue
		}
		byNode[op.Node] = append(byNode[op.Node], op)
	}
	in := map[*Node]LockSet{}
	out := map[*Node]LockSet{}
	has := map[*Node]bool{}
	transfer := func(n *Node, s LockSet) LockSet {
		o := byNode[n]
		if len(o) == 0 {
			return s
		}
		r := s.clone()
		for _, op := range o {
			if op.Acquire {
				r[op.Ref] = op.Mode
			} else {
				delete(r, op.Ref)
			}
		}
		return r
	}
	if entry == nil {
		entry = LockSet{}
	}
	in[g.Entry] = entry
	out[g.Entry] = transfer(g.Entry, entry)
	has[g.Entry] = true
	work := []*Node{g.Entry}
	for len(work) > 0 {
		n := work[0]
		work = work[1:]
		for _, s := range n.Succs {
			var ni LockSet
			first := true
			for _, p := range s.Preds {
				if !has[p] {
					continue // top
				}
				if first {
					ni = out[p].clone()
					first = false
				} else {
					ni = lockMeet(ni, out[p])
				}
			}
			if first {
				continue
			}
			if has[s] && lockEqual(in[s], ni) {
				continue
			}
			in[s] = ni
			out[s] = transfer(s, ni)
			has[s] = true
			work = append(work, s)
		}
	}
	return in
}

// LockAnalysis is the interprocedural part: entry locksets by fixed point.
type LockAnalysis struct {
	Prog  *Prog
	CG    *CallGraph
	scope map[*Func]bool
	entry map[*Func]LockSet // nil entry = top (not yet constrained)
	top   map[*Func]bool
	in    map[*Func]map[*Node]LockSet
	// Why records, per function, one reason why its entry set is empty.
	Why map[*Func]string
}

// NewLockAnalysis analyses the declared functions and literals of the given
// packages (module-relative paths).
func NewLockAnalysis(p *Prog, cg *CallGraph, pkgs ...string) *LockAnalysis {
	la := &LockAnalysis{Prog: p, CG: cg, scope: map[*Func]bool{}, entry: map[*Func]LockSet{}, top: map[*Func]bool{}, in: map[*Func]map[*Node]LockSet{}, Why: map[*Func]string{}}
	want := map[string]bool{}
	for _, k := range pkgs {
		want[k] = true
	}
	var all []*Func
	var walk func(f *Func)
	walk = func(f *Func) {
		if f.Body != nil {
			all = append(all, f)
		}
		for _, l := range f.Lits {
			walk(l)
		}
	}
	for _, f := range p.Funcs() {
		if want[Rel(f.Pkg.PkgPath)] {
			walk(f)
		}
	}
	for _, f := range all {
		la.scope[f] = true
	}
	// functions referenced as values may be called from anywhere
	refd := map[*Func]bool{}
	names := map[string]bool{}
	for _, f := range all {
		if f.Obj != nil {
			names[f.Name()] = true
		}
	}
	for _, r := range p.FuncRefs(names) {
		if f := p.FuncOf(r.Obj); f != nil {
			refd[f] = true
		}
	}
	for _, f := range all {
		switch {
		case f.Lit != nil:
			la.entry[f] = LockSet{}
			la.Why[f] = "function literal"
		case refd[f]:
			la.entry[f] = LockSet{}
			la.Why[f] = "referenced as a function value"
		case len(cg.In[f]) == 0:
			la.entry[f] = LockSet{}
			la.Why[f] = "no call site in the module"
		default:
			la.top[f] = true
		}
	}
	sort.Slice(all, func(i, j int) bool { return all[i].Pos() < all[j].Pos() })
	for round := 0; round < 50; round++ {
		for _, f := range all {
			if la.top[f] {
				continue
			}
			if la.in[f] == nil {
				la.in[f] = f.Graph().Locksets(la.entry[f])
			}
		}
		changed := false
		for _, f := range all {
			if f.Lit != nil || refd[f] || len(cg.In[f]) == 0 {
				continue
			}
			var acc LockSet
			accTop := true
			for _, e := range cg.In[f] {
				var contrib LockSet
				switch {
				case e.Call == nil:
					contrib = LockSet{}
				case !la.scope[e.Caller]:
					contrib = LockSet{}
					la.Why[f] = "called from " + e.Caller.Name() + " (outside the analysed packages)"
				case la.top[e.Caller]:
					continue // top: no constraint yet
				default:
					contrib = la.heldAtCall(e.Caller, e.Call, f)
				}
				if accTop {
					acc = contrib.clone()
					accTop = false
				} else {
					acc = lockMeet(acc, contrib)
				}
			}
			if accTop {
				continue
			}
			if la.top[f] || !lockEqual(la.entry[f], acc) {
				la.top[f] = false
				la.entry[f] = acc
				la.in[f] = nil
				changed = true
			}
		}
		if !changed {
			break
		}
	}
	// whatever is still top is only reachable from itself: treat as empty
	for _, f := range all {
		if la.top[f] {
			la.top[f] = false
			la.entry[f] = LockSet{}
			la.Why[f] = "only called recursively"
		}
		if la.in[f] == nil {
			la.in[f] = f.Graph().Locksets(la.entry[f])
		}
	}
	return la
}

// heldAtCall renames the caller's lockset at the call into callee terms.
func (la *LockAnalysis) heldAtCall(caller *Func, call *ast.CallExpr, callee *Func) LockSet {
	g := caller.Graph()
	n := g.NodeContaining(call.Pos())
	if n == nil {
		return LockSet{}
	}
	switch s := n.Ast.(type) {
	case *ast.GoStmt:
		if s.Call == call {
			la.Why[callee] = "started as a goroutine in " + caller.Name()
			return LockSet{}
		}
	case *ast.DeferStmt:
		if s.Call == call {
			la.Why[callee] = "deferred in " + caller.Name()
			return LockSet{}
		}
	}
	if la.in[caller] == nil {
		la.in[caller] = g.Locksets(la.entry[caller])
	}
	held := la.in[caller][n]
	if len(held) == 0 {
		if _, ok := la.Why[callee]; !ok {
			la.Why[callee] = "called from " + caller.Name() + " without any mutex held"
		}
		return LockSet{}
	}
	info := caller.Info()
	type bind struct {
		actual string
		formal types.Object
	}
	var binds []bind
	if callee.Decl != nil {
		cinfo := callee.Info()
		if callee.Decl.Recv != nil && len(callee.Decl.Recv.List) == 1 && len(callee.Decl.Recv.List[0].Names) == 1 {
			if sel, ok := ast.Unparen(call.Fun).(*ast.SelectorExpr); ok {
				if p, ok := ObjPath(info, sel.X); ok {
					binds = append(binds, bind{PathKey(p), cinfo.Defs[callee.Decl.Recv.List[0].Names[0]]})
				}
			}
		}
		i := 0
		for _, fl := range callee.Decl.Type.Params.List {
			for _, nm := range fl.Names {
				if i < len(call.Args) {
					if p, ok := ObjPath(info, call.Args[i]); ok {
						binds = append(binds, bind{PathKey(p), cinfo.Defs[nm]})
					}
				}
				i++
			}
			if len(fl.Names) == 0 {
				i++
			}
		}
	}
	out := LockSet{}
	put := func(np []types.Object, mu *types.Var, mode LockMode) {
		nr := LockRef{Path: PathKey(np), Mutex: mu}
		if old, ok := out[nr]; !ok || mode > old {
			out[nr] = mode
		}
	}
	for ref, mode := range held {
		robjs := PathObjs(ref.Path)
		for _, b := range binds {
			if b.formal == nil {
				continue
			}
			aobjs := PathObjs(b.actual)
			switch {
			case len(robjs) == 2 && robjs[1] == OuterObj:
				// a mutex of an owner of robjs[0]: still an owner of anything below it
				if len(aobjs) > 0 && aobjs[0] == robjs[0] {
					put([]types.Object{b.formal, OuterObj}, ref.Mutex, mode)
				}
			case PathHasPrefix(ref.Path, b.actual):
				// mutex of the actual or of something below it
				put(append([]types.Object{b.formal}, robjs[len(aobjs):]...), ref.Mutex, mode)
			case len(robjs) > 0 && PathHasPrefix(b.actual, ref.Path):
				// mutex of a proper ancestor of the actual
				put([]types.Object{b.formal, OuterObj}, ref.Mutex, mode)
			}
		}
	}
	return out
}

// In returns the lockset at the start of vertex n of f (including what f's
// callers are known to hold).
func (la *LockAnalysis) In(f *Func, n *Node) LockSet {
	if m := la.in[f]; m != nil {
		return m[n]
	}
	return nil
}

// Entry returns the lockset known on entry of f.
func (la *LockAnalysis) Entry(f *Func) LockSet { return la.entry[f] }

// InScope reports whether f was analysed.
func (la *LockAnalysis) InScope(f *Func) bool { return la.scope[f] }

// GoTargets returns the in-scope functions started by a go statement and the
// in-scope functions reachable from them ("concurrent" functions).
func (la *LockAnalysis) GoTargets() (targets map[*Func]bool, concurrent map[*Func]bool) {
	targets = map[*Func]bool{}
	for f := range la.scope {
		InspectShallow(f.Body, func(n ast.Node) bool {
			gs, ok := n.(*ast.GoStmt)
			if !ok {
				return true
			}
			if lit, ok := ast.Unparen(gs.Call.Fun).(*ast.FuncLit); ok {
				if lf := la.Prog.LitFunc(lit); lf != nil {
					targets[lf] = true
				}
				return true
			}
			if fn := Callee(f.Info(), gs.Call); fn != nil {
				if t := la.Prog.FuncOf(fn); t != nil {
					targets[t] = true
				}
			}
			return true
		})
	}
	var roots []*Func
	for t := range targets {
		roots = append(roots, t)
	}
	concurrent = la.CG.ReachableFrom(roots, nil)
	return targets, concurrent
}

// LockSetString renders a lockset for messages.
func LockSetString(s LockSet) string {
	var parts []string
	for ref, m := range s {
		nm := "?"
		if ref.Mutex != nil {
			nm = ref.Mutex.Name()
		}
		p := PathString(ref.Path)
		if p != "" {
			p += "."
		}
		parts = append(parts, p+nm+":"+m.String())
	}
	sort.Strings(parts)
	if len(parts) == 0 {
		return "{}"
	}
	return "{" + strings.Join(parts, ", ") + "}"
}
