package an

import (
	"go/ast"
	"go/token"
	"go/types"
	"sort"
	"strings"

	"golang.org/x/tools/go/packages"
	"golang.org/x/tools/go/types/typeutil"
)

// Func is a source function of the module: a declaration or a function
// literal (literals are children of the declaration they appear in).
type Func struct {
	Prog   *Prog
	Pkg    *packages.Package
	Decl   *ast.FuncDecl // nil for literals
	Lit    *ast.FuncLit  // nil for declarations
	Obj    *types.Func   // nil for literals
	Parent *Func         // enclosing function for literals
	Body   *ast.BlockStmt
	Type   *ast.FuncType
	File   *ast.File
	Lits   []*Func // directly nested literals, source order

	g *Graph
}

// Name is the module-relative qualified name:
//
//	chain.executeTx, chain.(*ChainService).addBlock, chain.NewTxExecutor$1
func (f *Func) Name() string {
	if f.Obj != nil {
		return FuncName(f.Obj)
	}
	idx := 0
	for i, l := range f.Parent.Lits {
		if l == f {
			idx = i + 1
		}
	}
	return f.Parent.Name() + "$" + itoa(idx)
}

func itoa(i int) string {
	if i == 0 {
		return "0"
	}
	s := ""
	for i > 0 {
		s = string(rune('0'+i%10)) + s
		i /= 10
	}
	return s
}

// Info is the type information of the function's package.
func (f *Func) Info() *types.Info { return f.Pkg.TypesInfo }

// Pos of the function.
func (f *Func) Pos() token.Pos {
	if f.Decl != nil {
		return f.Decl.Pos()
	}
	return f.Lit.Pos()
}

// FuncName renders a *types.Func as  pkg.Name  or  pkg.(*T).Name / pkg.(T).Name
// with the module prefix removed.
func FuncName(fn *types.Func) string {
	if fn == nil {
		return "<nil>"
	}
	sig, _ := fn.Type().(*types.Signature)
	pkg := ""
	if fn.Pkg() != nil {
		pkg = Rel(fn.Pkg().Path())
	}
	if sig != nil && sig.Recv() != nil {
		t := sig.Recv().Type()
		ptr := false
		if pt, ok := t.(*types.Pointer); ok {
			t = pt.Elem()
			ptr = true
		}
		tn := ""
		switch tt := t.(type) {
		case *types.Named:
			tn = tt.Obj().Name()
			if tt.Obj().Pkg() != nil {
				pkg = Rel(tt.Obj().Pkg().Path())
			}
		case *types.Alias:
			tn = tt.Obj().Name()
		default:
			tn = types.TypeString(t, func(p *types.Package) string { return Rel(p.Path()) })
		}
		if ptr {
			return pkg + ".(*" + tn + ")." + fn.Name()
		}
		return pkg + ".(" + tn + ")." + fn.Name()
	}
	return pkg + "." + fn.Name()
}

func (p *Prog) indexFuncs() {
	for _, pk := range p.ModulePkgs() {
		for _, file := range pk.Syntax {
			for _, d := range file.Decls {
				fd, ok := d.(*ast.FuncDecl)
				if !ok {
					continue
				}
				obj, _ := pk.TypesInfo.Defs[fd.Name].(*types.Func)
				f := &Func{Prog: p, Pkg: pk, Decl: fd, Obj: obj, Body: fd.Body, Type: fd.Type, File: file}
				if obj != nil {
					p.funcs[obj] = f
				}
				p.funcList = append(p.funcList, f)
				if fd.Body != nil {
					p.indexLits(f, fd.Body)
				}
			}
			// function literals in package-level var initialisers
			for _, d := range file.Decls {
				gd, ok := d.(*ast.GenDecl)
				if !ok || gd.Tok != token.VAR {
					continue
				}
				holder := &Func{Prog: p, Pkg: pk, File: file}
				_ = holder
			}
		}
	}
	sort.Slice(p.funcList, func(i, j int) bool { return p.funcList[i].Pos() < p.funcList[j].Pos() })
}

func (p *Prog) indexLits(parent *Func, body ast.Node) {
	ast.Inspect(body, func(n ast.Node) bool {
		if n == body {
			return true
		}
		if lit, ok := n.(*ast.FuncLit); ok {
			lf := &Func{Prog: p, Pkg: parent.Pkg, Lit: lit, Parent: parent, Body: lit.Body, Type: lit.Type, File: parent.File}
			parent.Lits = append(parent.Lits, lf)
			p.litOwner[lit] = lf
			p.indexLits(lf, lit.Body)
			return false
		}
		return true
	})
}

// Funcs returns every declared function of the module (not literals).
func (p *Prog) Funcs() []*Func { return p.funcList }

// FuncOf returns the source function for a types.Func (nil if outside the
// module or without source).
func (p *Prog) FuncOf(obj *types.Func) *Func {
	if obj == nil {
		return nil
	}
	if f := p.funcs[obj]; f != nil {
		return f
	}
	if o := obj.Origin(); o != obj {
		return p.funcs[o]
	}
	return nil
}

// LitFunc returns the Func wrapping a function literal.
func (p *Prog) LitFunc(l *ast.FuncLit) *Func { return p.litOwner[l] }

// Func resolves a module-relative qualified name as produced by FuncName
// ("chain.executeTx", "chain.(*ChainService).addBlock", "state.(AccountState).X");
// a trailing $n selects the n-th directly nested literal.  nil if absent.
func (p *Prog) Func(spec string) *Func {
	lits := []int{}
	for {
		i := strings.LastIndex(spec, "$")
		if i < 0 {
			break
		}
		n := 0
		for _, c := range spec[i+1:] {
			n = n*10 + int(c-'0')
		}
		lits = append([]int{n}, lits...)
		spec = spec[:i]
	}
	var f *Func
	pkgRel, recv, name := splitSpec(spec)
	pk := p.Pkg(pkgRel)
	if pk == nil || pk.Types == nil {
		return nil
	}
	if recv == "" {
		if obj, ok := pk.Types.Scope().Lookup(name).(*types.Func); ok {
			f = p.funcs[obj]
		}
	} else {
		tn := strings.TrimPrefix(recv, "*")
		if o, ok := pk.Types.Scope().Lookup(tn).(*types.TypeName); ok {
			if named, ok := o.Type().(*types.Named); ok {
				for i := 0; i < named.NumMethods(); i++ {
					m := named.Method(i)
					if m.Name() == name {
						f = p.funcs[m]
					}
				}
			}
		}
	}
	for _, n := range lits {
		if f == nil || n < 1 || n > len(f.Lits) {
			return nil
		}
		f = f.Lits[n-1]
	}
	return f
}

func splitSpec(spec string) (pkg, recv, name string) {
	// pkg.(*T).M | pkg.(T).M | pkg.F ; pkg may contain '/' and '.'
	if i := strings.Index(spec, ".("); i >= 0 {
		pkg = spec[:i]
		rest := spec[i+2:]
		j := strings.Index(rest, ").")
		if j < 0 {
			return pkg, "", rest
		}
		return pkg, rest[:j], rest[j+2:]
	}
	i := strings.LastIndex(spec, ".")
	if i < 0 {
		return "", "", spec
	}
	return spec[:i], "", spec[i+1:]
}

// Callee resolves the called function object of a call expression through the
// type checker: static functions, methods (also through embedding) and
// interface methods.  nil for calls of function values, conversions, builtins.
func Callee(info *types.Info, call *ast.CallExpr) *types.Func {
	fn, _ := typeutil.Callee(info, call).(*types.Func)
	if fn != nil {
		return fn.Origin()
	}
	return nil
}

// CalleeName is FuncName(Callee(...)) or "" when unresolved.
func CalleeName(info *types.Info, call *ast.CallExpr) string {
	fn := Callee(info, call)
	if fn == nil {
		return ""
	}
	return FuncName(fn)
}

// CalleeVar returns the variable/field object when the call invokes a function
// value stored in a variable or struct field (e.g. e.execTx(...), cp.apply(...)).
func CalleeVar(info *types.Info, call *ast.CallExpr) *types.Var {
	fun := ast.Unparen(call.Fun)
	switch x := fun.(type) {
	case *ast.Ident:
		v, _ := info.Uses[x].(*types.Var)
		return v
	case *ast.SelectorExpr:
		if sel := info.Selections[x]; sel != nil && sel.Kind() == types.FieldVal {
			v, _ := sel.Obj().(*types.Var)
			return v
		}
		v, _ := info.Uses[x.Sel].(*types.Var)
		return v
	}
	return nil
}

// IsBuiltin reports whether call invokes the named builtin.
func IsBuiltin(info *types.Info, call *ast.CallExpr, name string) bool {
	id, ok := ast.Unparen(call.Fun).(*ast.Ident)
	if !ok || id.Name != name {
		return false
	}
	_, ok = info.Uses[id].(*types.Builtin)
	return ok
}

// InspectShallow walks n without descending into function literals.
func InspectShallow(n ast.Node, fn func(ast.Node) bool) {
	if n == nil {
		return
	}
	ast.Inspect(n, func(m ast.Node) bool {
		if m == nil {
			return true
		}
		if _, ok := m.(*ast.FuncLit); ok && m != n {
			return false
		}
		return fn(m)
	})
}

// CallsIn lists the call expressions syntactically inside n (not inside
// nested function literals), in source order.
func CallsIn(n ast.Node) []*ast.CallExpr {
	var out []*ast.CallExpr
	InspectShallow(n, func(m ast.Node) bool {
		if c, ok := m.(*ast.CallExpr); ok {
			out = append(out, c)
		}
		return true
	})
	return out
}

// FieldOf returns the struct field object selected by expr (x.f), or nil.
func FieldOf(info *types.Info, e ast.Expr) *types.Var {
	sel, ok := ast.Unparen(e).(*ast.SelectorExpr)
	if !ok {
		return nil
	}
	if s := info.Selections[sel]; s != nil && s.Kind() == types.FieldVal {
		v, _ := s.Obj().(*types.Var)
		return v
	}
	return nil
}

// FieldName renders a field as pkg.Type.field when owner is known.
func FieldKey(v *types.Var, owner string) string { return owner + "." + v.Name() }

// LookupField finds field `name` of named struct type pkgRel.typeName.
func (p *Prog) LookupField(pkgRel, typeName, name string) *types.Var {
	st := p.LookupStruct(pkgRel, typeName)
	if st == nil {
		return nil
	}
	for i := 0; i < st.NumFields(); i++ {
		if st.Field(i).Name() == name {
			return st.Field(i)
		}
	}
	return nil
}

// LookupStruct returns the struct type underlying pkgRel.typeName.
func (p *Prog) LookupStruct(pkgRel, typeName string) *types.Struct {
	pk := p.Pkg(pkgRel)
	if pk == nil || pk.Types == nil {
		return nil
	}
	o, ok := pk.Types.Scope().Lookup(typeName).(*types.TypeName)
	if !ok {
		return nil
	}
	st, _ := o.Type().Underlying().(*types.Struct)
	return st
}

// LookupObj returns a package-level object.
func (p *Prog) LookupObj(pkgRel, name string) types.Object {
	pk := p.Pkg(pkgRel)
	if pk == nil || pk.Types == nil {
		return nil
	}
	return pk.Types.Scope().Lookup(name)
}

// EnclosingFunc finds the innermost Func (declaration or literal) containing pos.
func (p *Prog) EnclosingFunc(pk *packages.Package, pos token.Pos) *Func {
	var best *Func
	var walk func(f *Func)
	walk = func(f *Func) {
		if f.Body == nil || pos < f.Pos() || pos > f.Body.End() {
			return
		}
		best = f
		for _, l := range f.Lits {
			walk(l)
		}
	}
	for _, f := range p.funcList {
		if f.Pkg == pk {
			walk(f)
		}
	}
	return best
}

// TopDecl returns the declared function enclosing f (f itself if declared).
func (f *Func) TopDecl() *Func {
	for f.Parent != nil {
		f = f.Parent
	}
	return f
}

// ExprString is types.ExprString.
func ExprString(e ast.Expr) string { return types.ExprString(e) }
