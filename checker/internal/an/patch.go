package an

import (
	"fmt"
	"os"
	"path/filepath"
	"strconv"
	"strings"
)

// OverlayFromPatch applies a unified diff (as produced by `git diff`) to the
// files of the analysed repository *in memory* and returns a go/packages
// overlay (absolute file name -> patched contents).  Only text hunks of
// existing files are supported; anything else is an error.
func OverlayFromPatch(patchFile string) (map[string][]byte, error) {
	data, err := os.ReadFile(patchFile)
	if err != nil {
		return nil, err
	}
	root := RepoDir()
	out := map[string][]byte{}
	lines := strings.Split(string(data), "\n")
	var cur string
	var src []string // original file lines
	var dst []string
	pos := 0 // next original line (0-based) not yet copied
	flush := func() {
		if cur == "" {
			return
		}
		dst = append(dst, src[pos:]...)
		out[cur] = []byte(strings.Join(dst, "\n"))
		cur = ""
	}
	for i := 0; i < len(lines); i++ {
		l := lines[i]
		switch {
		case strings.HasPrefix(l, "+++ "):
			flush()
			name := strings.TrimPrefix(strings.Fields(l)[1], "b/")
			if name == "/dev/null" {
				return nil, fmt.Errorf("patch deletes a file: not supported")
			}
			cur = filepath.Join(root, name)
			b, err := os.ReadFile(cur)
			if err != nil {
				return nil, fmt.Errorf("patch target %s: %w", name, err)
			}
			src = strings.Split(string(b), "\n")
			dst = nil
			pos = 0
		case strings.HasPrefix(l, "@@ ") && cur != "":
			// @@ -a,b +c,d @@
			f := strings.Fields(l)
			if len(f) < 3 {
				return nil, fmt.Errorf("bad hunk header %q", l)
			}
			a := strings.TrimPrefix(f[1], "-")
			if k := strings.Index(a, ","); k >= 0 {
				a = a[:k]
			}
			start, err := strconv.Atoi(a)
			if err != nil {
				return nil, fmt.Errorf("bad hunk header %q", l)
			}
			if start > 0 {
				start--
			}
			if start < pos || start > len(src) {
				return nil, fmt.Errorf("hunk out of order in %s", cur)
			}
			dst = append(dst, src[pos:start]...)
			pos = start
			for i+1 < len(lines) {
				h := lines[i+1]
				if strings.HasPrefix(h, "@@ ") || strings.HasPrefix(h, "diff ") || strings.HasPrefix(h, "--- ") || strings.HasPrefix(h, "+++ ") {
					break
				}
				i++
				switch {
				case strings.HasPrefix(h, "+"):
					dst = append(dst, h[1:])
				case strings.HasPrefix(h, "-"):
					if pos >= len(src) || src[pos] != h[1:] {
						return nil, fmt.Errorf("hunk does not apply to %s at line %d", cur, pos+1)
					}
					pos++
				case strings.HasPrefix(h, " ") || h == "":
					if h == "" && i == len(lines)-1 {
						break // trailing newline of the patch file
					}
					want := strings.TrimPrefix(h, " ")
					if pos >= len(src) || src[pos] != want {
						return nil, fmt.Errorf("context does not match in %s at line %d", cur, pos+1)
					}
					dst = append(dst, src[pos])
					pos++
				case strings.HasPrefix(h, "\\"):
					// "\ No newline at end of file"
				}
			}
		}
	}
	flush()
	if len(out) == 0 {
		return nil, fmt.Errorf("patch contains no hunks")
	}
	return out, nil
}
