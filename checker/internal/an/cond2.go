package an

import (
	"go/ast"
	"go/constant"
	"go/token"
	"sort"
)

// GuardedAtAssuming is the conjunction part of GuardedAt with additional
// assumptions: clauses(atomNames) returns disjunctions of (positive) atom
// names that are assumed to hold (e.g. "x > 0 or x == 0" = x is not negative).
// It returns whether want is implied under the assumptions.
func (g *Graph) GuardedAtAssuming(target *Node, at Atomizer, want map[string]bool, clauses func(atoms []string) [][]string) bool {
	facts := g.FactsAt(target)
	if len(facts) == 0 {
		return false
	}
	info := g.Fn.Info()
	atoms := map[string]bool{}
	var fs []*bexpr
	for i, f := range facts {
		idx := i
		wrap := func(e ast.Expr) (string, bool, bool) {
			if at != nil {
				if a, neg, ok := at(e); ok {
					return a, neg, true
				}
			}
			switch x := ast.Unparen(e).(type) {
			case *ast.BinaryExpr:
				if x.Op == token.LAND || x.Op == token.LOR {
					return "", false, false
				}
				if x.Op == token.EQL || x.Op == token.NEQ {
					for _, y := range []ast.Expr{x.X, x.Y} {
						if tv, ok := info.Types[y]; ok && tv.Value != nil && tv.Value.Kind() == constant.Bool {
							return "", false, false
						}
					}
				}
			case *ast.UnaryExpr:
				if x.Op == token.NOT {
					return "", false, false
				}
			}
			if tv, ok := info.Types[e]; ok && tv.Value != nil {
				return "", false, false
			}
			name := "op:" + ExprString(e)
			neg := false
			if be, ok := ast.Unparen(e).(*ast.BinaryExpr); ok && be.Op == token.NEQ {
				name = "op:" + ExprString(be.X) + " == " + ExprString(be.Y)
				neg = true
			}
			if !g.stableExpr(e) {
				name = name + "@" + itoa(idx)
			}
			return name, neg, true
		}
		fs = append(fs, parseBool(info, f.Cond, wrap, atoms))
	}
	for a := range want {
		if !atoms[a] {
			return false
		}
	}
	var names []string
	for a := range atoms {
		names = append(names, a)
	}
	sort.Strings(names)
	if len(names) > 18 {
		return false
	}
	var cls [][]string
	if clauses != nil {
		cls = clauses(names)
	}
	env := map[string]bool{}
	sat := false
	for m := 0; m < 1<<len(names); m++ {
		for i, a := range names {
			env[a] = m&(1<<i) != 0
		}
		all := true
		for i, f := range fs {
			if f.eval(env) != facts[i].Val {
				all = false
				break
			}
		}
		for _, cl := range cls {
			okc := false
			for _, a := range cl {
				if env[a] {
					okc = true
				}
			}
			if !okc {
				all = false
			}
		}
		if !all {
			continue
		}
		sat = true
		for a, v := range want {
			if env[a] != v {
				return false
			}
		}
	}
	return sat
}
