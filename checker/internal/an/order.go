package an

import (
	"go/ast"
	"go/constant"
	"go/token"
	"go/types"
)

// CondPossible reports whether cond can evaluate to edgeVal when the atoms in
// fixed have the given values (propositional; other leaves are free).
func CondPossible(info *types.Info, cond ast.Expr, edgeVal bool, at Atomizer, fixed map[string]bool) bool {
	atoms := map[string]bool{}
	f := parseBool(info, cond, at, atoms)
	var names []string
	for a := range atoms {
		if _, fx := fixed[a]; !fx {
			names = append(names, a)
		}
	}
	if len(names) > 16 {
		return true
	}
	env := map[string]bool{}
	for a, v := range fixed {
		env[a] = v
	}
	for m := 0; m < 1<<len(names); m++ {
		for i, a := range names {
			env[a] = m&(1<<i) != 0
		}
		if f.eval(env) == edgeVal {
			return true
		}
	}
	return false
}

// InfeasibleEdges returns the branch edges that cannot be taken when the atoms
// recognised by at are fixed to the given values ("path atoms": configuration
// or diagnostic flags evaluated at their production value).
func (g *Graph) InfeasibleEdges(at Atomizer, fixed map[string]bool) Set {
	out := Set{}
	info := g.Fn.Info()
	for _, n := range g.Nodes {
		if n.Kind != KTrue && n.Kind != KFalse {
			continue
		}
		cond, ok := n.Ast.(ast.Expr)
		if !ok || cond == nil {
			continue
		}
		if tv, ok := info.Types[cond]; !ok || tv.Type == nil || !isBool(tv.Type) {
			continue
		}
		if !CondPossible(info, cond, n.Kind == KTrue, at, fixed) {
			out[n] = true
		}
	}
	return out
}

// FieldAtom recognises a read of the given boolean struct field as atom name.
func FieldAtom(info *types.Info, field *types.Var, name string) Atomizer {
	return func(e ast.Expr) (string, bool, bool) {
		if f := FieldOf(info, ast.Unparen(e)); f != nil && f == field {
			return name, false, true
		}
		return "", false, false
	}
}

// ---------------------------------------------------------------------------
// Ordering comparisons: values touched only through comparisons form a finite
// set of orderings.  An OrdCmp is a branch condition comparing A+a with B+b
// (a, b integer constants) normalised to  d op 0  with d = A - B - Shift... the
// caller fixes the reference difference through `shift`: d = (A + shift) - B.

// Role classifies an operand expression (after stripping +/- constants).
type Role func(e ast.Expr) bool

// OrdCmp is a normalised ordering comparison at a condition vertex.
type OrdCmp struct {
	Node *Node       // the condition vertex (KStmt)
	Expr ast.Expr    // the comparison expression (may be a sub-expression of the condition)
	Op   token.Token // d Op 0  where d = (A+shift) - B
}

// Holds evaluates the comparison for sign(d) in {-1,0,+1}.
func (o OrdCmp) Holds(sign int) bool {
	switch o.Op {
	case token.LSS:
		return sign < 0
	case token.LEQ:
		return sign <= 0
	case token.GTR:
		return sign > 0
	case token.GEQ:
		return sign >= 0
	case token.EQL:
		return sign == 0
	case token.NEQ:
		return sign != 0
	}
	return false
}

func flipOp(op token.Token) token.Token {
	switch op {
	case token.LSS:
		return token.GTR
	case token.GTR:
		return token.LSS
	case token.LEQ:
		return token.GEQ
	case token.GEQ:
		return token.LEQ
	}
	return op
}

// splitOffset strips integer constant additions: returns the base expression
// and the constant offset (e = base + off).
func splitOffset(info *types.Info, e ast.Expr) (ast.Expr, int64, bool) {
	e = ast.Unparen(e)
	if be, ok := e.(*ast.BinaryExpr); ok && (be.Op == token.ADD || be.Op == token.SUB) {
		cv := func(x ast.Expr) (int64, bool) {
			tv, ok := info.Types[x]
			if !ok || tv.Value == nil || tv.Value.Kind() != constant.Int {
				return 0, false
			}
			return constant.Int64Val(tv.Value)
		}
		if c, ok := cv(be.Y); ok {
			base, off, ok2 := splitOffset(info, be.X)
			if be.Op == token.SUB {
				c = -c
			}
			return base, off + c, ok2
		}
		if c, ok := cv(be.X); ok && be.Op == token.ADD {
			base, off, ok2 := splitOffset(info, be.Y)
			return base, off + c, ok2
		}
	}
	// conversions  uint64(x)
	if call, ok := e.(*ast.CallExpr); ok && len(call.Args) == 1 {
		if tv, ok := info.Types[call.Fun]; ok && tv.IsType() {
			return splitOffset(info, call.Args[0])
		}
	}
	return e, 0, true
}

// OrdCmps finds every comparison between an A-role and a B-role operand inside
// branch conditions of g and normalises it to  ((A+shift) - B) op 0.
// undecided lists comparisons whose constant offsets cannot be normalised to a
// comparison against zero (the caller should treat them as undecided).
func (g *Graph) OrdCmps(roleA, roleB Role, shift int64) (cmps []OrdCmp, undecided []ast.Expr) {
	_ = g.Fn.Info()
	for _, n := range g.Nodes {
		if n.Kind != KStmt || len(n.Succs) != 2 {
			continue
		}
		cond, ok := n.Ast.(ast.Expr)
		if !ok {
			continue
		}
		InspectShallow(cond, func(m ast.Node) bool {
			be, ok := m.(*ast.BinaryExpr)
			if !ok {
				return true
			}
			switch be.Op {
			case token.LSS, token.LEQ, token.GTR, token.GEQ, token.EQL, token.NEQ:
			default:
				return true
			}
			xb, xo, _ := g.splitOffsetResolved(be.X)
			yb, yo, _ := g.splitOffsetResolved(be.Y)
			op := be.Op
			var aOff, bOff int64
			switch {
			case roleA(xb) && roleB(yb):
				aOff, bOff = xo, yo
			case roleB(xb) && roleA(yb):
				aOff, bOff = yo, xo
				op = flipOp(op)
			default:
				return true
			}
			// A + aOff op B + bOff   <=>   (A+shift) - B  op  shift + bOff - aOff
			c := shift + bOff - aOff
			switch {
			case c == 0:
			case c == 1 && op == token.LSS: // d < 1  <=> d <= 0
				op = token.LEQ
			case c == 1 && op == token.GEQ: // d >= 1 <=> d > 0
				op = token.GTR
			case c == -1 && op == token.GTR: // d > -1 <=> d >= 0
				op = token.GEQ
			case c == -1 && op == token.LEQ: // d <= -1 <=> d < 0
				op = token.LSS
			default:
				undecided = append(undecided, be)
				return true
			}
			cmps = append(cmps, OrdCmp{Node: n, Expr: be, Op: op})
			return true
		})
	}
	return
}

// EdgeFor returns the branch edge vertex of cmp's condition that is taken when
// the comparison has the value it has under sign(d)=sign, provided the whole
// condition is determined by this comparison alone (the comparison is the
// condition, possibly negated / parenthesised).  nil otherwise.
func (g *Graph) EdgeFor(cmp OrdCmp, sign int) *Node {
	cond, _ := cmp.Node.Ast.(ast.Expr)
	neg := false
	e := ast.Unparen(cond)
	for {
		if u, ok := e.(*ast.UnaryExpr); ok && u.Op == token.NOT {
			neg = !neg
			e = ast.Unparen(u.X)
			continue
		}
		break
	}
	if e != cmp.Expr {
		return nil
	}
	val := cmp.Holds(sign) != neg
	for _, s := range cmp.Node.Succs {
		if (s.Kind == KTrue && val) || (s.Kind == KFalse && !val) {
			return s
		}
	}
	return nil
}

// NilReturns lists the return vertices whose error result (last result) is the
// literal nil, plus bare returns of functions with named results (may be nil).
func (g *Graph) NilReturns() []*Node {
	info := g.Fn.Info()
	var out []*Node
	for _, r := range g.Returns() {
		rs := r.Ast.(*ast.ReturnStmt)
		if len(rs.Results) == 0 {
			out = append(out, r)
			continue
		}
		last := rs.Results[len(rs.Results)-1]
		if tv, ok := info.Types[last]; ok && tv.IsNil() {
			out = append(out, r)
			continue
		}
		// returning the result of a call: may be nil
		if call, isCall := ast.Unparen(last).(*ast.CallExpr); isCall && !NonNilErrorExpr(info, last) {
			if tv, ok := info.Types[call]; ok && tv.Type != nil && isErrorType(tv.Type) {
				out = append(out, r)
				continue
			}
		}
		// returning a variable: may be nil
		if _, isIdent := ast.Unparen(last).(*ast.Ident); isIdent && !NonNilErrorExpr(info, last) {
			if tv, ok := info.Types[last]; ok && tv.Value == nil && isErrorType(tv.Type) {
				// `return err` on a path where err != nil is known is an error return
				if obj := ObjOf(info, last); obj != nil {
					nonNil := g.EdgesImplying(NilAtom(info, obj), map[string]bool{"nil": false})
					if len(nonNil) > 0 && g.Dominated(r, nonNil) {
						clean := true
						for e := range nonNil {
							if !g.Reach([]*Node{e}, nil)[r] {
								continue
							}
							for m := range g.Between(e, r) {
								if m.Kind == KStmt && Assigns(info, m.Ast, obj) {
									clean = false
								}
							}
						}
						if clean {
							continue
						}
					}
				}
				out = append(out, r)
			}
		}
	}
	return out
}

// ErrReturns lists the return vertices whose last result is certainly non-nil
// (a composite literal, &T{}, a call to errors.New/fmt.Errorf, or a package
// level error variable).
func (g *Graph) ErrReturns() []*Node {
	info := g.Fn.Info()
	var out []*Node
	for _, r := range g.Returns() {
		rs := r.Ast.(*ast.ReturnStmt)
		if len(rs.Results) == 0 {
			continue
		}
		last := ast.Unparen(rs.Results[len(rs.Results)-1])
		if NonNilErrorExpr(info, last) {
			out = append(out, r)
		}
	}
	return out
}

// NonNilErrorExpr: syntactically certain non-nil error value.
func NonNilErrorExpr(info *types.Info, e ast.Expr) bool {
	switch x := ast.Unparen(e).(type) {
	case *ast.UnaryExpr:
		if x.Op == token.AND {
			_, ok := ast.Unparen(x.X).(*ast.CompositeLit)
			return ok
		}
	case *ast.CompositeLit:
		return true
	case *ast.CallExpr:
		switch CalleeName(info, x) {
		case "errors.New", "fmt.Errorf":
			return true
		}
	case *ast.Ident:
		if v, ok := info.Uses[x].(*types.Var); ok && v.Pkg() != nil && v.Parent() == v.Pkg().Scope() {
			return true // package-level error variable (ErrXxx)
		}
	case *ast.SelectorExpr:
		if v, ok := info.Uses[x.Sel].(*types.Var); ok && v.Pkg() != nil && v.Parent() == v.Pkg().Scope() {
			return true
		}
	}
	return false
}

// SingleDef returns the right-hand side that defines obj when obj is assigned
// exactly once in the function ( x := rhs / x, err := call() -> the call ).
// idx is the position of obj on the left-hand side.  nil if not single.
func (g *Graph) SingleDef(obj types.Object) (rhs ast.Expr, idx int) {
	info := g.Fn.Info()
	var found ast.Expr
	fidx := 0
	count := 0
	for _, n := range g.Nodes {
		if n.Kind != KStmt {
			continue
		}
		var lhs, rs []ast.Expr
		switch s := n.Ast.(type) {
		case *ast.AssignStmt:
			lhs, rs = s.Lhs, s.Rhs
		case *ast.ValueSpec:
			for _, nm := range s.Names {
				lhs = append(lhs, nm)
			}
			rs = s.Values
		default:
			if Assigns(info, n.Ast, obj) {
				count++
			}
			continue
		}
		for i, l := range lhs {
			id, ok := ast.Unparen(l).(*ast.Ident)
			if !ok || (info.Defs[id] != obj && info.Uses[id] != obj) {
				continue
			}
			count++
			if len(rs) == len(lhs) {
				found, fidx = rs[i], 0
			} else if len(rs) == 1 {
				found, fidx = rs[0], i
			}
		}
	}
	if count != 1 || g.assignCount(obj) != 1 {
		return nil, 0
	}
	return found, fidx
}

// ParamObj returns the object of the i-th parameter of the function (flattened).
func (f *Func) ParamObj(i int) types.Object {
	if f.Type == nil || f.Type.Params == nil {
		return nil
	}
	k := 0
	for _, fl := range f.Type.Params.List {
		if len(fl.Names) == 0 {
			k++
			continue
		}
		for _, nm := range fl.Names {
			if k == i {
				return f.Info().Defs[nm]
			}
			k++
		}
	}
	return nil
}

// LookupObjVar returns a package-level variable.
func (p *Prog) LookupObjVar(pkgRel, name string) *types.Var {
	v, _ := p.LookupObj(pkgRel, name).(*types.Var)
	return v
}

var cgCache = map[*Prog]*CallGraph{}

// BuildCallGraphCached builds the call graph once per program.
func (p *Prog) BuildCallGraphCached() *CallGraph {
	if cg := cgCache[p]; cg != nil {
		return cg
	}
	cg := p.BuildCallGraph()
	cgCache[p] = cg
	return cg
}

// SingleDefOrParam reports whether obj is never reassigned in the function
// (a parameter that is not assigned, or a local with a single definition).
func (g *Graph) SingleDefOrParam(obj types.Object) bool {
	if obj == nil {
		return false
	}
	return g.assignCount(obj) <= 1
}

// ExprCmp is a normalised ordering comparison found anywhere in a function
// body (not only in branch conditions).
type ExprCmp struct {
	Expr *ast.BinaryExpr
	Op   token.Token // ((A+shift) - B) Op 0
}

// Holds evaluates the comparison for sign(d).
func (o ExprCmp) Holds(sign int) bool { return OrdCmp{Op: o.Op}.Holds(sign) }

// ExprCmps finds every comparison between an A-role and a B-role operand in
// the body of f (nested literals excluded), normalised like OrdCmps.
func (f *Func) ExprCmps(roleA, roleB Role, shift int64) (cmps []ExprCmp, undecided []ast.Expr) {
	info := f.Info()
	InspectShallow(f.Body, func(m ast.Node) bool {
		be, ok := m.(*ast.BinaryExpr)
		if !ok {
			return true
		}
		switch be.Op {
		case token.LSS, token.LEQ, token.GTR, token.GEQ, token.EQL, token.NEQ:
		default:
			return true
		}
		xb, xo, _ := splitOffset(info, be.X)
		yb, yo, _ := splitOffset(info, be.Y)
		op := be.Op
		var aOff, bOff int64
		switch {
		case roleA(xb) && roleB(yb):
			aOff, bOff = xo, yo
		case roleB(xb) && roleA(yb):
			aOff, bOff = yo, xo
			op = flipOp(op)
		default:
			return true
		}
		c := shift + bOff - aOff
		switch {
		case c == 0:
		case c == 1 && op == token.LSS:
			op = token.LEQ
		case c == 1 && op == token.GEQ:
			op = token.GTR
		case c == -1 && op == token.GTR:
			op = token.GEQ
		case c == -1 && op == token.LEQ:
			op = token.LSS
		default:
			undecided = append(undecided, be)
			return true
		}
		cmps = append(cmps, ExprCmp{Expr: be, Op: op})
		return true
	})
	return
}

// EdgeUnder returns the unique branch edge of the condition vertex cond that
// can be taken when the sub-expression cmp has value cmpVal and the atoms in
// fixed (recognised by at) have the given values; nil if both or none can.
func (g *Graph) EdgeUnder(cond *Node, cmp ast.Expr, cmpVal bool, at Atomizer, fixed map[string]bool) *Node {
	info := g.Fn.Info()
	ce, ok := cond.Ast.(ast.Expr)
	if !ok {
		return nil
	}
	wrap := func(e ast.Expr) (string, bool, bool) {
		if ast.Unparen(e) == ast.Unparen(cmp) {
			return "#cmp", false, true
		}
		if at != nil {
			return at(e)
		}
		return "", false, false
	}
	fx := map[string]bool{"#cmp": cmpVal}
	for k, v := range fixed {
		fx[k] = v
	}
	var res *Node
	n := 0
	for _, s := range cond.Succs {
		if s.Kind != KTrue && s.Kind != KFalse {
			continue
		}
		if CondPossible(info, ce, s.Kind == KTrue, wrap, fx) {
			res = s
			n++
		}
	}
	if n != 1 {
		return nil
	}
	return res
}

// CondNodeOf returns the condition vertex whose expression contains e.
func (g *Graph) CondNodeOf(e ast.Expr) *Node {
	for _, n := range g.Nodes {
		if n.Kind != KStmt || len(n.Succs) != 2 {
			continue
		}
		ce, ok := n.Ast.(ast.Expr)
		if !ok {
			continue
		}
		if ce.Pos() <= e.Pos() && e.End() <= ce.End() {
			return n
		}
	}
	return nil
}

// BoolReturns lists the return vertices whose single result is the constant val.
func (g *Graph) BoolReturns(val bool) []*Node {
	info := g.Fn.Info()
	var out []*Node
	for _, r := range g.Returns() {
		rs := r.Ast.(*ast.ReturnStmt)
		if len(rs.Results) != 1 {
			continue
		}
		if tv, ok := info.Types[rs.Results[0]]; ok && tv.Value != nil && tv.Value.Kind() == constant.Bool && constant.BoolVal(tv.Value) == val {
			out = append(out, r)
		}
	}
	return out
}

// CanReachAny reports whether any vertex of targets is reachable from `from`.
func (g *Graph) CanReachAny(from *Node, targets []*Node) bool {
	r := g.Reach([]*Node{from}, nil)
	for _, t := range targets {
		if r[t] {
			return true
		}
	}
	return false
}

// SingleDefInLoop is SingleDef that tolerates the definition sitting inside a
// loop body (x := e executed once per iteration).
func (g *Graph) SingleDefInLoop(obj types.Object) (ast.Expr, int) {
	if obj == nil {
		return nil, 0
	}
	info := g.Fn.Info()
	var found ast.Expr
	count := 0
	idx := 0
	for _, n := range g.Nodes {
		if n.Kind != KStmt {
			continue
		}
		as, ok := n.Ast.(*ast.AssignStmt)
		if !ok {
			continue
		}
		for i, l := range as.Lhs {
			id, ok := ast.Unparen(l).(*ast.Ident)
			if !ok || (info.Defs[id] != obj && info.Uses[id] != obj) {
				continue
			}
			count++
			if len(as.Rhs) == len(as.Lhs) {
				found, idx = as.Rhs[i], 0
			} else if len(as.Rhs) == 1 {
				found, idx = as.Rhs[0], i
			}
		}
	}
	if count != 1 {
		return nil, 0
	}
	return found, idx
}


// splitOffsetResolved is splitOffset that looks through locals with a single
// definition:  next := s.GetNonce() + 1; if next > n  is the comparison
// s.GetNonce()+1 > n.
func (g *Graph) splitOffsetResolved(e ast.Expr) (ast.Expr, int64, bool) {
	info := g.Fn.Info()
	base, off, ok := splitOffset(info, e)
	for depth := 0; depth < 3; depth++ {
		id, isID := ast.Unparen(base).(*ast.Ident)
		if !isID {
			break
		}
		obj := info.Uses[id]
		if obj == nil {
			break
		}
		if v, isVar := obj.(*types.Var); !isVar || v.IsField() || (v.Parent() != nil && v.Pkg() != nil && v.Parent() == v.Pkg().Scope()) {
			break
		}
		rhs, idx := g.SingleDef(obj)
		if rhs == nil || idx != 0 {
			break
		}
		if call, isCall := ast.Unparen(rhs).(*ast.CallExpr); isCall {
			// a call result: keep the identifier unless the call has exactly one result
			if tv, has := info.Types[call]; has {
				if _, isTuple := tv.Type.(*types.Tuple); isTuple {
					break
				}
			}
		}
		b2, o2, ok2 := splitOffset(info, rhs)
		if !ok2 {
			break
		}
		base, off = b2, off+o2
	}
	return base, off, ok
}
