package an

import (
	"go/ast"
	"go/types"
)

// CondEntails is CondImplies for an arbitrary propositional consequence:
// whenever cond evaluates to edgeVal, does pred(env) hold?  Every atom of
// `need` must be mentioned by cond (a condition that does not talk about the
// atom cannot be the guard that is looked for).  Leaves not recognised by `at`
// are opaque atoms.  Unsatisfiable edges and more than 16 atoms: false.
func CondEntails(info *types.Info, cond ast.Expr, edgeVal bool, at Atomizer, need []string, pred func(env map[string]bool) bool) bool {
	atoms := map[string]bool{}
	f := parseBool(info, cond, at, atoms)
	for _, a := range need {
		if !atoms[a] {
			return false
		}
	}
	var names []string
	for a := range atoms {
		names = append(names, a)
	}
	if len(names) > 16 {
		return false
	}
	env := map[string]bool{}
	sat := false
	for m := 0; m < 1<<len(names); m++ {
		for i, a := range names {
			env[a] = m&(1<<i) != 0
		}
		if f.eval(env) != edgeVal {
			continue
		}
		sat = true
		if !pred(env) {
			return false
		}
	}
	return sat
}

// EdgesEntailing returns the KTrue/KFalse vertices whose boolean condition,
// taken with that edge's value, entails pred (see CondEntails).
func (g *Graph) EdgesEntailing(at Atomizer, need []string, pred func(env map[string]bool) bool) Set {
	out := Set{}
	info := g.Fn.Info()
	for _, n := range g.Nodes {
		if n.Kind != KTrue && n.Kind != KFalse {
			continue
		}
		cond, ok := n.Ast.(ast.Expr)
		if !ok || cond == nil {
			continue
		}
		if tv, ok := info.Types[cond]; !ok || tv.Type == nil || !isBool(tv.Type) {
			continue
		}
		if CondEntails(info, cond, n.Kind == KTrue, at, need, pred) {
			out[n] = true
		}
	}
	return out
}

// CondMentions reports whether the boolean condition of a branch vertex
// contains a leaf recognised by `at` as atom `name`.
func CondMentions(info *types.Info, cond ast.Expr, at Atomizer, name string) bool {
	atoms := map[string]bool{}
	parseBool(info, cond, at, atoms)
	return atoms[name]
}
