package an

import (
	"go/ast"
	"go/types"
)

// EffectSpec names primitive effects: writes of given struct fields and calls
// of given functions (FuncName; interface methods by their interface name).
type EffectSpec struct {
	Fields map[*types.Var]bool
	Calls  map[string]bool
}

// Effect is one primitive effect occurrence.
type Effect struct {
	Fn   *Func
	Node ast.Node
	What string
}

// DirectEffects lists primitive effects per declared-or-literal function.
func (cg *CallGraph) DirectEffects(spec EffectSpec) map[*Func][]Effect {
	out := map[*Func][]Effect{}
	if len(spec.Fields) > 0 {
		for _, w := range cg.Prog.FieldWrites(spec.Fields) {
			if w.Fn == nil || w.How == "literal" {
				continue
			}
			out[w.Fn] = append(out[w.Fn], Effect{Fn: w.Fn, What: "write " + w.Field.Name() + " (" + w.How + ")"})
		}
	}
	if len(spec.Calls) > 0 {
		for f, es := range cg.Out {
			for _, e := range es {
				if e.Obj != nil && e.Call != nil && spec.Calls[FuncName(e.Obj)] {
					out[f] = append(out[f], Effect{Fn: f, Node: e.Call, What: "call " + FuncName(e.Obj)})
				}
			}
		}
	}
	return out
}

// MayReach computes the set of functions from which a function in seeds is
// reachable (seeds included), following only edges accepted by follow.
func (cg *CallGraph) MayReach(seeds map[*Func]bool, follow func(e Edge) bool) map[*Func]bool {
	seen := map[*Func]bool{}
	var stack []*Func
	for f := range seeds {
		seen[f] = true
		stack = append(stack, f)
	}
	for len(stack) > 0 {
		f := stack[len(stack)-1]
		stack = stack[:len(stack)-1]
		for _, e := range cg.In[f] {
			if seen[e.Caller] {
				continue
			}
			if follow != nil && !follow(e) {
				continue
			}
			seen[e.Caller] = true
			stack = append(stack, e.Caller)
		}
	}
	return seen
}

// PathTo returns one call path (function names) from `from` to any seed.
func (cg *CallGraph) PathTo(from *Func, seeds map[*Func]bool, follow func(e Edge) bool) []string {
	type item struct {
		f    *Func
		prev *item
	}
	seen := map[*Func]bool{from: true}
	q := []*item{{from, nil}}
	for len(q) > 0 {
		it := q[0]
		q = q[1:]
		if seeds[it.f] {
			var rev []string
			for x := it; x != nil; x = x.prev {
				rev = append([]string{x.f.Name()}, rev...)
			}
			return rev
		}
		for _, e := range cg.Out[it.f] {
			if e.Callee == nil || seen[e.Callee] || (follow != nil && !follow(e)) {
				continue
			}
			seen[e.Callee] = true
			q = append(q, &item{e.Callee, it})
		}
	}
	return nil
}
