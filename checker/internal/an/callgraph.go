package an

import (
	"go/ast"
	"go/token"
	"go/types"
	"sort"
)

// Edge is one resolved call edge.
type Edge struct {
	Caller *Func
	Call   *ast.CallExpr
	Obj    *types.Func // callee object (may be outside the module or an interface method)
	Callee *Func       // source of the callee when inside the module (nil otherwise)
	Kind   EdgeKind
}

type EdgeKind uint8

const (
	EStatic  EdgeKind = iota // static function / concrete method
	EIface                   // interface method, expanded by class hierarchy analysis
	EFuncVal                 // call of a function value, resolved through assignments to the variable/field
	ELit                     // function literal defined in the caller (treated as possibly executed)
)

// CallGraph is an AST-level call graph over the module: static callees through
// the type checker, interface calls through CHA over the module's named types,
// function-valued struct fields and variables through the set of function
// values assigned to them anywhere in the module.
type CallGraph struct {
	Prog  *Prog
	Out   map[*Func][]Edge
	In    map[*Func][]Edge
	impls map[*types.Func][]*Func // interface method -> implementations in module
	named []*types.Named
	fvals map[*types.Var][]*Func // function values assigned to a variable / field
}

// BuildCallGraph constructs the graph for all module functions.
func (p *Prog) BuildCallGraph() *CallGraph {
	cg := &CallGraph{Prog: p, Out: map[*Func][]Edge{}, In: map[*Func][]Edge{}, impls: map[*types.Func][]*Func{}, fvals: map[*types.Var][]*Func{}}
	for _, pk := range p.ModulePkgs() {
		if pk.Types == nil {
			continue
		}
		sc := pk.Types.Scope()
		for _, n := range sc.Names() {
			if tn, ok := sc.Lookup(n).(*types.TypeName); ok && !tn.IsAlias() {
				if nt, ok := tn.Type().(*types.Named); ok {
					cg.named = append(cg.named, nt)
				}
			}
		}
	}
	cg.collectFuncValues()
	var all []*Func
	var walk func(f *Func)
	walk = func(f *Func) {
		all = append(all, f)
		for _, l := range f.Lits {
			walk(l)
		}
	}
	for _, f := range p.funcList {
		walk(f)
	}
	for _, f := range all {
		if f.Body == nil {
			continue
		}
		info := f.Info()
		for _, l := range f.Lits {
			cg.add(Edge{Caller: f, Callee: l, Kind: ELit})
		}
		InspectShallow(f.Body, func(n ast.Node) bool {
			call, ok := n.(*ast.CallExpr)
			if !ok {
				return true
			}
			if fn := Callee(info, call); fn != nil {
				if isIfaceMethod(fn) {
					for _, impl := range cg.implsOf(fn) {
						cg.add(Edge{Caller: f, Call: call, Obj: impl.Obj, Callee: impl, Kind: EIface})
					}
					cg.add(Edge{Caller: f, Call: call, Obj: fn, Kind: EIface})
					return true
				}
				cg.add(Edge{Caller: f, Call: call, Obj: fn, Callee: p.FuncOf(fn), Kind: EStatic})
				return true
			}
			if v := CalleeVar(info, call); v != nil {
				for _, t := range cg.fvals[v] {
					cg.add(Edge{Caller: f, Call: call, Obj: t.Obj, Callee: t, Kind: EFuncVal})
				}
			}
			return true
		})
	}
	return cg
}

func (cg *CallGraph) add(e Edge) {
	cg.Out[e.Caller] = append(cg.Out[e.Caller], e)
	if e.Callee != nil {
		cg.In[e.Callee] = append(cg.In[e.Callee], e)
	}
}

func isIfaceMethod(fn *types.Func) bool {
	sig, ok := fn.Type().(*types.Signature)
	if !ok || sig.Recv() == nil {
		return false
	}
	return types.IsInterface(sig.Recv().Type())
}

func (cg *CallGraph) implsOf(m *types.Func) []*Func {
	if r, ok := cg.impls[m]; ok {
		return r
	}
	sig := m.Type().(*types.Signature)
	iface, _ := sig.Recv().Type().Underlying().(*types.Interface)
	var out []*Func
	if iface != nil {
		for _, nt := range cg.named {
			if types.IsInterface(nt) {
				continue
			}
			var recv types.Type
			if types.Implements(nt, iface) {
				recv = nt
			} else if pt := types.NewPointer(nt); types.Implements(pt, iface) {
				recv = pt
			} else {
				continue
			}
			obj, _, _ := types.LookupFieldOrMethod(recv, true, m.Pkg(), m.Name())
			if fo, ok := obj.(*types.Func); ok {
				if f := cg.Prog.FuncOf(fo); f != nil {
					out = append(out, f)
				}
			}
		}
	}
	cg.impls[m] = out
	return out
}

// collectFuncValues records, for every variable or struct field of function
// type, the module functions / literals assigned to it anywhere (assignment,
// composite literal key, var initialiser).
func (cg *CallGraph) collectFuncValues() {
	p := cg.Prog
	for _, pk := range p.ModulePkgs() {
		info := pk.TypesInfo
		if info == nil {
			continue
		}
		funOf := func(e ast.Expr) *Func {
			e = ast.Unparen(e)
			switch x := e.(type) {
			case *ast.FuncLit:
				return p.litOwner[x]
			case *ast.Ident:
				if fo, ok := info.Uses[x].(*types.Func); ok {
					return p.FuncOf(fo)
				}
			case *ast.SelectorExpr:
				if fo, ok := info.Uses[x.Sel].(*types.Func); ok {
					return p.FuncOf(fo)
				}
			}
			return nil
		}
		varOf := func(e ast.Expr) *types.Var {
			e = ast.Unparen(e)
			switch x := e.(type) {
			case *ast.Ident:
				if v, ok := info.Defs[x].(*types.Var); ok {
					return v
				}
				v, _ := info.Uses[x].(*types.Var)
				return v
			case *ast.SelectorExpr:
				if s := info.Selections[x]; s != nil && s.Kind() == types.FieldVal {
					v, _ := s.Obj().(*types.Var)
					return v
				}
				v, _ := info.Uses[x.Sel].(*types.Var)
				return v
			}
			return nil
		}
		for _, file := range pk.Syntax {
			ast.Inspect(file, func(n ast.Node) bool {
				switch s := n.(type) {
				case *ast.AssignStmt:
					if len(s.Lhs) == len(s.Rhs) {
						for i := range s.Lhs {
							if f := funOf(s.Rhs[i]); f != nil {
								if v := varOf(s.Lhs[i]); v != nil {
									cg.fvals[v] = append(cg.fvals[v], f)
								}
							}
						}
					}
				case *ast.ValueSpec:
					if len(s.Names) == len(s.Values) {
						for i := range s.Names {
							if f := funOf(s.Values[i]); f != nil {
								if v, ok := info.Defs[s.Names[i]].(*types.Var); ok {
									cg.fvals[v] = append(cg.fvals[v], f)
								}
							}
						}
					}
				case *ast.KeyValueExpr:
					if f := funOf(s.Value); f != nil {
						if id, ok := s.Key.(*ast.Ident); ok {
							if v, ok := info.Uses[id].(*types.Var); ok && v.IsField() {
								cg.fvals[v] = append(cg.fvals[v], f)
							}
						}
					}
				}
				return true
			})
		}
	}
}

// FuncValues returns the functions assigned to a function-typed variable/field.
func (cg *CallGraph) FuncValues(v *types.Var) []*Func { return cg.fvals[v] }

// ReachableFrom returns the module functions reachable from roots following
// edges accepted by follow (nil: all).
func (cg *CallGraph) ReachableFrom(roots []*Func, follow func(e Edge) bool) map[*Func]bool {
	seen := map[*Func]bool{}
	var stack []*Func
	for _, r := range roots {
		if r != nil && !seen[r] {
			seen[r] = true
			stack = append(stack, r)
		}
	}
	for len(stack) > 0 {
		f := stack[len(stack)-1]
		stack = stack[:len(stack)-1]
		for _, e := range cg.Out[f] {
			if e.Callee == nil || seen[e.Callee] {
				continue
			}
			if follow != nil && !follow(e) {
				continue
			}
			seen[e.Callee] = true
			stack = append(stack, e.Callee)
		}
	}
	return seen
}

// Callers returns the distinct functions with an edge to f.
func (cg *CallGraph) Callers(f *Func) []*Func {
	seen := map[*Func]bool{}
	var out []*Func
	for _, e := range cg.In[f] {
		if !seen[e.Caller] {
			seen[e.Caller] = true
			out = append(out, e.Caller)
		}
	}
	sort.Slice(out, func(i, j int) bool { return out[i].Name() < out[j].Name() })
	return out
}

// ---------------------------------------------------------------------------
// Site enumeration over the whole module (engine E2)

// FieldWrite is a write access to a struct field.
type FieldWrite struct {
	Fn    *Func
	Pos   token.Pos
	Field *types.Var
	How   string // "assign", "op-assign", "incdec", "literal", "addr"
}

// FieldWrites enumerates every write to any of the given struct fields in the
// module: assignment (also of an element/slice of the field), op-assignment,
// ++/--, composite literal key, address-of.
func (p *Prog) FieldWrites(fields map[*types.Var]bool) []FieldWrite {
	var out []FieldWrite
	for _, pk := range p.ModulePkgs() {
		info := pk.TypesInfo
		if info == nil {
			continue
		}
		baseField := func(e ast.Expr) *types.Var {
			for {
				e = ast.Unparen(e)
				switch x := e.(type) {
				case *ast.IndexExpr:
					e = x.X
					continue
				case *ast.SliceExpr:
					e = x.X
					continue
				case *ast.StarExpr:
					e = x.X
					continue
				}
				break
			}
			if v := FieldOf(info, e); v != nil && fields[v] {
				return v
			}
			return nil
		}
		for _, file := range pk.Syntax {
			ast.Inspect(file, func(n ast.Node) bool {
				rec := func(pos token.Pos, v *types.Var, how string) {
					out = append(out, FieldWrite{Fn: p.EnclosingFunc(pk, pos), Pos: pos, Field: v, How: how})
				}
				switch s := n.(type) {
				case *ast.AssignStmt:
					for _, l := range s.Lhs {
						if v := baseField(l); v != nil {
							how := "assign"
							if s.Tok != token.ASSIGN && s.Tok != token.DEFINE {
								how = "op-assign"
							}
							rec(l.Pos(), v, how)
						}
					}
				case *ast.IncDecStmt:
					if v := baseField(s.X); v != nil {
						rec(s.Pos(), v, "incdec")
					}
				case *ast.UnaryExpr:
					if s.Op == token.AND {
						if v := baseField(s.X); v != nil {
							rec(s.Pos(), v, "addr")
						}
					}
				case *ast.CompositeLit:
					for _, el := range s.Elts {
						if kv, ok := el.(*ast.KeyValueExpr); ok {
							if id, ok := kv.Key.(*ast.Ident); ok {
								if v, ok := info.Uses[id].(*types.Var); ok && fields[v] {
									rec(kv.Pos(), v, "literal")
								}
							}
						}
					}
				}
				return true
			})
		}
	}
	sort.Slice(out, func(i, j int) bool { return out[i].Pos < out[j].Pos })
	return out
}

// CallSite is a call of a given function somewhere in the module.
type CallSite struct {
	Fn   *Func // enclosing function (innermost declaration or literal)
	Call *ast.CallExpr
	Obj  *types.Func
}

// CallSitesOf enumerates all calls in the module whose resolved callee name
// (FuncName) is in names; also method values / function references that are
// not calls are reported with Call==nil when refs is true.
func (p *Prog) CallSitesOf(names map[string]bool) []CallSite {
	var out []CallSite
	for _, pk := range p.ModulePkgs() {
		info := pk.TypesInfo
		if info == nil {
			continue
		}
		for _, file := range pk.Syntax {
			ast.Inspect(file, func(n ast.Node) bool {
				call, ok := n.(*ast.CallExpr)
				if !ok {
					return true
				}
				fn := Callee(info, call)
				if fn != nil && names[FuncName(fn)] {
					out = append(out, CallSite{Fn: p.EnclosingFunc(pk, call.Pos()), Call: call, Obj: fn})
				}
				return true
			})
		}
	}
	sort.Slice(out, func(i, j int) bool { return out[i].Call.Pos() < out[j].Call.Pos() })
	return out
}

// FuncRefs enumerates uses of a function object that are not the callee of a
// call expression (method values, function values passed around).
func (p *Prog) FuncRefs(names map[string]bool) []CallSite {
	var out []CallSite
	for _, pk := range p.ModulePkgs() {
		info := pk.TypesInfo
		if info == nil {
			continue
		}
		for _, file := range pk.Syntax {
			callFun := map[ast.Expr]bool{}
			handled := map[*ast.Ident]bool{}
			ast.Inspect(file, func(n ast.Node) bool {
				if c, ok := n.(*ast.CallExpr); ok {
					callFun[ast.Unparen(c.Fun)] = true
				}
				return true
			})
			ast.Inspect(file, func(n ast.Node) bool {
				var id *ast.Ident
				var whole ast.Expr
				switch x := n.(type) {
				case *ast.SelectorExpr:
					id, whole = x.Sel, x
					handled[x.Sel] = true
				case *ast.Ident:
					if handled[x] {
						return true
					}
					id, whole = x, x
				default:
					return true
				}
				fo, ok := info.Uses[id].(*types.Func)
				if !ok || !names[FuncName(fo.Origin())] {
					return true
				}
				if callFun[whole] {
					return true
				}
				out = append(out, CallSite{Fn: p.EnclosingFunc(pk, id.Pos()), Obj: fo})
				return true
			})
		}
	}
	return out
}
