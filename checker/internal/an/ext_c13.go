package an

// Engine E5 (lockset) and a few generic helpers first needed by property C13.
//
//   - PLockOpOf: recognise sync.Mutex / sync.RWMutex operations and the mutex
//     object (struct field, possibly embedded, or variable) they act on.
//   - Prog.Lockset: per function, the set of mutexes certainly held at every
//     vertex of an.Graph (forward must-analysis: Lock/RLock acquire,
//     Unlock/RUnlock release, `defer Unlock` keeps the mutex held to the end of
//     the function); functions all of whose call sites hold M are summarised as
//     "M held at entry" (greatest fixed point over the call graph of one package).
//   - Prog.FieldAccesses: every read and write of a set of struct fields.
//   - Graph.EdgesRefuting: branch edges that cannot be taken in a given state.
//
// A mutex is identified by its declaring object (the field MemPool.RWMutex),
// not by the instance: the analysis is a lock *discipline* check in the style
// of Eraser, not a happens-before analysis.

import (
	"go/ast"
	"go/token"
	"go/types"
	"sort"
	"strings"

	"golang.org/x/tools/go/packages"
)

// PLockMode is how a mutex is held.
type PLockMode uint8

const (
	PLockNone PLockMode = iota
	PLockR             // RLock
	PLockW             // Lock
)

func (m PLockMode) String() string {
	switch m {
	case PLockR:
		return "R"
	case PLockW:
		return "W"
	}
	return "-"
}

// PLockOp is one mutex operation.
type PLockOp struct {
	Mutex   *types.Var   // the mutex: a struct field (also an embedded one) or a variable
	Name    string       // Owner.field for fields, the variable name otherwise
	Acquire bool         // Lock/RLock (true) or Unlock/RUnlock (false)
	Mode    PLockMode     // PLockW for Lock/Unlock, PLockR for RLock/RUnlock
	Recv    types.Object // root identifier of the receiver expression (mp in mp.Lock()), nil if none
	Call    *ast.CallExpr
}

var PlockMethods = map[string]struct {
	acq  bool
	mode PLockMode
}{
	"sync.(*RWMutex).Lock":    {true, PLockW},
	"sync.(*RWMutex).Unlock":  {false, PLockW},
	"sync.(*RWMutex).RLock":   {true, PLockR},
	"sync.(*RWMutex).RUnlock": {false, PLockR},
	"sync.(*Mutex).Lock":      {true, PLockW},
	"sync.(*Mutex).Unlock":    {false, PLockW},
}

// PLockOpOf recognises a mutex operation.  ok=false: not a mutex operation, or
// the mutex object cannot be named (e.g. result of a call).
func PLockOpOf(info *types.Info, call *ast.CallExpr) (PLockOp, bool) {
	fn := Callee(info, call)
	if fn == nil {
		return PLockOp{}, false
	}
	lm, isLock := PlockMethods[FuncName(fn)]
	if !isLock {
		return PLockOp{}, false
	}
	sel, ok := ast.Unparen(call.Fun).(*ast.SelectorExpr)
	if !ok {
		return PLockOp{}, false
	}
	op := PLockOp{Acquire: lm.acq, Mode: lm.mode, Call: call, Recv: rootObj(info, sel.X)}
	if s := info.Selections[sel]; s != nil && len(s.Index()) > 1 {
		// promoted through embedded fields: walk the path to the mutex field
		t := s.Recv()
		owner := ""
		var v *types.Var
		for _, idx := range s.Index()[:len(s.Index())-1] {
			if pt, ok := t.Underlying().(*types.Pointer); ok {
				t = pt.Elem()
			}
			if nt, ok := t.(*types.Named); ok {
				owner = nt.Obj().Name()
			}
			st, ok := t.Underlying().(*types.Struct)
			if !ok || idx >= st.NumFields() {
				return PLockOp{}, false
			}
			v = st.Field(idx)
			t = v.Type()
		}
		if v == nil {
			return PLockOp{}, false
		}
		op.Mutex, op.Name = v, owner+"."+v.Name()
		return op, true
	}
	// x.mu.Lock() or mu.Lock()
	if f := FieldOf(info, sel.X); f != nil {
		op.Mutex = f
		owner := ""
		if inner, ok := ast.Unparen(sel.X).(*ast.SelectorExpr); ok {
			if tv, ok := info.Types[inner.X]; ok && tv.Type != nil {
				t := tv.Type
				if pt, ok := t.Underlying().(*types.Pointer); ok {
					t = pt.Elem()
				}
				if nt, ok := t.(*types.Named); ok {
					owner = nt.Obj().Name()
				}
			}
		}
		op.Name = owner + "." + f.Name()
		return op, true
	}
	if id, ok := ast.Unparen(sel.X).(*ast.Ident); ok {
		if v, ok := info.Uses[id].(*types.Var); ok {
			op.Mutex, op.Name = v, v.Name()
			return op, true
		}
	}
	return PLockOp{}, false
}

// rootObj returns the object of the innermost identifier of a selector /
// index / star chain (mp for mp.a.b[i]), or nil.
func rootObj(info *types.Info, e ast.Expr) types.Object {
	for {
		e = ast.Unparen(e)
		switch x := e.(type) {
		case *ast.SelectorExpr:
			e = x.X
		case *ast.IndexExpr:
			e = x.X
		case *ast.SliceExpr:
			e = x.X
		case *ast.StarExpr:
			e = x.X
		case *ast.Ident:
			if o := info.Uses[x]; o != nil {
				return o
			}
			return info.Defs[x]
		default:
			return nil
		}
	}
}

// RootObj is rootObj for rule files.
func RootObj(info *types.Info, e ast.Expr) types.Object { return rootObj(info, e) }

// PLockSet is a set of mutexes that are certainly held, with their mode.  Top
// is the neutral element of Meet ("every mutex": unreachable code, functions
// without any call site).
type PLockSet struct {
	Top bool
	M   map[*types.Var]PLockMode
}

func topLockSet() PLockSet { return PLockSet{Top: true} }

// Mode returns how v is held.
func (s PLockSet) Mode(v *types.Var) PLockMode {
	if s.Top {
		return PLockW
	}
	return s.M[v]
}

func (s PLockSet) with(v *types.Var, m PLockMode) PLockSet {
	if s.Top {
		return s
	}
	r := PLockSet{M: map[*types.Var]PLockMode{}}
	for k, x := range s.M {
		r.M[k] = x
	}
	if m == PLockNone {
		delete(r.M, v)
	} else {
		r.M[v] = m
	}
	return r
}

func meetLock(a, b PLockSet) PLockSet {
	if a.Top {
		return b
	}
	if b.Top {
		return a
	}
	r := PLockSet{M: map[*types.Var]PLockMode{}}
	for k, x := range a.M {
		y := b.M[k]
		if y < x {
			x = y
		}
		if x != PLockNone {
			r.M[k] = x
		}
	}
	return r
}

func equalLock(a, b PLockSet) bool {
	if a.Top != b.Top {
		return false
	}
	if len(a.M) != len(b.M) {
		return false
	}
	for k, x := range a.M {
		if b.M[k] != x {
			return false
		}
	}
	return true
}

// PLockAnalysis is the result of Prog.Lockset for one package.
type PLockAnalysis struct {
	Prog *Prog
	CG   *CallGraph
	Pkg  *packages.Package
	// Funcs are the declarations and literals of the package.
	Funcs []*Func
	// SyncCallbacks: callees (FuncName) known to call a function argument
	// synchronously, before they return; a literal passed to one of them runs
	// with the mutexes held at the call.  Any other callee: nothing held.
	SyncCallbacks map[string]bool
	// Status: "closed" (entry lockset = meet over the call sites), "open:<why>"
	// (nothing assumed at entry), "dead" (no call site in the loaded program).
	Status map[*Func]string
	// From lists, per closed function, its call sites with the lockset there.
	From map[*Func][]string
	// Undecided collects constructs the engine could not handle.
	Undecided []string

	entry map[*Func]PLockSet
	in    map[*Func]map[*Node]PLockSet
	names map[*types.Var]string
	ops   map[*Func]map[*Node][]PLockOp
	refs  map[*Func]bool
}

// DefaultSyncCallbacks are library functions that call their function argument
// before returning.
func DefaultSyncCallbacks() map[string]bool {
	return map[string]bool{
		"sort.Search": true, "sort.Slice": true, "sort.SliceStable": true, "sort.SliceIsSorted": true,
		"sort.Find": true, "sync.(*Map).Range": true, "sync.(*Once).Do": true,
		"strings.Map": true, "strings.IndexFunc": true, "strings.FieldsFunc": true, "strings.TrimFunc": true,
		"bytes.IndexFunc": true, "bytes.FieldsFunc": true,
	}
}

// Lockset runs the lockset analysis over one package of the module.
func (p *Prog) Lockset(cg *CallGraph, pkgRel string) *PLockAnalysis {
	pk := p.Pkg(pkgRel)
	if pk == nil {
		return nil
	}
	la := &PLockAnalysis{Prog: p, CG: cg, Pkg: pk, SyncCallbacks: DefaultSyncCallbacks(),
		Status: map[*Func]string{}, From: map[*Func][]string{},
		entry: map[*Func]PLockSet{}, in: map[*Func]map[*Node]PLockSet{}, names: map[*types.Var]string{},
		ops: map[*Func]map[*Node][]PLockOp{}, refs: map[*Func]bool{}}
	var walk func(f *Func)
	walk = func(f *Func) {
		if f.Body != nil {
			la.Funcs = append(la.Funcs, f)
		}
		for _, l := range f.Lits {
			walk(l)
		}
	}
	for _, f := range p.funcList {
		if f.Pkg == pk {
			walk(f)
		}
	}
	// lock operations per vertex
	for _, f := range la.Funcs {
		g := f.Graph()
		m := map[*Node][]PLockOp{}
		for _, n := range g.Nodes {
			if n.Kind != KStmt {
				continue
			}
			var skip *ast.CallExpr
			switch s := n.Ast.(type) {
			case *ast.DeferStmt:
				skip = s.Call // runs at exit, not here
			case *ast.GoStmt:
				skip = s.Call // runs in another goroutine
			}
			for _, c := range CallsIn(stmtShallow(n.Ast)) {
				if c == skip {
					continue
				}
				if op, ok := PLockOpOf(f.Info(), c); ok {
					m[n] = append(m[n], op)
					la.names[op.Mutex] = op.Name
				}
			}
			if skip != nil {
				if op, ok := PLockOpOf(f.Info(), skip); ok {
					la.names[op.Mutex] = op.Name
				}
			}
		}
		la.ops[f] = m
	}
	// functions referenced as values: callable from anywhere
	names := map[string]bool{}
	for _, f := range la.Funcs {
		if f.Obj != nil {
			names[f.Name()] = true
		}
	}
	for _, r := range p.FuncRefs(names) {
		if f := p.FuncOf(r.Obj); f != nil {
			la.refs[f] = true
		}
	}
	// status
	for _, f := range la.Funcs {
		la.Status[f] = la.classify(f)
		if la.Status[f] == "closed" || la.Status[f] == "dead" {
			la.entry[f] = topLockSet()
		} else {
			la.entry[f] = PLockSet{}
		}
	}
	// greatest fixed point
	for round := 0; round < 50; round++ {
		for _, f := range la.Funcs {
			la.in[f] = la.flow(f, f.Graph().Entry, la.entry[f])
		}
		changed := false
		for _, f := range la.Funcs {
			if la.Status[f] != "closed" {
				continue
			}
			ne, from := la.contributions(f)
			la.From[f] = from
			if !equalLock(ne, la.entry[f]) {
				la.entry[f] = ne
				changed = true
			}
		}
		if !changed {
			break
		}
	}
	return la
}

func exportedName(s string) bool { return s != "" && s[0] >= 'A' && s[0] <= 'Z' }

func (la *PLockAnalysis) classify(f *Func) string {
	if f.Lit != nil {
		return "closed" // decided by the use of the literal (see contributions)
	}
	if la.refs[f] {
		return "open:referenced as a function value"
	}
	name := f.Obj.Name()
	if exportedName(name) {
		recvExported := true
		if f.Decl.Recv != nil && len(f.Decl.Recv.List) > 0 {
			t := f.Info().TypeOf(f.Decl.Recv.List[0].Type)
			if pt, ok := t.(*types.Pointer); ok {
				t = pt.Elem()
			}
			if nt, ok := t.(*types.Named); ok {
				recvExported = nt.Obj().Exported()
			}
		}
		if recvExported {
			return "open:exported"
		}
	}
	n := 0
	for _, e := range la.CG.In[f] {
		if e.Call != nil {
			n++
		}
	}
	if n == 0 {
		if name == "init" || name == "main" {
			return "open:program entry"
		}
		if exportedName(name) {
			return "open:no call site in the module (method of an unexported type, callable through an interface)"
		}
		return "dead"
	}
	return "closed"
}

// flow computes the in-state of every vertex reachable from start, given the
// state at start.
func (la *PLockAnalysis) flow(f *Func, start *Node, st PLockSet) map[*Node]PLockSet {
	g := f.Graph()
	in := map[*Node]PLockSet{}
	if start == nil {
		return in
	}
	in[start] = st
	work := []*Node{start}
	ops := la.ops[f]
	for len(work) > 0 {
		n := work[len(work)-1]
		work = work[:len(work)-1]
		out := in[n]
		for _, op := range ops[n] {
			if op.Acquire {
				out = out.with(op.Mutex, op.Mode)
			} else {
				out = out.with(op.Mutex, PLockNone)
			}
		}
		for _, s := range n.Succs {
			old, seen := in[s]
			var nw PLockSet
			if !seen {
				nw = out
			} else {
				nw = meetLock(old, out)
			}
			if !seen || !equalLock(old, nw) {
				in[s] = nw
				work = append(work, s)
			}
		}
	}
	_ = g
	return in
}

// deferred returns the lockset with which the call of the defer statement at
// vertex d runs: the state at the normal exit on the paths through d, minus
// every mutex released by a defer statement that may be registered after d
// (deferred calls run last-in first-out).
func (la *PLockAnalysis) deferred(f *Func, d *Node) PLockSet {
	g := f.Graph()
	st, ok := la.in[f][d]
	if !ok {
		return topLockSet()
	}
	ex, ok := la.flow(f, d, st)[g.Exit]
	if !ok || ex.Top {
		return ex
	}
	after := g.Reach(d.Succs, nil)
	for _, n := range g.Nodes {
		if n.Kind != KStmt || !after[n] {
			continue
		}
		ds, ok := n.Ast.(*ast.DeferStmt)
		if !ok {
			continue
		}
		for _, op := range la.releasesOfDefer(f, ds) {
			ex = ex.with(op.Mutex, PLockNone)
		}
	}
	return ex
}

// releasesOfDefer lists the release operations a defer statement performs:
// `defer m.Unlock()` or a deferred literal whose body releases.
func (la *PLockAnalysis) releasesOfDefer(f *Func, ds *ast.DeferStmt) []PLockOp {
	var out []PLockOp
	if op, ok := PLockOpOf(f.Info(), ds.Call); ok {
		if !op.Acquire {
			out = append(out, op)
		}
		return out
	}
	if lit, ok := ast.Unparen(ds.Call.Fun).(*ast.FuncLit); ok {
		ast.Inspect(lit.Body, func(n ast.Node) bool {
			if c, ok := n.(*ast.CallExpr); ok {
				if op, ok := PLockOpOf(f.Info(), c); ok && !op.Acquire {
					out = append(out, op)
				}
			}
			return true
		})
	}
	return out
}

// siteLockset is the lockset with which the callee of `call` (a call
// expression of function q) starts to run.
func (la *PLockAnalysis) siteLockset(q *Func, call *ast.CallExpr) (PLockSet, string) {
	g := q.Graph()
	if g == nil {
		return PLockSet{}, "?"
	}
	n := g.NodeContaining(call.Pos())
	if n == nil {
		la.Undecided = append(la.Undecided, q.Name()+": call not found in the control-flow graph")
		return PLockSet{}, "?"
	}
	switch s := n.Ast.(type) {
	case *ast.GoStmt:
		if s.Call == call {
			return PLockSet{}, "go"
		}
	case *ast.DeferStmt:
		if s.Call == call {
			return la.deferred(q, n), "defer"
		}
	}
	st, ok := la.in[q][n]
	if !ok {
		return topLockSet(), "unreachable"
	}
	return st, "call"
}

func (la *PLockAnalysis) contributions(f *Func) (PLockSet, []string) {
	acc := topLockSet()
	var from []string
	add := func(q *Func, ls PLockSet, how string) {
		acc = meetLock(acc, ls)
		from = append(from, q.Name()+" ("+how+": "+la.Format(ls)+")")
	}
	if f.Lit == nil {
		for _, e := range la.CG.In[f] {
			if e.Call == nil {
				continue
			}
			if e.Caller.Pkg != la.Pkg {
				add(e.Caller, PLockSet{}, "other package")
				continue
			}
			ls, how := la.siteLockset(e.Caller, e.Call)
			add(e.Caller, ls, how)
		}
		sort.Strings(from)
		return acc, from
	}
	// function literal: decided by how the literal expression is used
	parent := f.Parent
	path := pathTo(parent.Body, f.Lit)
	if len(path) < 2 {
		return PLockSet{}, []string{"literal not found in its parent"}
	}
	up := func(i int) ast.Node { // i-th ancestor, skipping parentheses
		k := len(path) - 1
		for ; i > 0 && k > 0; i-- {
			k--
			for k > 0 {
				if _, ok := path[k].(*ast.ParenExpr); ok {
					k--
					continue
				}
				break
			}
		}
		return path[k]
	}
	info := f.Info()
	switch x := up(1).(type) {
	case *ast.CallExpr:
		if ast.Unparen(x.Fun) == f.Lit {
			ls, how := la.siteLockset(parent, x)
			add(parent, ls, "called in place, "+how)
			return acc, from
		}
		callee := CalleeName(info, x)
		if la.SyncCallbacks[callee] {
			ls, how := la.siteLockset(parent, x)
			add(parent, ls, "callback of "+callee+", "+how)
			return acc, from
		}
		return PLockSet{}, []string{parent.Name() + " (passed to " + callee + ", not known to call it synchronously: nothing assumed)"}
	case *ast.AssignStmt:
		for i, r := range x.Rhs {
			if ast.Unparen(r) != f.Lit || len(x.Lhs) != len(x.Rhs) {
				continue
			}
			id, ok := x.Lhs[i].(*ast.Ident)
			if !ok {
				break
			}
			v, _ := info.Defs[id].(*types.Var)
			if v == nil {
				v, _ = info.Uses[id].(*types.Var)
			}
			if v == nil || v.IsField() || v.Parent() == v.Pkg().Scope() {
				break
			}
			return la.viaLocalVar(f, v)
		}
	case *ast.ValueSpec:
		for i, r := range x.Values {
			if ast.Unparen(r) == f.Lit && i < len(x.Names) {
				if v, ok := info.Defs[x.Names[i]].(*types.Var); ok && v.Parent() != v.Pkg().Scope() {
					return la.viaLocalVar(f, v)
				}
			}
		}
	}
	return PLockSet{}, []string{parent.Name() + " (literal escapes: nothing assumed)"}
}

// viaLocalVar: the literal is stored in local variable v; every use of v must
// be a call of it.
func (la *PLockAnalysis) viaLocalVar(f *Func, v *types.Var) (PLockSet, []string) {
	acc := topLockSet()
	var from []string
	top := f.TopDecl()
	info := f.Info()
	escapes := false
	var stack []ast.Node
	ast.Inspect(top.Body, func(n ast.Node) bool {
		if n == nil {
			stack = stack[:len(stack)-1]
			return true
		}
		stack = append(stack, n)
		id, ok := n.(*ast.Ident)
		if !ok || info.Uses[id] != v {
			return true
		}
		var par ast.Node
		for k := len(stack) - 2; k >= 0; k-- {
			if _, isP := stack[k].(*ast.ParenExpr); !isP {
				par = stack[k]
				break
			}
		}
		switch x := par.(type) {
		case *ast.CallExpr:
			if ast.Unparen(x.Fun) == ast.Expr(id) {
				q := la.Prog.EnclosingFunc(la.Pkg, x.Pos())
				if q == nil {
					escapes = true
					return true
				}
				ls, how := la.siteLockset(q, x)
				acc = meetLock(acc, ls)
				from = append(from, q.Name()+" ("+how+" through variable "+v.Name()+": "+la.Format(ls)+")")
				return true
			}
		case *ast.AssignStmt:
			for _, l := range x.Lhs {
				if ast.Unparen(l) == ast.Expr(id) {
					return true // reassignment of the variable: not a use of the value
				}
			}
		}
		escapes = true
		return true
	})
	if escapes {
		return PLockSet{}, []string{top.Name() + " (function value in " + v.Name() + " escapes: nothing assumed)"}
	}
	sort.Strings(from)
	return acc, from
}

// pathTo returns the chain of AST nodes from root down to target.
func pathTo(root ast.Node, target ast.Node) []ast.Node {
	var stack, found []ast.Node
	ast.Inspect(root, func(n ast.Node) bool {
		if found != nil {
			return false
		}
		if n == nil {
			stack = stack[:len(stack)-1]
			return true
		}
		stack = append(stack, n)
		if n == target {
			found = append([]ast.Node{}, stack...)
			return false
		}
		return true
	})
	return found
}

// SiteLockset is the lockset with which the callee of `call` (a call expression
// directly inside q) starts to run, and how it is invoked: "call", "go",
// "defer", "unreachable".
func (la *PLockAnalysis) SiteLockset(q *Func, call *ast.CallExpr) (PLockSet, string) {
	return la.siteLockset(q, call)
}

// Entry returns the lockset assumed at the entry of f.
func (la *PLockAnalysis) Entry(f *Func) PLockSet { return la.entry[f] }

// At returns the lockset held when the syntax at pos (inside f, not inside a
// nested literal) is evaluated.  ok=false: no vertex found.
func (la *PLockAnalysis) At(f *Func, pos token.Pos) (PLockSet, bool) {
	g := f.Graph()
	if g == nil {
		return PLockSet{}, false
	}
	n := g.NodeContaining(pos)
	if n == nil {
		return PLockSet{}, false
	}
	st, ok := la.in[f][n]
	if !ok {
		return topLockSet(), true // unreachable vertex
	}
	return st, true
}

// AtNode is At for a vertex.
func (la *PLockAnalysis) AtNode(f *Func, n *Node) PLockSet {
	st, ok := la.in[f][n]
	if !ok {
		return topLockSet()
	}
	return st
}

// Ops returns the mutex operations of f per vertex (deferred ones excluded).
func (la *PLockAnalysis) Ops(f *Func) map[*Node][]PLockOp { return la.ops[f] }

// DeferredOps returns the mutex operations performed by a defer statement.
func (la *PLockAnalysis) DeferredOps(f *Func, ds *ast.DeferStmt) []PLockOp {
	if op, ok := PLockOpOf(f.Info(), ds.Call); ok {
		return []PLockOp{op}
	}
	var out []PLockOp
	if lit, ok := ast.Unparen(ds.Call.Fun).(*ast.FuncLit); ok {
		ast.Inspect(lit.Body, func(n ast.Node) bool {
			if c, ok := n.(*ast.CallExpr); ok {
				if op, ok := PLockOpOf(f.Info(), c); ok {
					out = append(out, op)
				}
			}
			return true
		})
	}
	return out
}

// MutexName renders a mutex object seen in the package.
func (la *PLockAnalysis) MutexName(v *types.Var) string {
	if s, ok := la.names[v]; ok {
		return s
	}
	return v.Name()
}

// Mutexes lists the mutex objects operated on in the package.
func (la *PLockAnalysis) Mutexes() []*types.Var {
	var out []*types.Var
	for v := range la.names {
		out = append(out, v)
	}
	sort.Slice(out, func(i, j int) bool { return la.names[out[i]] < la.names[out[j]] })
	return out
}

// Format renders a lockset.
func (la *PLockAnalysis) Format(s PLockSet) string {
	if s.Top {
		return "{*}"
	}
	var parts []string
	for v, m := range s.M {
		parts = append(parts, la.MutexName(v)+":"+m.String())
	}
	sort.Strings(parts)
	return "{" + strings.Join(parts, ", ") + "}"
}

// ---------------------------------------------------------------------------
// field accesses

// FieldAccess is one syntactic access to a struct field.
type FieldAccess struct {
	Fn    *Func
	Pos   token.Pos
	Field *types.Var
	Write bool
	// How: read: "read", "index", "range", "len", "call" (method call on the
	// field's value); write: "assign", "op-assign", "inc", "dec", "delete",
	// "addr", "elem-assign" (x.f[i] = ..), "range-assign", "ptr-call" (method
	// with pointer receiver called on the addressable field), "clear";
	// "literal": key of a composite literal (construction of a fresh object).
	How  string
	Expr ast.Expr // the selector (or the literal key)
	Base types.Object
}

// FieldAccesses enumerates every access to the given fields in the module.
func (p *Prog) FieldAccesses(fields map[*types.Var]bool) []FieldAccess {
	var out []FieldAccess
	for _, pk := range p.ModulePkgs() {
		info := pk.TypesInfo
		if info == nil {
			continue
		}
		for _, file := range pk.Syntax {
			var stack []ast.Node
			ast.Inspect(file, func(n ast.Node) bool {
				if n == nil {
					stack = stack[:len(stack)-1]
					return true
				}
				stack = append(stack, n)
				switch x := n.(type) {
				case *ast.CompositeLit:
					for _, el := range x.Elts {
						if kv, ok := el.(*ast.KeyValueExpr); ok {
							if id, ok := kv.Key.(*ast.Ident); ok {
								if v, ok := info.Uses[id].(*types.Var); ok && fields[v] {
									out = append(out, FieldAccess{Fn: p.EnclosingFunc(pk, kv.Pos()), Pos: kv.Pos(), Field: v, Write: true, How: "literal", Expr: id})
								}
							}
						}
					}
				case *ast.SelectorExpr:
					v := FieldOf(info, x)
					if v == nil || !fields[v] {
						return true
					}
					w, how := classifyAccess(info, stack)
					out = append(out, FieldAccess{Fn: p.EnclosingFunc(pk, x.Pos()), Pos: x.Pos(), Field: v, Write: w, How: how, Expr: x, Base: rootObj(info, x.X)})
				}
				return true
			})
		}
	}
	sort.Slice(out, func(i, j int) bool { return out[i].Pos < out[j].Pos })
	return out
}

// classifyAccess decides read/write for the selector on top of the stack.
func classifyAccess(info *types.Info, stack []ast.Node) (bool, string) {
	k := len(stack) - 1
	cur := stack[k].(ast.Expr)
	elem := false
	how := "read"
	for k > 0 {
		par := stack[k-1]
		switch x := par.(type) {
		case *ast.ParenExpr:
			cur = x
			k--
			continue
		case *ast.IndexExpr:
			if x.X == cur {
				cur, elem, how = x, true, "index"
				k--
				continue
			}
			return false, how
		case *ast.SliceExpr:
			if x.X == cur {
				cur, elem, how = x, true, "index"
				k--
				continue
			}
			return false, how
		case *ast.StarExpr:
			cur, elem = x, true
			k--
			continue
		case *ast.AssignStmt:
			for _, l := range x.Lhs {
				if l == cur {
					if elem {
						return true, "elem-assign"
					}
					if x.Tok != token.ASSIGN && x.Tok != token.DEFINE {
						return true, "op-assign"
					}
					return true, "assign"
				}
			}
			return false, how
		case *ast.IncDecStmt:
			if x.X == cur {
				if x.Tok == token.INC {
					return true, "inc"
				}
				return true, "dec"
			}
		case *ast.UnaryExpr:
			if x.Op == token.AND && x.X == cur {
				return true, "addr"
			}
			return false, how
		case *ast.RangeStmt:
			if x.X == cur {
				return false, "range"
			}
			if x.Key == cur || x.Value == cur {
				return true, "range-assign"
			}
			return false, how
		case *ast.CallExpr:
			for i, a := range x.Args {
				if a != cur {
					continue
				}
				if IsBuiltin(info, x, "delete") && i == 0 {
					return true, "delete"
				}
				if IsBuiltin(info, x, "clear") && i == 0 {
					return true, "clear"
				}
				if IsBuiltin(info, x, "copy") && i == 0 {
					return true, "elem-assign"
				}
				if IsBuiltin(info, x, "len") || IsBuiltin(info, x, "cap") {
					return false, "len"
				}
			}
			return false, how
		case *ast.SelectorExpr:
			if x.X == cur {
				if s := info.Selections[x]; s != nil && s.Kind() == types.MethodVal {
					if sig, ok := s.Obj().Type().(*types.Signature); ok && sig.Recv() != nil {
						_, ptrRecv := sig.Recv().Type().(*types.Pointer)
						_, fieldPtr := info.TypeOf(cur).Underlying().(*types.Pointer)
						if ptrRecv && !fieldPtr && !elem {
							return true, "ptr-call"
						}
					}
					return false, "call"
				}
			}
			return false, how
		}
		return false, how
	}
	return false, how
}

// ---------------------------------------------------------------------------
// branch edges that cannot be taken in a given state

// EdgesRefuting returns the KTrue/KFalse vertices whose condition, taken with
// that edge's value, is false in every one of the given states (assignments of
// the atoms recognised by at), whatever the values of the other (opaque)
// sub-conditions are.  If target is dominated by this set, target is never
// reached in any of those states (provided the atoms keep their value between
// the test and target — the caller checks that).
func (g *Graph) EdgesRefuting(at Atomizer, states []map[string]bool) Set {
	out := Set{}
	info := g.Fn.Info()
	for _, n := range g.Nodes {
		if n.Kind != KTrue && n.Kind != KFalse {
			continue
		}
		cond, ok := n.Ast.(ast.Expr)
		if !ok || cond == nil {
			continue
		}
		if tv, ok := info.Types[cond]; !ok || tv.Type == nil || !isBool(tv.Type) {
			continue
		}
		atoms := map[string]bool{}
		f := parseBool(info, cond, at, atoms)
		mine := false
		var opaque []string
		for a := range atoms {
			known := false
			for _, st := range states {
				if _, ok := st[a]; ok {
					known = true
				}
			}
			if known {
				mine = true
			} else {
				opaque = append(opaque, a)
			}
		}
		if !mine || len(opaque) > 12 {
			continue
		}
		refuted := true
		env := map[string]bool{}
	states:
		for _, st := range states {
			for m := 0; m < 1<<len(opaque); m++ {
				for a, v := range st {
					env[a] = v
				}
				for i, a := range opaque {
					env[a] = m&(1<<i) != 0
				}
				if f.eval(env) == (n.Kind == KTrue) {
					refuted = false
					break states
				}
			}
		}
		if refuted {
			out[n] = true
		}
	}
	return out
}
