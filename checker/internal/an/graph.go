package an

import (
	"go/ast"
	"go/token"
	"go/types"

	"golang.org/x/tools/go/cfg"
)

// NodeKind classifies vertices of the fine-grained control-flow graph.
type NodeKind uint8

const (
	KHead  NodeKind = iota // start of a basic block (no syntax)
	KStmt                  // a statement / expression of go/cfg
	KTrue                  // edge taken when the preceding condition node is true (case matches / loop continues)
	KFalse                 // edge taken when it is false
	KExit                  // synthetic: function returns normally (after deferred calls)
	KPanic                 // synthetic: function does not return (panic / Fatal / os.Exit)
)

// Node is a vertex of the graph.  Every go/cfg node becomes a KStmt vertex;
// every two-way branch gets a KTrue and a KFalse vertex on its edges so that
// "the path took the else-edge of this if" is an ordinary dominance question.
type Node struct {
	ID    int
	Kind  NodeKind
	Ast   ast.Node   // KStmt: the syntax; KTrue/KFalse: the condition expression
	Block *cfg.Block // owning block
	Succs []*Node
	Preds []*Node
	Cond  *Node // KTrue/KFalse: the condition vertex
}

// Graph is the per-function control-flow graph.
type Graph struct {
	Fn    *Func
	Entry *Node
	Exit  *Node // normal return (all return statements and falling off the end lead here)
	Panic *Node // abnormal termination
	Nodes []*Node
	byAst map[ast.Node]*Node
	// Defers are the deferred calls of the function in source order; they are
	// modelled as running at Exit (see Graph.DeferCalls).
	Defers []*ast.DeferStmt
}

// NoReturn decides which calls never return, for go/cfg.
func (f *Func) noReturn(call *ast.CallExpr) bool {
	info := f.Info()
	if IsBuiltin(info, call, "panic") {
		return true
	}
	name := CalleeName(info, call)
	switch name {
	case "os.Exit", "log.Fatal", "log.Fatalf", "log.Fatalln", "log.Panic", "log.Panicf", "runtime.Goexit":
		return true
	}
	// logger.Fatal()/Panic() event chains:  logger.Fatal().Str(..).Msg(..)
	if sel, ok := ast.Unparen(call.Fun).(*ast.SelectorExpr); ok {
		if sel.Sel.Name == "Msg" || sel.Sel.Name == "Msgf" || sel.Sel.Name == "Send" {
			root := chainRoot(sel.X)
			if rc, ok := root.(*ast.CallExpr); ok {
				if rs, ok := ast.Unparen(rc.Fun).(*ast.SelectorExpr); ok {
					if rs.Sel.Name == "Fatal" || rs.Sel.Name == "Panic" {
						if fn := Callee(info, rc); fn != nil && fn.Pkg() != nil &&
							(fn.Pkg().Path() == "github.com/aergoio/aergo-lib/log" || fn.Pkg().Path() == "github.com/rs/zerolog") {
							return true
						}
					}
				}
			}
		}
	}
	return false
}

// chainRoot walks a method-call chain a().b().c() down to its innermost call.
func chainRoot(e ast.Expr) ast.Expr {
	for {
		e = ast.Unparen(e)
		c, ok := e.(*ast.CallExpr)
		if !ok {
			return e
		}
		s, ok := ast.Unparen(c.Fun).(*ast.SelectorExpr)
		if !ok {
			return e
		}
		if _, ok := ast.Unparen(s.X).(*ast.CallExpr); !ok {
			return e
		}
		e = s.X
	}
}

// Graph builds (once) the control-flow graph of f.  nil if f has no body.
func (f *Func) Graph() *Graph {
	if f.g != nil || f.Body == nil {
		return f.g
	}
	c := cfg.New(f.Body, func(call *ast.CallExpr) bool { return !f.noReturn(call) })
	g := &Graph{Fn: f, byAst: map[ast.Node]*Node{}}
	newNode := func(k NodeKind, a ast.Node, b *cfg.Block) *Node {
		n := &Node{ID: len(g.Nodes), Kind: k, Ast: a, Block: b}
		g.Nodes = append(g.Nodes, n)
		return n
	}
	link := func(a, b *Node) {
		a.Succs = append(a.Succs, b)
		b.Preds = append(b.Preds, a)
	}
	g.Exit = newNode(KExit, nil, nil)
	g.Panic = newNode(KPanic, nil, nil)
	heads := make([]*Node, len(c.Blocks))
	lasts := make([]*Node, len(c.Blocks))
	for i, b := range c.Blocks {
		h := newNode(KHead, nil, b)
		heads[i] = h
		cur := h
		for _, a := range b.Nodes {
			n := newNode(KStmt, a, b)
			if _, dup := g.byAst[a]; !dup {
				g.byAst[a] = n
			}
			link(cur, n)
			cur = n
			if ds, ok := a.(*ast.DeferStmt); ok && b.Live {
				g.Defers = append(g.Defers, ds)
			}
		}
		lasts[i] = cur
	}
	for i, b := range c.Blocks {
		last := lasts[i]
		switch len(b.Succs) {
		case 0:
			if !b.Live {
				continue
			}
			if last.Kind == KStmt {
				if _, ok := last.Ast.(*ast.ReturnStmt); ok {
					link(last, g.Exit)
					continue
				}
				if es, ok := last.Ast.(*ast.ExprStmt); ok {
					if call, ok := es.X.(*ast.CallExpr); ok && f.noReturn(call) {
						link(last, g.Panic)
						continue
					}
				}
			}
			// falling off the end of the function
			link(last, g.Exit)
		case 1:
			link(last, heads[b.Succs[0].Index])
		case 2:
			var cond ast.Node
			if last.Kind == KStmt {
				cond = last.Ast
			}
			t := newNode(KTrue, cond, b)
			t.Cond = last
			fl := newNode(KFalse, cond, b)
			fl.Cond = last
			link(last, t)
			link(last, fl)
			link(t, heads[b.Succs[0].Index])
			link(fl, heads[b.Succs[1].Index])
		}
	}
	g.Entry = heads[0]
	f.g = g
	return g
}

// NodeOf returns the vertex of a go/cfg node (statement or condition).
func (g *Graph) NodeOf(a ast.Node) *Node { return g.byAst[a] }

// NodeContaining returns the KStmt vertex whose syntax contains pos (not in a
// nested function literal).  For compound statements go/cfg stores only their
// parts, so the innermost match is returned.
func (g *Graph) NodeContaining(pos token.Pos) *Node {
	var best *Node
	for _, n := range g.Nodes {
		if n.Kind != KStmt || n.Ast == nil {
			continue
		}
		if n.Ast.Pos() <= pos && pos < n.Ast.End() {
			if best == nil || (n.Ast.End()-n.Ast.Pos()) < (best.Ast.End()-best.Ast.Pos()) {
				best = n
			}
		}
	}
	return best
}

// Set is a set of vertices.
type Set map[*Node]bool

func SetOf(ns ...*Node) Set {
	s := Set{}
	for _, n := range ns {
		if n != nil {
			s[n] = true
		}
	}
	return s
}

func (s Set) Add(ns ...*Node) Set {
	for _, n := range ns {
		if n != nil {
			s[n] = true
		}
	}
	return s
}

func (s Set) Union(o Set) Set {
	r := Set{}
	for n := range s {
		r[n] = true
	}
	for n := range o {
		r[n] = true
	}
	return r
}

// Reach returns the vertices reachable from `from` (inclusive) along paths that
// never enter a vertex of avoid (a `from` vertex in avoid is not expanded).
func (g *Graph) Reach(from []*Node, avoid Set) Set {
	seen := Set{}
	var stack []*Node
	for _, n := range from {
		if n != nil && !avoid[n] && !seen[n] {
			seen[n] = true
			stack = append(stack, n)
		}
	}
	for len(stack) > 0 {
		n := stack[len(stack)-1]
		stack = stack[:len(stack)-1]
		for _, s := range n.Succs {
			if !seen[s] && !avoid[s] {
				seen[s] = true
				stack = append(stack, s)
			}
		}
	}
	return seen
}

// CoReach returns the vertices from which some vertex of `to` is reachable
// (inclusive) along paths that avoid `avoid`.
func (g *Graph) CoReach(to []*Node, avoid Set) Set {
	seen := Set{}
	var stack []*Node
	for _, n := range to {
		if n != nil && !avoid[n] && !seen[n] {
			seen[n] = true
			stack = append(stack, n)
		}
	}
	for len(stack) > 0 {
		n := stack[len(stack)-1]
		stack = stack[:len(stack)-1]
		for _, s := range n.Preds {
			if !seen[s] && !avoid[s] {
				seen[s] = true
				stack = append(stack, s)
			}
		}
	}
	return seen
}

// Dominated reports whether every path from the entry to target passes
// through at least one vertex of gates (target itself does not count).
func (g *Graph) Dominated(target *Node, gates Set) bool {
	if target == nil {
		return false
	}
	if gates[target] {
		// a gate that is the target is meaningless; treat as not gating
		gs := Set{}
		for n := range gates {
			if n != target {
				gs[n] = true
			}
		}
		gates = gs
	}
	return !g.Reach([]*Node{g.Entry}, gates)[target]
}

// DominatedFrom is Dominated with an explicit start vertex.
func (g *Graph) DominatedFrom(start, target *Node, gates Set) bool {
	return !g.Reach(start.Succs, gates)[target] || gates[start]
}

// PostDominated reports whether every path from `from` to a normal exit
// passes through a vertex of gates.  Paths ending in Panic are ignored.
func (g *Graph) PostDominated(from *Node, gates Set) bool {
	return !g.Reach([]*Node{from}, gates)[g.Exit]
}

// Reachable reports whether b is reachable from a by a non-empty path.
func (g *Graph) Reachable(a, b *Node) bool {
	return g.Reach(a.Succs, nil)[b]
}

// Between returns the vertices strictly between a and b: on some path from a
// to b that does not pass through a or b in its interior.
func (g *Graph) Between(a, b *Node) Set {
	fw := g.Reach(a.Succs, SetOf(a, b))
	bw := g.CoReach(b.Preds, SetOf(a, b))
	r := Set{}
	for n := range fw {
		if bw[n] {
			r[n] = true
		}
	}
	return r
}

// InLoop reports whether n lies on a cycle.
func (g *Graph) InLoop(n *Node) bool { return g.Reach(n.Succs, nil)[n] }

// Live reports whether n is reachable from the entry.
func (g *Graph) Live(n *Node) bool { return g.Reach([]*Node{g.Entry}, nil)[n] }

// Site is a call expression at a vertex.
type Site struct {
	Node *Node
	Call *ast.CallExpr
	Fn   *types.Func // resolved callee or nil
}

// Calls lists every call site in the function body (excluding nested function
// literals) whose resolved callee satisfies match (match==nil: all calls).
func (g *Graph) Calls(match func(fn *types.Func, call *ast.CallExpr) bool) []Site {
	var out []Site
	info := g.Fn.Info()
	for _, n := range g.Nodes {
		if n.Kind != KStmt {
			continue
		}
		for _, c := range CallsIn(stmtShallow(n.Ast)) {
			fn := Callee(info, c)
			if match == nil || match(fn, c) {
				out = append(out, Site{n, c, fn})
			}
		}
	}
	return out
}

// stmtShallow returns the part of a cfg node that is evaluated at that vertex.
// go/cfg stores RangeStmt as a node of the loop header; its body statements are
// separate vertices, so only the range expression belongs to this vertex.
func stmtShallow(a ast.Node) ast.Node {
	switch s := a.(type) {
	case *ast.RangeStmt:
		return s.X
	}
	return a
}

// CallsTo lists call sites whose callee has one of the given FuncName names.
func (g *Graph) CallsTo(names ...string) []Site {
	want := map[string]bool{}
	for _, n := range names {
		want[n] = true
	}
	return g.Calls(func(fn *types.Func, _ *ast.CallExpr) bool {
		return fn != nil && want[FuncName(fn)]
	})
}

// DeferCalls are the calls made by defer statements (including the calls
// inside deferred function literals are NOT expanded here).
func (g *Graph) DeferCalls() []*ast.CallExpr {
	var out []*ast.CallExpr
	for _, d := range g.Defers {
		out = append(out, d.Call)
	}
	return out
}

// StmtNodes returns all KStmt vertices satisfying pred.
func (g *Graph) StmtNodes(pred func(n *Node) bool) []*Node {
	var out []*Node
	for _, n := range g.Nodes {
		if n.Kind == KStmt && pred(n) {
			out = append(out, n)
		}
	}
	return out
}

// Returns lists the return-statement vertices.
func (g *Graph) Returns() []*Node {
	return g.StmtNodes(func(n *Node) bool { _, ok := n.Ast.(*ast.ReturnStmt); return ok })
}
