// Package an is the shared front end and rule-engine library of the checker:
// loading /repo through go/packages, resolving anchors through go/types,
// fine-grained control-flow graphs on top of go/cfg, and the generic queries
// (dominance, reachability, guard implication, site enumeration) the
// per-property rules are built from.
package an

import (
	"fmt"
	"go/ast"
	"go/token"
	"go/types"
	"os"
	"sort"
	"strings"

	"golang.org/x/tools/go/packages"
)

// Module is the import-path prefix of the analysed module.
const Module = "github.com/aergoio/aergo/v2"

// Prog is the loaded, type-checked program.
type Prog struct {
	Fset   *token.FileSet
	Roots  []*packages.Package
	All    []*packages.Package          // roots + dependencies
	ByPath map[string]*packages.Package // full import path
	Dir    string

	funcs    map[*types.Func]*Func
	funcList []*Func
	litOwner map[*ast.FuncLit]*Func
}

// RepoDir returns the directory analysed (env VERIF_REPO overrides /repo; used
// only by the checker's own self tests on scratch copies).
func RepoDir() string {
	if d := os.Getenv("VERIF_REPO"); d != "" {
		return d
	}
	return "/repo"
}

// Load loads every package of the module (default build configuration, no
// tests) with full syntax and types for the module and all dependencies.
// overlay may map absolute file names to replacement contents (self tests).
func Load(overlay map[string][]byte, tags string, patterns ...string) (*Prog, error) {
	dir := RepoDir()
	env := []string{}
	for _, e := range os.Environ() {
		if strings.HasPrefix(e, "GOWORK=") || strings.HasPrefix(e, "GOFLAGS=") {
			continue
		}
		env = append(env, e)
	}
	env = append(env, "GOFLAGS=-mod=mod", "GOPROXY=off", "GOSUMDB=off", "GOTOOLCHAIN=local", "GOWORK=off")
	cfg := &packages.Config{
		Dir:     dir,
		Mode:    packages.LoadAllSyntax,
		Tests:   false,
		Env:     env,
		Overlay: overlay,
	}
	if tags != "" {
		cfg.BuildFlags = []string{"-tags=" + tags}
	}
	if len(patterns) == 0 {
		patterns = []string{"./..."}
	}
	pkgs, err := packages.Load(cfg, patterns...)
	if err != nil {
		return nil, fmt.Errorf("packages.Load: %w", err)
	}
	if len(pkgs) == 0 {
		return nil, fmt.Errorf("packages.Load: zero packages matched %v in %s", patterns, dir)
	}
	p := &Prog{Roots: pkgs, ByPath: map[string]*packages.Package{}, Dir: dir,
		funcs: map[*types.Func]*Func{}, litOwner: map[*ast.FuncLit]*Func{}}
	var bad []string
	packages.Visit(pkgs, nil, func(pk *packages.Package) {
		p.All = append(p.All, pk)
		p.ByPath[pk.PkgPath] = pk
		if p.Fset == nil && pk.Fset != nil {
			p.Fset = pk.Fset
		}
		for _, e := range pk.Errors {
			if isCgoImportError(pk, e) {
				continue
			}
			bad = append(bad, pk.PkgPath+": "+e.Error())
		}
	})
	if len(bad) > 0 {
		sort.Strings(bad)
		if len(bad) > 10 {
			bad = append(bad[:10], fmt.Sprintf("... and %d more", len(bad)-10))
		}
		return nil, fmt.Errorf("type errors outside the cgo whitelist:\n  %s", strings.Join(bad, "\n  "))
	}
	sort.Slice(p.All, func(i, j int) bool { return p.All[i].PkgPath < p.All[j].PkgPath })
	p.indexFuncs()
	return p, nil
}

// isCgoImportError accepts exactly the errors produced because cgo cannot run
// in this sandbox for the two packages that `import "C"` (no LuaJIT headers):
// the cgo tool failure reported by go list and the resulting "could not import
// C" type error.  Everything else in those packages is type-checked normally.
func isCgoImportError(pk *packages.Package, e packages.Error) bool {
	if !strings.HasPrefix(pk.PkgPath, Module) {
		return false
	}
	hasC := false
	for _, f := range pk.Syntax {
		for _, im := range f.Imports {
			if im.Path.Value == `"C"` {
				hasC = true
			}
		}
	}
	if !hasC && len(pk.Syntax) > 0 {
		return false
	}
	if strings.Contains(e.Msg, "could not import C") {
		return true
	}
	// go list's cgo failure text (kind ListError, position "-")
	if e.Kind == packages.ListError && (strings.Contains(e.Msg, "No such file or directory") || strings.Contains(e.Msg, "fatal error")) {
		return true
	}
	return false
}

// Pkg returns a package of the module by its module-relative path ("chain",
// "contract/system", "" for the root package).
func (p *Prog) Pkg(rel string) *packages.Package {
	path := Module
	if rel != "" {
		path = Module + "/" + rel
	}
	return p.ByPath[path]
}

// ModulePkgs returns the packages that belong to the analysed module.
func (p *Prog) ModulePkgs() []*packages.Package {
	var out []*packages.Package
	for _, pk := range p.All {
		if pk.PkgPath == Module || strings.HasPrefix(pk.PkgPath, Module+"/") {
			out = append(out, pk)
		}
	}
	return out
}

// Rel strips the module prefix from an import path or qualified name.
func Rel(s string) string {
	return strings.ReplaceAll(s, Module+"/", "")
}

// Pos formats a position relative to the repository root.
func (p *Prog) Pos(pos token.Pos) string {
	if !pos.IsValid() {
		return "-"
	}
	ps := p.Fset.Position(pos)
	fn := strings.TrimPrefix(ps.Filename, p.Dir+"/")
	return fmt.Sprintf("%s:%d", fn, ps.Line)
}
