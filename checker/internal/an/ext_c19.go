package an

// Engine E4 (field coverage / writer-reader agreement) and the byte-cursor
// audit used by property C19.  Everything is resolved through go/types; no
// source text, comments or line numbers are matched.

import (
	"go/ast"
	"go/constant"
	"go/token"
	"go/types"
	"strings"
)

// ---------------------------------------------------------------------------
// Field trace

// FieldUse is one occurrence of a field of the traced struct in a function
// (or in a helper of the same package that the struct value is handed to).
type FieldUse struct {
	Field *types.Var
	Fn    *Func     // function the occurrence is written in
	Pos   token.Pos // position of the selector / literal key
	// Kind: "read", "range" (ranged over), "assign", "elem-assign" (x.F[i] = ..),
	// "op-assign", "incdec", "addr" (&x.F), "literal" (S{F: ..})
	Kind     string
	ViaLen   bool          // consumed as len(x.F) / cap(x.F)
	Sliced   bool          // only a sub-slice / element of the value is consumed (x.F[a:b], x.F[i])
	InCond   bool          // the value decides a branch (if/switch/for condition, case expression)
	Must     bool          // executed on every path to a non-error exit of the root function
	Sink     string        // FuncName of the call consuming the value ("" if none)
	SinkFn   *types.Func   // resolved callee of the sink (nil for function values)
	SinkCall *ast.CallExpr // the consuming call
	SinkArg  int           // argument index at the sink (-1: receiver)
	Returned bool          // the value is returned from Fn
	CopyTo   *types.Var    // struct field the value initialises in a composite literal (T{K: x.F})
	CopyLit  *ast.CompositeLit
	Depth    int // 0: in the root function, n: in a helper n calls deep
}

// IsWrite reports whether the access stores into the field (or exposes its
// address to a callee that stores through it).
func (a FieldUse) IsWrite() bool {
	switch a.Kind {
	case "assign", "elem-assign", "op-assign", "incdec", "addr", "literal":
		return true
	}
	return false
}

// StructFields returns the field set of a struct (all fields, or exported only).
func StructFields(st *types.Struct, exportedOnly bool) []*types.Var {
	var out []*types.Var
	for i := 0; i < st.NumFields(); i++ {
		if exportedOnly && !st.Field(i).Exported() {
			continue
		}
		out = append(out, st.Field(i))
	}
	return out
}

type ftracer struct {
	p      *Prog
	fields map[*types.Var]bool
	st     *types.Struct
	follow func(caller, callee *Func) bool
	out    []FieldUse
	active map[*Func]bool
}

// FieldTrace returns, in source (evaluation) order, every access to a field of
// st in root, descending into callees for which follow returns true at the
// position of the call (cycle-safe, depth <= 4).  follow == nil: methods of st
// itself (getters, any package) and helpers of the same package that receive a
// value of type st / *st as an argument.
func (p *Prog) FieldTrace(root *Func, st *types.Struct, follow func(caller, callee *Func) bool) []FieldUse {
	t := &ftracer{p: p, fields: map[*types.Var]bool{}, st: st, follow: follow, active: map[*Func]bool{}}
	for i := 0; i < st.NumFields(); i++ {
		t.fields[st.Field(i)] = true
	}
	t.trace(root, 0, true, nil)
	return t.out
}

type sinkCtx struct {
	sink     string
	sinkFn   *types.Func
	sinkCall *ast.CallExpr
	sinkArg  int
	viaLen   bool
	inCond   bool
	copyTo   *types.Var
	copyLit  *ast.CompositeLit
	returned bool
}

func parentMap(root ast.Node) map[ast.Node]ast.Node {
	par := map[ast.Node]ast.Node{}
	var stack []ast.Node
	ast.Inspect(root, func(n ast.Node) bool {
		if n == nil {
			stack = stack[:len(stack)-1]
			return true
		}
		if len(stack) > 0 {
			par[n] = stack[len(stack)-1]
		}
		stack = append(stack, n)
		return true
	})
	return par
}

func isStructOrPtr(t types.Type, st *types.Struct) bool {
	if t == nil {
		return false
	}
	if pt, ok := t.Underlying().(*types.Pointer); ok {
		t = pt.Elem()
	}
	s, ok := t.Underlying().(*types.Struct)
	return ok && s == st
}

func (t *ftracer) trace(f *Func, depth int, must bool, ctx *sinkCtx) {
	if f == nil || f.Body == nil || t.active[f] || depth > 4 {
		return
	}
	t.active[f] = true
	defer delete(t.active, f)
	info := f.Info()
	par := parentMap(f.Body)
	g := f.Graph()
	mustCache := map[*Node]bool{}
	nilGuards := g.recvNilAvoid(t.st)
	mustAt := func(pos token.Pos) bool {
		if !must {
			return false
		}
		// inside a function literal: not known to run
		for _, l := range f.Lits {
			if l.Lit.Pos() <= pos && pos < l.Lit.End() {
				return false
			}
		}
		n := g.NodeContaining(pos)
		if n == nil {
			return false
		}
		if v, ok := mustCache[n]; ok {
			return v
		}
		v := g.MustExecOnSuccess(n, nilGuards)
		mustCache[n] = v
		return v
	}
	var stack []ast.Node
	ast.Inspect(f.Body, func(n ast.Node) bool {
		if n == nil {
			top := stack[len(stack)-1]
			stack = stack[:len(stack)-1]
			if call, ok := top.(*ast.CallExpr); ok {
				t.inline(f, call, par, depth, mustAt(call.Pos()))
			}
			return true
		}
		stack = append(stack, n)
		switch x := n.(type) {
		case *ast.SelectorExpr:
			if v := FieldOf(info, x); v != nil && t.fields[v] {
				a := FieldUse{Field: v, Fn: f, Pos: x.Sel.Pos(), Kind: "read", SinkArg: -2, Depth: depth}
				t.classify(f, x, par, &a)
				a.Must = mustAt(x.Pos())
				if a.Returned && ctx != nil && !a.IsWrite() {
					// value handed back to the caller: it is consumed where the call is
					a.Sink, a.SinkFn, a.SinkCall, a.SinkArg = ctx.sink, ctx.sinkFn, ctx.sinkCall, ctx.sinkArg
					a.ViaLen = a.ViaLen || ctx.viaLen
					a.InCond = a.InCond || ctx.inCond
					a.CopyTo, a.CopyLit = ctx.copyTo, ctx.copyLit
					a.Returned = ctx.returned
				}
				t.out = append(t.out, a)
			}
		case *ast.KeyValueExpr:
			if id, ok := x.Key.(*ast.Ident); ok {
				if v, ok := info.Uses[id].(*types.Var); ok && t.fields[v] {
					a := FieldUse{Field: v, Fn: f, Pos: x.Pos(), Kind: "literal", SinkArg: -2, Depth: depth}
					a.Must = mustAt(x.Pos())
					if cl, ok := par[x].(*ast.CompositeLit); ok {
						a.CopyLit = cl
					}
					t.out = append(t.out, a)
				}
			}
		case *ast.CompositeLit:
			// positional struct literal of the traced struct: S{a, b, c}
			if tv, ok := info.Types[x]; ok && isStructOrPtr(tv.Type, t.st) && len(x.Elts) > 0 {
				if _, keyed := x.Elts[0].(*ast.KeyValueExpr); !keyed {
					for i, el := range x.Elts {
						if i < t.st.NumFields() {
							a := FieldUse{Field: t.st.Field(i), Fn: f, Pos: el.Pos(), Kind: "literal", SinkArg: -2, Depth: depth, CopyLit: x}
							a.Must = mustAt(el.Pos())
							t.out = append(t.out, a)
						}
					}
				}
			}
		}
		return true
	})
}

// inline descends into the callee of call when the traced struct flows into it.
func (t *ftracer) inline(f *Func, call *ast.CallExpr, par map[ast.Node]ast.Node, depth int, must bool) {
	info := f.Info()
	fn := Callee(info, call)
	if fn == nil {
		return
	}
	cf := t.p.FuncOf(fn)
	if cf == nil || cf.Body == nil {
		return
	}
	if t.follow != nil {
		if !t.follow(f, cf) {
			return
		}
	} else {
		flows := false
		if sel, ok := ast.Unparen(call.Fun).(*ast.SelectorExpr); ok {
			// a method of the traced struct itself (getter) is followed in any package
			if tv, ok := info.Types[sel.X]; ok && isStructOrPtr(tv.Type, t.st) {
				if sig, ok := fn.Type().(*types.Signature); ok && sig.Recv() != nil && isStructOrPtr(sig.Recv().Type(), t.st) {
					flows = true
				}
			}
		}
		if !flows && cf.Pkg != f.Pkg {
			return
		}
		for _, a := range call.Args {
			if tv, ok := info.Types[a]; ok && isStructOrPtr(tv.Type, t.st) {
				flows = true
			}
		}
		if !flows {
			return
		}
	}
	// where does the helper's result go?
	a := FieldUse{SinkArg: -2}
	t.classify(f, call, par, &a)
	ctx := &sinkCtx{a.Sink, a.SinkFn, a.SinkCall, a.SinkArg, a.ViaLen, a.InCond, a.CopyTo, a.CopyLit, a.Returned}
	t.trace(cf, depth+1, must, ctx)
}

// classify climbs from expression e to the construct that consumes its value.
func (t *ftracer) classify(f *Func, e ast.Expr, par map[ast.Node]ast.Node, a *FieldUse) {
	info := f.Info()
	var cur ast.Node = e
	viaIndex := false
	inExpr := false
	for {
		p := par[cur]
		if p == nil {
			return
		}
		switch x := p.(type) {
		case *ast.ParenExpr, *ast.StarExpr:
			cur = p
			continue
		case *ast.IndexExpr:
			if x.X == cur {
				viaIndex = true
				a.Sliced = true
				cur = p
				continue
			}
			return
		case *ast.SliceExpr:
			if x.X == cur {
				if x.Low != nil || x.High != nil {
					a.Sliced = true
				}
				cur = p
				continue
			}
			return
		case *ast.SelectorExpr:
			// x.F.m(...)  or nested field x.F.g
			if x.X == cur {
				if call, ok := par[p].(*ast.CallExpr); ok && call.Fun == p {
					fn := Callee(info, call)
					a.SinkFn, a.SinkCall, a.SinkArg = fn, call, -1
					a.Sink = "<func value>"
					if fn != nil {
						a.Sink = FuncName(fn)
					}
					return
				}
				cur = p
				continue
			}
			return
		case *ast.UnaryExpr:
			if x.Op == token.AND {
				a.Kind = "addr"
				cur = p
				continue
			}
			inExpr = true
			cur = p
			continue
		case *ast.BinaryExpr:
			inExpr = true
			cur = p
			continue
		case *ast.CallExpr:
			if x.Fun == cur {
				a.Sink = "<call of field value>"
				return
			}
			idx := -1
			for i, arg := range x.Args {
				if arg == cur {
					idx = i
				}
			}
			if idx < 0 {
				return
			}
			if IsBuiltin(info, x, "len") || IsBuiltin(info, x, "cap") {
				a.ViaLen = true
				cur = p
				continue
			}
			if tv, ok := info.Types[x.Fun]; ok && tv.IsType() {
				cur = p // conversion
				continue
			}
			if id, ok := ast.Unparen(x.Fun).(*ast.Ident); ok {
				if _, isB := info.Uses[id].(*types.Builtin); isB {
					a.Sink, a.SinkCall, a.SinkArg = "builtin."+id.Name, x, idx
					return
				}
			}
			fn := Callee(info, x)
			a.SinkFn, a.SinkCall, a.SinkArg = fn, x, idx
			a.Sink = "<func value>"
			if fn != nil {
				a.Sink = FuncName(fn)
			}
			return
		case *ast.KeyValueExpr:
			if x.Value != cur {
				return
			}
			cl, ok := par[p].(*ast.CompositeLit)
			if !ok {
				return
			}
			if id, ok := x.Key.(*ast.Ident); ok {
				if v, ok := info.Uses[id].(*types.Var); ok && v.IsField() {
					a.CopyTo, a.CopyLit = v, cl
					return
				}
			}
			cur = cl
			continue
		case *ast.CompositeLit:
			// element of a positional literal
			tv, ok := info.Types[x]
			if !ok {
				return
			}
			ut := tv.Type.Underlying()
			if pt, ok := ut.(*types.Pointer); ok {
				ut = pt.Elem().Underlying()
			}
			if st, ok := ut.(*types.Struct); ok {
				for i, el := range x.Elts {
					if el == cur && i < st.NumFields() {
						a.CopyTo, a.CopyLit = st.Field(i), x
					}
				}
				return
			}
			// slice / array literal: how are its elements consumed?
			t.literalSink(f, x, par, a)
			return
		case *ast.AssignStmt:
			for _, l := range x.Lhs {
				if l == cur {
					switch {
					case viaIndex:
						a.Kind = "elem-assign"
					case x.Tok == token.ASSIGN || x.Tok == token.DEFINE:
						a.Kind = "assign"
					default:
						a.Kind = "op-assign"
					}
					return
				}
			}
			if inExpr {
				return
			}
			for i, r := range x.Rhs {
				if r == cur && len(x.Lhs) == len(x.Rhs) {
					if obj := ObjOf(info, x.Lhs[i]); obj != nil {
						t.localSink(f, obj, x.End(), par, a)
					}
				}
			}
			return
		case *ast.ValueSpec:
			if inExpr {
				return
			}
			for i, v := range x.Values {
				if v == cur && i < len(x.Names) {
					if obj := info.Defs[x.Names[i]]; obj != nil {
						t.localSink(f, obj, x.End(), par, a)
					}
				}
			}
			return
		case *ast.IncDecStmt:
			a.Kind = "incdec"
			return
		case *ast.ReturnStmt:
			if !inExpr {
				a.Returned = true
			}
			return
		case *ast.RangeStmt:
			if x.X == cur {
				a.Kind = "range"
			}
			return
		case *ast.IfStmt:
			if x.Cond == cur {
				a.InCond = true
			}
			return
		case *ast.SwitchStmt:
			if x.Tag == cur {
				a.InCond = true
			}
			return
		case *ast.ForStmt:
			if x.Cond == cur {
				a.InCond = true
			}
			return
		case *ast.CaseClause:
			for _, l := range x.List {
				if l == cur {
					a.InCond = true
				}
			}
			return
		default:
			return
		}
	}
}

// literalSink: the value is an element of a slice literal; the elements are
// consumed by the call(s) that take the range variable of a loop over it
// (for _, v := range []T{..} { sink(v) }), also through one local variable.
func (t *ftracer) literalSink(f *Func, lit *ast.CompositeLit, par map[ast.Node]ast.Node, a *FieldUse) {
	info := f.Info()
	var rs *ast.RangeStmt
	switch x := par[lit].(type) {
	case *ast.RangeStmt:
		if x.X == lit {
			rs = x
		}
	case *ast.AssignStmt, *ast.ValueSpec:
		var obj types.Object
		if as, ok := x.(*ast.AssignStmt); ok {
			for i, r := range as.Rhs {
				if r == lit && len(as.Lhs) == len(as.Rhs) {
					obj = ObjOf(info, as.Lhs[i])
				}
			}
		} else if vs, ok := x.(*ast.ValueSpec); ok {
			for i, v := range vs.Values {
				if v == lit && i < len(vs.Names) {
					obj = info.Defs[vs.Names[i]]
				}
			}
		}
		if obj != nil {
			ast.Inspect(f.Body, func(n ast.Node) bool {
				if r, ok := n.(*ast.RangeStmt); ok && rs == nil && ObjOf(info, r.X) == obj {
					rs = r
				}
				return true
			})
		}
	}
	if rs == nil || rs.Value == nil {
		return
	}
	vobj := ObjOf(info, rs.Value)
	if vobj == nil {
		return
	}
	t.localSink(f, vobj, rs.Body.Pos(), par, a)
}

// localSink: the value was stored in local variable obj; the first call after
// `from` that takes obj as an argument consumes it.
func (t *ftracer) localSink(f *Func, obj types.Object, from token.Pos, par map[ast.Node]ast.Node, a *FieldUse) {
	info := f.Info()
	done := false
	ast.Inspect(f.Body, func(n ast.Node) bool {
		if done || n == nil {
			return false
		}
		call, ok := n.(*ast.CallExpr)
		if !ok || call.Pos() < from {
			return true
		}
		if tv, ok := info.Types[call.Fun]; ok && tv.IsType() {
			return true // a conversion: look at the call it is an argument of
		}
		for i, arg := range call.Args {
			if ObjOf(info, unconv(info, arg)) == obj {
				fn := Callee(info, call)
				a.SinkFn, a.SinkCall, a.SinkArg = fn, call, i
				a.Sink = "<func value>"
				if fn != nil {
					a.Sink = FuncName(fn)
				}
				done = true
				return false
			}
		}
		return true
	})
}

// recvNilAvoid returns the branch edges on which a pointer to the traced struct
// is nil (`x == nil` true edge, `x != nil` false edge): the getter idiom
// `if x != nil { return x.F }; return nil` does not make the read conditional.
func (g *Graph) recvNilAvoid(st *types.Struct) Set {
	out := Set{}
	if g == nil {
		return out
	}
	info := g.Fn.Info()
	for _, n := range g.Nodes {
		if n.Kind != KTrue && n.Kind != KFalse {
			continue
		}
		be, ok := n.Ast.(*ast.BinaryExpr)
		if !ok || (be.Op != token.EQL && be.Op != token.NEQ) {
			continue
		}
		var other ast.Expr
		if tv, ok := info.Types[be.Y]; ok && tv.IsNil() {
			other = be.X
		} else if tv, ok := info.Types[be.X]; ok && tv.IsNil() {
			other = be.Y
		}
		if other == nil {
			continue
		}
		tv, ok := info.Types[other]
		if !ok || !isStructOrPtr(tv.Type, st) {
			continue
		}
		nilEdge := (be.Op == token.EQL && n.Kind == KTrue) || (be.Op == token.NEQ && n.Kind == KFalse)
		if nilEdge {
			out[n] = true
		}
	}
	return out
}

// FailureReturns are the return vertices that hand a non-nil error to the
// caller: the last result has type error and is a freshly built error value
// (call / composite literal) or a variable known non-nil by a dominating
// `v != nil` outcome.
var failCache = map[*Graph]Set{}

func (g *Graph) FailureReturns() Set {
	if s, ok := failCache[g]; ok {
		return s
	}
	s := g.failureReturns()
	failCache[g] = s
	return s
}

func (g *Graph) failureReturns() Set {
	out := Set{}
	f := g.Fn
	info := f.Info()
	if f.Type == nil || f.Type.Results == nil || len(f.Type.Results.List) == 0 {
		return out
	}
	last := f.Type.Results.List[len(f.Type.Results.List)-1]
	tv, ok := info.Types[last.Type]
	if !ok || !isErrorType(tv.Type) {
		return out
	}
	for _, r := range g.Returns() {
		rs := r.Ast.(*ast.ReturnStmt)
		if len(rs.Results) == 0 {
			continue
		}
		e := ast.Unparen(rs.Results[len(rs.Results)-1])
		if len(rs.Results) != f.resultCount() {
			continue // return f() forwarding a tuple: unknown
		}
		if etv, ok := info.Types[e]; ok && etv.IsNil() {
			continue
		}
		switch x := e.(type) {
		case *ast.CallExpr, *ast.CompositeLit:
			out[r] = true
		case *ast.UnaryExpr:
			if _, ok := x.X.(*ast.CompositeLit); ok && x.Op == token.AND {
				out[r] = true
			}
		case *ast.Ident:
			obj := ObjOf(info, x)
			if obj == nil {
				continue
			}
			for _, ft := range g.FactsAt(r) {
				if CondImplies(info, ft.Cond, ft.Val, NilAtom(info, obj), map[string]bool{"nil": false}) {
					out[r] = true
				}
			}
		}
	}
	return out
}

func (f *Func) resultCount() int {
	n := 0
	if f.Type == nil || f.Type.Results == nil {
		return 0
	}
	for _, fl := range f.Type.Results.List {
		if len(fl.Names) == 0 {
			n++
		} else {
			n += len(fl.Names)
		}
	}
	return n
}

// MustExecOnSuccess reports whether every path from the entry to a normal exit
// that is not a failure return passes through n (paths entering a vertex of
// ignore are not considered).
func (g *Graph) MustExecOnSuccess(n *Node, ignore Set) bool {
	if n == nil || !g.Live(n) {
		return false
	}
	avoid := g.FailureReturns().Union(ignore)
	avoid[n] = true
	return !g.Reach([]*Node{g.Entry}, avoid)[g.Exit]
}

// ---------------------------------------------------------------------------
// Byte-cursor audit of hand-written decoders

// Width is the extent of a read or of a cursor advance: a constant or a variable.
type Width struct {
	Known bool
	Const bool
	Val   int64
	Obj   types.Object
	Text  string
}

func (w Width) String() string { return w.Text }

// Same reports whether two widths are certainly equal.
func (w Width) Same(o Width) bool {
	if !w.Known || !o.Known {
		return false
	}
	if w.Const && o.Const {
		return w.Val == o.Val
	}
	if w.Obj != nil && o.Obj != nil {
		return w.Obj == o.Obj
	}
	if !w.Const && !o.Const && w.Obj == nil && o.Obj == nil {
		return w.Text == o.Text
	}
	return false
}

func widthOf(info *types.Info, e ast.Expr) Width {
	for {
		e = ast.Unparen(e)
		if c, ok := e.(*ast.CallExpr); ok && len(c.Args) == 1 {
			if tv, ok := info.Types[c.Fun]; ok && tv.IsType() {
				if ctv, ok := info.Types[e]; ok && ctv.Value != nil {
					break
				}
				e = c.Args[0]
				continue
			}
		}
		break
	}
	w := Width{Known: true, Text: types.ExprString(e)}
	if tv, ok := info.Types[e]; ok && tv.Value != nil {
		if v, exact := constant.Int64Val(constant.ToInt(tv.Value)); exact {
			w.Const, w.Val = true, v
			return w
		}
	}
	if obj := ObjOf(info, e); obj != nil {
		w.Obj = obj
		return w
	}
	return w
}

// CursorEvent is a read of the buffer or a movement of the cursor.
type CursorEvent struct {
	Node     *Node
	Pos      token.Pos
	Kind     string // "read", "open-read" (buf[c:]), "advance" (c += w), "tail" (buf[c+w:]), "set" (c = ..)
	Width    Width
	Cursor   types.Object // advance/set/tail: the cursor; read: the cursor when AtCursor
	AtCursor bool         // read starts exactly at the cursor variable
	OK       bool         // result of the audit for this event
	Why      string
}

// CursorAudit analyses a decoder that walks the byte slice `buf` with integer
// cursor variables.  Decided, per event:
//
//	advance/tail: on every path, between the previous movement of the cursor
//	  (or the entry) and this one, the buffer was read with exactly the extent
//	  the cursor now moves by, and the extent variable was not reassigned in
//	  between — the decoder never skips bytes it did not decode;
//	read at the cursor: the cursor is moved before the buffer is read at the
//	  cursor again — no bytes are decoded twice.
func CursorAudit(f *Func, buf types.Object) []CursorEvent {
	g := f.Graph()
	info := f.Info()
	if g == nil || buf == nil {
		return nil
	}
	isBuf := func(e ast.Expr) bool { return ObjOf(info, e) == buf }
	var evs []CursorEvent
	cursors := map[types.Object]bool{}
	// pass 1: reads
	for _, n := range g.Nodes {
		if n.Kind != KStmt || n.Ast == nil {
			continue
		}
		root := stmtShallow(n.Ast)
		par := parentMap(root)
		InspectShallow(root, func(m ast.Node) bool {
			switch x := m.(type) {
			case *ast.IndexExpr:
				if isBuf(x.X) {
					ev := CursorEvent{Node: n, Pos: x.Pos(), Kind: "read", Width: Width{Known: true, Const: true, Val: 1, Text: "1"}}
					if obj := ObjOf(info, x.Index); obj != nil {
						if _, isVar := obj.(*types.Var); isVar {
							ev.AtCursor, ev.Cursor = true, obj
							cursors[obj] = true
						}
					}
					evs = append(evs, ev)
				}
			case *ast.SliceExpr:
				if !isBuf(x.X) {
					return true
				}
				ev := CursorEvent{Node: n, Pos: x.Pos(), Kind: "read"}
				if x.Low != nil {
					if obj := ObjOf(info, x.Low); obj != nil {
						if _, isVar := obj.(*types.Var); isVar {
							ev.AtCursor, ev.Cursor = true, obj
							cursors[obj] = true
						}
					}
				}
				switch {
				case x.High != nil && x.Low == nil:
					ev.Width = widthOf(info, x.High)
				case x.High != nil:
					if be, ok := ast.Unparen(x.High).(*ast.BinaryExpr); ok && be.Op == token.ADD {
						if sameExpr(info, be.X, x.Low) {
							ev.Width = widthOf(info, be.Y)
						} else if sameExpr(info, be.Y, x.Low) {
							ev.Width = widthOf(info, be.X)
						}
					}
				default:
					// buf[lo:] — extent given by the consumer (binary.*.UintN) or open
					if w, ok := uintWidth(info, par, x); ok {
						ev.Width = Width{Known: true, Const: true, Val: w, Text: itoa(int(w))}
					} else {
						ev.Kind = "open-read"
						if be, ok := ast.Unparen(x.Low).(*ast.BinaryExpr); ok && x.Low != nil && be.Op == token.ADD {
							var c types.Object
							var w ast.Expr
							if o := ObjOf(info, be.X); o != nil {
								if _, isVar := o.(*types.Var); isVar {
									c, w = o, be.Y
								}
							}
							if c == nil {
								if o := ObjOf(info, be.Y); o != nil {
									if _, isVar := o.(*types.Var); isVar {
										c, w = o, be.X
									}
								}
							}
							if c != nil {
								ev.Kind, ev.Cursor, ev.Width = "tail", c, widthOf(info, w)
								cursors[c] = true
							}
						}
					}
				}
				evs = append(evs, ev)
			}
			return true
		})
	}
	// pass 2: cursor movements
	for _, n := range g.Nodes {
		if n.Kind != KStmt || n.Ast == nil {
			continue
		}
		switch s := n.Ast.(type) {
		case *ast.AssignStmt:
			if len(s.Lhs) != 1 || len(s.Rhs) != 1 {
				for _, l := range s.Lhs {
					if obj := ObjOf(info, l); obj != nil && cursors[obj] {
						evs = append(evs, CursorEvent{Node: n, Pos: s.Pos(), Kind: "set", Cursor: obj})
					}
				}
				continue
			}
			obj := ObjOf(info, s.Lhs[0])
			if obj == nil || !cursors[obj] {
				continue
			}
			switch s.Tok {
			case token.ADD_ASSIGN:
				evs = append(evs, CursorEvent{Node: n, Pos: s.Pos(), Kind: "advance", Cursor: obj, Width: widthOf(info, s.Rhs[0])})
			case token.ASSIGN:
				if be, ok := ast.Unparen(s.Rhs[0]).(*ast.BinaryExpr); ok && be.Op == token.ADD {
					if ObjOf(info, be.X) == obj {
						evs = append(evs, CursorEvent{Node: n, Pos: s.Pos(), Kind: "advance", Cursor: obj, Width: widthOf(info, be.Y)})
						continue
					}
					if ObjOf(info, be.Y) == obj {
						evs = append(evs, CursorEvent{Node: n, Pos: s.Pos(), Kind: "advance", Cursor: obj, Width: widthOf(info, be.X)})
						continue
					}
				}
				evs = append(evs, CursorEvent{Node: n, Pos: s.Pos(), Kind: "set", Cursor: obj})
			default:
				evs = append(evs, CursorEvent{Node: n, Pos: s.Pos(), Kind: "set", Cursor: obj})
			}
		case *ast.IncDecStmt:
			if obj := ObjOf(info, s.X); obj != nil && cursors[obj] && s.Tok == token.INC {
				evs = append(evs, CursorEvent{Node: n, Pos: s.Pos(), Kind: "advance", Cursor: obj, Width: Width{Known: true, Const: true, Val: 1, Text: "1"}})
			}
		case *ast.ValueSpec:
			for _, nm := range s.Names {
				if obj := info.Defs[nm]; obj != nil && cursors[obj] {
					evs = append(evs, CursorEvent{Node: n, Pos: s.Pos(), Kind: "set", Cursor: obj})
				}
			}
		}
	}
	// sort by position for stable keys
	for i := 1; i < len(evs); i++ {
		for j := i; j > 0 && evs[j].Pos < evs[j-1].Pos; j-- {
			evs[j], evs[j-1] = evs[j-1], evs[j]
		}
	}
	// decide
	for i := range evs {
		e := &evs[i]
		switch e.Kind {
		case "advance", "tail":
			gates := Set{}
			for _, r := range evs {
				if r.Kind == "read" && r.Width.Same(e.Width) {
					gates[r.Node] = true
				}
			}
			starts := []*Node{g.Entry}
			for _, m := range evs {
				if (m.Kind == "advance" || m.Kind == "set") && m.Cursor == e.Cursor {
					starts = append(starts, m.Node.Succs...)
				}
			}
			if e.Width.Obj != nil {
				for _, n := range g.Nodes {
					if n.Kind == KStmt && n.Ast != nil && Assigns(info, stmtShallow(n.Ast), e.Width.Obj) && !gates[n] {
						starts = append(starts, n.Succs...)
					}
				}
			}
			if !e.Width.Known {
				e.OK, e.Why = false, "extent of the cursor movement is not a constant or a variable"
				continue
			}
			delete(gates, e.Node)
			if len(gates) == 0 {
				e.OK, e.Why = false, "the buffer is never read with extent "+e.Width.Text
				continue
			}
			if g.Reach(starts, gates)[e.Node] {
				e.OK, e.Why = false, "on some path the cursor moves by "+e.Width.Text+" although nothing of that extent was decoded since its previous movement (bytes skipped)"
			} else {
				e.OK, e.Why = true, "a read of extent "+e.Width.Text+" precedes the movement on every path"
			}
		case "read":
			if !e.AtCursor {
				e.OK, e.Why = true, "read at a fixed offset"
				continue
			}
			next := Set{}
			for _, r := range evs {
				if (r.Kind == "read" || r.Kind == "open-read") && r.AtCursor && r.Cursor == e.Cursor {
					next[r.Node] = true
				}
			}
			avoid := Set{}
			for _, m := range evs {
				if (m.Kind == "advance" || m.Kind == "set") && m.Cursor == e.Cursor {
					avoid[m.Node] = true
				}
			}
			bad := false
			for n := range g.Reach(e.Node.Succs, avoid) {
				if next[n] {
					bad = true
				}
			}
			if bad {
				e.OK, e.Why = false, "the buffer is read at the cursor again before the cursor was moved (bytes decoded twice)"
			} else {
				e.OK, e.Why = true, "the cursor is moved before the next read at the cursor"
			}
		default:
			e.OK = true
		}
	}
	return evs
}

// uintWidth: buf[lo:] passed to binary.<order>.UintN -> N/8.
func uintWidth(info *types.Info, par map[ast.Node]ast.Node, e ast.Expr) (int64, bool) {
	var cur ast.Node = e
	for {
		p := par[cur]
		if pe, ok := p.(*ast.ParenExpr); ok {
			cur = pe
			continue
		}
		call, ok := p.(*ast.CallExpr)
		if !ok {
			return 0, false
		}
		fn := Callee(info, call)
		if fn == nil || fn.Pkg() == nil || fn.Pkg().Path() != "encoding/binary" {
			return 0, false
		}
		switch fn.Name() {
		case "Uint16":
			return 2, true
		case "Uint32":
			return 4, true
		case "Uint64":
			return 8, true
		}
		return 0, false
	}
}

// sameExpr: structurally identical side-effect-free expressions (identifiers
// resolved to objects, constants by value).
func sameExpr(info *types.Info, a, b ast.Expr) bool {
	a, b = ast.Unparen(a), ast.Unparen(b)
	if a == nil || b == nil {
		return a == b
	}
	ta, oka := info.Types[a]
	tb, okb := info.Types[b]
	if oka && okb && ta.Value != nil && tb.Value != nil {
		return constant.Compare(ta.Value, token.EQL, tb.Value)
	}
	switch x := a.(type) {
	case *ast.Ident:
		y, ok := b.(*ast.Ident)
		return ok && ObjOf(info, x) != nil && ObjOf(info, x) == ObjOf(info, y)
	case *ast.SelectorExpr:
		y, ok := b.(*ast.SelectorExpr)
		if !ok {
			return false
		}
		if fa, fb := FieldOf(info, x), FieldOf(info, y); fa != nil || fb != nil {
			return fa == fb && sameExpr(info, x.X, y.X)
		}
		return info.Uses[x.Sel] != nil && info.Uses[x.Sel] == info.Uses[y.Sel]
	case *ast.BinaryExpr:
		y, ok := b.(*ast.BinaryExpr)
		return ok && x.Op == y.Op && sameExpr(info, x.X, y.X) && sameExpr(info, x.Y, y.Y)
	case *ast.CallExpr:
		y, ok := b.(*ast.CallExpr)
		if !ok || len(x.Args) != len(y.Args) {
			return false
		}
		if tv, ok := info.Types[x.Fun]; !ok || !tv.IsType() {
			return false
		}
		if tv, ok := info.Types[y.Fun]; !ok || !tv.IsType() {
			return false
		}
		return types.Identical(info.Types[x.Fun].Type, info.Types[y.Fun].Type) && sameExpr(info, x.Args[0], y.Args[0])
	}
	return false
}

// SameExpr exports sameExpr.
func SameExpr(info *types.Info, a, b ast.Expr) bool { return sameExpr(info, a, b) }

// ---------------------------------------------------------------------------
// Switch tables

// SwitchTable extracts the constant table of a switch whose every case assigns
// one constant to one and the same target: case constant -> assigned constant
// (both rendered with constant.ExactString).  hasDefault reports a default
// clause; target is the assigned variable or field.
func SwitchTable(info *types.Info, sw *ast.SwitchStmt) (table map[string]string, target types.Object, hasDefault bool, ok bool) {
	table = map[string]string{}
	if sw.Tag == nil {
		return nil, nil, false, false
	}
	for _, st := range sw.Body.List {
		cc, isCC := st.(*ast.CaseClause)
		if !isCC {
			return nil, nil, false, false
		}
		if cc.List == nil {
			hasDefault = true
			continue
		}
		var val string
		found := false
		for _, b := range cc.Body {
			as, isAs := b.(*ast.AssignStmt)
			if !isAs || len(as.Lhs) != 1 || len(as.Rhs) != 1 || as.Tok != token.ASSIGN {
				continue
			}
			tv, has := info.Types[as.Rhs[0]]
			if !has || tv.Value == nil {
				continue
			}
			var tgt types.Object
			if fv := FieldOf(info, as.Lhs[0]); fv != nil {
				tgt = fv
			} else {
				tgt = ObjOf(info, as.Lhs[0])
			}
			if tgt == nil {
				continue
			}
			if target != nil && tgt != target {
				return nil, nil, false, false
			}
			target = tgt
			val = tv.Value.ExactString()
			found = true
		}
		if !found {
			return nil, nil, false, false
		}
		for _, l := range cc.List {
			tv, has := info.Types[l]
			if !has || tv.Value == nil {
				return nil, nil, false, false
			}
			k := tv.Value.ExactString()
			if _, dup := table[k]; dup {
				return nil, nil, false, false
			}
			table[k] = val
		}
	}
	return table, target, hasDefault, len(table) > 0
}

// ---------------------------------------------------------------------------
// Range-fill loops

// RangeFill describes a loop  for k, v := range SRC { DST[k] = f(v) }.
type RangeFill struct {
	Range     *ast.RangeStmt
	Src       ast.Expr
	Dst       types.Object // the filled slice variable
	Assign    *ast.AssignStmt
	IndexIsK  bool // the index expression is exactly the range key
	UsesValue bool // the stored value is built from the range value (or SRC[k])
	TopLevel  bool // the assignment is a top-level statement of the loop body (unconditional)
	NoEscape  bool // the body has no break/continue/return/goto
	Value     ast.Expr
}

// RangeFills lists the range loops of f that store into an indexed slice.
func RangeFills(f *Func) []RangeFill {
	info := f.Info()
	var out []RangeFill
	if f.Body == nil {
		return nil
	}
	InspectShallow(f.Body, func(n ast.Node) bool {
		rs, ok := n.(*ast.RangeStmt)
		if !ok {
			return true
		}
		var kobj, vobj types.Object
		if rs.Key != nil {
			kobj = ObjOf(info, rs.Key)
		}
		if rs.Value != nil {
			vobj = ObjOf(info, rs.Value)
		}
		noEscape := true
		ast.Inspect(rs.Body, func(m ast.Node) bool {
			switch m.(type) {
			case *ast.BranchStmt, *ast.ReturnStmt:
				noEscape = false
			case *ast.FuncLit:
				return false
			}
			return true
		})
		ast.Inspect(rs.Body, func(m ast.Node) bool {
			as, ok := m.(*ast.AssignStmt)
			if !ok || len(as.Lhs) != 1 || len(as.Rhs) != 1 {
				return true
			}
			ix, ok := ast.Unparen(as.Lhs[0]).(*ast.IndexExpr)
			if !ok {
				return true
			}
			dst := ObjOf(info, ix.X)
			if dst == nil {
				return true
			}
			rf := RangeFill{Range: rs, Src: rs.X, Dst: dst, Assign: as, NoEscape: noEscape, Value: as.Rhs[0]}
			rf.IndexIsK = kobj != nil && ObjOf(info, ix.Index) == kobj
			for _, st := range rs.Body.List {
				if st == as {
					rf.TopLevel = true
				}
			}
			ast.Inspect(as.Rhs[0], func(v ast.Node) bool {
				if id, ok := v.(*ast.Ident); ok && vobj != nil && info.Uses[id] == vobj {
					rf.UsesValue = true
				}
				if sx, ok := v.(*ast.IndexExpr); ok && kobj != nil && ObjOf(info, sx.Index) == kobj && sameExpr(info, sx.X, rs.X) {
					rf.UsesValue = true
				}
				return true
			})
			out = append(out, rf)
			return true
		})
		return true
	})
	return out
}

// RelName strips the module prefix of a qualified function name.
func RelName(s string) string { return strings.ReplaceAll(s, Module+"/", "") }

// SinkOfCall classifies where the result of call (a call expression inside f)
// is consumed, with the same rules as for a field value (Sink, SinkArg, InCond,
// Returned, through one local variable).
func (p *Prog) SinkOfCall(f *Func, call *ast.CallExpr) FieldUse {
	t := &ftracer{p: p, fields: map[*types.Var]bool{}}
	a := FieldUse{SinkArg: -2, Kind: "read", Fn: f}
	if f == nil || f.Body == nil || call == nil {
		return a
	}
	t.classify(f, call, parentMap(f.Body), &a)
	return a
}

// unconv strips parentheses and type conversions.
func unconv(info *types.Info, e ast.Expr) ast.Expr {
	for {
		e = ast.Unparen(e)
		c, ok := e.(*ast.CallExpr)
		if !ok || len(c.Args) != 1 {
			return e
		}
		if tv, ok := info.Types[c.Fun]; !ok || !tv.IsType() {
			return e
		}
		e = c.Args[0]
	}
}
