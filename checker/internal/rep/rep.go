// Package rep collects rule obligations for one property run and renders the
// verdict: stdout lines, exit code, evidence JSON and the violations file.
package rep

import (
	"bufio"
	"encoding/json"
	"fmt"
	"go/token"
	"os"
	"path/filepath"
	"sort"
	"strings"
	"time"

	"verif/checker/internal/an"
)

// Ob is one evaluated rule instance.
type Ob struct {
	Rule   string `json:"rule"`            // rule id, e.g. C04.gate-order
	Key    string `json:"key"`             // instance key: rule|construct (never a line number)
	Pos    string `json:"pos"`             // file:line for the reader
	OK     bool   `json:"ok"`              //
	Msg    string `json:"msg"`             // what was established / what fails
	Nontrv bool   `json:"nontrivial"`      // exercised a path/site query with >1 path or site
	Known  bool   `json:"known,omitempty"` // matched a known-findings entry
}

// Ctx is handed to every property implementation.
type Ctx struct {
	Prop  string
	Tier  string
	Prog  *an.Prog
	Start time.Time

	Obs        []Ob
	Undecided  []string // the checker could not decide: exit 2, no VIOLATION
	Info       []string // informational lines included in the evidence
	Explain    string
	Assume     []string
	NotDecided []string
	Pkgs       map[string]bool
	Fns        map[string]bool
	floors     []floor
	seen       map[string]bool
}

type floor struct {
	rule string
	min  int
}

func New(prop, tier string, p *an.Prog) *Ctx {
	return &Ctx{Prop: prop, Tier: tier, Prog: p, Start: time.Now(), Pkgs: map[string]bool{}, Fns: map[string]bool{}, seen: map[string]bool{}}
}

// Check records a rule instance.  key must identify the construct, not a line.
func (c *Ctx) Check(rule, construct string, pos token.Pos, ok bool, msg string) bool {
	return c.check(rule, construct, pos, ok, msg, true)
}

// CheckTrivial records an instance that did not need a path query (e.g. a
// table lookup); it counts as an evaluation but not as non-trivial.
func (c *Ctx) CheckTrivial(rule, construct string, pos token.Pos, ok bool, msg string) bool {
	return c.check(rule, construct, pos, ok, msg, false)
}

func (c *Ctx) check(rule, construct string, pos token.Pos, ok bool, msg string, nt bool) bool {
	key := rule + "|" + construct
	if c.seen[key] {
		// same construct evaluated twice under one rule: disambiguate by ordinal
		i := 2
		for c.seen[fmt.Sprintf("%s#%d", key, i)] {
			i++
		}
		key = fmt.Sprintf("%s#%d", key, i)
	}
	c.seen[key] = true
	p := "-"
	if c.Prog != nil {
		p = c.Prog.Pos(pos)
	}
	c.Obs = append(c.Obs, Ob{Rule: c.Prop + "." + rule, Key: key, Pos: p, OK: ok, Msg: msg, Nontrv: nt})
	return ok
}

// Undecide records that a rule could not be evaluated (unresolved anchor,
// unmatched idiom).  The run then exits 2 without a VIOLATION line.
func (c *Ctx) Undecide(rule, construct, msg string) {
	c.Undecided = append(c.Undecided, fmt.Sprintf("%s.%s|%s: %s", c.Prop, rule, construct, msg))
}

// Fn resolves a function anchor or records the run as undecided.
func (c *Ctx) Fn(spec string) *an.Func {
	f := c.Prog.Func(spec)
	if f == nil || f.Body == nil {
		c.Undecide("anchor", spec, "function not found in the loaded program (renamed or removed?)")
		return nil
	}
	c.Fns[spec] = true
	c.Pkgs[an.Rel(f.Pkg.PkgPath)] = true
	return f
}

// Floor requires that at least min instances of rule were evaluated.
func (c *Ctx) Floor(rule string, min int) { c.floors = append(c.floors, floor{rule, min}) }

func (c *Ctx) Note(format string, a ...any) { c.Info = append(c.Info, fmt.Sprintf(format, a...)) }

// Count returns the number of evaluated instances of a rule.
func (c *Ctx) Count(rule string) int {
	n := 0
	for _, o := range c.Obs {
		if o.Rule == c.Prop+"."+rule {
			n++
		}
	}
	return n
}

type known struct {
	prop, key, text string
}

func loadKnown(path string) ([]known, error) {
	f, err := os.Open(path)
	if err != nil {
		if os.IsNotExist(err) {
			return nil, nil
		}
		return nil, err
	}
	defer f.Close()
	var out []known
	sc := bufio.NewScanner(f)
	for sc.Scan() {
		line := strings.TrimSpace(sc.Text())
		if !strings.HasPrefix(line, "finding:") {
			continue // comments and "fixed:" lines suppress nothing
		}
		rest := strings.TrimSpace(strings.TrimPrefix(line, "finding:"))
		k := known{}
		for _, fld := range strings.Fields(rest) {
			if strings.HasPrefix(fld, "property=") && k.prop == "" {
				k.prop = strings.TrimPrefix(fld, "property=")
			} else if strings.HasPrefix(fld, "key=") && k.key == "" {
				k.key = strings.TrimPrefix(fld, "key=")
			}
		}
		if i := strings.Index(rest, " -- "); i >= 0 {
			k.text = strings.TrimSpace(rest[i+4:])
			// the key may contain spaces: it extends from "key=" to " -- "
			if j := strings.Index(rest[:i], "key="); j >= 0 {
				k.key = strings.TrimSpace(rest[j+4 : i])
			}
		}
		if k.prop != "" && k.key != "" {
			out = append(out, k)
		}
	}
	return out, sc.Err()
}

// Finish renders the verdict and returns the process exit code.
func (c *Ctx) Finish(verifDir string) int {
	wall := time.Since(c.Start).Seconds()
	for _, fl := range c.floors {
		if n := c.Count(fl.rule); n < fl.min {
			c.Undecide(fl.rule, "floor", fmt.Sprintf("only %d instances matched, at least %d were confirmed by hand on the reference tree: the rule lost its anchors", n, fl.min))
		}
	}
	kn, err := loadKnown(filepath.Join(verifDir, "known_findings.txt"))
	if err != nil {
		c.Undecide("known-findings", "file", err.Error())
	}
	var viol []Ob
	nKnown := 0
	for i := range c.Obs {
		o := &c.Obs[i]
		if o.OK {
			continue
		}
		matched := false
		for _, k := range kn {
			if k.prop == c.Prop && k.key == o.Key {
				matched = true
				o.Known = true
				nKnown++
				fmt.Printf("KNOWN-FINDING: property=%s key=%s %s (%s) %s\n", c.Prop, o.Key, o.Pos, k.text, o.Msg)
			}
		}
		if !matched {
			viol = append(viol, *o)
		}
	}
	evalN, nontrv, disch := len(c.Obs), 0, 0
	distinct := map[string]bool{}
	for _, o := range c.Obs {
		if o.OK {
			disch++
		}
		if o.Nontrv && !distinct[o.Key] {
			distinct[o.Key] = true
			nontrv++
		}
	}
	// evidence
	var samples []any
	step := 1
	if len(c.Obs) > 60 {
		step = len(c.Obs) / 60
	}
	for i := 0; i < len(c.Obs); i += step {
		samples = append(samples, c.Obs[i])
	}
	for _, v := range viol {
		samples = append(samples, v)
	}
	if len(samples) == 0 {
		samples = append(samples, "no obligations were generated")
	}
	byRule := map[string]int{}
	for _, o := range c.Obs {
		byRule[o.Rule]++
	}
	cov := map[string]any{
		"explanation":         c.Explain,
		"evaluations":         evalN,
		"distinct_nontrivial": nontrv,
		"rule":                "one evaluation = one rule instance (rule id + construct) decided on the current source tree; non-trivial = the instance required a control-flow, dominance, site-enumeration or field-set query (not a table lookup); distinct = distinct instance key",
		"obligations":         evalN,
		"discharged":          disch,
		"samples":             samples,
		"instances_by_rule":   byRule,
		"instances":           c.Obs,
		"packages_analysed":   keys(c.Pkgs),
		"functions_analysed":  keys(c.Fns),
		"not_decided":         c.NotDecided,
		"informational":       c.Info,
		"undecided":           c.Undecided,
		"known_findings":      nKnown,
		"exhaustive":          false,
		"checker_cmd":         fmt.Sprintf("bin/aergocheck -prop %s -tier %s", c.Prop, c.Tier),
		"trusted_base":        []string{"go/types, go/packages, go/cfg at golang.org/x/tools v0.29.0", "rule tables in /verif/checker/props"},
	}
	if c.Prog != nil {
		cov["packages_loaded"] = len(c.Prog.All)
		cov["module_packages_loaded"] = len(c.Prog.ModulePkgs())
		cov["module_functions_loaded"] = len(c.Prog.Funcs())
	}
	seed := 0
	fmt.Sscanf(os.Getenv("VERIF_SEED"), "%d", &seed)
	ev := map[string]any{
		"property_id": c.Prop,
		"tier":        c.Tier,
		"seed":        seed,
		"level":       "other",
		"coverage":    cov,
		"assumptions": c.Assume,
		"wall_s":      wall,
		"violations":  len(viol),
	}
	evDir := filepath.Join(verifDir, "evidence")
	os.MkdirAll(evDir, 0o755)
	writeJSON(filepath.Join(evDir, c.Prop+".json"), ev)

	fmt.Printf("%s tier=%s: %d rule instances evaluated, %d hold, %d known findings, %d violations, %d undecided (%.1fs)\n",
		c.Prop, c.Tier, evalN, disch, nKnown, len(viol), len(c.Undecided), wall)
	rules := keysInt(byRule)
	for _, r := range rules {
		fmt.Printf("  %-40s %d\n", r, byRule[r])
	}
	if len(c.Undecided) > 0 {
		for _, u := range c.Undecided {
			fmt.Printf("UNDECIDED %s\n", u)
		}
	}
	vpath := filepath.Join(evDir, c.Prop+".violations.json")
	if len(viol) > 0 {
		writeJSON(vpath, viol)
		for _, v := range viol {
			fmt.Printf("  violation %s  %s  %s\n", v.Key, v.Pos, v.Msg)
		}
		fmt.Printf("VIOLATION property=%s replay=%s\n", c.Prop, vpath)
		return 1
	}
	os.Remove(vpath)
	if len(c.Undecided) > 0 {
		return 2
	}
	return 0
}

func writeJSON(path string, v any) {
	b, _ := json.MarshalIndent(v, "", " ")
	os.WriteFile(path, append(b, '\n'), 0o644)
}

func keys(m map[string]bool) []string {
	out := []string{}
	for k := range m {
		out = append(out, k)
	}
	sort.Strings(out)
	return out
}

func keysInt(m map[string]int) []string {
	out := []string{}
	for k := range m {
		out = append(out, k)
	}
	sort.Strings(out)
	return out
}
