package state

// Demonstration for known finding F12 (property C03), mechanism part.
//
// Place at state/f12_shared_storage_test.go and run
//     go test -count=1 -run TestF12 ./state/
// (package state links in this sandbox; no overlay needed).
//
// chain.executeTx does not roll the block state back when a contract call
// fails at run time (contract.IsRuntimeError): it resets the two accounts,
// charges the fee, advances the nonce and writes an ERROR receipt.
// contract.Call / Create undo only SQL savepoints.  Whether the storage writes
// of the failed call survive therefore depends only on this: did
// OpenContractState hand out a private storage object (contract untouched in
// this block: the object is dropped with the failed call) or the object held by
// the block's storage cache (contract already staged by an earlier transaction
// of the block: the writes went straight into the block's buffer).
//
// The test replays exactly the calls the two transactions make on the state
// layer (the VM itself cannot be built here):
//   tx1  OpenContractState, SetData(k,1), StageContractState      (successful call)
//   tx2  OpenContractState, SetData(k,2), <call fails>, nothing    (failed call: no Stage, no Rollback)
//   block end: Update, Commit
// and reads k from a fresh state DB at the new root.

import (
	"testing"

	"github.com/aergoio/aergo-lib/db"
	"github.com/aergoio/aergo/v2/state/statedb"
	"github.com/aergoio/aergo/v2/types"
	"github.com/stretchr/testify/require"
)

func TestF12FailedCallKeepsStorageWritesOfAStagedContract(t *testing.T) {
	store := db.NewDB(db.MemoryImpl, "")
	contractID := []byte("f12-contract-00000000000000000000")[:33]
	bs := NewBlockState(statedb.NewStateDB(store, nil, false))

	open := func() (*AccountState, *statedb.ContractState) {
		acc, err := GetAccountState(contractID, bs.StateDB)
		require.NoError(t, err)
		cs, err := statedb.OpenContractState(acc.ID(), acc.State(), bs.StateDB)
		require.NoError(t, err)
		return acc, cs
	}

	// tx1: successful call, k = 1
	acc, cs := open()
	require.NoError(t, cs.SetData([]byte("k"), []byte("1")))
	require.NoError(t, statedb.StageContractState(cs, bs.StateDB))
	require.NoError(t, acc.PutState())

	// tx2: the call writes k = 2 and then fails at run time.
	// contract.Execute returns before StageContractState; chain.executeTx takes the
	// fee+nonce arm: receiver.Reset(); receiver.PutState(); no BlockState.Rollback.
	acc2, cs2 := open()
	require.NoError(t, cs2.SetData([]byte("k"), []byte("2")))
	acc2.Reset()
	require.NoError(t, acc2.PutState())

	// block end
	require.NoError(t, bs.Update())
	require.NoError(t, bs.Commit())

	// what the next block sees
	fresh := statedb.NewStateDB(store, bs.GetRoot(), false)
	st, err := fresh.GetAccountState(types.ToAccountID(contractID))
	require.NoError(t, err)
	rcs, err := statedb.OpenContractState(contractID, st, fresh)
	require.NoError(t, err)
	v, err := rcs.GetData([]byte("k"))
	require.NoError(t, err)
	// C03: the failed transaction must leave no residue => k == 1
	require.Equal(t, "1", string(v), "the storage write of the failed call reached the state root")
}
